(* C19 — proofs about BitRGDefs.v:
   A. laws of the plain rank/select/access specification;
   B. BitSequenceRG: the constructor establishes a representation invariant
      [rg_wf]; under it rank1/rank0/access/select1/select0 equal the plain
      definitions and never read out of bounds; save/load round trip;
   C. the pointer wavelet tree over any bitmap implementation meeting the plain
      laws answers access/rank/select as the plain sequence definitions. *)
From LibCSD Require Import Base Bytes BitRGDefs.
Require Import Lia ZifyBool ZifyNat ZifyN.
Ltac Zify.zify_post_hook ::= Z.to_euclidean_division_equations.
Local Open Scope N_scope.

(* ================================================================== *)
(* A. the plain specification                                          *)
(* ================================================================== *)

Lemma option_map_Some {A B} (f : A -> B) o y : option_map f o = Some y -> exists x, o = Some x /\ y = f x.
Proof. destruct o; cbn; intros H; [injection H as <-; eauto|discriminate]. Qed.

Lemma countb_app b l1 l2 : countb b (l1 ++ l2) = countb b l1 + countb b l2.
Proof. induction l1 as [|x t IH]; cbn [countb app]; [reflexivity|]. rewrite IH. lia. Qed.

Lemma countb_le_len b l : countb b l <= lenN l.
Proof.
  induction l as [|x t IH]; cbn [countb]; [unfold lenN; simpl; lia|].
  rewrite lenN_cons. destruct (Bool.eqb x b); lia.
Qed.

Lemma countb_compl l : countb true l + countb false l = lenN l.
Proof.
  induction l as [|x t IH]; cbn [countb]; [reflexivity|].
  rewrite lenN_cons. destruct x; cbn [Bool.eqb]; lia.
Qed.

Lemma countb_repeat_neq b c k : c <> b -> countb b (repeat c k) = 0.
Proof.
  intros H. induction k as [|k IH]; cbn [repeat countb]; [reflexivity|].
  rewrite IH. destruct (Bool.eqb c b) eqn:E; [apply eqb_prop in E; congruence|reflexivity].
Qed.

Lemma countb_firstn_le b l k : countb b (firstn k l) <= countb b l.
Proof. rewrite <- (firstn_skipn k l) at 2. rewrite countb_app. lia. Qed.

Lemma lenN_firstn {A} (l : list A) k : lenN (firstn k l) = N.min (N.of_nat k) (lenN l).
Proof. unfold lenN. rewrite firstn_length. lia. Qed.

Lemma prefix_count_le_k b l k : prefix_count b l k <= k.
Proof.
  unfold prefix_count. pose proof (countb_le_len b (firstn (N.to_nat k) l)) as H.
  rewrite lenN_firstn in H. lia.
Qed.

Lemma prefix_count_le_total b l k : prefix_count b l k <= countb b l.
Proof. apply countb_firstn_le. Qed.

Lemma prefix_count_all b l k : lenN l <= k -> prefix_count b l k = countb b l.
Proof. intros H. unfold prefix_count. rewrite firstn_all2; [reflexivity|unfold lenN in H; lia]. Qed.

Lemma prefix_count_0 b l : prefix_count b l 0 = 0.
Proof. reflexivity. Qed.

Lemma prefix_count_compl l k : k <= lenN l -> prefix_count true l k + prefix_count false l k = k.
Proof. intros H. unfold prefix_count. rewrite countb_compl, lenN_firstn. lia. Qed.

Lemma prefix_count_app_l b l r k : k <= lenN l -> prefix_count b (l ++ r) k = prefix_count b l k.
Proof.
  intros H. unfold prefix_count. rewrite firstn_app.
  replace (N.to_nat k - length l)%nat with 0%nat by (unfold lenN in H; lia).
  cbn [firstn]. now rewrite app_nil_r.
Qed.

Lemma prefix_count_app_r b l r k : prefix_count b (l ++ r) (lenN l + k) = countb b l + prefix_count b r k.
Proof.
  unfold prefix_count. replace (N.to_nat (lenN l + k)) with (length l + N.to_nat k)%nat by (unfold lenN; lia).
  rewrite firstn_app_2, countb_app. reflexivity.
Qed.

Lemma prefix_count_pad b l m k : b = true -> prefix_count b (l ++ repeat false m) k = prefix_count b l k.
Proof.
  intros ->. destruct (N.le_gt_cases k (lenN l)) as [H|H].
  - now apply prefix_count_app_l.
  - replace k with (lenN l + (k - lenN l)) by lia. rewrite prefix_count_app_r.
    rewrite (prefix_count_all true l) by lia.
    pose proof (prefix_count_le_total true (repeat false m) (k - lenN l)) as H1.
    rewrite countb_repeat_neq in H1 by discriminate. lia.
Qed.

Lemma prefix_count_mono b l k1 k2 : k1 <= k2 -> prefix_count b l k1 <= prefix_count b l k2.
Proof.
  intros H. unfold prefix_count.
  replace (firstn (N.to_nat k1) l) with (firstn (N.to_nat k1) (firstn (N.to_nat k2) l)).
  - apply countb_firstn_le.
  - rewrite firstn_firstn. f_equal. lia.
Qed.

(* rank0 + rank1 = i + 1 *)
Theorem bv_rank0_rank1 l i : i < lenN l -> bv_rank0 l i + bv_rank1 l i = i + 1.
Proof. intros H. unfold bv_rank0, bv_rank1. rewrite N.add_comm. apply prefix_count_compl. lia. Qed.

Lemma prefix_count_succ b l k : k < lenN l ->
  prefix_count b l (k + 1) = prefix_count b l k + (if Bool.eqb (nth (N.to_nat k) l false) b then 1 else 0).
Proof.
  intros H. unfold prefix_count.
  rewrite <- (firstn_skipn (N.to_nat k) l) at 1 3.
  assert (Hl : length (firstn (N.to_nat k) l) = N.to_nat k) by (rewrite firstn_length; unfold lenN in H; lia).
  replace (N.to_nat (k + 1)) with (length (firstn (N.to_nat k) l) + 1)%nat by lia.
  rewrite firstn_app_2, countb_app. f_equal.
  rewrite app_nth2 by lia. replace (N.to_nat k - length (firstn (N.to_nat k) l))%nat with 0%nat by lia.
  destruct (skipn (N.to_nat k) l) as [|x t] eqn:E.
  - exfalso. assert (H0 : length (skipn (N.to_nat k) l) = 0%nat) by (rewrite E; reflexivity).
    rewrite skipn_length in H0. unfold lenN in H. lia.
  - cbn [firstn countb nth]. lia.
Qed.

(* ---- select ---- *)
Lemma selb_zero b l : selb b l 0 = None.
Proof.
  induction l as [|x t IH]; cbn [selb]; [reflexivity|].
  destruct (Bool.eqb x b); cbn [N.eqb N.sub]; rewrite IH; reflexivity.
Qed.

Lemma selb_app b l1 l2 j : 1 <= j ->
  selb b (l1 ++ l2) j =
  if countb b l1 <? j then option_map (N.add (lenN l1)) (selb b l2 (j - countb b l1)) else selb b l1 j.
Proof.
  revert j. induction l1 as [|x t IH]; intros j Hj.
  - cbn [app countb]. replace (0 <? j) with true by lia. rewrite N.sub_0_r.
    destruct (selb b l2 j); cbn [option_map lenN length]; [f_equal|reflexivity].
  - cbn [app selb countb]. rewrite lenN_cons. destruct (Bool.eqb x b).
    + destruct (N.eqb_spec j 1) as [->|Hne].
      * replace (1 + countb b t <? 1) with false by lia. reflexivity.
      * rewrite IH by lia.
        replace (1 + countb b t <? j) with (countb b t <? j - 1) by lia.
        destruct (countb b t <? j - 1); [|reflexivity].
        replace (j - (1 + countb b t)) with (j - 1 - countb b t) by lia.
        destruct (selb b l2 (j - 1 - countb b t)); cbn [option_map]; [f_equal; lia|reflexivity].
    + rewrite IH by lia. rewrite N.add_0_l. destruct (countb b t <? j); [|reflexivity].
      destruct (selb b l2 (j - countb b t)); cbn [option_map]; [f_equal; lia|reflexivity].
Qed.

Lemma selb_exists b l j : 1 <= j <= countb b l -> exists p, selb b l j = Some p.
Proof.
  revert j. induction l as [|x t IH]; intros j Hj; cbn [countb selb] in *; [lia|].
  destruct (Bool.eqb x b).
  - destruct (N.eqb_spec j 1); [eauto|]. destruct (IH (j - 1)) as [p Hp]; [lia|]. rewrite Hp. cbn; eauto.
  - destruct (IH j) as [p Hp]; [lia|]. rewrite Hp. cbn; eauto.
Qed.

Lemma selb_none_above b l j : countb b l < j -> selb b l j = None.
Proof.
  revert j. induction l as [|x t IH]; intros j Hj; cbn [countb selb] in *; [reflexivity|].
  destruct (Bool.eqb x b).
  - destruct (N.eqb_spec j 1); [lia|]. rewrite IH by lia. reflexivity.
  - rewrite IH by lia. reflexivity.
Qed.

(* what the answer of select means *)
Lemma selb_spec b l j p : selb b l j = Some p ->
  p < lenN l /\ nth (N.to_nat p) l (negb b) = b /\ prefix_count b l p = j - 1 /\ 1 <= j <= countb b l.
Proof.
  revert j p. induction l as [|x t IH]; intros j p H; cbn [selb] in H; [discriminate|].
  rewrite lenN_cons. destruct (Bool.eqb x b) eqn:E.
  - apply eqb_prop in E. destruct (N.eqb_spec j 1) as [->|Hne].
    + injection H as <-. cbn [countb]. rewrite E, eqb_reflx. repeat split; try lia.
    + destruct (selb b t (j - 1)) as [q|] eqn:Hq; [|discriminate]. injection H as <-.
      destruct (IH _ _ Hq) as (H1 & H2 & H3 & H4).
      replace (N.to_nat (N.succ q)) with (S (N.to_nat q)) by lia. cbn [nth].
      unfold prefix_count in *. replace (N.to_nat (N.succ q)) with (S (N.to_nat q)) by lia.
      cbn [firstn countb]. rewrite E, eqb_reflx. repeat split; try lia. exact H2.
  - destruct (selb b t j) as [q|] eqn:Hq; [|discriminate]. injection H as <-.
    destruct (IH _ _ Hq) as (H1 & H2 & H3 & H4).
    replace (N.to_nat (N.succ q)) with (S (N.to_nat q)) by lia. cbn [nth].
    unfold prefix_count in *. replace (N.to_nat (N.succ q)) with (S (N.to_nat q)) by lia.
    cbn [firstn countb]. rewrite E. repeat split; try lia. exact H2.
Qed.

(* ... and the answer is the only position with that meaning *)
Lemma selb_unique b l j p :
  p < lenN l -> nth (N.to_nat p) l (negb b) = b -> prefix_count b l p = j - 1 -> 1 <= j -> selb b l j = Some p.
Proof.
  revert j p. induction l as [|x t IH]; intros j p Hp Hn Hc Hj.
  - unfold lenN in Hp; simpl in Hp; lia.
  - rewrite lenN_cons in Hp. cbn [selb]. destruct (N.eq_dec p 0) as [->|Hp0].
    + cbn in Hn. subst x. rewrite eqb_reflx. rewrite prefix_count_0 in Hc.
      replace (j =? 1) with true by lia. reflexivity.
    + replace (N.to_nat p) with (S (N.to_nat (p - 1))) in Hn by lia. cbn [nth] in Hn.
      unfold prefix_count in Hc. replace (N.to_nat p) with (S (N.to_nat (p - 1))) in Hc by lia.
      cbn [firstn countb] in Hc.
      destruct (Bool.eqb x b).
      * destruct (N.eqb_spec j 1) as [->|Hne]; [lia|].
        rewrite (IH (j - 1) (p - 1)); try lia; [cbn; f_equal; lia|exact Hn|unfold prefix_count; lia].
      * rewrite (IH j (p - 1)); try lia; [cbn; f_equal; lia|exact Hn|unfold prefix_count; lia].
Qed.

Lemma nth_default_indep (l : list bool) i d1 d2 : (i < length l)%nat -> nth i l d1 = nth i l d2.
Proof. intros H. apply nth_indep. exact H. Qed.

(* inverse laws *)
Theorem bv_rank_select1 l j : 1 <= j <= bv_ones l ->
  exists p, bv_select1 l j = Some p /\ p < lenN l /\ bv_rank1 l p = j /\ bv_access l p = true.
Proof.
  intros Hj. destruct (selb_exists true l j Hj) as [p Hp]. exists p. split; [exact Hp|].
  destruct (selb_spec _ _ _ _ Hp) as (H1 & H2 & H3 & H4). split; [exact H1|]. split.
  - unfold bv_rank1. rewrite prefix_count_succ by exact H1.
    rewrite (nth_default_indep l _ false (negb true)) by (unfold lenN in H1; lia). rewrite H2. cbn. lia.
  - unfold bv_access. rewrite (nth_default_indep l _ false (negb true)) by (unfold lenN in H1; lia). exact H2.
Qed.

Theorem bv_rank_select0 l j : 1 <= j <= bv_zeros l ->
  exists p, bv_select0 l j = Some p /\ p < lenN l /\ bv_rank0 l p = j /\ bv_access l p = false.
Proof.
  intros Hj. destruct (selb_exists false l j Hj) as [p Hp]. exists p. split; [exact Hp|].
  destruct (selb_spec _ _ _ _ Hp) as (H1 & H2 & H3 & H4). split; [exact H1|]. split.
  - unfold bv_rank0. rewrite prefix_count_succ by exact H1.
    rewrite (nth_default_indep l _ false (negb false)) by (unfold lenN in H1; lia). rewrite H2. cbn. lia.
  - unfold bv_access. rewrite (nth_default_indep l _ false (negb false)) by (unfold lenN in H1; lia). exact H2.
Qed.

Theorem bv_select_rank1 l i : i < lenN l -> bv_access l i = true -> bv_select1 l (bv_rank1 l i) = Some i.
Proof.
  intros Hi Ha. apply selb_unique; try assumption.
  - unfold bv_rank1. rewrite prefix_count_succ by exact Hi. unfold bv_access in Ha. rewrite Ha. cbn. lia.
  - unfold bv_rank1. rewrite prefix_count_succ by exact Hi. unfold bv_access in Ha. rewrite Ha. cbn. lia.
Qed.

Theorem bv_select_rank0 l i : i < lenN l -> bv_access l i = false -> bv_select0 l (bv_rank0 l i) = Some i.
Proof.
  intros Hi Ha. apply selb_unique; try assumption.
  - rewrite (nth_default_indep l _ (negb false) false) by (unfold lenN in Hi; lia). exact Ha.
  - unfold bv_rank0. rewrite prefix_count_succ by exact Hi. unfold bv_access in Ha. rewrite Ha. cbn. lia.
  - unfold bv_rank0. rewrite prefix_count_succ by exact Hi. unfold bv_access in Ha. rewrite Ha. cbn. lia.
Qed.

Lemma selb_pad b l m j : 1 <= j <= countb b l -> selb b (l ++ repeat false m) j = selb b l j.
Proof. intros H. rewrite selb_app by lia. replace (countb b l <? j) with false by lia. reflexivity. Qed.

(* the sequence laws are the bit-vector laws of the indicator vector *)
Theorem seq_rank_select c s j : 1 <= j <= seq_count c s ->
  exists p, seq_select c s j = Some p /\ p < lenN s /\ seq_rank c s p = j /\ seq_access s p = Some c.
Proof.
  intros Hj. destruct (bv_rank_select1 (seq_bits c s) j Hj) as (p & H1 & H2 & H3 & H4).
  assert (Hl : lenN (seq_bits c s) = lenN s) by (unfold lenN, seq_bits; now rewrite map_length).
  exists p. repeat split; try assumption; [lia|].
  unfold seq_access, nthN. unfold bv_access, seq_bits in H4.
  rewrite Hl in H2. destruct (nth_error s (N.to_nat p)) as [y|] eqn:E.
  - rewrite (nth_indep _ false (c =? 0)) in H4 by (rewrite map_length; unfold lenN in H2; lia).
    rewrite (map_nth (N.eqb c) s 0) in H4. rewrite (nth_error_nth s _ 0 E) in H4.
    apply N.eqb_eq in H4. now subst.
  - apply nth_error_None in E. unfold lenN in H2. lia.
Qed.

Theorem seq_select_rank c s i : seq_access s i = Some c -> seq_select c s (seq_rank c s i) = Some i.
Proof.
  intros Ha. unfold seq_access in Ha. pose proof (nthN_Some_lt _ _ _ Ha) as Hi.
  assert (Hl : lenN (seq_bits c s) = lenN s) by (unfold lenN, seq_bits; now rewrite map_length).
  apply bv_select_rank1; [lia|].
  unfold bv_access, seq_bits.
  rewrite (nth_indep _ false (c =? 0)) by (rewrite map_length; unfold lenN in Hi; lia).
  rewrite (map_nth (N.eqb c) s 0). unfold nthN in Ha. rewrite (nth_error_nth s _ 0 Ha). apply N.eqb_refl.
Qed.

(* ================================================================== *)
(* B.1  words, bits, popcount                                          *)
(* ================================================================== *)

Lemma rdN_eq {A} (l : list A) i : rdN l i = nthN l i.
Proof.
  unfold rdN. destruct (N.ltb_spec i (lenN l)); [reflexivity|].
  unfold nthN, lenN in *. symmetry. apply nth_error_None. lia.
Qed.

(* the k low bits of w, LSB first *)
Definition bitsn (k : nat) (w : N) : list bool := map (fun i => N.testbit w (N.of_nat i)) (seq 0 k).

Lemma bitsn_length k w : length (bitsn k w) = k.
Proof. unfold bitsn. now rewrite map_length, seq_length. Qed.

Lemma bitsn_nth k w i : (i < k)%nat -> nth i (bitsn k w) false = N.testbit w (N.of_nat i).
Proof.
  intros H. unfold bitsn.
  rewrite (nth_indep _ false (N.testbit w (N.of_nat 0))) by (now rewrite map_length, seq_length).
  rewrite (map_nth (fun i => N.testbit w (N.of_nat i)) (seq 0 k) 0%nat i). now rewrite seq_nth.
Qed.

Lemma seq_add_map s b : seq s b = map (fun i => (i + s)%nat) (seq 0 b).
Proof.
  revert s. induction b as [|b IH]; intros s; cbn [seq map]; [reflexivity|]. f_equal.
  rewrite (IH (S s)), (IH 1%nat), map_map. apply map_ext. intros i. lia.
Qed.

Lemma bitsn_app a b w : bitsn (a + b) w = bitsn a w ++ bitsn b (w / 2 ^ N.of_nat a).
Proof.
  unfold bitsn. rewrite seq_app, map_app. f_equal.
  rewrite (seq_add_map (0 + a) b), map_map. apply map_ext. intros i.
  rewrite <- N.shiftr_div_pow2, N.shiftr_spec by lia. f_equal. lia.
Qed.

Lemma bitsn_S k w : bitsn (S k) w = N.odd w :: bitsn k (w / 2).
Proof.
  change (S k) with (1 + k)%nat. rewrite bitsn_app. change (2 ^ N.of_nat 1) with 2.
  unfold bitsn at 1. cbn [seq map app]. now rewrite N.bit0_odd.
Qed.

Lemma bitsn_mod k w : bitsn k (w mod 2 ^ N.of_nat k) = bitsn k w.
Proof.
  unfold bitsn. apply map_ext_in. intros i Hi. apply in_seq in Hi.
  apply N.mod_pow2_bits_low. lia.
Qed.

Lemma bitsn_zero k : countb true (bitsn k 0) = 0.
Proof.
  unfold bitsn. induction (seq 0 k) as [|x t IH]; cbn [map countb]; [reflexivity|].
  rewrite N.bits_0, IH. reflexivity.
Qed.

Lemma bitsn_firstn k m w : (m <= k)%nat -> firstn m (bitsn k w) = bitsn m w.
Proof.
  intros H. replace k with (m + (k - m))%nat by lia. rewrite bitsn_app.
  rewrite firstn_app, bitsn_length, Nat.sub_diag. cbn [firstn]. rewrite app_nil_r.
  apply firstn_all2. rewrite bitsn_length. lia.
Qed.

(* the popcount table is the bit count of its index *)
Lemma popcount_tab_ok :
  forallb (fun y => nth y popcount_tab 0 =? countb true (bitsn 8 (N.of_nat y))) (seq 0 256) = true.
Proof. vm_compute. reflexivity. Qed.

Lemma popcount8_spec x : popcount8 x = countb true (bitsn 8 x).
Proof.
  unfold popcount8. rewrite <- (bitsn_mod 8 x). change (2 ^ N.of_nat 8) with 256.
  pose proof popcount_tab_ok as H. rewrite forallb_forall in H.
  assert (Hx : x mod 256 < 256) by (apply N.mod_lt; lia).
  specialize (H (N.to_nat (x mod 256))). rewrite N2Nat.id in H.
  apply N.eqb_eq. apply H. apply in_seq. lia.
Qed.

(* popcount w = number of set bits among the low 32 *)
Lemma popcount_spec x : popcount x = countb true (bitsn 32 x).
Proof.
  unfold popcount. rewrite !popcount8_spec.
  change 32%nat with (8 + (8 + (8 + 8)))%nat. rewrite !bitsn_app, !countb_app.
  change (2 ^ N.of_nat 8) with 256.
  rewrite !N.div_div by lia. change (256 * 256) with 65536. change (65536 * 256) with 16777216. lia.
Qed.

Lemma popcount_le x : popcount x <= 32.
Proof. rewrite popcount_spec. pose proof (countb_le_len true (bitsn 32 x)) as H. unfold lenN in H. rewrite bitsn_length in H. lia. Qed.

Lemma zcount_spec x : zcount x = countb false (bitsn 32 x).
Proof.
  unfold zcount. rewrite popcount_spec. pose proof (countb_compl (bitsn 32 x)) as H.
  unfold lenN in H. rewrite bitsn_length in H. lia.
Qed.

Lemma zcount8_spec x : zcount8 x = countb false (bitsn 8 x).
Proof.
  unfold zcount8. rewrite popcount8_spec. pose proof (countb_compl (bitsn 8 x)) as H.
  unfold lenN in H. rewrite bitsn_length in H. lia.
Qed.

(* (1 << k) - 1 as the compiled code computes it *)
Lemma c_mask_spec k : k <= 31 -> c_mask k = N.ones k.
Proof.
  intros H.
  assert (Hc : forallb (fun y => c_mask (N.of_nat y) =? N.ones (N.of_nat y)) (seq 0 32) = true) by (vm_compute; reflexivity).
  rewrite forallb_forall in Hc. specialize (Hc (N.to_nat k)). rewrite N2Nat.id in Hc.
  apply N.eqb_eq, Hc, in_seq. lia.
Qed.

(* the corner (i+1) mod 32 = 31: 1 << 31 is INT_MIN, INT_MIN - 1 wraps to INT_MAX *)
Lemma c_mask_31 : c_mask 31 = 2147483647.
Proof. reflexivity. Qed.

Lemma popcount_masked w r : r <= 31 -> popcount (N.land w (c_mask r)) = countb true (firstn (N.to_nat r) (bitsn 32 w)).
Proof.
  intros H. rewrite c_mask_spec, N.land_ones by exact H. rewrite popcount_spec.
  rewrite bitsn_firstn by lia.
  replace 32%nat with (N.to_nat r + (32 - N.to_nat r))%nat at 1 by lia.
  rewrite bitsn_app, countb_app. rewrite N2Nat.id.
  rewrite N.div_small by (apply N.mod_lt, N.pow_nonzero; lia). rewrite bitsn_zero.
  rewrite <- (N2Nat.id r) at 2. rewrite bitsn_mod. lia.
Qed.

(* access: (1u << k) & w *)
Lemma land_bit_test w k : negb (N.land (N.shiftl 1 k) w =? 0) = N.testbit w k.
Proof.
  rewrite N.shiftl_1_l.
  destruct (N.testbit w k) eqn:E.
  - destruct (N.eqb_spec (N.land (2 ^ k) w) 0) as [H0|]; [|reflexivity].
    assert (Hb : N.testbit (N.land (2 ^ k) w) k = true) by (rewrite N.land_spec, N.pow2_bits_true, E; reflexivity).
    rewrite H0, N.bits_0 in Hb. discriminate.
  - replace (N.land (2 ^ k) w) with 0; [reflexivity|].
    symmetry. apply N.bits_inj. intro m. rewrite N.land_spec, N.bits_0.
    destruct (N.eq_dec k m) as [<-|Hne]; [rewrite E; apply andb_false_r|].
    rewrite N.pow2_bits_false by exact Hne. reflexivity.
Qed.

(* word_of_bits *)
Lemma word_of_bits_testbit l k : N.testbit (word_of_bits l) k = nth (N.to_nat k) l false.
Proof.
  revert k. induction l as [|b t IH]; intros k; cbn [word_of_bits fold_right].
  - rewrite N.bits_0. destruct (N.to_nat k); reflexivity.
  - fold (word_of_bits t). replace ((if b then 1 else 0) + 2 * word_of_bits t) with (2 * word_of_bits t + N.b2n b) by (destruct b; cbn [N.b2n]; lia).
    destruct (N.eq_dec k 0) as [->|Hk].
    + rewrite N.testbit_0_r. reflexivity.
    + replace k with (N.succ (k - 1)) at 1 by lia. rewrite N.testbit_succ_r, IH.
      replace (N.to_nat k) with (S (N.to_nat (k - 1))) by lia. reflexivity.
Qed.

(* the flattened view of a word array *)
Definition flat (ws : list N) : list bool := flat_map (bitsn 32) ws.

Lemma flat_length ws : length (flat ws) = (32 * length ws)%nat.
Proof.
  unfold flat. induction ws as [|w t IH]; [reflexivity|].
  cbn [flat_map]. rewrite app_length, bitsn_length, IH. cbn [length]. lia.
Qed.

Lemma flat_lenN ws : lenN (flat ws) = 32 * lenN ws.
Proof. unfold lenN. rewrite flat_length. lia. Qed.

Lemma flat_app a b : flat (a ++ b) = flat a ++ flat b.
Proof. unfold flat. apply flat_map_app. Qed.

Lemma flat_nth ws i : nth i (flat ws) false = N.testbit (nth (i / 32) ws 0) (N.of_nat (i mod 32)).
Proof.
  revert i. induction ws as [|w t IH]; intros i.
  - replace (nth (i / 32) (@nil N) 0) with 0 by (destruct (i / 32)%nat; reflexivity).
    rewrite N.bits_0. destruct i; reflexivity.
  - unfold flat. cbn [flat_map]. fold (flat t).
    destruct (Nat.lt_ge_cases i 32) as [H|H].
    + rewrite app_nth1 by (rewrite bitsn_length; exact H). rewrite bitsn_nth by exact H.
      rewrite Nat.div_small, Nat.mod_small by exact H. reflexivity.
    + rewrite app_nth2 by (rewrite bitsn_length; exact H). rewrite bitsn_length, IH.
      replace (i / 32)%nat with (S ((i - 32) / 32)) by lia. cbn [nth].
      replace ((i - 32) mod 32)%nat with (i mod 32)%nat by lia. reflexivity.
Qed.

Lemma countb_flat ws : countb true (flat ws) = fold_right (fun w a => popcount w + a) 0 ws.
Proof.
  induction ws as [|w t IH]; [reflexivity|].
  unfold flat. cbn [flat_map fold_right]. fold (flat t). rewrite countb_app, IH, popcount_spec. reflexivity.
Qed.

(* helpers on nth / firstn / skipn *)
Lemma nth_firstn_lt {A} (l : list A) n i d : (i < n)%nat -> nth i (firstn n l) d = nth i l d.
Proof.
  revert n i. induction l as [|x t IH]; intros n i H.
  - rewrite firstn_nil. reflexivity.
  - destruct n; [lia|]. destruct i; cbn [firstn nth]; [reflexivity|]. apply IH. lia.
Qed.

Lemma nth_skipn_add {A} (l : list A) n i d : nth i (skipn n l) d = nth (n + i) l d.
Proof.
  revert n. induction l as [|x t IH]; intros n.
  - rewrite skipn_nil. destruct i, n; reflexivity.
  - destruct n; cbn [skipn plus nth]; [reflexivity|]. apply IH.
Qed.

Lemma nrange_nth k i : (i < k)%nat -> nth i (nrange k) 0 = N.of_nat i.
Proof.
  intros H. unfold nrange. change 0 with (N.of_nat 0). rewrite map_nth, seq_nth by exact H. reflexivity.
Qed.

Lemma nrange_length k : length (nrange k) = k.
Proof. unfold nrange. now rewrite map_length, seq_length. Qed.

Lemma words_of_bits_length bv : lenN (words_of_bits bv) = lenN bv / 32 + 1.
Proof. unfold words_of_bits, lenN at 1. rewrite map_length, nrange_length. lia. Qed.

Lemma words_of_bits_nth bv q : q < lenN bv / 32 + 1 ->
  nth (N.to_nat q) (words_of_bits bv) 0 = word_of_bits (firstn 32 (skipn (N.to_nat (32 * q)) bv)).
Proof.
  intros H. unfold words_of_bits.
  set (f := fun w => word_of_bits (firstn 32 (skipn (N.to_nat (32 * w)) bv))).
  rewrite (nth_indep _ 0 (f 0)) by (rewrite map_length, nrange_length; lia).
  rewrite map_nth, nrange_nth by lia. unfold f. now rewrite N2Nat.id.
Qed.

(* the packed array, read back bit by bit, is the bit vector padded with zeros *)
Lemma flat_words_of_bits bv :
  flat (words_of_bits bv) = bv ++ repeat false (N.to_nat (32 * (lenN bv / 32 + 1) - lenN bv)).
Proof.
  assert (Hlen : length (flat (words_of_bits bv)) = N.to_nat (32 * (lenN bv / 32 + 1))).
  { rewrite flat_length. pose proof (words_of_bits_length bv) as H. unfold lenN in H at 1. lia. }
  apply nth_ext with (d := false) (d' := false).
  - rewrite Hlen, app_length, repeat_length. unfold lenN. lia.
  - intros i Hi. rewrite Hlen in Hi. rewrite flat_nth.
    assert (Hq : N.of_nat (i / 32) < lenN bv / 32 + 1) by lia.
    pose proof (words_of_bits_nth bv _ Hq) as Hw. rewrite Nat2N.id in Hw. rewrite Hw.
    rewrite word_of_bits_testbit, Nat2N.id.
    rewrite nth_firstn_lt by lia. rewrite nth_skipn_add.
    replace (N.to_nat (32 * N.of_nat (i / 32)) + i mod 32)%nat with i by lia.
    destruct (Nat.lt_ge_cases i (length bv)) as [Hlt|Hge].
    + rewrite app_nth1 by exact Hlt. reflexivity.
    + rewrite app_nth2 by exact Hge. rewrite nth_overflow by exact Hge.
      symmetry. destruct (nth_in_or_default (i - length bv) (repeat false (N.to_nat (32 * (lenN bv / 32 + 1) - lenN bv))) false) as [Hin|Hd]; [|exact Hd].
      apply repeat_spec in Hin. exact Hin.
Qed.

(* ================================================================== *)
(* B.2  rank1 / rank0 / access                                         *)
(* ================================================================== *)

Definition sumpop (ws : list N) : N := fold_right (fun w a => popcount w + a) 0 ws.

Lemma sumpop_app a b : sumpop (a ++ b) = sumpop a + sumpop b.
Proof. unfold sumpop. induction a as [|w t IH]; cbn [app fold_right]; [reflexivity|]. rewrite IH. lia. Qed.

Lemma sumpop_flat ws : sumpop ws = countb true (flat ws).
Proof. symmetry. apply countb_flat. Qed.

Lemma sumpop_le ws : sumpop ws <= 32 * lenN ws.
Proof. rewrite sumpop_flat. pose proof (countb_le_len true (flat ws)) as H. rewrite flat_lenN in H. exact H. Qed.

Lemma firstn_add {A} (l : list A) a c : firstn (a + c) l = firstn a l ++ firstn c (skipn a l).
Proof.
  revert l. induction a as [|a IH]; intros l; [reflexivity|].
  destruct l as [|x t]; [now rewrite !firstn_nil|]. cbn [plus firstn skipn app]. f_equal. apply IH.
Qed.

Lemma list_split_nth {A} (l : list A) q d : (q < length l)%nat -> l = firstn q l ++ nth q l d :: skipn (S q) l.
Proof.
  revert q. induction l as [|x t IH]; intros q H; [cbn in H; lia|].
  destruct q; cbn [firstn nth skipn app]; [reflexivity|]. f_equal. apply IH. cbn in H. lia.
Qed.

Lemma skipn_cons_nth {A} (l : list A) q d : (q < length l)%nat -> skipn q l = nth q l d :: skipn (S q) l.
Proof.
  revert q. induction l as [|x t IH]; intros q H; [cbn in H; lia|].
  destruct q; cbn [nth skipn]; [reflexivity|]. apply IH. cbn in H. lia.
Qed.

Lemma nthN_nth {A} (l : list A) i d : i < lenN l -> nthN l i = Some (nth (N.to_nat i) l d).
Proof. intros H. unfold nthN. apply nth_error_nth'. unfold lenN in H. lia. Qed.

Lemma pc_flat_split b ws q r : (q < length ws)%nat -> r <= 32 ->
  prefix_count b (flat ws) (32 * N.of_nat q + r) =
  countb b (flat (firstn q ws)) + countb b (firstn (N.to_nat r) (bitsn 32 (nth q ws 0))).
Proof.
  intros Hq Hr. rewrite (list_split_nth ws q 0 Hq) at 1.
  rewrite flat_app. unfold flat at 2. cbn [flat_map]. fold (flat (skipn (S q) ws)).
  assert (Hl : lenN (flat (firstn q ws)) = 32 * N.of_nat q).
  { rewrite flat_lenN. unfold lenN. rewrite firstn_length. lia. }
  rewrite <- Hl, prefix_count_app_r. f_equal.
  rewrite prefix_count_app_l by (unfold lenN; rewrite bitsn_length; lia). reflexivity.
Qed.

(* the loop over whole words *)
Lemma sum_pop_spec data a cnt resp :
  (N.to_nat a + cnt <= length data)%nat -> resp + sumpop (firstn cnt (skipn (N.to_nat a) data)) < W32 ->
  sum_pop data a cnt resp = Some (resp + sumpop (firstn cnt (skipn (N.to_nat a) data))).
Proof.
  revert a resp. induction cnt as [|c IH]; intros a resp Hlen Hb.
  - cbn [sum_pop firstn sumpop fold_right]. f_equal. lia.
  - cbn [sum_pop]. rewrite rdN_eq, (nthN_nth data a 0) by (unfold lenN; lia).
    rewrite (skipn_cons_nth data (N.to_nat a) 0) in * by lia.
    cbn [firstn sumpop fold_right] in *. fold (sumpop (firstn c (skipn (S (N.to_nat a)) data))) in *.
    replace (S (N.to_nat a)) with (N.to_nat (a + 1)) in * by lia.
    unfold u32. rewrite N.mod_small by lia. rewrite IH by lia. f_equal. lia.
Qed.

(* representation invariant of a BitSequenceRG object for the bit vector bv *)
Definition rs_ok (d : rg) : Prop :=
  forall k, k <= rg_n d / rg_s d ->
    nthN (rg_rs d) k = Some (sumpop (firstn (N.to_nat (k * rg_factor d)) (rg_data d))).

Definition rg_wf (bv : list bool) (d : rg) : Prop :=
  rg_n d = lenN bv /\ 1 <= rg_factor d /\ rg_s d = 32 * rg_factor d /\
  rg_integers d = lenN bv / 32 + 1 /\ rg_data d = words_of_bits bv /\ rs_ok d /\
  lenN bv < W32 - 64.

Lemma pc_flat_bv bv k : prefix_count true (flat (words_of_bits bv)) k = prefix_count true bv k.
Proof. rewrite flat_words_of_bits. apply prefix_count_pad. reflexivity. Qed.

(* Rs[k] = rank1(k*s - 1): the superblock counter is the prefix count *)
Lemma rs_prefix_count bv d k : rg_wf bv d -> k <= rg_n d / rg_s d ->
  nthN (rg_rs d) k = Some (prefix_count true bv (k * rg_s d)).
Proof.
  intros (Hn & Hf & Hs & Hint & Hdata & Hrs & Hbound) Hk. rewrite (Hrs k Hk). f_equal.
  rewrite <- pc_flat_bv, <- Hdata, Hs.
  assert (Hkw : k * rg_factor d <= lenN bv / 32).
  { rewrite Hn, Hs in Hk. rewrite <- N.div_div in Hk by lia.
    assert (k * rg_factor d <= lenN bv / 32 / rg_factor d * rg_factor d) by (apply N.mul_le_mono_r; exact Hk).
    pose proof (N.mul_div_le (lenN bv / 32) (rg_factor d)). lia. }
  assert (Hlen : lenN (rg_data d) = lenN bv / 32 + 1) by (rewrite Hdata; apply words_of_bits_length).
  replace (k * (32 * rg_factor d)) with (32 * N.of_nat (N.to_nat (k * rg_factor d)) + 0) by (rewrite N2Nat.id; ring).
  rewrite pc_flat_split by (unfold lenN in *; lia). cbn [N.to_nat firstn countb]. rewrite sumpop_flat. lia.
Qed.

(* the heart of rank1: for every argument whose incremented 32-bit value i is at most n,
   the answer is the number of ones among the first i positions *)
Lemma rg_rank1_count bv d i1 :
  rg_wf bv d -> u32 (u32 i1 + 1) <= lenN bv ->
  rg_rank1 d i1 = Some (prefix_count true bv (u32 (u32 i1 + 1))).
Proof.
  intros (Hn & Hf & Hs & Hint & Hdata & Hrs & Hbound) Hi.
  unfold rg_rank1. set (i := u32 (u32 i1 + 1)) in *.
  assert (HW : W32 = 4294967296) by reflexivity.
  assert (Hlen : lenN (rg_data d) = lenN bv / 32 + 1) by (rewrite Hdata; apply words_of_bits_length).
  assert (Hsb : i / rg_s d <= rg_n d / rg_s d) by (rewrite Hn; apply N.div_le_mono; lia).
  rewrite rdN_eq, (Hrs _ Hsb).
  set (sb := i / rg_s d) in *.
  assert (Hsbf : sb * rg_factor d <= i / 32).
  { unfold sb. rewrite Hs. rewrite <- N.div_div by lia.
    rewrite N.mul_comm. apply N.mul_div_le. lia. }
  assert (Hq : i / 32 < lenN bv / 32 + 1).
  { assert (i / 32 <= lenN bv / 32) by (apply N.div_le_mono; lia). lia. }
  assert (Hu : u32 (sb * rg_factor d) = sb * rg_factor d) by (unfold u32; apply N.mod_small; lia).
  rewrite !Hu.
  set (aux := sb * rg_factor d) in *.
  assert (Hsum : sumpop (firstn (N.to_nat (i / 32)) (rg_data d)) =
                 sumpop (firstn (N.to_nat aux) (rg_data d)) +
                 sumpop (firstn (N.to_nat (i / 32 - aux)) (skipn (N.to_nat aux) (rg_data d)))).
  { replace (N.to_nat (i / 32)) with (N.to_nat aux + N.to_nat (i / 32 - aux))%nat by lia.
    rewrite firstn_add, sumpop_app. reflexivity. }
  assert (Hsq : sumpop (firstn (N.to_nat (i / 32)) (rg_data d)) <= 32 * (i / 32)).
  { pose proof (sumpop_le (firstn (N.to_nat (i / 32)) (rg_data d))) as H. rewrite lenN_firstn in H. lia. }
  rewrite sum_pop_spec; [| unfold lenN in *; lia | lia].
  rewrite <- Hsum.
  rewrite rdN_eq, (nthN_nth _ _ 0) by lia.
  change 31 with (N.ones 5). rewrite N.land_ones. change (2 ^ 5) with 32.
  rewrite popcount_masked by (pose proof (N.mod_lt i 32); lia).
  f_equal.
  rewrite <- pc_flat_bv. rewrite <- Hdata.
  assert (H1 : (N.to_nat (i / 32) < length (rg_data d))%nat) by (unfold lenN in *; lia).
  assert (H2 : i mod 32 <= 32) by (pose proof (N.mod_lt i 32); lia).
  pose proof (pc_flat_split true (rg_data d) (N.to_nat (i / 32)) (i mod 32) H1 H2) as Hpc.
  replace (32 * N.of_nat (N.to_nat (i / 32)) + i mod 32) with i in Hpc by lia.
  rewrite Hpc. rewrite <- sumpop_flat.
  set (pw := countb true (firstn (N.to_nat (i mod 32)) (bitsn 32 (nth (N.to_nat (i / 32)) (rg_data d) 0)))).
  assert (Hpw : pw <= i mod 32).
  { unfold pw. pose proof (countb_le_len true (firstn (N.to_nat (i mod 32)) (bitsn 32 (nth (N.to_nat (i / 32)) (rg_data d) 0)))) as H.
    rewrite lenN_firstn in H. lia. }
  unfold u32. apply N.mod_small. pose proof (N.mod_lt i 32). lia.
Qed.

Theorem rg_rank1_wf bv d i : rg_wf bv d -> i < lenN bv -> rg_rank1 d i = Some (bv_rank1 bv i).
Proof.
  intros Hwf Hi. pose proof Hwf as (_ & _ & _ & _ & _ & _ & Hb).
  assert (HW : W32 = 4294967296) by reflexivity.
  assert (E : u32 (u32 i + 1) = i + 1) by (unfold u32; rewrite !N.mod_small; lia).
  rewrite (rg_rank1_count bv d i Hwf) by (rewrite E; lia). rewrite E. reflexivity.
Qed.

(* rank1(n - 1) as evaluated by the constructor and by load: the number of ones, for every n incl. 0 *)
Lemma rg_rank1_last bv d : rg_wf bv d -> rg_rank1 d (u64 (lenN bv + W64 - 1)) = Some (bv_ones bv).
Proof.
  intros Hwf. pose proof Hwf as (_ & _ & _ & _ & _ & _ & Hb).
  assert (HW : W32 = 4294967296) by reflexivity.
  assert (HW6 : W64 = 18446744073709551616) by reflexivity.
  assert (E : u32 (u32 (u64 (lenN bv + W64 - 1)) + 1) = lenN bv).
  { unfold u32, u64. destruct (N.eq_dec (lenN bv) 0) as [->|Hn].
    - vm_compute. reflexivity.
    - replace ((lenN bv + W64 - 1) mod W64) with (lenN bv - 1).
      + rewrite !N.mod_small; lia.
      + apply (N.mod_unique _ _ 1); lia. }
  rewrite (rg_rank1_count bv d _ Hwf) by (rewrite E; lia). rewrite E.
  rewrite prefix_count_all by lia. reflexivity.
Qed.

(* rank1((size_t)-1) = 0: what the wavelet tree relies on when a mapped position is "-1" *)
Lemma rg_rank1_minus1 bv d : rg_wf bv d -> rg_rank1 d (W64 - 1) = Some 0.
Proof.
  intros Hwf.
  assert (E : u32 (u32 (W64 - 1) + 1) = 0) by (vm_compute; reflexivity).
  rewrite (rg_rank1_count bv d _ Hwf) by (rewrite E; lia). rewrite E. reflexivity.
Qed.

Theorem rg_rank0_wf bv d i : rg_wf bv d -> i < lenN bv -> rg_rank0 d i = Some (bv_rank0 bv i).
Proof.
  intros Hwf Hi. unfold rg_rank0. rewrite (rg_rank1_wf bv d i Hwf Hi). f_equal.
  pose proof (bv_rank0_rank1 bv i Hi) as H.
  pose proof Hwf as (_ & _ & _ & _ & _ & _ & Hb).
  assert (HW : W32 = 4294967296) by reflexivity.
  assert (HW6 : W64 = 18446744073709551616) by reflexivity.
  unfold u64. symmetry. apply (N.mod_unique _ _ 1); lia.
Qed.

Theorem rg_access_wf bv d i : rg_wf bv d -> i < lenN bv -> rg_access d i = Some (bv_access bv i).
Proof.
  intros (Hn & Hf & Hs & Hint & Hdata & Hrs & Hbound) Hi. unfold rg_access.
  assert (Hlen : lenN (rg_data d) = lenN bv / 32 + 1) by (rewrite Hdata; apply words_of_bits_length).
  assert (Hq : i / 32 < lenN bv / 32 + 1).
  { assert (i / 32 <= lenN bv / 32) by (apply N.div_le_mono; lia). lia. }
  rewrite rdN_eq, (nthN_nth _ _ 0) by lia. f_equal.
  rewrite land_bit_test. unfold bv_access.
  pose proof (flat_nth (rg_data d) (N.to_nat i)) as H.
  replace (N.to_nat i / 32)%nat with (N.to_nat (i / 32)) in H by lia.
  replace (N.of_nat (N.to_nat i mod 32)) with (i mod 32) in H by lia.
  rewrite <- H, Hdata, flat_words_of_bits.
  rewrite app_nth1 by (unfold lenN in Hi; lia). reflexivity.
Qed.

(* ================================================================== *)
(* B.3  the constructor establishes the representation invariant       *)
(* ================================================================== *)

Lemma tabulate_opt_spec {A} (f : N -> option A) (g : N -> A) start cnt :
  (forall i, start <= i < start + N.of_nat cnt -> f i = Some (g i)) ->
  tabulate_opt f start cnt = Some (map (fun k => g (start + N.of_nat k)) (seq 0 cnt)).
Proof.
  revert start. induction cnt as [|c IH]; intros start H; [reflexivity|].
  cbn [tabulate_opt]. rewrite (H start) by lia. rewrite (IH (start + 1)) by (intros i Hi; apply H; lia).
  cbn [seq map]. rewrite N.add_0_r. f_equal. f_equal.
  rewrite <- seq_shift, map_map. apply map_ext. intros k. f_equal. lia.
Qed.

Lemma map_nth_seq {A} (l : list A) d : map (fun k => nth k l d) (seq 0 (length l)) = l.
Proof.
  apply nth_ext with (d := d) (d' := d).
  - now rewrite map_length, seq_length.
  - intros i Hi. rewrite map_length, seq_length in Hi.
    rewrite (nth_indep _ d (nth 0 l d)) by (now rewrite map_length, seq_length).
    rewrite (map_nth (fun k => nth k l d) (seq 0 (length l)) 0%nat i). now rewrite seq_nth.
Qed.

Lemma words_of_bits_tail bv q : lenN bv <= 32 * q -> nth (N.to_nat q) (words_of_bits bv) 0 = 0.
Proof.
  intros H. destruct (N.lt_ge_cases q (lenN bv / 32 + 1)) as [Hq|Hq].
  - rewrite words_of_bits_nth by exact Hq. rewrite skipn_all2 by (unfold lenN in H; lia). reflexivity.
  - apply nth_overflow. pose proof (words_of_bits_length bv) as Hl. unfold lenN in Hl at 1. lia.
Qed.

Lemma build_data_spec bv :
  lenN bv < W32 - 64 ->
  tabulate_opt (fun i => if i <? uint_len (lenN bv) 1 then rdN (words_of_bits bv) i else Some 0) 0
               (N.to_nat (lenN bv / 32 + 1)) = Some (words_of_bits bv).
Proof.
  intros Hb. assert (HW : W32 = 4294967296) by reflexivity.
  rewrite (tabulate_opt_spec _ (fun i => nth (N.to_nat i) (words_of_bits bv) 0)).
  - f_equal. pose proof (words_of_bits_length bv) as Hl. unfold lenN in Hl at 1.
    replace (N.to_nat (lenN bv / 32 + 1)) with (length (words_of_bits bv)) by lia.
    transitivity (map (fun k => nth k (words_of_bits bv) 0) (seq 0 (length (words_of_bits bv)))); [|apply map_nth_seq].
    apply map_ext. intros k. f_equal. lia.
  - intros i Hi. assert (Hu : uint_len (lenN bv) 1 = (lenN bv + 31) / 32).
    { unfold uint_len, u32. rewrite (N.mod_small (lenN bv)) by lia. rewrite N.mul_1_r. apply N.mod_small. lia. }
    rewrite Hu. destruct (N.ltb_spec i ((lenN bv + 31) / 32)) as [Hlt|Hge].
    + rewrite rdN_eq. apply nthN_nth. rewrite words_of_bits_length. lia.
    + rewrite words_of_bits_tail by lia. reflexivity.
Qed.

Lemma build_rank_sub_spec data integers i cnt rank :
  lenN data = integers -> i + N.of_nat cnt <= integers ->
  rank + sumpop (firstn cnt (skipn (N.to_nat i) data)) < W32 ->
  build_rank_sub data integers i cnt rank = Some (rank + sumpop (firstn cnt (skipn (N.to_nat i) data))).
Proof.
  revert i rank. induction cnt as [|c IH]; intros i rank Hlen Hi Hb.
  - cbn [build_rank_sub firstn sumpop fold_right]. f_equal. lia.
  - cbn [build_rank_sub]. replace (i <? integers) with true by lia.
    rewrite rdN_eq, (nthN_nth data i 0) by lia.
    rewrite (skipn_cons_nth data (N.to_nat i) 0) in * by (unfold lenN in Hlen; lia).
    cbn [firstn sumpop fold_right] in *. fold (sumpop (firstn c (skipn (S (N.to_nat i)) data))) in *.
    replace (S (N.to_nat i)) with (N.to_nat (i + 1)) in * by lia.
    unfold u32. rewrite N.mod_small by lia. rewrite IH by lia. f_equal. lia.
Qed.

Lemma sumpop_firstn_le ws a : sumpop (firstn a ws) <= sumpop ws.
Proof. rewrite <- (firstn_skipn a ws) at 2. rewrite sumpop_app. lia. Qed.

(* induction on superblocks: Rs[j] = ones in the first j*factor words *)
Lemma build_rs_spec data integers factor j cnt prev :
  lenN data = integers -> 1 <= j -> (j - 1 + N.of_nat cnt) * factor <= integers ->
  prev = sumpop (firstn (N.to_nat ((j - 1) * factor)) data) -> sumpop data < W32 ->
  exists l, build_rs data integers factor j cnt prev = Some l /\ length l = cnt /\
            forall k, (k < cnt)%nat -> nth k l 0 = sumpop (firstn (N.to_nat ((j + N.of_nat k) * factor)) data).
Proof.
  revert j prev. induction cnt as [|c IH]; intros j prev Hlen Hj Hb Hprev Hs.
  - exists []. cbn [build_rs]. repeat split. intros k Hk. lia.
  - cbn [build_rs].
    assert (Hstep : sumpop (firstn (N.to_nat (j * factor)) data) =
                    prev + sumpop (firstn (N.to_nat factor) (skipn (N.to_nat ((j - 1) * factor)) data))).
    { rewrite Hprev. replace (N.to_nat (j * factor)) with (N.to_nat ((j - 1) * factor) + N.to_nat factor)%nat by nia.
      rewrite firstn_add, sumpop_app. reflexivity. }
    pose proof (sumpop_firstn_le data (N.to_nat (j * factor))) as Hle.
    rewrite build_rank_sub_spec; [| exact Hlen | rewrite N2Nat.id; nia | lia].
    rewrite N.add_0_l. unfold u32. rewrite N.mod_small by lia. rewrite <- Hstep.
    destruct (IH (j + 1) (sumpop (firstn (N.to_nat (j * factor)) data))) as (t & Ht & Hlt & Hnt); try assumption; try lia.
    + replace (j + 1 - 1 + N.of_nat c) with (j - 1 + N.of_nat (S c)) by lia. exact Hb.
    + replace (j + 1 - 1) with j by lia. reflexivity.
    + rewrite Ht. eexists. split; [reflexivity|]. split; [cbn [length]; lia|].
      intros k Hk. destruct k as [|k]; cbn [nth].
      * rewrite N.add_0_r. reflexivity.
      * rewrite Hnt by lia. do 3 f_equal. lia.
Qed.

Lemma superblock_words n factor : 1 <= factor -> n / (32 * factor) * factor <= n / 32.
Proof. intros H. rewrite <- N.div_div by lia. rewrite N.mul_comm. apply N.mul_div_le. lia. Qed.

Theorem rg_build_wf bv factor :
  1 <= factor -> lenN bv < W32 - 64 ->
  exists d, rg_of_bits bv factor = Some d /\ rg_wf bv d /\ rg_ones d = bv_ones bv /\ rg_factor d = factor /\
            lenN (rg_rs d) = lenN bv / (32 * factor) + 5.
Proof.
  intros Hf Hb. assert (HW : W32 = 4294967296) by reflexivity.
  unfold rg_of_bits, rg_build. replace (factor =? 0) with false by lia.
  rewrite build_data_spec by exact Hb. cbv zeta.
  set (n := lenN bv). set (data := words_of_bits bv).
  assert (Hlen : lenN data = n / 32 + 1) by apply words_of_bits_length.
  assert (Hsp : sumpop data < W32).
  { pose proof (sumpop_le data) as H. rewrite Hlen in H. fold n in Hb. lia. }
  pose proof (superblock_words n factor Hf) as Hsw.
  unfold build_rank. set (K := n / (32 * factor)) in *.
  destruct (build_rs_spec data (n / 32 + 1) factor 1 (N.to_nat K) 0) as (l & Hl & Hll & Hnl);
    try assumption; try lia; [reflexivity|].
  rewrite Hl.
  assert (Hwf : forall o, rg_wf bv (mkRG n factor (32 * factor) (n / 32 + 1) data (0 :: l ++ [0; 0; 0; 0]) o)).
  { intros o. unfold rg_wf; cbn [rg_n rg_factor rg_s rg_integers rg_data rg_rs]. repeat split; try assumption; try reflexivity.
    intros k Hk. cbn [rg_n rg_factor rg_s rg_integers rg_data rg_rs] in *.
    destruct (N.eq_dec k 0) as [->|Hk0]; [reflexivity|].
    change (k <= K) in Hk. clearbody K.
    unfold nthN. replace (N.to_nat k) with (S (N.to_nat (k - 1))) by lia. cbn [nth_error].
    rewrite nth_error_app1 by lia. rewrite (nth_error_nth' l 0) by lia. f_equal.
    rewrite Hnl by lia. replace (1 + N.of_nat (N.to_nat (k - 1))) with k by lia. reflexivity. }
  pose proof (rg_rank1_last bv _ (Hwf 0)) as Hr. change (lenN bv) with n in Hr. fold K in Hr. rewrite Hr.
  eexists. split; [reflexivity|]. split; [apply Hwf|]. split; [reflexivity|]. split; [reflexivity|].
  cbn [rg_rs]. unfold lenN. cbn [length]. rewrite app_length. cbn [length]. lia.
Qed.

(* ================================================================== *)
(* B.4  select1 / select0                                              *)
(* ================================================================== *)

(* ---- stage 4: bit by bit ---- *)
Lemma bitscan_zero b fuel lft j : rg_bitscan b fuel 0 lft j = Some lft.
Proof. destruct fuel; reflexivity. Qed.

Lemma bitscan_spec b m : forall fuel x lft j p,
  (m <= fuel)%nat -> selb b (bitsn m j) x = Some p -> lft + p + 1 < W32 ->
  rg_bitscan b fuel x lft j = Some (lft + p + 1).
Proof.
  assert (HW : W32 = 4294967296) by reflexivity.
  induction m as [|m IH]; intros fuel x lft j p Hf Hs Hb.
  - cbn in Hs. discriminate.
  - destruct (selb_spec _ _ _ _ Hs) as (_ & _ & _ & Hx & _).
    rewrite bitsn_S in Hs. cbn [selb] in Hs.
    destruct fuel as [|f]; [lia|]. cbn [rg_bitscan]. replace (0 <? x) with true by lia.
    unfold u32. rewrite (N.mod_small (lft + 1)) by lia.
    destruct (Bool.eqb (N.odd j) b).
    + destruct (N.eqb_spec x 1) as [->|Hne].
      * injection Hs as <-. change (1 - 1) with 0. rewrite bitscan_zero. f_equal. lia.
      * apply option_map_Some in Hs. destruct Hs as (p' & Hp' & ->).
        rewrite (IH f (x - 1) (lft + 1) (j / 2) p') by (try exact Hp'; lia). f_equal. lia.
    + apply option_map_Some in Hs. destruct Hs as (p' & Hp' & ->).
      rewrite (IH f x (lft + 1) (j / 2) p') by (try exact Hp'; lia). f_equal. lia.
Qed.

(* ---- stage 3: byte by byte ---- *)
Lemma selb_byte_step b m j x p :
  selb b (bitsn (8 + m) j) x = Some p -> countb b (bitsn 8 j) < x ->
  exists p', selb b (bitsn m (j / 256)) (x - countb b (bitsn 8 j)) = Some p' /\ p = 8 + p'.
Proof.
  intros Hs Hc. destruct (selb_spec _ _ _ _ Hs) as (_ & _ & _ & Hx & _).
  rewrite bitsn_app in Hs. change (2 ^ N.of_nat 8) with 256 in Hs.
  rewrite selb_app in Hs by exact Hx. replace (countb b (bitsn 8 j) <? x) with true in Hs by lia.
  apply option_map_Some in Hs. destruct Hs as (p' & Hp' & ->). exists p'. split; [exact Hp'|].
  unfold lenN. rewrite bitsn_length. reflexivity.
Qed.

Lemma bytes_spec b cnt8 x lft j p :
  (forall y, cnt8 y = countb b (bitsn 8 y)) ->
  selb b (bitsn 32 j) x = Some p -> lft + 32 < W32 ->
  exists x' lft' j' m p',
    rg_bytes cnt8 x lft j = (x', lft', j') /\ (m <= 32)%nat /\
    selb b (bitsn m j') x' = Some p' /\ lft' + p' = lft + p.
Proof.
  intros H8 Hs Hb. assert (HW : W32 = 4294967296) by reflexivity.
  unfold rg_bytes. rewrite !H8.
  destruct (N.ltb_spec (countb b (bitsn 8 j)) x) as [H1|H1].
  2:{ exists x, lft, j, 32%nat, p. repeat split; try lia. exact Hs. }
  change 32%nat with (8 + 24)%nat in Hs.
  destruct (selb_byte_step _ _ _ _ _ Hs H1) as (p1 & Hs1 & ->).
  set (x1 := x - countb b (bitsn 8 j)) in *. set (j1 := j / 256) in *.
  unfold u32. rewrite (N.mod_small (lft + 8)) by lia.
  destruct (N.ltb_spec (countb b (bitsn 8 j1)) x1) as [H2|H2].
  2:{ exists x1, (lft + 8), j1, 24%nat, p1. repeat split; try lia. exact Hs1. }
  change 24%nat with (8 + 16)%nat in Hs1.
  destruct (selb_byte_step _ _ _ _ _ Hs1 H2) as (p2 & Hs2 & ->).
  set (x2 := x1 - countb b (bitsn 8 j1)) in *. set (j2 := j1 / 256) in *.
  rewrite (N.mod_small (lft + 8 + 8)) by lia.
  destruct (N.ltb_spec (countb b (bitsn 8 j2)) x2) as [H3|H3].
  2:{ exists x2, (lft + 8 + 8), j2, 16%nat, p2. repeat split; try lia. exact Hs2. }
  change 16%nat with (8 + 8)%nat in Hs2.
  destruct (selb_byte_step _ _ _ _ _ Hs2 H3) as (p3 & Hs3 & ->).
  rewrite (N.mod_small (lft + 8 + 8 + 8)) by lia.
  eexists _, _, _, 8%nat, p3. split; [reflexivity|]. repeat split; try lia. exact Hs3.
Qed.

(* ---- stage 2: word by word ---- *)
Lemma scan_spec b cntf data integers n :
  (forall y, cntf y = countb b (bitsn 32 y)) -> lenN data = integers -> 32 * integers < W32 ->
  forall fuel x lft j p,
  (length data - N.to_nat lft <= fuel)%nat -> lft < integers -> nthN data lft = Some j -> 1 <= x ->
  selb b (flat (skipn (N.to_nat lft) data)) x = Some p ->
  exists x' lft' j' p',
    rg_scan cntf data integers n fuel x lft j (cntf j) = Some (inr (x', lft', j')) /\
    selb b (bitsn 32 j') x' = Some p' /\ 32 * lft' + p' = 32 * lft + p /\ lft' < integers /\ 1 <= x'.
Proof.
  intros Hc Hlen Hb. assert (HW : W32 = 4294967296) by reflexivity.
  induction fuel as [|f IH]; intros x lft j p Hf Hl Hj Hx Hs.
  - unfold lenN in Hlen. lia.
  - assert (Hjn : j = nth (N.to_nat lft) data 0).
    { rewrite (nthN_nth data lft 0) in Hj by lia. congruence. }
    rewrite (skipn_cons_nth data (N.to_nat lft) 0) in Hs by (unfold lenN in Hlen; lia).
    rewrite <- Hjn in Hs. unfold flat in Hs. cbn [flat_map] in Hs. fold (flat (skipn (S (N.to_nat lft)) data)) in Hs.
    rewrite selb_app in Hs by exact Hx. rewrite <- Hc in Hs.
    cbn [rg_scan].
    destruct (N.ltb_spec (cntf j) x) as [Hlt|Hge].
    + apply option_map_Some in Hs. destruct Hs as (p1 & Hs1 & ->).
      unfold lenN in Hs1 |- *. rewrite bitsn_length.
      assert (Hnext : lft + 1 < integers).
      { destruct (N.lt_ge_cases (lft + 1) integers) as [|Hge]; [assumption|].
        rewrite skipn_all2 in Hs1 by (unfold lenN in Hlen; lia). cbn in Hs1. discriminate. }
      unfold u32. rewrite (N.mod_small (lft + 1)) by lia.
      replace (integers <? lft + 1) with false by lia.
      rewrite rdN_eq, (nthN_nth data (lft + 1) 0) by lia.
      replace (S (N.to_nat lft)) with (N.to_nat (lft + 1)) in Hs1 by lia.
      destruct (IH (x - cntf j) (lft + 1) (nth (N.to_nat (lft + 1)) data 0) p1) as (x' & lft' & j' & p' & H1 & H2 & H3 & H4 & H5);
        try assumption; try lia.
      * apply nthN_nth. lia.
      * exists x', lft', j', p'. repeat split; try assumption; lia.
    + exists x, lft, j, p. repeat split; try assumption; lia.
Qed.

(* ---- stage 1: binary search over the superblock counters ---- *)
Lemma pos_size_nat_gt p : N.pos p < 2 ^ N.of_nat (Pos.size_nat p).
Proof.
  induction p as [p IH|p IH|]; cbn [Pos.size_nat]; rewrite ?Nat2N.inj_succ, ?N.pow_succ_r'; try lia.
Qed.

Lemma size_nat_gt x : x < 2 ^ N.of_nat (N.size_nat x).
Proof. destruct x as [|p]; [cbn; lia|apply pos_size_nat_gt]. Qed.

Lemma bsearch_spec key rs x (g : N -> N) K :
  (forall k, k <= K -> exists v, nthN rs k = Some v /\ key k v = g k) ->
  g 0 = 0 -> 1 <= x -> 2 * K + 2 < W32 ->
  forall fuel l r mid,
  l <= r + 1 -> r <= K -> (l = 0 \/ g (l - 1) < x) -> mid = (l + r) / 2 -> r + 1 - l < 2 ^ N.of_nat fuel ->
  exists mid', rg_bsearch key rs x fuel l r mid (g mid) = Some (mid', g mid') /\ mid' <= K /\ g mid' < x.
Proof.
  intros Hrs Hg0 Hx HK. assert (HW : W32 = 4294967296) by reflexivity.
  induction fuel as [|f IH]; intros l r mid Hlr HrK Hinv Hmid Hsz.
  - cbn [rg_bsearch]. change (2 ^ N.of_nat 0) with 1 in Hsz.
    replace (l <=? r) with false by lia. exists mid. split; [reflexivity|].
    assert (Hm : mid = l - 1) by lia. rewrite Hm. split; [lia|]. destruct Hinv; [lia|assumption].
  - cbn [rg_bsearch]. destruct (N.leb_spec l r) as [Hle|Hgt].
    2:{ exists mid. split; [reflexivity|]. assert (Hm : mid = l - 1) by lia. rewrite Hm. split; [lia|].
        destruct Hinv; [lia|assumption]. }
    rewrite Nat2N.inj_succ, N.pow_succ_r' in Hsz.
    destruct (N.ltb_spec (g mid) x) as [Hlt|Hge].
    + unfold u32. rewrite (N.mod_small (mid + 1)) by lia. rewrite (N.mod_small (mid + 1 + r)) by lia.
      set (mid' := (mid + 1 + r) / 2).
      destruct (Hrs mid') as (v & Hv & Hkv); [unfold mid'; lia|].
      rewrite rdN_eq, Hv, Hkv.
      apply IH; try lia. right. replace (mid + 1 - 1) with mid by lia. exact Hlt.
    + assert (Hm1 : 1 <= mid) by (destruct (N.eq_dec mid 0) as [E|]; [rewrite E, Hg0 in Hge; lia|lia]).
      unfold u32. rewrite <- (N.mod_unique (mid + W32 - 1) W32 1 (mid - 1)) by lia.
      rewrite (N.mod_small (l + (mid - 1))) by lia.
      set (mid' := (l + (mid - 1)) / 2).
      destruct (Hrs mid') as (v & Hv & Hkv); [unfold mid'; lia|].
      rewrite rdN_eq, Hv, Hkv.
      apply IH; try lia.
Qed.

(* occurrences of b before superblock k *)
Definition gb (b : bool) (d : rg) (k : N) : N :=
  countb b (flat (firstn (N.to_nat (k * rg_factor d)) (rg_data d))).

Lemma wf_superblock_words bv d k : rg_wf bv d -> k <= rg_n d / rg_s d -> k * rg_factor d <= lenN bv / 32.
Proof.
  intros (Hn & Hf & Hs & _) Hk. rewrite Hn, Hs in Hk.
  pose proof (superblock_words (lenN bv) (rg_factor d) Hf) as H.
  assert (k * rg_factor d <= lenN bv / (32 * rg_factor d) * rg_factor d) by (apply N.mul_le_mono_r; exact Hk).
  lia.
Qed.

Lemma select_search_spec b key bv d x :
  rg_wf bv d ->
  (forall k v, k <= rg_n d / rg_s d -> nthN (rg_rs d) k = Some v -> key k v = gb b d k) ->
  1 <= x ->
  exists mid, rg_select_search key d x = Some (mid, gb b d mid) /\ mid <= rg_n d / rg_s d /\ gb b d mid < x.
Proof.
  intros Hwf Hkey Hx. pose proof Hwf as (Hn & Hf & Hs & Hint & Hdata & Hrs & Hbound).
  assert (HW : W32 = 4294967296) by reflexivity.
  unfold rg_select_search. set (K := rg_n d / rg_s d) in *.
  assert (HK : K <= lenN bv / 32).
  { pose proof (wf_superblock_words bv d K Hwf (N.le_refl _)). nia. }
  assert (HK2 : 2 * K + 2 < W32) by lia.
  assert (HrsK : forall k, k <= K -> exists v, nthN (rg_rs d) k = Some v /\ key k v = gb b d k).
  { intros k Hk. eexists. split; [apply Hrs; exact Hk|]. apply Hkey; [exact Hk|]. apply Hrs. exact Hk. }
  unfold u32. rewrite (N.mod_small K) by lia. rewrite N.add_0_l, (N.mod_small K) by lia.
  destruct (HrsK (K / 2)) as (v & Hv & Hkv); [lia|].
  rewrite rdN_eq, Hv, Hkv.
  apply (bsearch_spec key (rg_rs d) x (gb b d) K HrsK); try lia.
  - unfold gb. rewrite N.mul_0_l. reflexivity.
  - unfold bsearch_fuel. fold K. rewrite Nat2N.inj_succ, N.pow_succ_r'.
    pose proof (size_nat_gt (K + 1)). lia.
Qed.

Lemma select_tail_spec b cntf cnt8 bv d x mid p :
  rg_wf bv d ->
  (forall y, cntf y = countb b (bitsn 32 y)) -> (forall y, cnt8 y = countb b (bitsn 8 y)) ->
  mid <= rg_n d / rg_s d -> gb b d mid < x -> x < W32 ->
  selb b (flat (rg_data d)) x = Some p ->
  rg_select_tail b cntf cnt8 d x mid (gb b d mid) = Some (inr (p + 1)).
Proof.
  intros Hwf Hc Hc8 Hmid Hg Hx32 Hs. pose proof Hwf as (Hn & Hf & Hs' & Hint & Hdata & Hrs & Hbound).
  assert (HW : W32 = 4294967296) by reflexivity.
  assert (Hlen : lenN (rg_data d) = lenN bv / 32 + 1) by (rewrite Hdata; apply words_of_bits_length).
  pose proof (wf_superblock_words bv d mid Hwf Hmid) as Hmw.
  destruct (selb_spec _ _ _ _ Hs) as (Hp & _ & _ & Hx1 & _). rewrite flat_lenN, Hlen in Hp.
  unfold rg_select_tail.
  assert (Hu1 : u32 (mid * rg_factor d) = mid * rg_factor d) by (unfold u32; apply N.mod_small; lia).
  assert (Hu2 : u32 (x + W32 - gb b d mid) = x - gb b d mid).
  { unfold u32. symmetry. apply (N.mod_unique _ _ 1); lia. }
  rewrite !Hu1, !Hu2.
  assert (Hgm : gb b d mid = countb b (flat (firstn (N.to_nat (mid * rg_factor d)) (rg_data d)))) by reflexivity.
  set (lft := mid * rg_factor d) in *.
  (* split the flattened array at the superblock *)
  rewrite <- (firstn_skipn (N.to_nat lft) (rg_data d)) in Hs. rewrite flat_app in Hs.
  rewrite selb_app in Hs by exact Hx1. rewrite <- Hgm in Hs.
  replace (gb b d mid <? x) with true in Hs by lia.
  apply option_map_Some in Hs. destruct Hs as (p1 & Hs1 & ->).
  rewrite flat_lenN, lenN_firstn in *.
  replace (N.min (N.of_nat (N.to_nat lft)) (lenN (rg_data d))) with lft in * by lia.
  rewrite rdN_eq, (nthN_nth _ lft 0) by lia.
  destruct (scan_spec b cntf (rg_data d) (rg_integers d) (rg_n d) Hc) with
    (fuel := S (length (rg_data d))) (x := x - gb b d mid) (lft := lft)
    (j := nth (N.to_nat lft) (rg_data d) 0) (p := p1)
    as (x2 & lft2 & j2 & p2 & H1 & H2 & H3 & H4 & H5); try lia; try exact Hs1.
  - apply nthN_nth. lia.
  - rewrite H1. rewrite Hint in H4.
    destruct (bytes_spec b cnt8 x2 (u32 (lft2 * 32)) j2 p2 Hc8 H2) as (x3 & lft3 & j3 & m & p3 & Hb1 & Hb2 & Hb3 & Hb4).
    { unfold u32. rewrite N.mod_small by lia. lia. }
    rewrite Hb1. unfold u32 in Hb4. rewrite N.mod_small in Hb4 by lia.
    rewrite (bitscan_spec b m 33 x3 lft3 j3 p3) by (try exact Hb3; lia).
    do 2 f_equal. lia.
Qed.

(* the bit vector and its packed, padded image have the same select answers *)
Lemma selb_flat_bv b bv x : 1 <= x <= countb b bv -> selb b (flat (words_of_bits bv)) x = selb b bv x.
Proof. intros H. rewrite flat_words_of_bits. apply selb_pad. exact H. Qed.

Theorem rg_select1_wf bv d x :
  rg_wf bv d -> rg_ones d = bv_ones bv -> 1 <= x <= bv_ones bv -> rg_select1 d x = bv_select1 bv x.
Proof.
  intros Hwf Hones Hx. pose proof Hwf as (Hn & Hf & Hs' & Hint & Hdata & Hrs & Hbound).
  assert (HW : W32 = 4294967296) by reflexivity.
  pose proof (countb_le_len true bv) as Hle. unfold bv_ones in *.
  destruct (selb_exists true bv x Hx) as (p & Hp). unfold bv_select1. rewrite Hp.
  destruct (selb_spec _ _ _ _ Hp) as (Hpn & _).
  assert (Hux : u32 x = x) by (unfold u32; apply N.mod_small; lia).
  unfold rg_select1. cbv zeta. rewrite !Hux.
  rewrite Hones. replace (countb true bv <? x) with false by lia.
  destruct (select_search_spec true (fun _ v => v) bv d x Hwf) as (mid & Hsr & Hmid & Hg); [|lia|].
  { intros k v Hk Hv. rewrite (Hrs k Hk) in Hv. injection Hv as <-. unfold gb. apply sumpop_flat. }
  rewrite Hsr.
  rewrite (select_tail_spec true popcount popcount8 bv d x mid p Hwf popcount_spec popcount8_spec Hmid Hg) by
    (try lia; rewrite Hdata, selb_flat_bv by exact Hx; exact Hp).
  f_equal. unfold u32. symmetry. apply (N.mod_unique _ _ 1); lia.
Qed.

Theorem rg_select0_wf bv d x :
  rg_wf bv d -> rg_ones d = bv_ones bv -> 1 <= x <= bv_zeros bv -> rg_select0 d x = bv_select0 bv x.
Proof.
  intros Hwf Hones Hx. pose proof Hwf as (Hn & Hf & Hs' & Hint & Hdata & Hrs & Hbound).
  assert (HW : W32 = 4294967296) by reflexivity.
  assert (HW6 : W64 = 18446744073709551616) by reflexivity.
  pose proof (countb_compl bv) as Hcomp. unfold bv_ones, bv_zeros in *.
  destruct (selb_exists false bv x Hx) as (p & Hp). unfold bv_select0. rewrite Hp.
  destruct (selb_spec _ _ _ _ Hp) as (Hpn & _).
  assert (Hux : u32 x = x) by (unfold u32; apply N.mod_small; lia).
  unfold rg_select0. cbv zeta. rewrite !Hux.
  rewrite Hones, Hn.
  unfold u64 at 1. rewrite <- (N.mod_unique (lenN bv + W64 - countb true bv) W64 1 (countb false bv)) by lia.
  replace (countb false bv <? x) with false by lia. replace (x =? 0) with false by lia.
  destruct (select_search_spec false (fun mid v => u32 (u64 (mid * rg_factor d * 32 + W64 - v))) bv d x Hwf)
    as (mid & Hsr & Hmid & Hg); [|lia|].
  { intros k v Hk Hv. rewrite (Hrs k Hk) in Hv. injection Hv as <-. unfold gb.
    pose proof (wf_superblock_words bv d k Hwf Hk) as Hkw.
    set (ws := firstn (N.to_nat (k * rg_factor d)) (rg_data d)).
    pose proof (countb_compl (flat ws)) as Hc. rewrite <- sumpop_flat in Hc.
    assert (Hl : lenN (flat ws) = 32 * (k * rg_factor d)).
    { rewrite flat_lenN. unfold ws. rewrite lenN_firstn, Hdata, words_of_bits_length. lia. }
    rewrite Hl in Hc.
    unfold u64. rewrite <- (N.mod_unique (k * rg_factor d * 32 + W64 - sumpop ws) W64 1 (countb false (flat ws))) by lia.
    unfold u32. apply N.mod_small. lia. }
  rewrite Hsr.
  rewrite (select_tail_spec false zcount zcount8 bv d x mid p Hwf zcount_spec zcount8_spec Hmid Hg) by
    (try lia; rewrite Hdata, selb_flat_bv by exact Hx; exact Hp).
  unfold u32. rewrite <- (N.mod_unique (p + 1 + W32 - 1) W32 1 p) by lia.
  replace (lenN bv <? p) with false by lia. reflexivity.
Qed.

(* arguments outside the domain of the plain definition *)
Lemma rg_select1_above d x : rg_ones d < u32 x -> rg_select1 d x = Some (W32 - 1).
Proof. intros H. unfold rg_select1. cbv zeta. replace (rg_ones d <? u32 x) with true by lia. reflexivity. Qed.

Lemma rg_select0_above d x : u64 (rg_n d + W64 - rg_ones d) < u32 x -> rg_select0 d x = Some (W32 - 1).
Proof. intros H. unfold rg_select0. cbv zeta. replace (u64 (rg_n d + W64 - rg_ones d) <? u32 x) with true by lia. reflexivity. Qed.

Lemma rg_select0_zero d : rg_select0 d 0 = Some 0.
Proof.
  unfold rg_select0. cbv zeta. change (u32 0) with 0.
  replace (u64 (rg_n d + W64 - rg_ones d) <? 0) with false by lia. reflexivity.
Qed.

(* select1(0): the binary search never moves l, r = mid - 1 wraps around at mid = 0 and the
   next probe Rs[0x7fffffff] is out of bounds (the loop cannot terminate any other way) *)
Lemma bsearch_zero_oob key rs fuel : lenN rs < 2147483647 ->
  forall r mid rankmid, rg_bsearch key rs 0 fuel 0 r mid rankmid = None.
Proof.
  intros Hl. induction fuel as [|f IH]; intros r mid rankmid; cbn [rg_bsearch];
    replace (0 <=? r) with true by lia; [reflexivity|].
  replace (rankmid <? 0) with false by lia.
  destruct (rdN rs (u32 (0 + u32 (mid + W32 - 1)) / 2)) eqn:E; [apply IH|reflexivity].
Qed.

Theorem rg_select1_zero_oob d : lenN (rg_rs d) < 2147483647 -> rg_select1 d 0 = None.
Proof.
  intros Hl. unfold rg_select1. change (u32 0) with 0. cbv zeta. replace (rg_ones d <? 0) with false by lia.
  unfold rg_select_search. destruct (rdN (rg_rs d) _); [|reflexivity].
  rewrite bsearch_zero_oob by exact Hl. reflexivity.
Qed.

(* ================================================================== *)
(* C.1  stable partition of a sequence by one bit of the symbol code   *)
(* ================================================================== *)
Section Partition.
  Variable f : N -> bool.                      (* the code bit looked at by this node *)
  Definition childb (b : bool) (s : list N) : list N := filter (fun x => Bool.eqb (f x) b) s.

  Lemma childb_true s : childb true s = filter f s.
  Proof. apply filter_ext. intros x. destruct (f x); reflexivity. Qed.
  Lemma childb_false s : childb false s = filter (fun x => negb (f x)) s.
  Proof. apply filter_ext. intros x. destruct (f x); reflexivity. Qed.

  Lemma childb_len b s : lenN (childb b s) = countb b (map f s).
  Proof.
    induction s as [|x t IH]; [reflexivity|]. cbn [childb filter map countb]. fold (childb b t).
    destruct (Bool.eqb (f x) b); [rewrite lenN_cons, IH; lia|rewrite IH; lia].
  Qed.

  Lemma childb_le b s : lenN (childb b s) <= lenN s.
  Proof. rewrite childb_len. pose proof (countb_le_len b (map f s)) as H. unfold lenN in *. rewrite map_length in H. exact H. Qed.

  Lemma childb_In b s x : In x (childb b s) -> In x s /\ f x = b.
  Proof. unfold childb. rewrite filter_In. intros [H1 H2]. split; [exact H1|]. apply eqb_prop. exact H2. Qed.

  (* rank maps down *)
  Lemma part_rank c s : forall k,
    countb true (firstn k (seq_bits c s)) =
    countb true (firstn (N.to_nat (countb (f c) (firstn k (map f s)))) (seq_bits c (childb (f c) s))).
  Proof.
    induction s as [|x t IH]; intros k.
    - cbn. rewrite !firstn_nil. reflexivity.
    - destruct k as [|k]; [reflexivity|].
      cbn [seq_bits map firstn countb childb filter]. fold (childb (f c) t). fold (seq_bits c t).
      destruct (Bool.eqb (f x) (f c)) eqn:E.
      + replace (N.to_nat (1 + countb (f c) (firstn k (map f t)))) with (S (N.to_nat (countb (f c) (firstn k (map f t))))) by lia.
        cbn [seq_bits map firstn countb]. fold (seq_bits c (childb (f c) t)). rewrite <- IH. reflexivity.
      + rewrite N.add_0_l, <- IH.
        destruct (N.eqb_spec c x) as [->|Hne]; [rewrite eqb_reflx in E; discriminate|]. cbn [Bool.eqb]. lia.
  Qed.

  (* select maps up *)
  Lemma part_select c s : forall j p,
    selb true (seq_bits c s) j = Some p ->
    exists q, selb true (seq_bits c (childb (f c) s)) j = Some q /\ selb (f c) (map f s) (q + 1) = Some p.
  Proof.
    induction s as [|x t IH]; intros j p H; [cbn in H; discriminate|].
    cbn [seq_bits map selb childb filter] in *. fold (childb (f c) t). fold (seq_bits c t) in *.
    destruct (N.eqb_spec c x) as [<-|Hne].
    - rewrite eqb_reflx. cbn [Bool.eqb] in H. cbn [seq_bits map selb]. rewrite N.eqb_refl. cbn [Bool.eqb].
      fold (seq_bits c (childb (f c) t)).
      destruct (N.eqb_spec j 1) as [->|Hj].
      + injection H as <-. exists 0. split; reflexivity.
      + apply option_map_Some in H. destruct H as (p' & Hp' & ->).
        destruct (IH _ _ Hp') as (q' & Hq1 & Hq2). exists (N.succ q'). rewrite Hq1. split; [reflexivity|].
        replace (N.succ q' + 1 =? 1) with false by lia. replace (N.succ q' + 1 - 1) with (q' + 1) by lia.
        rewrite Hq2. reflexivity.
    - cbn [Bool.eqb] in H. apply option_map_Some in H. destruct H as (p' & Hp' & ->).
      destruct (IH _ _ Hp') as (q' & Hq1 & Hq2).
      destruct (Bool.eqb (f x) (f c)) eqn:E.
      + exists (N.succ q'). cbn [seq_bits map selb]. replace (c =? x) with false by lia. cbn [Bool.eqb].
        fold (seq_bits c (childb (f c) t)). rewrite Hq1. split; [reflexivity|].
        replace (N.succ q' + 1 =? 1) with false by lia. replace (N.succ q' + 1 - 1) with (q' + 1) by lia.
        rewrite Hq2. reflexivity.
      + exists q'. split; [exact Hq1|]. rewrite Hq2. reflexivity.
  Qed.

  (* access maps down *)
  Lemma part_access s : forall p, (p < length s)%nat ->
    let b := f (nth p s 0) in
    1 <= countb b (firstn (S p) (map f s)) /\
    nth_error s p = nth_error (childb b s) (N.to_nat (countb b (firstn (S p) (map f s)) - 1)).
  Proof.
    induction s as [|x t IH]; intros p Hp; [cbn in Hp; lia|].
    destruct p as [|p].
    - cbn [nth]. cbv zeta. cbn [map firstn countb childb filter]. rewrite eqb_reflx. cbn. split; [lia|reflexivity].
    - cbn [nth]. cbv zeta. cbn [length] in Hp. destruct (IH p) as (H1 & H2); [lia|]. cbv zeta in H1, H2.
      set (b := f (nth p t 0)) in *.
      change (firstn (S (S p)) (map f (x :: t))) with (f x :: firstn (S p) (map f t)).
      change (nth_error (x :: t) (S p)) with (nth_error t p).
      cbn [countb childb filter]. fold (childb b t).
      destruct (Bool.eqb (f x) b).
      + split; [lia|]. rewrite H2.
        replace (N.to_nat (1 + countb b (firstn (S p) (map f t)) - 1)) with (S (N.to_nat (countb b (firstn (S p) (map f t)) - 1))) by lia.
        reflexivity.
      + rewrite N.add_0_l. split; [exact H1|exact H2].
  Qed.
End Partition.

(* sequences consisting of one symbol *)
Lemma all_same_Forall x t : all_same (x :: t) = true -> Forall (eq x) (x :: t).
Proof.
  cbn [all_same]. intros H. constructor; [reflexivity|]. rewrite forallb_forall in H.
  apply Forall_forall. intros y Hy. apply N.eqb_eq. apply H. exact Hy.
Qed.

Lemma all_same_false c : all_same c = false -> exists a b, In a c /\ In b c /\ a <> b.
Proof.
  destruct c as [|x t]; [discriminate|]. cbn [all_same]. intros H.
  assert (Hex : exists y, In y t /\ (x =? y) = false).
  { induction t as [|y t IH]; [discriminate|]. cbn [forallb] in H.
    destruct (x =? y) eqn:Exy.
    - cbn in H. destruct (IH H) as (z & Hz & Hxz). exists z. split; [right; exact Hz|exact Hxz].
    - exists y. split; [left; reflexivity|exact Exy]. }
  destruct Hex as (y & Hy & Hxy). exists x, y. split; [left; reflexivity|]. split; [right; exact Hy|].
  apply N.eqb_neq. exact Hxy.
Qed.

Lemma seq_bits_same x c : Forall (eq x) c -> seq_bits x c = repeat true (length c).
Proof.
  induction 1 as [|y t Hy Ht IH]; [reflexivity|]. subst y. cbn [seq_bits map length repeat].
  rewrite N.eqb_refl. f_equal. exact IH.
Qed.

Lemma seq_bits_other sym x c : sym <> x -> Forall (eq x) c -> seq_bits sym c = repeat false (length c).
Proof.
  intros Hne. induction 1 as [|y t Hy Ht IH]; [reflexivity|]. subst y. cbn [seq_bits map length repeat].
  replace (sym =? x) with false by lia. f_equal. exact IH.
Qed.

Lemma countb_repeat_eq b k : countb b (repeat b k) = N.of_nat k.
Proof. induction k as [|k IH]; [reflexivity|]. cbn [repeat countb]. rewrite eqb_reflx, IH. lia. Qed.

Lemma firstn_repeat_min {A} (x : A) n k : firstn k (repeat x n) = repeat x (Nat.min k n).
Proof.
  revert n. induction k as [|k IH]; intros n; [reflexivity|].
  destruct n as [|n]; [reflexivity|]. cbn [repeat firstn Nat.min]. f_equal. apply IH.
Qed.

Lemma prefix_count_repeat b n k : k <= N.of_nat n -> prefix_count b (repeat b n) k = k.
Proof.
  intros H. unfold prefix_count. rewrite firstn_repeat_min. rewrite countb_repeat_eq. lia.
Qed.

(* ================================================================== *)
(* C.2  the pointer wavelet tree over an abstract bitmap               *)
(* ================================================================== *)

Lemma dec64_spec x : x < W64 -> dec64 x < W64 /\ u64 (dec64 x + 1) = x.
Proof.
  intros H. assert (HW6 : W64 = 18446744073709551616) by reflexivity.
  unfold dec64, u64. destruct (N.eq_dec x 0) as [->|Hx].
  - vm_compute. split; reflexivity.
  - rewrite <- (N.mod_unique (x + W64 - 1) W64 1 (x - 1)) by lia.
    split; [lia|]. rewrite N.mod_small; lia.
Qed.

Lemma dec64_pos x : 1 <= x < W64 -> dec64 x = x - 1.
Proof.
  intros H. assert (HW6 : W64 = 18446744073709551616) by reflexivity.
  unfold dec64, u64. symmetry. apply (N.mod_unique _ _ 1); lia.
Qed.

Section WTProofs.
  Variable B : Type.
  Variable bbuild : list bool -> B.
  Variable baccess : B -> N -> bool.
  Variable brank1 : B -> N -> N.
  Variable bselect1 bselect0 : B -> N -> N.
  Variable is_set : N -> nat -> bool.
  Variable maxlen : N.
  Hypothesis Hmax : maxlen <= W32 - 2.
  (* the plain laws of part A, for every bitmap the builder may be asked for *)
  Hypothesis Hacc : forall bits i, lenN bits < maxlen -> i < lenN bits -> baccess (bbuild bits) i = bv_access bits i.
  Hypothesis Hrank : forall bits i, lenN bits < maxlen -> i < lenN bits -> brank1 (bbuild bits) i = bv_rank1 bits i.
  Hypothesis Hrank_m1 : forall bits, lenN bits < maxlen -> brank1 (bbuild bits) (W64 - 1) = 0.
  Hypothesis Hsel1 : forall bits j p, lenN bits < maxlen -> bv_select1 bits j = Some p -> bselect1 (bbuild bits) j = p.
  Hypothesis Hsel0 : forall bits j p, lenN bits < maxlen -> bv_select0 bits j = Some p -> bselect0 (bbuild bits) j = p.

  Let HW : W32 = 4294967296 := eq_refl.
  Let HW6 : W64 = 18446744073709551616 := eq_refl.

  Notation build := (wt_build B bbuild is_set).
  Notation nrank := (wtn_rank B brank1 is_set).
  Notation nselect := (wtn_select B bselect1 bselect0 is_set).
  Notation naccess := (wtn_access B baccess brank1).

  Definition rankb (b : bool) (bm : B) (pos : N) : N := if b then brank1 bm pos else brank0 B brank1 bm pos.

  Lemma rankb_spec bits b pos :
    lenN bits < maxlen -> pos < W64 -> u64 (pos + 1) <= lenN bits ->
    rankb b (bbuild bits) pos = prefix_count b bits (u64 (pos + 1)).
  Proof.
    intros Hl Hp Hk. unfold rankb, brank0.
    destruct (N.eq_dec pos (W64 - 1)) as [->|Hne].
    - replace (u64 (W64 - 1 + 1)) with 0 by (vm_compute; reflexivity). rewrite Hrank_m1 by exact Hl.
      destruct b; [reflexivity|]. vm_compute. reflexivity.
    - assert (E : u64 (pos + 1) = pos + 1) by (unfold u64; apply N.mod_small; lia).
      rewrite E in *. rewrite Hrank by lia. unfold bv_rank1.
      destruct b; [reflexivity|].
      pose proof (prefix_count_compl bits (pos + 1) Hk) as Hc.
      unfold u64. symmetry. apply (N.mod_unique _ _ 1); lia.
  Qed.

  (* the child constructor written inline in wt_build *)
  Definition wt_child (f l : nat) (c : list N) : wt B :=
    match c with
    | [] => WNull
    | x :: _ => if all_same c then WLeaf x (lenN c) else build f (S l) c
    end.

  Lemma wt_build_S f l s :
    build (S f) l s = WNode (bbuild (map (fun x => is_set x l) s))
                            (wt_child f l (childb (fun x => is_set x l) false s))
                            (wt_child f l (childb (fun x => is_set x l) true s)).
  Proof. rewrite childb_false, childb_true. reflexivity. Qed.

  Lemma wt_child_nonnull f l c : c <> [] -> wt_child f l c <> WNull.
  Proof.
    destruct c as [|x t]; [congruence|]. intros _. unfold wt_child.
    destruct (all_same (x :: t)); [discriminate|]. destruct f; cbn; discriminate.
  Qed.

  (* a node (sub)tree answers for the (sub)sequence c *)
  Definition good (t : wt B) (c : list N) (l : nat) : Prop :=
    (forall sym pos, pos < W64 -> u64 (pos + 1) <= lenN c ->
        nrank t sym pos l = prefix_count true (seq_bits sym c) (u64 (pos + 1))) /\
    (forall sym j p, selb true (seq_bits sym c) j = Some p -> nselect t sym j l = p + 1) /\
    (forall p, p < lenN c -> naccess t p = nthN c p).

  Lemma good_null l : good WNull [] l.
  Proof.
    repeat split.
    - intros sym pos _ _. cbn. unfold prefix_count. now rewrite firstn_nil.
    - intros sym j p H. cbn in H. discriminate.
    - intros p H. unfold lenN in H. cbn in H. lia.
  Qed.

  Lemma good_leaf x c l : Forall (eq x) c -> lenN c < maxlen -> good (WLeaf x (lenN c)) c l.
  Proof.
    intros Hall Hlen. repeat split.
    - intros sym pos Hp Hk. cbn [wtn_rank]. destruct (N.eqb_spec sym x) as [->|Hne].
      + rewrite seq_bits_same by exact Hall. rewrite prefix_count_repeat; [reflexivity|]. unfold lenN in Hk. exact Hk.
      + rewrite (seq_bits_other sym x c Hne Hall).
        pose proof (prefix_count_le_total true (repeat false (length c)) (u64 (pos + 1))) as H.
        rewrite countb_repeat_neq in H by discriminate. lia.
    - intros sym j p H. cbn [wtn_select]. destruct (N.eqb_spec sym x) as [->|Hne].
      + rewrite seq_bits_same in H by exact Hall.
        destruct (selb_spec _ _ _ _ H) as (H1 & _ & H3 & H4 & _).
        unfold lenN in H1. rewrite repeat_length in H1.
        rewrite prefix_count_repeat in H3 by lia. cbn [negb].
        replace (j =? 0) with false by lia. replace (lenN c <? j) with false by (unfold lenN; lia). cbn. lia.
      + rewrite (seq_bits_other sym x c Hne Hall) in H.
        destruct (selb_spec _ _ _ _ H) as (_ & _ & _ & H4 & H5).
        rewrite countb_repeat_neq in H5 by discriminate. lia.
    - intros p Hp. cbn [wtn_access]. unfold nthN.
      destruct (nth_error c (N.to_nat p)) as [y|] eqn:E.
      + apply nth_error_In in E. rewrite Forall_forall in Hall. now rewrite (Hall y E).
      + apply nth_error_None in E. unfold lenN in Hp. lia.
  Qed.

  Lemma select_node bm lc rc sym j l :
    (if is_set sym l then rc else lc) <> WNull ->
    nselect (WNode bm lc rc) sym j l =
    let new_pos := nselect (if is_set sym l then rc else lc) sym j (S l) in
    if u64 (new_pos + 1) =? 0 then W32 - 1
    else let ret := u64 ((if is_set sym l then bselect1 bm new_pos else bselect0 bm new_pos) + 1) in
         if ret =? 0 then W64 - 1 else ret.
  Proof.
    intros H. cbn [wtn_select]. destruct (is_set sym l); [destruct rc|destruct lc]; try congruence; reflexivity.
  Qed.

  Lemma node_good f l s :
    lenN s < maxlen ->
    good (wt_child f l (childb (fun x => is_set x l) false s)) (childb (fun x => is_set x l) false s) (S l) ->
    good (wt_child f l (childb (fun x => is_set x l) true s)) (childb (fun x => is_set x l) true s) (S l) ->
    good (build (S f) l s) s l.
  Proof.
    intros Hlen Hgl Hgr. rewrite wt_build_S.
    set (fl := fun x => is_set x l) in *. set (bits := map fl s). set (bm := bbuild bits).
    assert (Hbl : lenN bits = lenN s) by (unfold bits, lenN; now rewrite map_length).
    assert (Hg : forall b, good (wt_child f l (childb fl b s)) (childb fl b s) (S l)) by (intros [|]; assumption).
    repeat split.
    - (* rank *)
      intros sym pos Hp Hk. cbn [wtn_rank]. change (is_set sym l) with (fl sym).
      pose proof (rankb_spec bits (fl sym) pos) as Hr. rewrite Hbl in Hr. specialize (Hr Hlen Hp Hk). fold bm in Hr.
      set (k' := prefix_count (fl sym) bits (u64 (pos + 1))) in *.
      assert (Hk' : k' <= lenN (childb fl (fl sym) s)) by (rewrite childb_len; apply prefix_count_le_total).
      pose proof (childb_le fl (fl sym) s) as Hcl.
      destruct (dec64_spec k') as (Hd1 & Hd2); [lia|].
      destruct (Hg (fl sym)) as (Hgr1 & _ & _).
      specialize (Hgr1 sym (dec64 k') Hd1). rewrite Hd2 in Hgr1. specialize (Hgr1 Hk').
      assert (Hpart : prefix_count true (seq_bits sym (childb fl (fl sym) s)) k' =
                      prefix_count true (seq_bits sym s) (u64 (pos + 1))).
      { unfold k', prefix_count, bits. symmetry. apply part_rank. }
      unfold rankb in Hr. destruct (fl sym); rewrite Hr, Hgr1; exact Hpart.
    - (* select *)
      intros sym j p H. destruct (part_select fl sym s j p H) as (q & Hq1 & Hq2).
      assert (Hne : childb fl (fl sym) s <> []).
      { intros E. rewrite E in Hq1. cbn in Hq1. discriminate. }
      destruct (selb_spec _ _ _ _ Hq1) as (Hqlen & _).
      assert (Hqb : q < lenN s).
      { pose proof (childb_le fl (fl sym) s). unfold lenN, seq_bits in Hqlen. rewrite map_length in Hqlen. unfold lenN in *. lia. }
      destruct (selb_spec _ _ _ _ H) as (Hplen & _).
      assert (Hpb : p < lenN s) by (unfold lenN, seq_bits in Hplen; rewrite map_length in Hplen; exact Hplen).
      destruct (Hg (fl sym)) as (_ & Hgs & _). specialize (Hgs sym j q Hq1).
      rewrite select_node.
      2:{ change (is_set sym l) with (fl sym). destruct (fl sym); apply wt_child_nonnull; exact Hne. }
      cbv zeta. change (is_set sym l) with (fl sym).
      assert (Hnp : nselect (if fl sym then wt_child f l (childb fl true s) else wt_child f l (childb fl false s)) sym j (S l) = q + 1).
      { destruct (fl sym); exact Hgs. }
      rewrite Hnp.
      assert (E1 : u64 (q + 1 + 1) =? 0 = false).
      { unfold u64. rewrite N.mod_small by lia. lia. }
      rewrite E1.
      assert (Hsel : (if fl sym then bselect1 bm (q + 1) else bselect0 bm (q + 1)) = p).
      { destruct (fl sym); [apply Hsel1|apply Hsel0]; try (rewrite Hbl; exact Hlen); exact Hq2. }
      rewrite Hsel. unfold u64. rewrite N.mod_small by lia. replace (p + 1 =? 0) with false by lia. reflexivity.
    - (* access *)
      intros p Hp. cbn [wtn_access]. fold bm.
      assert (Hacc' : baccess bm p = fl (nth (N.to_nat p) s 0)).
      { unfold bm. rewrite Hacc by lia. unfold bv_access, bits.
        rewrite (nth_indep _ false (fl 0)) by (rewrite map_length; unfold lenN in Hp; lia).
        apply (map_nth fl s 0). }
      destruct (part_access fl s (N.to_nat p)) as (Hc1 & Hc2); [unfold lenN in Hp; lia|]. cbv zeta in Hc1, Hc2.
      set (b := fl (nth (N.to_nat p) s 0)) in *.
      pose proof (rankb_spec bits b p) as Hr. rewrite Hbl in Hr.
      assert (E : u64 (p + 1) = p + 1) by (unfold u64; apply N.mod_small; lia).
      rewrite E in Hr. specialize (Hr Hlen ltac:(lia) ltac:(lia)). fold bm in Hr.
      assert (Hcnt : prefix_count b bits (p + 1) = countb b (firstn (S (N.to_nat p)) (map fl s))).
      { unfold prefix_count, bits. do 2 f_equal. lia. }
      rewrite Hcnt in Hr. set (cnt := countb b (firstn (S (N.to_nat p)) (map fl s))) in *.
      assert (Hcl : cnt <= lenN (childb fl b s)) by (rewrite childb_len; unfold cnt; apply countb_firstn_le).
      pose proof (childb_le fl b s) as Hcs.
      destruct (Hg b) as (_ & _ & Hga). specialize (Hga (cnt - 1) ltac:(lia)).
      unfold nthN in Hga |- *. rewrite Hc2, <- Hga.
      rewrite Hacc'. unfold rankb in Hr. destruct b; rewrite Hr, dec64_pos by lia; reflexivity.
  Qed.

  (* codes that tell the symbols of the sequence apart within [f] levels from level [l] on
     (a prefix-free code does, with f = the longest codeword) *)
  Definition separable (f l : nat) (s : list N) : Prop :=
    forall a b, In a s -> In b s -> a <> b -> exists k, (l <= k < l + f)%nat /\ is_set a k <> is_set b k.

  Lemma separable_child f l s b :
    separable f l s -> separable (pred f) (S l) (childb (fun x => is_set x l) b s).
  Proof.
    intros H a c Ha Hc Hne. apply childb_In in Ha. apply childb_In in Hc.
    destruct Ha as (Ha & Hab), Hc as (Hc & Hcb).
    destruct (H a c Ha Hc Hne) as (k & Hk & Hd). exists k. split; [|exact Hd].
    assert (k <> l) by (intros ->; congruence). lia.
  Qed.

  Lemma child_good f l c :
    lenN c < maxlen -> separable (pred f) (S l) c ->
    (forall f', f = S f' -> forall l' s', lenN s' < maxlen -> separable f' l' s' -> good (build (S f') l' s') s' l') ->
    good (wt_child f l c) c (S l).
  Proof.
    intros Hlen Hsep IH. destruct c as [|x t]; [apply good_null|].
    unfold wt_child. destruct (all_same (x :: t)) eqn:E.
    - apply good_leaf; [apply all_same_Forall; exact E|exact Hlen].
    - destruct (all_same_false _ E) as (a & b & Ha & Hb & Hab).
      destruct (Hsep a b Ha Hb Hab) as (k & Hk & _).
      destruct f as [|f']; [cbn [pred] in Hk; lia|]. cbn [pred] in Hsep.
      apply (IH f' eq_refl); [exact Hlen|exact Hsep].
  Qed.

  Lemma wt_build_good : forall f l s,
    lenN s < maxlen -> separable f l s -> good (build (S f) l s) s l.
  Proof.
    induction f as [|f IH]; intros l s Hlen Hsep.
    - apply node_good; [exact Hlen| |];
        (apply child_good; [pose proof (childb_le (fun x => is_set x l) false s); pose proof (childb_le (fun x => is_set x l) true s); lia
                           |apply (separable_child 0 l s _ Hsep)
                           |intros f' Hf'; discriminate]).
    - apply node_good; [exact Hlen| |];
        (apply child_good; [pose proof (childb_le (fun x => is_set x l) false s); pose proof (childb_le (fun x => is_set x l) true s); lia
                           |apply (separable_child (S f) l s _ Hsep)
                           |intros f' Hf'; injection Hf' as <-; exact IH]).
  Qed.

  (* ---- the three operations of WaveletTree (identity mapper) ---- *)
  Theorem wt_access_correct depth s i :
    lenN s < maxlen -> separable depth 0 s -> i < lenN s ->
    wt_access B baccess brank1 (wt_new B bbuild is_set depth s) i = seq_access s i.
  Proof.
    intros Hlen Hsep Hi. destruct (wt_build_good depth 0 s Hlen Hsep) as (_ & _ & Ha).
    unfold wt_access, wt_new, seq_access. apply Ha. exact Hi.
  Qed.

  Theorem wt_rank_correct depth s c i :
    lenN s < maxlen -> separable depth 0 s -> i < lenN s ->
    wt_rank B brank1 is_set (wt_new B bbuild is_set depth s) c i = seq_rank c s i.
  Proof.
    intros Hlen Hsep Hi. destruct (wt_build_good depth 0 s Hlen Hsep) as (Hr & _ & _).
    unfold wt_rank, wt_new, seq_rank, bv_rank1.
    assert (E : u64 (i + 1) = i + 1) by (unfold u64; apply N.mod_small; lia).
    rewrite <- E. apply Hr; [lia|]. rewrite E. lia.
  Qed.

  Theorem wt_select_correct depth s c j p :
    lenN s < maxlen -> separable depth 0 s -> seq_select c s j = Some p ->
    wt_select B bselect1 bselect0 is_set (wt_new B bbuild is_set depth s) c j = p.
  Proof.
    intros Hlen Hsep Hs. destruct (wt_build_good depth 0 s Hlen Hsep) as (_ & Hsel & _).
    unfold seq_select, bv_select1 in Hs.
    destruct (selb_spec _ _ _ _ Hs) as (Hp & _).
    assert (Hpb : p < lenN s) by (unfold lenN, seq_bits in Hp; rewrite map_length in Hp; exact Hp).
    unfold wt_select, wt_new. rewrite (Hsel c j p Hs).
    unfold u32. rewrite (N.mod_small (p + 1)) by lia.
    replace (p + 1 =? W32 - 1) with false by lia.
    symmetry. apply (N.mod_unique _ _ 1); lia.
  Qed.
End WTProofs.

(* ---- a prefix-free code separates the symbols ---- *)
Definition is_prefix (u v : list bool) : Prop := exists w, v = u ++ w.

Lemma not_prefix_differ u : forall v, ~ is_prefix u v -> ~ is_prefix v u ->
  exists k, (k < length u)%nat /\ (k < length v)%nat /\ nth k u false <> nth k v false.
Proof.
  induction u as [|a u IH]; intros v H1 H2.
  - exfalso. apply H1. exists v. reflexivity.
  - destruct v as [|b v]; [exfalso; apply H2; exists (a :: u); reflexivity|].
    destruct (Bool.bool_dec a b) as [->|Hab].
    + destruct (IH v) as (k & Hk1 & Hk2 & Hk3).
      * intros (w & Hw). apply H1. exists w. cbn. now rewrite Hw.
      * intros (w & Hw). apply H2. exists w. cbn. now rewrite Hw.
      * exists (S k). cbn [length nth]. repeat split; try lia. exact Hk3.
    + exists 0%nat. cbn [length nth]. repeat split; try lia. exact Hab.
Qed.

Theorem prefix_free_separable (code : N -> list bool) depth s :
  (forall a b, In a s -> In b s -> a <> b -> ~ is_prefix (code a) (code b)) ->
  (forall a, In a s -> (length (code a) <= depth)%nat) ->
  separable (fun x k => nth k (code x) false) depth 0 s.
Proof.
  intros Hpf Hlen a b Ha Hb Hab.
  destruct (not_prefix_differ (code a) (code b)) as (k & Hk1 & Hk2 & Hk3).
  - apply Hpf; assumption.
  - apply Hpf; try assumption. congruence.
  - exists k. split; [|exact Hk3]. pose proof (Hlen a Ha). lia.
Qed.

(* ---- the instance used by the dictionaries: BitSequenceBuilderRG(factor) ---- *)
Section WTOverRG.
  Variable factor : N.
  Hypothesis Hfactor : 1 <= factor.

  Lemma rgt_built bits : lenN bits < W32 - 64 ->
    rg_wf bits (rgt_build factor bits) /\ rg_ones (rgt_build factor bits) = bv_ones bits.
  Proof.
    intros H. destruct (rg_build_wf bits factor Hfactor H) as (d & Hd & Hwf & Hones & _).
    unfold rgt_build. rewrite Hd. split; assumption.
  Qed.

  Lemma rgt_access_law bits i : lenN bits < W32 - 64 -> i < lenN bits ->
    rgt_access (rgt_build factor bits) i = bv_access bits i.
  Proof. intros H Hi. destruct (rgt_built bits H) as (Hwf & _). unfold rgt_access. now rewrite (rg_access_wf bits _ i Hwf Hi). Qed.

  Lemma rgt_rank_law bits i : lenN bits < W32 - 64 -> i < lenN bits ->
    rgt_rank1 (rgt_build factor bits) i = bv_rank1 bits i.
  Proof. intros H Hi. destruct (rgt_built bits H) as (Hwf & _). unfold rgt_rank1. now rewrite (rg_rank1_wf bits _ i Hwf Hi). Qed.

  Lemma rgt_rank_m1_law bits : lenN bits < W32 - 64 -> rgt_rank1 (rgt_build factor bits) (W64 - 1) = 0.
  Proof. intros H. destruct (rgt_built bits H) as (Hwf & _). unfold rgt_rank1. now rewrite (rg_rank1_minus1 bits _ Hwf). Qed.

  Lemma rgt_select1_law bits j p : lenN bits < W32 - 64 -> bv_select1 bits j = Some p ->
    rgt_select1 (rgt_build factor bits) j = p.
  Proof.
    intros H Hs. destruct (rgt_built bits H) as (Hwf & Hones).
    destruct (selb_spec _ _ _ _ Hs) as (_ & _ & _ & Hj).
    unfold rgt_select1. rewrite (rg_select1_wf bits _ j Hwf Hones Hj), Hs. reflexivity.
  Qed.

  Lemma rgt_select0_law bits j p : lenN bits < W32 - 64 -> bv_select0 bits j = Some p ->
    rgt_select0 (rgt_build factor bits) j = p.
  Proof.
    intros H Hs. destruct (rgt_built bits H) as (Hwf & Hones).
    destruct (selb_spec _ _ _ _ Hs) as (_ & _ & _ & Hj).
    unfold rgt_select0. rewrite (rg_select0_wf bits _ j Hwf Hones Hj), Hs. reflexivity.
  Qed.

  Lemma rg_maxlen_ok : W32 - 64 <= W32 - 2.
  Proof. vm_compute. discriminate. Qed.

  Variable is_set : N -> nat -> bool.
  Variable depth : nat.
  Variable s : list N.
  Hypothesis Hlen : lenN s < W32 - 64.
  Hypothesis Hsep : separable is_set depth 0 s.

  Definition wt_rg := wt_new rg (rgt_build factor) is_set depth s.

  Theorem wt_rg_access i : i < lenN s -> wt_access rg rgt_access rgt_rank1 wt_rg i = seq_access s i.
  Proof.
    apply (wt_access_correct rg (rgt_build factor) rgt_access rgt_rank1 rgt_select1 rgt_select0 is_set (W32 - 64) rg_maxlen_ok
             rgt_access_law rgt_rank_law rgt_rank_m1_law rgt_select1_law rgt_select0_law depth s i Hlen Hsep).
  Qed.

  Theorem wt_rg_rank c i : i < lenN s -> wt_rank rg rgt_rank1 is_set wt_rg c i = seq_rank c s i.
  Proof.
    apply (wt_rank_correct rg (rgt_build factor) rgt_access rgt_rank1 rgt_select1 rgt_select0 is_set (W32 - 64) rg_maxlen_ok
             rgt_access_law rgt_rank_law rgt_rank_m1_law rgt_select1_law rgt_select0_law depth s c i Hlen Hsep).
  Qed.

  Theorem wt_rg_select c j p : seq_select c s j = Some p ->
    wt_select rg rgt_select1 rgt_select0 is_set wt_rg c j = p.
  Proof.
    apply (wt_select_correct rg (rgt_build factor) rgt_access rgt_rank1 rgt_select1 rgt_select0 is_set (W32 - 64) rg_maxlen_ok
             rgt_access_law rgt_rank_law rgt_rank_m1_law rgt_select1_law rgt_select0_law depth s c j p Hlen Hsep).
  Qed.
End WTOverRG.


(* ================================================================== *)
(* B.5  save / load                                                    *)
(* ================================================================== *)

Lemma take_bytes_app a r : take_bytes (lenN a) (a ++ r) = Some (a, r).
Proof.
  unfold take_bytes. rewrite lenN_app. replace (lenN a <=? lenN a + lenN r) with true by lia.
  unfold lenN. rewrite Nat2N.id. now rewrite firstn_app_exact, skipn_app_exact.
Qed.

Lemma lenN_le_bytes k x : lenN (le_bytes k x) = N.of_nat k.
Proof. unfold lenN. now rewrite le_bytes_length. Qed.

Lemma flat_map_le4_length ws : lenN (flat_map (le_bytes 4) ws) = 4 * lenN ws.
Proof.
  induction ws as [|w t IH]; [reflexivity|]. cbn [flat_map]. rewrite lenN_app, lenN_le_bytes, IH, lenN_cons. lia.
Qed.

Lemma words32_roundtrip ws : Forall (fun w => w < W32) ws ->
  words32_of_bytes (length ws) (flat_map (le_bytes 4) ws) = ws.
Proof.
  induction 1 as [|w t Hw Ht IH]; [reflexivity|].
  cbn [length words32_of_bytes flat_map].
  rewrite firstn_app_exact by apply le_bytes_length. rewrite skipn_app_exact by apply le_bytes_length.
  rewrite le_value_le_bytes by (change (256 ^ N.of_nat 4) with W32; exact Hw). now rewrite IH.
Qed.

Lemma word_of_bits_lt l : word_of_bits l < 2 ^ lenN l.
Proof.
  induction l as [|b t IH]; [cbn; lia|].
  cbn [word_of_bits fold_right]. fold (word_of_bits t). rewrite lenN_cons.
  replace (1 + lenN t) with (N.succ (lenN t)) by lia. rewrite N.pow_succ_r'. destruct b; lia.
Qed.

Lemma words_of_bits_bounded bv : Forall (fun w => w < W32) (words_of_bits bv).
Proof.
  unfold words_of_bits. apply Forall_forall. intros w Hw. apply in_map_iff in Hw.
  destruct Hw as (q & <- & _).
  pose proof (word_of_bits_lt (firstn 32 (skipn (N.to_nat (32 * q)) bv))) as H.
  eapply N.lt_le_trans; [exact H|]. change W32 with (2 ^ 32). apply N.pow_le_mono_r; [lia|].
  rewrite lenN_firstn. lia.
Qed.

Lemma Forall_nthN {A} (P : A -> Prop) l :
  (forall k, k < lenN l -> exists v, nthN l k = Some v /\ P v) -> Forall P l.
Proof.
  intros H. apply Forall_forall. intros x Hx. apply In_nth_error in Hx. destruct Hx as (n & Hn).
  assert (Hl : (n < length l)%nat) by (apply nth_error_Some; congruence).
  destruct (H (N.of_nat n)) as (v & Hv & HP); [unfold lenN; lia|].
  unfold nthN in Hv. rewrite Nat2N.id in Hv. congruence.
Qed.

Lemma nth_error_firstn_lt {A} (l : list A) : forall m j, (j < m)%nat -> nth_error (firstn m l) j = nth_error l j.
Proof.
  induction l as [|x t IH]; intros m j H.
  - now rewrite firstn_nil.
  - destruct m as [|m]; [lia|]. destruct j as [|j]; cbn [firstn nth_error]; [reflexivity|]. apply IH. lia.
Qed.

Lemma nthN_firstn {A} (l : list A) m k : k < N.of_nat m -> nthN (firstn m l) k = nthN l k.
Proof. intros H. unfold nthN. apply nth_error_firstn_lt. lia. Qed.

(* the object a load produces from the image of d: the Rs slack entries are not saved *)
Definition rg_reloaded (d : rg) : rg :=
  mkRG (rg_n d) (rg_factor d) (rg_s d) (rg_integers d) (rg_data d)
       (firstn (N.to_nat (rg_n d / rg_s d + 1)) (rg_rs d)) (rg_ones d).

Lemma rg_reloaded_wf bv d : rg_wf bv d -> rg_wf bv (rg_reloaded d).
Proof.
  intros (Hn & Hf & Hs & Hint & Hdata & Hrs & Hb). unfold rg_wf, rg_reloaded; cbn [rg_n rg_factor rg_s rg_integers rg_data rg_rs].
  repeat split; try assumption.
  intros k Hk. cbn [rg_n rg_factor rg_s rg_integers rg_data rg_rs] in *.
  rewrite nthN_firstn by lia. apply Hrs. exact Hk.
Qed.

Theorem rg_load_save_wf bv d rest :
  rg_wf bv d -> rg_ones d = bv_ones bv -> rg_factor d < W32 ->
  exists img, rg_save d = Some img /\ rg_load (img ++ rest) = Some (rg_reloaded d, rest).
Proof.
  intros Hwf Hones Hfb. pose proof Hwf as (Hn & Hf & Hs & Hint & Hdata & Hrs & Hb).
  assert (HW : W32 = 4294967296) by reflexivity.
  assert (HW6 : W64 = 18446744073709551616) by reflexivity.
  assert (Hlen : lenN (rg_data d) = lenN bv / 32 + 1) by (rewrite Hdata; apply words_of_bits_length).
  assert (Hil : N.to_nat (rg_integers d) = length (rg_data d)) by (unfold lenN in *; lia).
  set (K := rg_n d / rg_s d) in *.
  assert (Hrl : K + 1 <= lenN (rg_rs d)).
  { pose proof (Hrs K (N.le_refl _)) as H. apply nthN_Some_lt in H. lia. }
  unfold rg_save. unfold take_exact.
  replace (rg_integers d <=? lenN (rg_data d)) with true by lia. fold K.
  replace (K + 1 <=? lenN (rg_rs d)) with true by lia.
  rewrite Hil, firstn_all.
  eexists. split; [reflexivity|].
  set (rw := firstn (N.to_nat (K + 1)) (rg_rs d)).
  assert (Hrwl : lenN rw = K + 1) by (unfold rw; rewrite lenN_firstn; lia).
  assert (Hrwb : Forall (fun w => w < W32) rw).
  { apply Forall_nthN. intros k Hk. rewrite Hrwl in Hk. unfold rw. rewrite nthN_firstn by lia.
    eexists. split; [apply Hrs; lia|].
    pose proof (sumpop_le (firstn (N.to_nat (k * rg_factor d)) (rg_data d))) as H.
    rewrite lenN_firstn in H. lia. }
  rewrite <- !app_assoc. unfold rg_load.
  change 4 with (lenN (le_bytes 4 BRW32_HDR)) at 1. rewrite take_bytes_app.
  change (le_value (le_bytes 4 BRW32_HDR) =? BRW32_HDR) with true. cbn [negb].
  replace 8 with (lenN (le_bytes 8 (rg_n d))) at 1 by apply lenN_le_bytes. rewrite take_bytes_app.
  replace 8 with (lenN (le_bytes 8 (rg_factor d))) at 1 by apply lenN_le_bytes. rewrite take_bytes_app.
  rewrite !le_value_le_bytes by (change (256 ^ N.of_nat 8) with W64; lia).
  assert (Hs64 : u64 (32 * rg_factor d) = rg_s d) by (unfold u64; rewrite N.mod_small; lia).
  rewrite Hs64. replace (rg_s d =? 0) with false by lia.
  assert (Hint' : u64 (rg_n d + 1) / 32 + (if u64 (rg_n d + 1) mod 32 =? 0 then 0 else 1) = rg_integers d).
  { unfold u64. rewrite N.mod_small by lia. rewrite Hint, Hn.
    destruct (N.eqb_spec ((lenN bv + 1) mod 32) 0); lia. }
  rewrite Hint'. fold K.
  replace (4 * rg_integers d) with (lenN (flat_map (le_bytes 4) (rg_data d))) by (rewrite flat_map_le4_length; lia).
  rewrite take_bytes_app.
  replace (4 * (K + 1)) with (lenN (flat_map (le_bytes 4) rw)) by (rewrite flat_map_le4_length; lia).
  rewrite take_bytes_app.
  rewrite Hil.
  replace (N.to_nat (K + 1)) with (length rw) by (unfold lenN in Hrwl; lia).
  rewrite !words32_roundtrip by (try exact Hrwb; rewrite Hdata; apply words_of_bits_bounded).
  pose proof (rg_reloaded_wf bv d Hwf) as Hwf'.
  assert (Hwf0 : rg_wf bv (mkRG (rg_n d) (rg_factor d) (rg_s d) (rg_integers d) (rg_data d) rw 0)).
  { unfold rg_reloaded in Hwf'. fold K in Hwf'. fold rw in Hwf'.
    destruct Hwf' as (H1 & H2 & H3 & H4 & H5 & H6 & H7). repeat split; assumption. }
  pose proof (rg_rank1_last bv _ Hwf0) as Hr. rewrite <- Hn in Hr. rewrite Hr.
  unfold rg_reloaded. fold K. fold rw. rewrite Hones. reflexivity.
Qed.


(* ================================================================== *)
(* B.6  the exported statements: every bit vector, every factor >= 1   *)
(* ================================================================== *)

Lemma rg_of_bits_inv bv factor d :
  1 <= factor -> lenN bv < W32 - 64 -> rg_of_bits bv factor = Some d ->
  rg_wf bv d /\ rg_ones d = bv_ones bv /\ rg_factor d = factor /\ lenN (rg_rs d) = lenN bv / (32 * factor) + 5.
Proof.
  intros Hf Hb Hd. destruct (rg_build_wf bv factor Hf Hb) as (d' & Hd' & H).
  rewrite Hd in Hd'. injection Hd' as <-. exact H.
Qed.

Section Exported.
  Variable bv : list bool.
  Variable factor : N.
  Variable d : rg.
  Hypothesis Hfactor : 1 <= factor.
  Hypothesis Hlen : lenN bv < W32 - 64.
  Hypothesis Hbuilt : rg_of_bits bv factor = Some d.

  Let Hinv := rg_of_bits_inv bv factor d Hfactor Hlen Hbuilt.

  Theorem rg_build_ok : exists d', rg_of_bits bv factor = Some d'.
  Proof. eauto. Qed.

  Theorem rg_rank1_spec i : i < lenN bv -> rg_rank1 d i = Some (bv_rank1 bv i).
  Proof. destruct Hinv as (Hwf & _). apply rg_rank1_wf. exact Hwf. Qed.

  Theorem rg_rank0_spec i : i < lenN bv -> rg_rank0 d i = Some (bv_rank0 bv i).
  Proof. destruct Hinv as (Hwf & _). apply rg_rank0_wf. exact Hwf. Qed.

  Theorem rg_access_spec i : i < lenN bv -> rg_access d i = Some (bv_access bv i).
  Proof. destruct Hinv as (Hwf & _). apply rg_access_wf. exact Hwf. Qed.

  Theorem rg_select1_spec j : 1 <= j <= bv_ones bv -> rg_select1 d j = bv_select1 bv j.
  Proof. destruct Hinv as (Hwf & Ho & _). apply rg_select1_wf; assumption. Qed.

  Theorem rg_select0_spec j : 1 <= j <= bv_zeros bv -> rg_select0 d j = bv_select0 bv j.
  Proof. destruct Hinv as (Hwf & Ho & _). apply rg_select0_wf; assumption. Qed.

  (* answers outside the domain of the plain definition, as the code gives them *)
  Theorem rg_select1_out_of_range j : bv_ones bv < j < W32 -> rg_select1 d j = Some (W32 - 1).
  Proof.
    intros Hj. destruct Hinv as (_ & Ho & _). apply rg_select1_above. rewrite Ho.
    unfold u32. rewrite N.mod_small; lia.
  Qed.

  Theorem rg_select0_out_of_range j : bv_zeros bv < j < W32 -> rg_select0 d j = Some (W32 - 1).
  Proof.
    intros Hj. destruct Hinv as ((Hn & _) & Ho & _). apply rg_select0_above. rewrite Ho, Hn.
    assert (HW6 : W64 = 18446744073709551616) by reflexivity.
    assert (HW : W32 = 4294967296) by reflexivity.
    pose proof (countb_compl bv) as Hc. unfold bv_ones, bv_zeros in *.
    unfold u64. rewrite <- (N.mod_unique (lenN bv + W64 - countb true bv) W64 1 (countb false bv)) by lia.
    unfold u32. rewrite N.mod_small; lia.
  Qed.

  Theorem rg_select0_of_zero : rg_select0 d 0 = Some 0.
  Proof. apply rg_select0_zero. Qed.

  (* the defect: select1(0) reads Rs[0x7fffffff] *)
  Theorem rg_select1_of_zero_oob : rg_select1 d 0 = None.
  Proof.
    destruct Hinv as (_ & _ & _ & Hl). apply rg_select1_zero_oob. rewrite Hl.
    assert (HW : W32 = 4294967296) by reflexivity.
    assert (Hq : lenN bv / (32 * factor) <= lenN bv / 32) by (apply N.div_le_compat_l; lia).
    revert Hq. generalize (lenN bv / (32 * factor)). intros q Hq. lia.
  Qed.

  (* no array read of the model fails for any in-range argument *)
  Theorem rg_no_oob :
    (forall i, i < lenN bv -> rg_access d i <> None /\ rg_rank1 d i <> None /\ rg_rank0 d i <> None) /\
    (forall j, 1 <= j <= bv_ones bv -> exists p, rg_select1 d j = Some p /\ p < lenN bv) /\
    (forall j, 1 <= j <= bv_zeros bv -> exists p, rg_select0 d j = Some p /\ p < lenN bv).
  Proof.
    repeat split.
    - rewrite rg_access_spec by assumption. discriminate.
    - rewrite rg_rank1_spec by assumption. discriminate.
    - rewrite rg_rank0_spec by assumption. discriminate.
    - intros j Hj. rewrite rg_select1_spec by exact Hj.
      destruct (bv_rank_select1 bv j Hj) as (p & Hp & Hlt & _). eauto.
    - intros j Hj. rewrite rg_select0_spec by exact Hj.
      destruct (bv_rank_select0 bv j Hj) as (p & Hp & Hlt & _). eauto.
  Qed.

  (* save then load (through any longer stream) gives an object with the same answers *)
  Theorem rg_load_save rest : factor < W32 ->
    exists img, rg_save d = Some img /\ rg_load (img ++ rest) = Some (rg_reloaded d, rest) /\
      (forall i, i < lenN bv ->
         rg_access (rg_reloaded d) i = Some (bv_access bv i) /\
         rg_rank1 (rg_reloaded d) i = Some (bv_rank1 bv i) /\
         rg_rank0 (rg_reloaded d) i = Some (bv_rank0 bv i)) /\
      (forall j, 1 <= j <= bv_ones bv -> rg_select1 (rg_reloaded d) j = bv_select1 bv j) /\
      (forall j, 1 <= j <= bv_zeros bv -> rg_select0 (rg_reloaded d) j = bv_select0 bv j).
  Proof.
    intros Hf32. destruct Hinv as (Hwf & Ho & Hfd & _).
    destruct (rg_load_save_wf bv d rest Hwf Ho) as (img & Hs & Hl); [rewrite Hfd; exact Hf32|].
    pose proof (rg_reloaded_wf bv d Hwf) as Hwf'.
    exists img. split; [exact Hs|]. split; [exact Hl|]. repeat split.
    - apply rg_access_wf; assumption.
    - apply rg_rank1_wf; assumption.
    - apply rg_rank0_wf; assumption.
    - intros j Hj. apply rg_select1_wf; assumption.
    - intros j Hj. apply rg_select0_wf; assumption.
  Qed.
End Exported.

(* the empty bit vector: the constructor works and every select is "not found" *)
Example rg_empty_ok :
  exists d, rg_of_bits [] 20 = Some d /\ rg_ones d = 0 /\ rg_select1 d 1 = Some (W32 - 1) /\
            rg_select0 d 1 = Some (W32 - 1) /\ rg_select0 d 0 = Some 0.
Proof.
  exists (match rg_of_bits [] 20 with Some d => d | None => rg_empty end). vm_compute. repeat split.
Qed.

(* the boolean separability checker is sound *)
Theorem separable_b_sound is_set depth s : separable_b is_set depth s = true -> separable is_set depth 0 s.
Proof.
  unfold separable_b. intros H a b Ha Hb Hab.
  rewrite forallb_forall in H. specialize (H a Ha). rewrite forallb_forall in H. specialize (H b Hb).
  apply orb_true_iff in H. destruct H as [H|H]; [apply N.eqb_eq in H; contradiction|].
  unfold differ_at in H. apply existsb_exists in H. destruct H as (k & Hk & Hx).
  apply in_seq in Hk. exists k. split; [lia|].
  destruct (is_set a k), (is_set b k); cbn in Hx; congruence.
Qed.
