(* C19 / rrr — BitSequenceRRR (word-exact model RRRDefs.v) agrees with the plain definitions of BitRGDefs section A.
   ONLY statements + `exact`; every proof is in RRRProofs.v. *)
From LibCSD Require Import Base Bytes LogSeqDefs BitRGDefs BitRGProofs Cds32Defs RRRDefs RRRProofs.
Local Open Scope N_scope.

(* ---- the universal table E = table_offset(15), as the C++ constructor builds it ---- *)
Theorem C19_rrr_table_block_to_offset : forall b, b < 2 ^ 15 ->
  exists o bn l, rrr_compute_offset rrr_E b = Some o /\ e_get_binomial rrr_E 15 (popcount b) = Some bn /\
    rrr_log2 rrr_E (popcount b) = Some l /\ o < bn /\ o < 2 ^ l /\ popcount b <= 15 /\
    rrr_short_bitmap rrr_E (popcount b) o = Some b.
Proof. exact rrr_table_block_to_offset. Qed.
Print Assumptions C19_rrr_table_block_to_offset.

Theorem C19_rrr_table_offset_to_block : forall c o bn, c <= 15 -> e_get_binomial rrr_E 15 c = Some bn -> o < bn ->
  exists b, rrr_short_bitmap rrr_E c o = Some b /\ b < 2 ^ 15 /\ popcount b = c /\ rrr_compute_offset rrr_E b = Some o.
Proof. exact rrr_table_offset_to_block. Qed.
Print Assumptions C19_rrr_table_offset_to_block.

Theorem C19_rrr_table_log2binomial : forall c bn, c <= 15 -> e_get_binomial rrr_E 15 c = Some bn ->
  rrr_log2 rrr_E c = Some (bits32 (bn - 1)).
Proof. exact rrr_table_log2binomial. Qed.
Print Assumptions C19_rrr_table_log2binomial.

Theorem C19_rrr_table_rows :
  map (e_get_binomial rrr_E 15) (rrr_range 16 0) =
    map Some [1; 15; 105; 455; 1365; 3003; 5005; 6435; 6435; 5005; 3003; 1365; 455; 105; 15; 1] /\
  map (e_get_log2binomial rrr_E 15) (rrr_range 16 0) =
    map Some [0; 4; 7; 9; 11; 12; 13; 13; 13; 13; 12; 11; 9; 7; 4; 0] /\
  e_offset_class rrr_E =
    [0; 1; 16; 121; 576; 1941; 4944; 9949; 16384; 22819; 27824; 30827; 32192; 32647; 32752; 32767; 32768].
Proof. exact rrr_E_rows. Qed.
Print Assumptions C19_rrr_table_rows.

(* ---- build: every bit vector with 1 <= n < 2^32, every sample rate >= 1; n = 0 ---- *)
Theorem C19_rrr_build_ok : forall bv sr, rrr_len_ok bv -> 1 <= sr < 4294967296 ->
  exists d, rrr_of_bits rrr_E bv sr = Some d /\ rrr_wf rrr_E bv sr d /\
    r_length d = lenN bv /\ r_ones d = bv_ones bv /\ r_C_len d = nblocks (lenN bv) /\
    r_sample_rate d = sr /\ 1 <= lenN (r_O d) /\ lenN (r_O d) = r_O_len d /\
    r_C_sampling_len d = nblocks (lenN bv) / sr + 2 /\ r_O_pos_len d = nblocks (lenN bv) / sr + 1.
Proof. exact rrr_build_ok. Qed.
Print Assumptions C19_rrr_build_ok.

Theorem C19_rrr_build_empty : forall E sr, 1 <= sr < 4294967296 ->
  rrr_of_bits E [] sr = Some (mkRRR 0 0 [] [0] 0 1 4 0 [0] [] 2 1 0 0 sr).
Proof. exact rrr_build_empty. Qed.
Print Assumptions C19_rrr_build_empty.

(* ---- queries = the plain definitions ---- *)
Theorem C19_rrr_access_spec : forall bv sr d, rrr_len_ok bv -> 1 <= sr < 4294967296 -> rrr_of_bits rrr_E bv sr = Some d ->
  forall i, i < lenN bv -> rrr_access rrr_E d i = Some (bv_access bv i).
Proof. exact rrr_access_spec. Qed.
Print Assumptions C19_rrr_access_spec.

Theorem C19_rrr_rank1_spec : forall bv sr d, rrr_len_ok bv -> 1 <= sr < 4294967296 -> rrr_of_bits rrr_E bv sr = Some d ->
  forall i, i < lenN bv -> rrr_rank1 rrr_E d i = Some (bv_rank1 bv i).
Proof. exact rrr_rank1_spec. Qed.
Print Assumptions C19_rrr_rank1_spec.

Theorem C19_rrr_rank0_spec : forall bv sr d, rrr_len_ok bv -> 1 <= sr < 4294967296 -> rrr_of_bits rrr_E bv sr = Some d ->
  forall i, i < lenN bv -> rrr_rank0 rrr_E d i = Some (bv_rank0 bv i).
Proof. exact rrr_rank0_spec. Qed.
Print Assumptions C19_rrr_rank0_spec.

Theorem C19_rrr_select1_spec : forall bv sr d, rrr_len_ok bv -> 1 <= sr < 4294967296 -> rrr_of_bits rrr_E bv sr = Some d ->
  forall j, 1 <= j <= bv_ones bv -> rrr_select1 rrr_E d j = bv_select1 bv j.
Proof. exact rrr_select1_spec. Qed.
Print Assumptions C19_rrr_select1_spec.

Theorem C19_rrr_select0_spec : forall bv sr d, rrr_len_ok bv -> 1 <= sr < 4294967296 -> rrr_of_bits rrr_E bv sr = Some d ->
  forall j, sr * 15 < 4294967296 -> 1 <= j <= bv_zeros bv -> rrr_select0 rrr_E d j = bv_select0 bv j.
Proof. exact rrr_select0_spec. Qed.
Print Assumptions C19_rrr_select0_spec.

(* no read outside C, O, C_sampling, O_pos, the caller's array or the table; the fuel of every loop suffices *)
Theorem C19_rrr_no_oob : forall bv sr d, rrr_len_ok bv -> 1 <= sr < 4294967296 -> rrr_of_bits rrr_E bv sr = Some d ->
  (forall i, i < lenN bv -> rrr_access rrr_E d i <> None /\ rrr_rank1 rrr_E d i <> None /\ rrr_rank0 rrr_E d i <> None) /\
  (forall j, 1 <= j <= bv_ones bv -> exists p, rrr_select1 rrr_E d j = Some p /\ p < lenN bv) /\
  (forall j, sr * 15 < 4294967296 -> 1 <= j <= bv_zeros bv -> exists p, rrr_select0 rrr_E d j = Some p /\ p < lenN bv).
Proof. exact rrr_no_oob. Qed.
Print Assumptions C19_rrr_no_oob.

(* out-of-domain answers exactly as coded *)
Theorem C19_rrr_select1_out_of_range : forall E d j, j = 0 \/ r_ones d < j -> rrr_select1 E d j = Some (2 ^ 64 - 1).
Proof. exact rrr_select1_out_of_range. Qed.
Print Assumptions C19_rrr_select1_out_of_range.

Theorem C19_rrr_select0_out_of_range : forall E d j, r_ones d <= r_length d -> r_length d < 2 ^ 64 ->
  j = 0 \/ r_length d - r_ones d < j -> rrr_select0 E d j = Some (2 ^ 32 - 1).
Proof. exact rrr_select0_out_of_range. Qed.
Print Assumptions C19_rrr_select0_out_of_range.

Theorem C19_rrr_rank_minus1 : forall E d, rrr_rank1 E d (2 ^ 64 - 1) = Some 0 /\ rrr_rank0 E d (2 ^ 64 - 1) = Some 0.
Proof. exact rrr_rank_minus1. Qed.
Print Assumptions C19_rrr_rank_minus1.

(* save / load *)
Theorem C19_rrr_load_save : forall E bv sr d rest, toff_ok E = true ->
  1 <= lenN bv -> lenN bv < 4294967296 -> 1 <= sr < 4294967296 -> rrr_of_bits E bv sr = Some d ->
  exists img, rrr_save d = Some img /\ rrr_load E (img ++ rest) = Some (d, rest).
Proof. exact rrr_load_save. Qed.
Print Assumptions C19_rrr_load_save.

(* ---- the pointer wavelet tree of BitRGDefs section C over RRR bitmaps (BitSequenceBuilderRRR(sample_rate)):
        what StringDictionaryFMINDEX builds with sparse_bitsequence = true and what XBW always builds ---- *)
Theorem C19_wt_rrr_access : forall sr, 1 <= sr -> sr * 15 < 4294967296 ->
  forall is_set depth s, lenN s < W32 - 64 -> separable is_set depth 0 s ->
  forall i, i < lenN s -> wt_access rrr rrrt_access rrrt_rank1 (wt_rrr sr is_set depth s) i = seq_access s i.
Proof. exact wt_rrr_access. Qed.
Print Assumptions C19_wt_rrr_access.

Theorem C19_wt_rrr_rank : forall sr, 1 <= sr -> sr * 15 < 4294967296 ->
  forall is_set depth s, lenN s < W32 - 64 -> separable is_set depth 0 s ->
  forall c i, i < lenN s -> wt_rank rrr rrrt_rank1 is_set (wt_rrr sr is_set depth s) c i = seq_rank c s i.
Proof. exact wt_rrr_rank. Qed.
Print Assumptions C19_wt_rrr_rank.

Theorem C19_wt_rrr_select : forall sr, 1 <= sr -> sr * 15 < 4294967296 ->
  forall is_set depth s, lenN s < W32 - 64 -> separable is_set depth 0 s ->
  forall c j p, seq_select c s j = Some p ->
  wt_select rrr rrrt_select1 rrrt_select0 is_set (wt_rrr sr is_set depth s) c j = p.
Proof. exact wt_rrr_select. Qed.
Print Assumptions C19_wt_rrr_select.

(* ---- refutations ---- *)
Theorem C19_rrr_build_old_refuted :
  exists bv sr, lenN bv = 16 /\ 1 <= sr /\ rrr_of_bits_old rrr_E bv sr = None /\
    rrr_build_O rrr_E (words_of_bits bv) 16 2 0 [] 0 = None /\
    set_var_field32 [] 0 (rrr_dec32 (0 + 0)) 0 = None /\
    exists d, rrr_of_bits rrr_E bv sr = Some d /\ r_O d = [0] /\ r_O_bits_len d = 0.
Proof. exact rrr_build_old_refuted. Qed.
Print Assumptions C19_rrr_build_old_refuted.

Theorem C19_rrr_latepad_refuted :
  rrr_of_bits_latepad rrr_E latepad_bv 2 = Some latepad_d /\
  (forall j, 1 <= j <= 30 -> rrr_select1 rrr_E latepad_d j = None) /\
  rrr_cs latepad_d 1 = Some 0 /\
  exists d', rrr_of_bits rrr_E latepad_bv 2 = Some d' /\ rrr_cs d' 1 = Some 30 /\ rrr_select1 rrr_E d' 30 = Some 29.
Proof. exact rrr_latepad_refuted. Qed.
Print Assumptions C19_rrr_latepad_refuted.

Theorem C19_rrr_latepad_diverges : forall fuel pos,
  rrr_sel_inblock rrr_E true latepad_d 1 0 fuel pos 0 0 = None.
Proof. exact rrr_latepad_diverges. Qed.
Print Assumptions C19_rrr_latepad_diverges.

Theorem C19_rrr_select0_big_sample_rate_refuted :
  exists d, rrr_of_bits rrr_E bigsr_bv 286331154 = Some d /\
    rrr_select0 rrr_E d 1 = Some 4294967309 /\ bv_select0 bigsr_bv 1 = Some 14 /\
    rrr_select1 rrr_E d 14 = bv_select1 bigsr_bv 14.
Proof. exact rrr_select0_big_sample_rate_refuted. Qed.
Print Assumptions C19_rrr_select0_big_sample_rate_refuted.

(* ---- the hypotheses are satisfiable: a 63-bit vector (4 full blocks + 3 bits; a run of zeros covering a whole block,
        a run of ones covering a whole block), sample rate 2 ---- *)
Definition ex_bv : list bool :=
  [true;false;true;true;false;false;false;true;false;true;true;true;false;true;false;
   false;true;true;true;true;false;true;false;false;true;true;false;false;false;false;
   false;false;false;false;false;false;false;false;false;false;false;false;false;false;false;
   true;true;true;true;true;true;true;true;true;true;true;true;true;true;true;
   true;false;true].

Example ex_len_ok : rrr_len_ok ex_bv.
Proof. split; vm_compute; congruence. Qed.

Example ex_build : exists d, rrr_of_bits rrr_E ex_bv 2 = Some d /\
  r_C d = [192632] /\ r_O d = [92112991; 0] /\ r_C_sampling d = [8512448] /\ r_O_pos d = [108160] /\ r_ones d = 32.
Proof. eexists. split; [vm_compute; reflexivity|]. repeat (split; [reflexivity|]). reflexivity. Qed.

Example ex_queries : exists d, rrr_of_bits rrr_E ex_bv 2 = Some d /\
  map (rrr_rank1 rrr_E d) (rrr_range 63 0) = map (fun i => Some (bv_rank1 ex_bv i)) (rrr_range 63 0) /\
  map (rrr_rank0 rrr_E d) (rrr_range 63 0) = map (fun i => Some (bv_rank0 ex_bv i)) (rrr_range 63 0) /\
  map (rrr_access rrr_E d) (rrr_range 63 0) = map (fun i => Some (bv_access ex_bv i)) (rrr_range 63 0) /\
  map (rrr_select1 rrr_E d) (rrr_range 32 1) = map (bv_select1 ex_bv) (rrr_range 32 1) /\
  map (rrr_select0 rrr_E d) (rrr_range 31 1) = map (bv_select0 ex_bv) (rrr_range 31 1) /\
  bv_ones ex_bv = 32 /\ bv_zeros ex_bv = 31.
Proof.
  eexists. split; [vm_compute; reflexivity|].
  split; [vm_compute; reflexivity|]. split; [vm_compute; reflexivity|]. split; [vm_compute; reflexivity|].
  split; [vm_compute; reflexivity|]. split; [vm_compute; reflexivity|]. split; vm_compute; reflexivity.
Qed.

Example ex_load_save : exists d img, rrr_of_bits rrr_E ex_bv 2 = Some d /\ rrr_save d = Some img /\
  lenN img = 52 /\ rrr_load rrr_E (img ++ [90; 90; 90]) = Some (d, [90; 90; 90]).
Proof.
  eexists. eexists. split; [vm_compute; reflexivity|]. split; [vm_compute; reflexivity|].
  split; vm_compute; reflexivity.
Qed.

Example ex_table : rrr_compute_offset rrr_E 21845 = Some 2353 /\ popcount 21845 = 8 /\
  rrr_short_bitmap rrr_E 8 2353 = Some 21845 /\ rrr_log2 rrr_E 8 = Some 13.
Proof. vm_compute. repeat split. Qed.

(* a 12-symbol sequence over {3,5,7,9} with the 2-bit code 3->00 5->01 7->10 9->11, bitmaps RRR(sample_rate 2) *)
Definition ex_code : list (N * list bool) := [(3, [false;false]); (5, [false;true]); (7, [true;false]); (9, [true;true])].
Definition ex_seq : list N := [5; 9; 5; 7; 3; 3; 9; 5; 7; 7; 3; 9].
Example ex_wt_rrr : separable_b (code_bit ex_code) 2 ex_seq = true /\
  map (wt_access rrr rrrt_access rrrt_rank1 (wt_rrr 2 (code_bit ex_code) 2 ex_seq)) (rrr_range 12 0) = map (seq_access ex_seq) (rrr_range 12 0) /\
  wt_rank rrr rrrt_rank1 (code_bit ex_code) (wt_rrr 2 (code_bit ex_code) 2 ex_seq) 7 9 = seq_rank 7 ex_seq 9 /\
  Some (wt_select rrr rrrt_select1 rrrt_select0 (code_bit ex_code) (wt_rrr 2 (code_bit ex_code) 2 ex_seq) 9 3) = seq_select 9 ex_seq 3.
Proof. split; [vm_compute; reflexivity|]. split; [vm_compute; reflexivity|]. split; vm_compute; reflexivity. Qed.
