(* Executable model of the string iterator of the Hu-Tucker front-coded dictionary,
     /repo/iterators/IteratorDictStringHTFC.h   constructor, hasNext, next, decodeHeader, decodeNextString
   as StringDictionaryHTFC::extractTable and StringDictionaryHTFC::extractPrefix construct it, statement by
   statement on top of HTFCDefs.v (the LOADED object, processChunk / getSubstring, the advanced / extracted
   protocol).  Definitions only; proofs are in HTFCIterProofs.v.

   What differs from the dictionary's own decodeHeader / resetScan / StatCoder::decodeString:
     - the scratch buffer is `new uchar[2 * maxlength + k]` (uint arithmetic), not 4 * maxlength + k;
     - decodeNextString is a textual copy of StatCoder::decodeString (the returned `shared` is dropped):
       modelled by HTFCDefs.decode_string run with the iterator's capacity;
     - decodeHeader does NOT look up blStrings[bucket] for the start of the header: it continues from
       chunk.b_ptr, i.e. from where the previous bucket's last string ended (only the constructor reads
       blStrings[bucket]); it then does what decodeHeader + resetScan of the dictionary do, with
       `bucket++` in between (b_remain = ptr + blStrings[bucket + 1] - b_ptr);
     - `pos` is never reset: the header test is pos % bucketsize == 0 on the running uint counter.
   Scratch buffer: as in HTFCDefs the buffer is the list of its initialised prefix.  decodeHeader sets
   strLen = 0 and rewrites the buffer from index 0; the bytes the previous bucket left above are DEAD and the
   model treats them as uninitialised (the buffer restarts as []): a read of a stale byte before it is
   rewritten would be [None].  The theorems prove that this never happens on certified objects, so on those
   the real code (which keeps the stale bytes) computes exactly what the model computes. *)
From LibCSD Require Import Base VByteDefs Spec PFCDefs CodesDefs HTFCDefs IterDefs.
Local Open Scope N_scope.

(* this->chunk.str = new uchar[2 * maxlength + k];   (uint arithmetic) *)
Definition it_cap (d : htfc) : N := wu32 (2 * h_maxlength d + h_k d).

(* void IteratorDictStringHTFC::decodeHeader(): [ptr] = chunk.b_ptr on entry, [bucket] = this->bucket on entry.
   strLen = 0; advanced = 0; extracted = 1; c_chunk = 0; c_valid = 0; b_remain = maxcomplength;
   the processChunk loop; the bit re-count; b_ptr adjustment; bucket++;
   b_remain = ptr + blStrings->getField(bucket) - b_ptr; advanced = extracted = c_chunk = c_valid = 0 *)
Definition it_dh (d : htfc) (bucket ptr : N) : option (bst * ast) :=
  let cap := it_cap d in
  match dh_loop (S (N.to_nat cap)) d cap
          {| c_chunk := 0; c_valid := 0; b_ptr := ptr; b_remain := wu32 (h_maxcomplength d) |}
          {| a_buf := []; a_len := 0; a_adv := 0; a_ext := 1 |} 0 0 ptr with
  | None => None
  | Some (b, a, plen, pvalid, pptr) =>
      if (plen <=? a_len a) && (a_len a <=? lenN (a_buf a)) then
        match sum_bits (h_cw d) (firstN (a_len a - plen) (skipN plen (a_buf a))) with
        | None => None
        | Some bits =>
            (* chunk.c_valid = 8 * (chunk.b_ptr - pptr) - bits + pvalid;   (assigned to a ushort) *)
            let cv := zu16 (8 * (Z.of_N (b_ptr b) - Z.of_N pptr) - Z.of_N (wu32 bits) + Z.of_N pvalid) in
            if cv / 8 <=? b_ptr b then
              let p' := b_ptr b - cv / 8 in
              match rdN (h_bl d) (wrap64 (bucket + 1)) with
              | None => None
              | Some nxt =>
                  Some ({| c_chunk := 0; c_valid := 0; b_ptr := p'; b_remain := zu32 (Z.of_N nxt - Z.of_N p') |},
                        {| a_buf := a_buf a; a_len := a_len a; a_adv := 0; a_ext := 0 |})
              end
            else None
        end
      else None
  end.

(* void IteratorDictStringHTFC::decodeNextString() *)
Definition it_dn (d : htfc) (st : bst * ast) : option (bst * ast) :=
  match decode_string d (it_cap d) (fst st) (snd st) with
  | None => None
  | Some (b', a', _) => Some (b', a')
  end.

(* the iterator object: bucket (size_t), pos (uint), processed, scanneable (size_t), the ChunkScan *)
Record hit := mk_hit { i_bucket : N; i_pos : N; i_proc : N; i_scan : N; i_st : bst * ast }.

Definition hit_decode_header (d : htfc) (it : hit) : option hit :=
  match it_dh d (i_bucket it) (b_ptr (fst (i_st it))) with
  | None => None
  | Some st => Some (mk_hit (wrap64 (i_bucket it + 1)) (i_pos it) (i_proc it) (i_scan it) st)
  end.

Definition hit_decode_next (d : htfc) (it : hit) : option hit :=
  match it_dn d (i_st it) with
  | None => None
  | Some st => Some (mk_hit (i_bucket it) (i_pos it) (i_proc it) (i_scan it) st)
  end.

(* IteratorDictStringHTFC(table, codewords, ptr, blStrings, bucket, offset, bucketsize, scanneable, maxlength, maxcomplength):
   chunk.b_ptr = ptr + blStrings->getField(bucket); b_remain = maxcomplength; str = new uchar[..]; strLen = advanced = extracted = 0;
   if (pos > 0) { decodeHeader(); for (uint i = 1; i < pos; i++) decodeNextString(); } *)
Definition hit_init (d : htfc) (bucket offset scanneable : N) : option hit :=
  match rdN (h_bl d) bucket with
  | None => None
  | Some off =>
      let it0 := mk_hit bucket offset 0 scanneable
                   ({| c_chunk := 0; c_valid := 0; b_ptr := off; b_remain := wu32 (h_maxcomplength d) |},
                    {| a_buf := []; a_len := 0; a_adv := 0; a_ext := 0 |}) in
      if 0 <? offset then
        N.iter (offset - 1) (fun o => opt_bind o (hit_decode_next d)) (hit_decode_header d it0)
      else Some it0
  end.

(* bool hasNext() { return processed < scanneable; } *)
Definition hit_has_next (it : hit) : bool := i_proc it <? i_scan it.

(* unsigned char *next(uint *strLen):
     if ((pos % bucketsize) == 0) decodeHeader(); else decodeNextString();
     *strLen = chunk.strLen - 1; str = new uchar[chunk.strLen + 1]; strncpy(str, chunk.str, chunk.strLen);
     processed++; pos++; return str;
   The result is (the C string the caller finds in the returned buffer, *strLen).  strncpy copies up to the
   first NUL among the first strLen bytes and pads with NULs; when there is no NUL among them the returned
   buffer has no terminator inside its initialised part ([None]); strLen = 2^32 - 1 makes the allocation size
   wrap to 0 ([None]); bucketsize = 0 is a division by zero ([None]). *)
Definition hit_next (d : htfc) (it : hit) : option ((str * N) * hit) :=
  if h_bsize d =? 0 then None
  else
    match (if i_pos it mod h_bsize d =? 0 then hit_decode_header d it else hit_decode_next d it) with
    | None => None
    | Some it1 =>
        let a := snd (i_st it1) in
        if a_len a =? 2 ^ 32 - 1 then None
        else
          match take0 (firstN (a_len a) (a_buf a)) with
          | None => None
          | Some s =>
              Some ((s, wsub32 (a_len a) 1),
                    mk_hit (i_bucket it1) (wu32 (i_pos it1 + 1)) (wrap64 (i_proc it1 + 1)) (i_scan it1) (i_st it1))
          end
    end.

Definition hit_machine (d : htfc) : itmachine hit (str * N) := mk_itmachine hit_has_next (hit_next d).

(* the client loop  while (it->hasNext() && k < cap) { s = it->next(&l); ... }  followed by a last hasNext():
   (strings with their reported lengths, MORE) *)
Definition hit_run (d : htfc) (cap : nat) (it : hit) : option (list (str * N) * bool) :=
  match run_iter (hit_machine d) cap it with
  | None => None
  | Some (l, more, _) => Some (l, more)
  end.

(* IteratorDictString *extractTable(): new IteratorDictStringHTFC(.., 1, 0, bucketsize, elements, ..).
   outer None = memory error; Some None = NULL iterator (never for extractTable) *)
Definition htfc_extract_table (d : htfc) (cap : nat) : option (option (list (str * N) * bool)) :=
  match hit_init d 1 0 (h_elements d) with
  | None => None
  | Some it => option_map Some (hit_run d cap it)
  end.

(* IteratorDictString *extractPrefix(str, strLen):
     it = locatePrefix(str, strLen); left = it->getLeftLimit();
     if (left != NORESULT) { uint leftbucket = 1 + ((left - 1) / bucketsize); uint leftpos = ((left - 1) % bucketsize);
                             right = it->getRightLimit(); new IteratorDictStringHTFC(.., leftbucket, leftpos, bucketsize, right - left + 1, ..) }
     else NULL *)
Definition htfc_extract_prefix (d : htfc) (p : str) (cap : nat) : option (option (list (str * N) * bool)) :=
  match htfc_locate_prefix d p with
  | None => None
  | Some (lft, rgt) =>
      if lft =? 0 then Some None
      else if h_bsize d =? 0 then None
      else
        let leftbucket := W32m (1 + (lft - 1) / h_bsize d) in
        let leftpos := W32m ((lft - 1) mod h_bsize d) in
        match hit_init d leftbucket leftpos (wrap64 (sub_sz rgt lft + 1)) with
        | None => None
        | Some it => option_map Some (hit_run d cap it)
        end
  end.

(* ---------------------------------------------------------------------- *)
(* verified checker: the iterator's own decoding pass reproduces S          *)
(* ---------------------------------------------------------------------- *)
(* One flat pass over S (string number i, 0-based, is the header of bucket i / b + 1 iff i mod b = 0) with the
   ITERATOR's functions and capacity: a header is decoded by [it_dh] from blStrings[k], and - what the
   dictionary's own queries never need - the previous bucket's last string must have ENDED exactly at
   blStrings[k] (the iterator continues from there instead of looking blStrings[k] up); an internal string
   by [it_dn] in the state the previous string left.  Every string must be handed out as s NUL, with
   |s| + 2 < 2^32.  Returns the ChunkScan state after every string. *)
Fixpoint hitrace_from (d : htfc) (b : N) (i : N) (pst : bst * ast) (ss : list str) : option (list (bst * ast)) :=
  match ss with
  | [] => Some []
  | s :: r =>
      match (if i mod b =? 0 then
               match rdN (h_bl d) (i / b + 1) with
               | None => None
               | Some off => if (i =? 0) || (b_ptr (fst pst) =? off) then it_dh d (i / b + 1) off else None
               end
             else it_dn d pst) with
      | None => None
      | Some st =>
          if ast_is (snd st) s && (lenN s + 2 <? 2 ^ 32)
          then option_map (cons st) (hitrace_from d b (i + 1) st r)
          else None
      end
  end.

Definition htfc_iter_check (S : list str) (d : htfc) : bool :=
  let b := h_bsize d in
  (2 <=? b) && (b <? 2 ^ 32) && (h_elements d =? lenN S) && (lenN S <? 2 ^ 32) &&
  match hitrace_from d b 0 st0_dummy S with Some _ => true | None => false end.

(* ---------------------------------------------------------------------- *)
(* the same certificate from the dictionary's own one + two cheap checks    *)
(* ---------------------------------------------------------------------- *)
(* On the trace [htfc_check] itself computes (HTFCDefs.htrace_from: the dictionary's decodeHeader / resetScan /
   decodeString with the 4 * maxlength + k buffer): the scratch buffer never grew beyond the iterator's
   2 * maxlength + k bytes, every string satisfies |s| + 2 < 2^32, and every bucket's last string ended exactly
   where blStrings says the next bucket starts.  HTFCIterProofs.htfc_iter_check_of_check:
   htfc_check S d = true -> htfc_iter_small S d = true -> htfc_iter_check S d = true. *)
Fixpoint hsmall_from (d : htfc) (b : N) (i : N) (pst : bst * ast) (ss : list str) (tr : list (bst * ast)) : bool :=
  match ss, tr with
  | [], _ => true
  | s :: r, st :: tr' =>
      (lenN (a_buf (snd st)) <=? it_cap d) && (lenN s + 2 <? 2 ^ 32) &&
      (if (i mod b =? 0) && negb (i =? 0)
       then match rdN (h_bl d) (i / b + 1) with Some off => b_ptr (fst pst) =? off | None => false end
       else true) &&
      hsmall_from d b (i + 1) st r tr'
  | _ :: _, [] => false
  end.

Definition htfc_iter_small (S : list str) (d : htfc) : bool :=
  match htrace_from d (h_bsize d) 0 [] st0_dummy S with
  | Some tr => hsmall_from d (h_bsize d) 0 st0_dummy S tr
  | None => false
  end.
