(* Capacity accounting of every `Reallocate` site other than the PFC constructor (property C07; the PFC
   site is CapacityDefs.v).  As there, only the BOOKKEEPING is modelled: reservation, write cursor, the
   growth check executed before a block of writes (a PARAMETER, so that the check of the current source,
   older checks and candidate repairs are instances of one model) and the highest index the block writes.

   Sites (file:line of the growth loop in /repo):
     1. rpdict        StringDictionaryRPFC.cpp:96, StringDictionaryRPHTFC.cpp:103     (int buffer, Re-Pair input)
     2. textStrings   StringDictionaryRPFC.cpp:181, StringDictionaryRPHTFC.cpp:207    (compressed buckets)
     3. textStrings   StringDictionaryHTFC.cpp:111, StringDictionaryHHTFC.cpp:142     (Hu-Tucker / Huffman coded strings)
     4. textStrings   StringDictionaryHASHHF.cpp:128                                  (Huffman coded strings + 3 trailing bytes)
   plus the hand-sized scratch buffers `tmp` (4 * maxlength, 6 * maxlength) and StatCoder::encodeString (4 * strLen).

   Every buffer doubles through Utils.h Reallocate = CapacityDefs.cap_grow.  A run is a list of pairs
   (reservation at the time of the writes, one past the highest index written): it stays inside the
   buffer iff the second component never exceeds the first ([all_fit]).  Definitions only. *)
From LibCSD Require Import Base VByteDefs Spec PFCDefs PFCLayout CapacityDefs.
Local Open Scope N_scope.

Definition all_fit (run : list (N * N)) : bool := forallb (fun rt => snd rt <=? fst rt) run.

Fixpoint sumN (l : list N) : N :=
  match l with
  | [] => 0
  | x :: r => x + sumN r
  end.

(* ---------------------------------------------------------------------- *)
(* 0. encodeSymbol: which bytes of text[] one code word touches            *)
(* ---------------------------------------------------------------------- *)
(*  uint processed = 0, bytes = 0;
    while ((bits - processed) >= (8 - *offset)) {
      text[bytes] |= code;  processed += 8 - *offset;  *offset = 0;  bytes++;  text[bytes] = 0;   // ONE BYTE AHEAD
    }
    if (bits > processed) { text[bytes] |= code;  *offset += bits - processed; }
    return bytes;
   The same body in StatCoder::encodeSymbol (bits = codewords[symbol].bits), StringDictionaryRPFC::encodeSymbol and
   StringDictionaryRPHTFC::encodeSymbol (bits = bitsrp).  At most 5 iterations for bits <= 32, offset <= 7. *)
Fixpoint enc_loop (fuel : nat) (bits processed bytes off : N) : N * N * N :=
  match fuel with
  | O => (processed, bytes, off)
  | S f => if 8 - off <=? bits - processed
           then enc_loop f bits (processed + (8 - off)) (bytes + 1) 0
           else (processed, bytes, off)
  end.

(* (bytes returned, new offset, whether text[0 .. bytes] was touched at all) *)
Definition enc_sym (bits off : N) : N * N * bool :=
  let '(processed, bytes, off1) := enc_loop 5 bits 0 0 off in
  if processed <? bits then (bytes, off1 + (bits - processed), true)
  else (bytes, off1, 0 <? bytes).

(* `cursor += encodeSymbol(sym, &text[cursor], &offset)` ; state = (cursor, offset, hi) where hi is one past the
   highest index of text[] touched so far *)
Definition enc_step (st : N * N * N) (bits : N) : N * N * N :=
  let '(c, off, hi) := st in
  let '(bytes, off', touched) := enc_sym bits off in
  (c + bytes, off', if touched then N.max hi (c + bytes + 1) else hi).

Definition enc_syms (st : N * N * N) (l : list N) : N * N * N := fold_left enc_step l st.

(* n symbols of the same width (the Re-Pair symbols of a bucket) *)
Definition enc_iter (st : N * N * N) (bits n : N) : N * N * N := N.iter n (fun s => enc_step s bits) st.

(* a string encoded into a scratch buffer:  bytes = 0; tmp[0] = 0; offset = 0; encode every symbol;
   if (offset > 0) bytes++     -> (bytes to copy, one past the highest index of tmp[] touched) *)
Definition tmp_encode (bits : list N) : N * N :=
  let '(nb, off, hi) := enc_syms (0, 0, 1) bits in
  (if 0 <? off then nb + 1 else nb, hi).

(* ---------------------------------------------------------------------- *)
(* 1. rpdict: the Re-Pair input buffer of RPFC / RPHTFC                     *)
(* ---------------------------------------------------------------------- *)
(*  size_t reservedInts = elements;  int *rpdict = new int[reservedInts];
    per bucket (after its header was copied, pbeg = first byte after the header's NUL):
      while ((ptrpdict + (size_t)bucketsize * (maxlength + 6)) > reservedInts) reservedInts = Reallocate(&rpdict, reservedInts);
      uint zero = pbeg - 1;
      for (; pbeg < pend; pbeg++) {
        int c = dict->textStrings[pbeg];
        if ((c != 0) || ((c == 0) && (pbeg == zero + 1))) rpdict[ptrpdict] = c;
        else { zero = pbeg; ends++; rpdict[ptrpdict] = 255; ptrpdict++; rpdict[ptrpdict] = 0; }
        ptrpdict++;
      }
   `zero` is a uint, pbeg a size_t: zero + 1 is computed modulo 2^32.  The function returns the number of ints
   the loop writes (all of them at consecutive indices starting at ptrpdict). *)
Fixpoint rp_ints_pos (zero p : N) (bs : list N) : N :=
  match bs with
  | [] => 0
  | c :: r => if negb (c =? 0) || (p =? (zero + 1) mod 2 ^ 32)
              then 1 + rp_ints_pos zero (p + 1) r
              else 2 + rp_ints_pos (p mod 2 ^ 32) (p + 1) r
  end.

(* a bucket as this loop sees it: (pbeg, textStrings[pbeg .. pend)) *)
Definition rp_bucket : Type := (N * list N)%type.
Definition rp_bucket_ints (bk : rp_bucket) : N := rp_ints_pos ((fst bk - 1) mod 2 ^ 32) (fst bk) (snd bk).

(* the check of the current source; `maxlength + 6` is a uint sum *)
Definition chk_rp (b maxlen ptr : N) : N := ptr + b * ((maxlen + 6) mod 2 ^ 32).
(* before commit c50bbfe: `ptrpdict + (size_t)(bucketsize * maxlength)` (uint product) *)
Definition chk_rp_old (b maxlen ptr : N) : N := ptr + (b * maxlen) mod 2 ^ 32.

Definition rp_step (chk : N -> N) (st : N * N) (bk : rp_bucket) : N * N :=
  let '(R, ptr) := st in (cap_grow (chk ptr) R, ptr + rp_bucket_ints bk).

(* (reservation while the bucket is copied, one past the last int written) per bucket *)
Fixpoint rp_run (chk : N -> N) (st : N * N) (bks : list rp_bucket) : list (N * N) :=
  match bks with
  | [] => []
  | bk :: r => let st' := rp_step chk st bk in st' :: rp_run chk st' r
  end.

Definition rp_safe (chk : N -> N) (R0 : N) (bks : list rp_bucket) : bool := all_fit (rp_run chk (R0, 0) bks).

(* the buckets of a real string list: the PFC text is concat (map enc_bucket (chunks b S)) (PFCBuildProofs.pfc_build_layout);
   the bucket h :: t starts at [off], its internal strings enc_rest h t start after the header and its NUL *)
Fixpoint rp_buckets_from (off : N) (cs : list (list str)) : list rp_bucket :=
  match cs with
  | [] => []
  | c :: r =>
      match c with
      | [] => rp_buckets_from off r
      | h :: t => (off + lenN h + 1, enc_rest h t) :: rp_buckets_from (off + lenN (enc_bucket c)) r
      end
  end.
Definition rp_buckets (b : N) (S : list str) : list rp_bucket := rp_buckets_from 0 (chunks b S).

(* the constructor of RPFC / RPHTFC on S with bucket size parameter b0: bucketsize = clamp b0, maxlength and elements of
   the intermediate PFC dictionary (PFCBuildProofs.pfc_build_maxlength / pfc_build_elements), reservedInts = elements *)
Definition rp_ctor_in_bounds (chk : N -> N -> N -> N) (b0 : N) (S : list str) : bool :=
  let b := clamp_bsize b0 in
  rp_safe (chk b (spec_maxlen S + 1)) (lenN S) (rp_buckets b S).

(* ---------------------------------------------------------------------- *)
(* 2. textStrings of RPFC / RPHTFC                                          *)
(* ---------------------------------------------------------------------- *)
(*  size_t reservedStrings = MEMALLOC * bucketsize;  textStrings = new uchar[reservedStrings];  textStrings[0] = 0;
    per bucket:
      size_t required = headers[bucket].size() + ((beginnings[bucket] - beginnings[bucket-1]) * (size_t)bitsrp) / 8 + 2;    // RPFC
      size_t required = 4 * (size_t)maxlength   + ((beginnings[bucket] - beginnings[bucket-1]) * (size_t)bitsrp) / 8 + 2;    // RPHTFC
      while ((bytesStrings + required) > reservedStrings) reservedStrings = Reallocate(&textStrings, reservedStrings);
      RPFC:   copy the header including its NUL byte by byte                         (hb = headers[bucket].size() bytes)
      RPHTFC: encode the header into tmp, if (offset > 0) bytes++, memcpy(textStrings + bytesStrings, tmp, bytes)   (hb = bytes)
      offset = 0;  textStrings[bytesStrings] = 0;
      for (; ptrB < ptrE; ptrB++) bytesStrings += encodeSymbol(intStrings[ptrB], &textStrings[bytesStrings], &offset);   // n symbols, bitsrp bits each
      if (offset > 0) bytesStrings++;
   A bucket is (hb, n).  The check receives (cursor, hb, n). *)
Definition rt_bucket : Type := (N * N)%type.

Definition chk_rpfc (bitsrp c hb n : N) : N := c + (hb + (n * bitsrp) / 8 + 2).
Definition chk_rphtfc (bitsrp maxlen c hb n : N) : N := c + (4 * maxlen + (n * bitsrp) / 8 + 2).
(* before commit b947f63: `bytesStrings + (bucketsize * 1000)` (uint product) *)
Definition chk_rt_old (b c hb n : N) : N := c + (b * 1000) mod 2 ^ 32.

Definition rt_step (chk : N -> N -> N -> N) (bitsrp : N) (st : N * N) (bk : rt_bucket) : N * N * N :=
  let '(R, c) := st in
  let '(hb, n) := bk in
  let R' := cap_grow (chk c hb n) R in
  let c1 := c + hb in
  let '(c2, off, hi) := enc_iter (c1, 0, c1 + 1) bitsrp n in
  (R', if 0 <? off then c2 + 1 else c2, hi).

Fixpoint rt_run (chk : N -> N -> N -> N) (bitsrp : N) (st : N * N) (bks : list rt_bucket) : list (N * N) :=
  match bks with
  | [] => []
  | bk :: r => let '(R', c', hi) := rt_step chk bitsrp st bk in (R', hi) :: rt_run chk bitsrp (R', c') r
  end.

(* the first entry is `textStrings[0] = 0` *)
Definition rt_safe (chk : N -> N -> N -> N) (bitsrp R0 : N) (bks : list rt_bucket) : bool :=
  all_fit ((R0, 1) :: rt_run chk bitsrp (R0, 0) bks).

(* ---------------------------------------------------------------------- *)
(* 3. textStrings of HTFC / HHTFC                                           *)
(* ---------------------------------------------------------------------- *)
(*  size_t reservedStrings = MEMALLOC * bucketsize;  textStrings[0] = 0;
    for (current = 1; current <= elements; current++) {
      while ((bytesStrings + 4 * (size_t)maxlength + 6) > reservedStrings) reservedStrings = Reallocate(&textStrings, reservedStrings);
      if (((current - 1) % bucketsize) == 0) {                 // header
        bytes = 0; tmp[0] = 0; offset = 0;  encode every symbol of the header (NUL included) into tmp;
        if (offset > 0) bytes++;  memcpy(textStrings + bytesStrings, tmp, bytes);  bytesStrings += bytes;
        ... (decoding-table bookkeeping; for the last element it may `break` here) ...
        offset = 0;  textStrings[bytesStrings] = 0;
      } else {                                                 // internal string: VByte(lcp) ++ suffix ++ NUL, symbol by symbol
        bytesStrings += coder->encodeSymbol(sym, &textStrings[bytesStrings], &offset);   ...
        if ((current % bucketsize) == 0 && offset > 0) { offset = 0; bytesStrings++; textStrings[bytesStrings] = 0; }
      }
    }
   An item = (code lengths of the symbols of the string as stored, header?, current % bucketsize == 0, whether the
   `textStrings[bytesStrings] = 0` after a header is executed).  State = (reserved, cursor, offset). *)
Definition ht_item : Type := (list N * bool * bool * bool)%type.

(* the check of the current source (commit 2941d43): `bytesStrings + 4 * (size_t)maxlength + 6`; 6 is the least constant
   that needs no hypothesis on the code table beyond "at most 32 bits" *)
Definition chk_ht (maxlen c : N) : N := c + 4 * maxlen + 6.
(* an intermediate repair: `bytesStrings + 4 * (size_t)maxlength + 2` *)
Definition chk_ht2 (maxlen c : N) : N := c + 4 * maxlen + 2.
(* before 2941d43: `bytesStrings + (2 * maxlength)`, a uint product *)
Definition chk_ht_old (maxlen c : N) : N := c + (2 * maxlen) mod 2 ^ 32.

Definition ht_step (chk : N -> N) (st : N * N * N) (it : ht_item) : N * N * N * N :=
  let '(R, c, off) := st in
  let '(bits, hdr, bend, z) := it in
  let R' := cap_grow (chk c) R in
  if hdr then
    let '(bytes, _) := tmp_encode bits in
    let c' := c + bytes in
    (R', c', 0, if z then c' + 1 else if 0 <? bytes then c' else 0)
  else
    let '(c2, off2, hi) := enc_syms (c, off, 0) bits in
    if bend && (0 <? off2) then (R', c2 + 1, 0, c2 + 2) else (R', c2, off2, hi).

Fixpoint ht_run (chk : N -> N) (st : N * N * N) (items : list ht_item) : list (N * N) :=
  match items with
  | [] => []
  | it :: r => let '(R', c', off', hi) := ht_step chk st it in (R', hi) :: ht_run chk (R', c', off') r
  end.

Fixpoint ht_final (chk : N -> N) (st : N * N * N) (items : list ht_item) : N * N * N :=
  match items with
  | [] => st
  | it :: r => let '(R', c', off', _) := ht_step chk st it in ht_final chk (R', c', off') r
  end.

Definition ht_safe (chk : N -> N) (R0 : N) (items : list ht_item) : bool :=
  all_fit ((R0, 1) :: ht_run chk (R0, 0, 0) items).

(* code length of a byte in a 256-entry table of code lengths *)
Definition sym_bits (bl : list N) (x : N) : N := match nthN bl x with Some k => k | None => 0 end.

(* the items of a real string list: headers are coded with the table blh, internal strings with bli
   (HTFC: the same Hu-Tucker table; HHTFC: Hu-Tucker for headers, Huffman for internal strings) *)
Fixpoint ht_items_from (blh bli : list N) (b i : N) (prev : str) (S : list str) : list ht_item :=
  match S with
  | [] => []
  | s :: r =>
      let hdr := i mod b =? 0 in
      (if hdr then map (sym_bits blh) (s ++ [0]) else map (sym_bits bli) (enc_internal prev s),
       hdr, (i + 1) mod b =? 0, true) :: ht_items_from blh bli b (i + 1) s r
  end.
Definition ht_items (blh bli : list N) (b : N) (S : list str) : list ht_item := ht_items_from blh bli b 0 [] S.

(* the constructor on S: bucketsize = clamp b0, maxlength = longest + 1, reservation (memalloc * bucketsize) mod 2^32 *)
Definition ht_ctor_in_bounds (chk : N -> N -> N) (memalloc : N) (blh bli : list N) (b0 : N) (S : list str) : bool :=
  let b := clamp_bsize b0 in
  ht_safe (chk (spec_maxlen S + 1)) ((memalloc * b) mod 2 ^ 32) (ht_items blh bli b S).

(* what the harness can check about a table of code lengths: 256 entries, every length in 1..32, Kraft sum exactly 1
   (a complete prefix code, as Hu-Tucker and Huffman produce) *)
Definition kraft32 (bl : list N) : N := fold_right (fun k a => 2 ^ (32 - k) + a) 0 bl.
Definition code_table_ok (bl : list N) : bool :=
  (lenN bl =? 256) && forallb (fun k => (1 <=? k) && (k <=? 32)) bl && (kraft32 bl =? 2 ^ 32).

(* ---------------------------------------------------------------------- *)
(* 4. textStrings of HASHHF                                                 *)
(* ---------------------------------------------------------------------- *)
(*  size_t reservedStrings = MEMALLOC;  textStrings[0] = 0;
    for every string in hash-table order:
      while ((bytesStrings + 4 * (size_t)maxlength + 2) > reservedStrings) reservedStrings = Reallocate(&textStrings, reservedStrings);
      encode the string (NUL included) into tmp (6 * maxlength bytes); if (offset > 0) bytes++;
      memcpy(textStrings + bytesStrings, tmp, bytes);  bytesStrings += bytes;
    while ((bytesStrings + 3) > reservedStrings) reservedStrings = Reallocate(&textStrings, reservedStrings);     // since commit 1969def
    textStrings[bytesStrings] = 0; bytesStrings++;  textStrings[bytesStrings] = 0; bytesStrings++;
    textStrings[bytesStrings] = 0; bytesStrings++;
   An item is the list of code lengths of the symbols of one string (NUL included).  [tail] says whether the growth loop
   before the three trailing bytes exists (before 1969def: no). *)
Definition chk_hh (maxlen c : N) : N := c + 4 * maxlen + 2.
(* before 2941d43: `bytesStrings + (2 * maxlength)`, a uint product *)
Definition chk_hh_old (maxlen c : N) : N := c + (2 * maxlen) mod 2 ^ 32.

Definition hh_step (chk : N -> N) (st : N * N) (bits : list N) : N * N * N :=
  let '(R, c) := st in
  let R' := cap_grow (chk c) R in
  let '(bytes, _) := tmp_encode bits in
  (R', c + bytes, if 0 <? bytes then c + bytes else 0).

(* the last entry is the three trailing bytes *)
Fixpoint hh_run (chk : N -> N) (tail : bool) (st : N * N) (items : list (list N)) : list (N * N) :=
  match items with
  | [] => [(if tail then cap_grow (snd st + 3) (fst st) else fst st, snd st + 3)]
  | it :: r => let '(R', c', hi) := hh_step chk st it in (R', hi) :: hh_run chk tail (R', c') r
  end.

Definition hh_safe (chk : N -> N) (tail : bool) (R0 : N) (items : list (list N)) : bool :=
  all_fit ((R0, 1) :: hh_run chk tail (R0, 0) items).

(* the items of a string list given in the order the constructor writes it (Tdict*, the hash-table order) *)
Definition hh_items (bl : list N) (order : list str) : list (list N) :=
  map (fun s => map (sym_bits bl) (s ++ [0])) order.

Definition hh_ctor_in_bounds (chk : N -> N -> N) (tail : bool) (memalloc : N) (bl : list N) (order : list str) : bool :=
  hh_safe (chk (spec_maxlen order + 1)) tail memalloc (hh_items bl order).

(* ---------------------------------------------------------------------- *)
(* witnesses (replayed on the real code before the repairs 2941d43 / 1969def, see wip/cap2/NOTES.md)                 *)
(* ---------------------------------------------------------------------- *)
(* the code lengths HuTucker computed for the 49,696-string HTFC witness (bucket size 2, default MEMALLOC): the bytes
   40..99 of the long string W have 17- and 18-bit code words *)
Definition ht_witness_table : list N :=
  [4; 9; 9] ++ repeat 20 34 ++ [19; 19; 19] ++ repeat 17 15 ++ repeat 18 34 ++ repeat 17 10 ++ [18; 18] ++
  [13; 12; 12; 10; 9; 8; 8; 6; 5; 4; 4; 2; 2] ++ [14; 14; 14; 14] ++ repeat 13 10 ++
  [11; 9; 8; 7; 6; 5; 4; 5; 5; 5; 6; 7; 8; 9; 12; 13; 16] ++ repeat 17 16 ++ repeat 16 95.

(* W = the bytes 40 .. 99, cyclically, 255 of them *)
Definition ht_witness_W : str := map (fun i => 40 + N.of_nat i mod 60) (seq 0 255).

(* the code lengths Huffman computed for the seven strings "a" .. "g" (HASHHF) *)
Definition hh_witness_table : list N := [6; 9; 9; 9; 9; 9; 9] ++ repeat 8 249.
Definition hh_witness_S : list str := map (fun i => [97 + N.of_nat i]) (seq 0 7).
