(* Capacity accounting of the Reallocate sites other than the PFC constructor (C07): theorems about Capacity2Defs.v.

   0. [enc_sym_spec], [enc_syms_spec], [enc_iter_spec], [tmp_encode_spec]
        closed form of what encodeSymbol touches: after T bits written from (cursor, offset) the cursor is
        cursor + (offset+T)/8, the offset (offset+T) mod 8, and the highest index touched is the new cursor
        (the byte cleared ahead) - for code words of at most 32 bits and offsets 0..7.
   1. [rp_ok], [rp_ok_strings], [rp_old_refuted]
        rpdict: `ptrpdict + (size_t)bucketsize * (maxlength + 6)` is sufficient for EVERY list of NUL-free strings,
        every bucket size and every initial reservation >= 1; the older `bucketsize * maxlength` is not.
   2. [rt_ok_rpfc], [rt_ok_rphtfc], [rphtfc_header_ok], [rt_old_refuted]
        compressed text of RPFC / RPHTFC: the `required` of commit b947f63 is sufficient for every bucket content and
        every bitsrp in 0..32; the older `bucketsize * 1000` is not.
   3. [ht_ok], [ht_ok_strings]                 HTFC / HHTFC, current check `4 * maxlength + 6`: sufficient for every string list,
                                               every pair of code tables with code words <= 32 bits, every reservation >= 1;
      [ht2_ok], [ht2_ok_strings], [ht2_slack_necessary]
                                               `4 * maxlength + 2` needs bits(NUL) + bits(0x80) <= 33 (and fails without it);
      [ht_old_ok_if], [ht_old_refuted_strings], [ht_old_refuted_real], [ht_old_refuted]
                                               the old `2 * maxlength`: sufficient exactly for items of at most 2 * maxlength
                                               bytes; refuted with the code table and the state of the replayed real runs.
   4. [hh_ok], [hh_ok_strings]                 HASHHF, current `4 * maxlength + 2` per string and `+ 3` before the trailing
                                               bytes: sufficient for every order and every table of code words <= 32 bits;
      [hh_tail_refuted_strings], [hh_tail_necessary], [hh_old_refuted]
                                               without the tail loop seven one-character strings overflow a 16-byte reservation;
                                               the old per-string check is refuted as well.
   5. [tmp_ok], [tmp4_ok], [tmp4_tight], [tmp6_ok], [encode_string_ok], [hashuffdac_dec_ok], [maxcomplength_ge]
        scratch buffers `new uchar[4 * maxlength]`, `[6 * maxlength]`, encodeString's `[4 * strLen]`, HASHUFFDAC's `dec`.
   Replays on the real code and the generators of the witnesses: /verif/wip/cap2/NOTES.md, gen_cap2.py. *)
From LibCSD Require Import Base VByteDefs VByteProofs Spec SpecProofs PFCDefs PFCLayout PFCBuildProofs LexLemmas
  CapacityDefs CapacityProofs Capacity2Defs.
From Coq Require Import ZifyBool ZifyNat ZifyN.
Local Open Scope N_scope.

Ltac Zify.zify_post_hook ::= Z.to_euclidean_division_equations.

(* ---------------------------------------------------------------------- *)
(* generic                                                                  *)
(* ---------------------------------------------------------------------- *)
Definition fits (rt : N * N) : Prop := snd rt <= fst rt.

Lemma all_fit_Forall run : Forall fits run -> all_fit run = true.
Proof.
  intros H. unfold all_fit. apply forallb_forall. intros rt Hrt. rewrite Forall_forall in H.
  apply N.leb_le. exact (H rt Hrt).
Qed.

Lemma all_fit_cons rt run : all_fit (rt :: run) = (snd rt <=? fst rt) && all_fit run.
Proof. reflexivity. Qed.

Lemma sumN_app a b : sumN (a ++ b) = sumN a + sumN b.
Proof. induction a as [|x a IH]; cbn [sumN app]; lia. Qed.

Lemma sumN_le_len k l : Forall (fun x => x <= k) l -> sumN l <= k * lenN l.
Proof.
  induction 1 as [|x l Hx _ IH]; [cbn [sumN]; lia|].
  cbn [sumN]. rewrite lenN_cons. lia.
Qed.

(* ---------------------------------------------------------------------- *)
(* 0. encodeSymbol                                                          *)
(* ---------------------------------------------------------------------- *)
Definition enc_sym_closed (bits off : N) : N * N * bool := ((off + bits) / 8, (off + bits) mod 8, 0 <? bits).

Definition triple_eqb (a b : N * N * bool) : bool :=
  (fst (fst a) =? fst (fst b)) && (snd (fst a) =? snd (fst b)) && Bool.eqb (snd a) (snd b).

Lemma triple_eqb_eq a b : triple_eqb a b = true -> a = b.
Proof.
  destruct a as [[a1 a2] a3], b as [[b1 b2] b3]. unfold triple_eqb. cbn [fst snd].
  rewrite !andb_true_iff. intros [[H1 H2] H3].
  apply N.eqb_eq in H1. apply N.eqb_eq in H2. apply Bool.eqb_prop in H3. congruence.
Qed.

Lemma forallb_range (P : N -> bool) n :
  forallb P (map N.of_nat (seq 0 n)) = true -> forall x, x < N.of_nat n -> P x = true.
Proof.
  intros H x Hx. rewrite forallb_forall in H. apply H.
  apply in_map_iff. exists (N.to_nat x). split; [lia|]. apply in_seq. lia.
Qed.

Lemma enc_sym_table :
  forallb (fun bits => forallb (fun off => triple_eqb (enc_sym bits off) (enc_sym_closed bits off))
                               (map N.of_nat (seq 0 8)))
          (map N.of_nat (seq 0 33)) = true.
Proof. vm_compute. reflexivity. Qed.

(* for code words of at most 32 bits and offsets 0..7 *)
Theorem enc_sym_spec bits off : bits <= 32 -> off <= 7 ->
  enc_sym bits off = ((off + bits) / 8, (off + bits) mod 8, 0 <? bits).
Proof.
  intros Hb Ho. apply triple_eqb_eq.
  pose proof (forallb_range _ 33 enc_sym_table bits ltac:(lia)) as H1. cbv beta in H1.
  exact (forallb_range _ 8 H1 off ltac:(lia)).
Qed.

Lemma enc_step_spec c off hi bits : bits <= 32 -> off <= 7 ->
  enc_step (c, off, hi) bits =
  (c + (off + bits) / 8, (off + bits) mod 8, if 0 <? bits then N.max hi (c + (off + bits) / 8 + 1) else hi).
Proof. intros Hb Ho. unfold enc_step. rewrite enc_sym_spec by assumption. reflexivity. Qed.

Theorem enc_syms_spec : forall l c off hi, off <= 7 -> Forall (fun b => b <= 32) l ->
  enc_syms (c, off, hi) l =
  (c + (off + sumN l) / 8, (off + sumN l) mod 8,
   if 0 <? sumN l then N.max hi (c + (off + sumN l) / 8 + 1) else hi).
Proof.
  induction l as [|b l IH]; intros c off hi Ho Hl.
  - cbn [enc_syms fold_left sumN]. rewrite N.add_0_r.
    replace (off / 8) with 0 by lia. replace (off mod 8) with off by lia. rewrite N.add_0_r. reflexivity.
  - inversion Hl as [|? ? Hb Hl']; subst.
    unfold enc_syms. cbn [fold_left]. fold (enc_syms (enc_step (c, off, hi) b) l).
    rewrite enc_step_spec by assumption. rewrite IH by (try assumption; lia).
    cbn [sumN].
    assert (E1 : c + (off + b) / 8 + ((off + b) mod 8 + sumN l) / 8 = c + (off + (b + sumN l)) / 8) by lia.
    assert (E2 : ((off + b) mod 8 + sumN l) mod 8 = (off + (b + sumN l)) mod 8) by lia.
    rewrite E1, E2. f_equal.
    destruct (N.ltb_spec 0 b) as [Hb0|Hb0], (N.ltb_spec 0 (sumN l)) as [Hs|Hs],
             (N.ltb_spec 0 (b + sumN l)) as [Hbs|Hbs]; lia.
Qed.

Lemma enc_iter_as_syms bits : forall n st, enc_iter st bits n = enc_syms st (repeat bits (N.to_nat n)).
Proof.
  intros n. induction n as [|n IH] using N.peano_ind; intros st; [reflexivity|].
  unfold enc_iter. rewrite N.iter_succ_r. fold (enc_iter (enc_step st bits) bits n).
  rewrite IH. rewrite N2Nat.inj_succ. reflexivity.
Qed.

Lemma sumN_repeat k n : sumN (repeat k n) = k * N.of_nat n.
Proof. induction n as [|n IH]; [cbn [repeat sumN]; lia|]. cbn [repeat sumN]. rewrite IH. lia. Qed.

Theorem enc_iter_spec bits n c off hi : bits <= 32 -> off <= 7 ->
  enc_iter (c, off, hi) bits n =
  (c + (off + n * bits) / 8, (off + n * bits) mod 8,
   if 0 <? n * bits then N.max hi (c + (off + n * bits) / 8 + 1) else hi).
Proof.
  intros Hb Ho. rewrite enc_iter_as_syms.
  rewrite enc_syms_spec; [|assumption|apply Forall_forall; intros x Hx; apply repeat_spec in Hx; lia].
  rewrite sumN_repeat. rewrite N2Nat.id. replace (bits * n) with (n * bits) by lia. reflexivity.
Qed.

(* a string encoded into a scratch buffer: ceil(T/8) bytes to copy, indices 0 .. T/8 of the buffer touched *)
Theorem tmp_encode_spec bits : Forall (fun b => b <= 32) bits ->
  tmp_encode bits = ((sumN bits + 7) / 8, sumN bits / 8 + 1).
Proof.
  intros H. unfold tmp_encode. rewrite enc_syms_spec by (try assumption; lia).
  rewrite !N.add_0_l. f_equal.
  - destruct (N.ltb_spec 0 (sumN bits mod 8)); lia.
  - destruct (N.ltb_spec 0 (sumN bits)); lia.
Qed.

(* ---------------------------------------------------------------------- *)
(* 1. rpdict                                                                *)
(* ---------------------------------------------------------------------- *)
Fixpoint zerosN (bs : list N) : N :=
  match bs with
  | [] => 0
  | c :: r => (if c =? 0 then 1 else 0) + zerosN r
  end.

Lemma zerosN_app a b : zerosN (a ++ b) = zerosN a + zerosN b.
Proof. induction a as [|x a IH]; cbn [zerosN app]; lia. Qed.

(* whatever the positional test says, a byte costs one int, a zero byte at most two *)
Lemma rp_ints_pos_le : forall bs zero p, rp_ints_pos zero p bs <= lenN bs + zerosN bs.
Proof.
  induction bs as [|c r IH]; intros zero p; cbn [rp_ints_pos zerosN]; [lia|].
  rewrite lenN_cons.
  destruct (c =? 0) eqn:Ec; cbn [negb orb].
  - destruct (p =? (zero + 1) mod 2 ^ 32).
    + specialize (IH zero (p + 1)). lia.
    + specialize (IH (p mod 2 ^ 32) (p + 1)). lia.
  - specialize (IH zero (p + 1)). lia.
Qed.

Lemma zerosN_nul_free s : nul_free s -> zerosN s = 0.
Proof.
  unfold nul_free. induction 1 as [|x s Hx _ IH]; [reflexivity|].
  cbn [zerosN]. destruct (N.eqb_spec x 0); [congruence|lia].
Qed.

Lemma Forall_skipn' {A} (P : A -> Prop) : forall n l, Forall P l -> Forall P (skipn n l).
Proof.
  induction n as [|n IH]; intros l H; [exact H|].
  destruct l as [|x l]; [constructor|]. inversion H; subst. cbn [skipn]. apply IH. assumption.
Qed.

Lemma Forall_firstn' {A} (P : A -> Prop) : forall n l, Forall P l -> Forall P (firstn n l).
Proof.
  induction n as [|n IH]; intros l H; [constructor|].
  destruct l as [|x l]; [constructor|]. inversion H; subst. cbn [firstn]. constructor; [assumption|].
  apply IH. assumption.
Qed.

(* the last byte of a VByte has its top bit set: at most vb_len - 1 zero bytes *)
Lemma zerosN_vb_fuel fuel : forall c, zerosN (vb_encode_fuel fuel c) + 1 <= lenN (vb_encode_fuel fuel c).
Proof.
  assert (Hlast : forall c, zerosN [N.lor c 128] + 1 <= lenN [N.lor c 128]).
  { intros c. cbn [zerosN]. destruct (N.eqb_spec (N.lor c 128) 0) as [E|_]; [|cbn; lia].
    apply N.lor_eq_0_iff in E. destruct E as [_ E]. discriminate. }
  induction fuel as [|f IH]; intros c; cbn [vb_encode_fuel]; [apply Hlast|].
  destruct (127 <? c); [|apply Hlast].
  cbn [zerosN]. rewrite lenN_cons. specialize (IH (N.shiftr c 7)).
  destruct (N.land c 127 =? 0); lia.
Qed.

Lemma zerosN_vb c : zerosN (vb_encode c) + 1 <= vb_len c.
Proof. unfold vb_len, vb_encode. apply zerosN_vb_fuel. Qed.

(* ints one internal string can take: its bytes plus one more for each zero byte *)
Lemma enc_internal_cost prev s : nul_free s ->
  lenN (enc_internal prev s) + zerosN (enc_internal prev s) <= lenN s + 3.
Proof.
  intros Hs. unfold enc_internal.
  rewrite !lenN_app, !zerosN_app, lenN_skipN.
  rewrite (zerosN_nul_free (skipN (lcp prev s) s)) by (apply Forall_skipn'; exact Hs).
  change (lenN [0]) with 1. change (zerosN [0]) with 1.
  pose proof (zerosN_vb (lcp prev s)) as Hz. fold (vb_len (lcp prev s)).
  pose proof (lcp_le_r prev s) as Hl.
  destruct (N.lt_ge_cases (lcp prev s) 128) as [Hsm|Hbig].
  - rewrite vb_len_small in * by exact Hsm. lia.
  - pose proof (vb_len_le10 (lcp prev s)). lia.
Qed.

Lemma enc_rest_cost m : forall t h, Forall (fun s => nul_free s /\ lenN s + 1 <= m) t ->
  lenN (enc_rest h t) + zerosN (enc_rest h t) <= lenN t * (m + 2).
Proof.
  induction t as [|s r IH]; intros h H; [cbn; lia|].
  inversion H as [|? ? [Hn Hl] Hr]; subst.
  cbn [enc_rest]. rewrite lenN_app, zerosN_app, lenN_cons.
  pose proof (enc_internal_cost h s Hn). specialize (IH s Hr). lia.
Qed.

(* the growth loop followed by a block that needs no more than the check demanded *)
Definition rp_covers (chk : N -> N) (ok : rp_bucket -> Prop) : Prop :=
  forall ptr bk, ok bk -> ptr + rp_bucket_ints bk <= chk ptr.

Theorem rp_run_safe chk ok : rp_covers chk ok ->
  forall bks st, 1 <= fst st -> Forall ok bks -> Forall fits (rp_run chk st bks).
Proof.
  intros Hc. induction bks as [|bk r IH]; intros [R ptr] HR Hok; [constructor|].
  inversion Hok as [|? ? Hbk Hr]; subst. cbn [fst] in HR.
  cbn [rp_run rp_step].
  destruct (cap_grow_spec (chk ptr) R HR) as [Hneed Hmono].
  pose proof (Hc ptr bk Hbk) as Hcov.
  constructor.
  - unfold fits. cbn [fst snd]. lia.
  - apply IH; [cbn [fst]; lia|exact Hr].
Qed.

Definition rp_bucket_ok (b maxlen : N) (bk : rp_bucket) : Prop := rp_bucket_ints bk <= b * (maxlen + 6).

Lemma chk_rp_covers b maxlen : maxlen + 6 < 2 ^ 32 -> rp_covers (chk_rp b maxlen) (rp_bucket_ok b maxlen).
Proof.
  intros Hm ptr bk H. unfold chk_rp, rp_bucket_ok in *. rewrite N.mod_small by exact Hm. lia.
Qed.

(* the check of the current source is sufficient for every sequence of buckets whose internal strings take at most
   bucketsize * (maxlength + 6) ints, from every initial reservation >= 1 *)
Theorem rp_ok b maxlen R0 bks : 1 <= R0 -> maxlen + 6 < 2 ^ 32 ->
  Forall (rp_bucket_ok b maxlen) bks -> rp_safe (chk_rp b maxlen) R0 bks = true.
Proof.
  intros HR Hm H. unfold rp_safe. apply all_fit_Forall.
  apply (rp_run_safe _ _ (chk_rp_covers b maxlen Hm)); [exact HR|exact H].
Qed.

(* ... and every bucket of a list of NUL-free strings is such a bucket *)
Lemma chunks_fuel_prop (Q : str -> Prop) b : forall n S, Forall Q S ->
  Forall (fun c => (length c <= b)%nat /\ Forall Q c) (chunks_fuel n b S).
Proof.
  induction n as [|n IH]; intros S H; [constructor|].
  destruct S as [|s S']; [constructor|].
  cbn [chunks_fuel]. constructor.
  - split; [apply firstn_le_length|apply Forall_firstn'; exact H].
  - apply IH. apply Forall_skipn'. exact H.
Qed.

Lemma rp_buckets_from_ok b m : 1 <= b -> forall cs off,
  Forall (fun c => (length c <= N.to_nat b)%nat /\ Forall (fun s => nul_free s /\ lenN s + 1 <= m) c) cs ->
  Forall (rp_bucket_ok b m) (rp_buckets_from off cs).
Proof.
  intros Hb. induction cs as [|c r IH]; intros off H; [constructor|].
  inversion H as [|? ? [Hlen Hc] Hr]; subst.
  destruct c as [|h t]; cbn [rp_buckets_from]; [apply IH; exact Hr|].
  inversion Hc as [|? ? _ Ht]; subst.
  constructor; [|apply IH; exact Hr].
  unfold rp_bucket_ok, rp_bucket_ints. cbn [fst snd].
  pose proof (rp_ints_pos_le (enc_rest h t) ((off + lenN h + 1 - 1) mod 2 ^ 32) (off + lenN h + 1)) as H1.
  pose proof (enc_rest_cost m t h Ht) as H2.
  cbn [length] in Hlen. assert (lenN t + 1 <= b) by (unfold lenN; lia). nia.
Qed.

Lemma spec_maxlen_Forall S : Forall (fun s => lenN s + 1 <= spec_maxlen S + 1) S.
Proof. apply Forall_forall. intros s Hs. pose proof (spec_maxlen_ge S s Hs). lia. Qed.

(* RPFC / RPHTFC constructor, Re-Pair input buffer: in bounds for EVERY non-empty list of NUL-free strings (sortedness is
   not needed), every bucket size parameter; the buffer starts with `elements` ints *)
Theorem rp_ok_strings b0 S : S <> [] -> Forall nul_free S -> spec_maxlen S + 7 < 2 ^ 32 ->
  rp_ctor_in_bounds chk_rp b0 S = true.
Proof.
  intros HS Hn Hm. unfold rp_ctor_in_bounds. pose proof (clamp_bsize_ge2 b0) as Hb.
  apply rp_ok; [destruct S; [congruence|rewrite lenN_cons; lia]|lia|].
  unfold rp_buckets, chunks. apply rp_buckets_from_ok; [lia|].
  apply chunks_fuel_prop.
  pose proof (spec_maxlen_Forall S) as Hl. rewrite Forall_forall in *. intros s Hs. split; auto.
Qed.

(* the check used before commit c50bbfe: 16 one-character strings in buckets of 8 (the input of that fix) *)
Theorem rp_old_refuted :
  let S := map (fun i => [97 + N.of_nat i]) (seq 0 16) in
  valid_set_b S = true /\ rp_ctor_in_bounds chk_rp_old 8 S = false /\ rp_ctor_in_bounds chk_rp 8 S = true /\
  rp_run (chk_rp_old 8 2) (16, 0) (rp_buckets 8 S) = [(16, 28); (64, 56)].
Proof. vm_compute. repeat split; reflexivity. Qed.

(* ---------------------------------------------------------------------- *)
(* 2. compressed text of RPFC / RPHTFC                                      *)
(* ---------------------------------------------------------------------- *)
(* what a bucket touches: header bytes, the byte cleared after them, bitsrp bits per symbol and the byte cleared ahead *)
Lemma rt_step_spec chk bitsrp R c hb n : bitsrp <= 32 ->
  rt_step chk bitsrp (R, c) (hb, n) =
  (cap_grow (chk c hb n) R,
   c + hb + (n * bitsrp + 7) / 8,
   c + hb + (n * bitsrp) / 8 + 1).
Proof.
  intros Hb. unfold rt_step. rewrite enc_iter_spec by lia. rewrite !N.add_0_l.
  f_equal; [f_equal|].
  - destruct (N.ltb_spec 0 ((n * bitsrp) mod 8)); lia.
  - destruct (N.ltb_spec 0 (n * bitsrp)); lia.
Qed.

Definition rt_covers (chk : N -> N -> N -> N) (bitsrp : N) (ok : rt_bucket -> Prop) : Prop :=
  forall c hb n, ok (hb, n) -> c + hb + (n * bitsrp) / 8 + 1 <= chk c hb n.

Theorem rt_run_safe chk bitsrp ok : bitsrp <= 32 -> rt_covers chk bitsrp ok ->
  forall bks st, 1 <= fst st -> Forall ok bks -> Forall fits (rt_run chk bitsrp st bks).
Proof.
  intros Hb Hc. induction bks as [|[hb n] r IH]; intros [R c] HR Hok; [constructor|].
  inversion Hok as [|? ? Hbk Hr]; subst. cbn [fst] in HR.
  cbn [rt_run]. rewrite rt_step_spec by exact Hb.
  destruct (cap_grow_spec (chk c hb n) R HR) as [Hneed Hmono].
  pose proof (Hc c hb n Hbk) as Hcov.
  constructor.
  - unfold fits. cbn [fst snd]. lia.
  - apply IH; [cbn [fst]; lia|exact Hr].
Qed.

Lemma rt_safe_of_covers chk bitsrp ok R0 bks : bitsrp <= 32 -> rt_covers chk bitsrp ok -> 1 <= R0 ->
  Forall ok bks -> rt_safe chk bitsrp R0 bks = true.
Proof.
  intros Hb Hc HR H. unfold rt_safe. apply all_fit_Forall. constructor.
  - unfold fits. cbn [fst snd]. exact HR.
  - apply (rt_run_safe chk bitsrp ok Hb Hc); [exact HR|exact H].
Qed.

(* RPFC: `required = headers[bucket].size() + (n * bitsrp) / 8 + 2` is sufficient for EVERY bucket content, every width
   of the Re-Pair symbols up to 32 bits and every initial reservation >= 1 (one byte to spare) *)
Theorem rt_ok_rpfc bitsrp R0 bks : bitsrp <= 32 -> 1 <= R0 -> rt_safe (chk_rpfc bitsrp) bitsrp R0 bks = true.
Proof.
  intros Hb HR. apply (rt_safe_of_covers _ _ (fun _ => True)); try assumption.
  - intros c hb n _. unfold chk_rpfc. lia.
  - apply Forall_forall. intros; exact I.
Qed.

(* RPHTFC: `required = 4 * maxlength + (n * bitsrp) / 8 + 2` is sufficient as soon as the encoded header takes at most
   4 * maxlength bytes ... *)
Definition rt_hdr_ok (maxlen : N) (bk : rt_bucket) : Prop := fst bk <= 4 * maxlen.

Theorem rt_ok_rphtfc bitsrp maxlen R0 bks : bitsrp <= 32 -> 1 <= R0 -> Forall (rt_hdr_ok maxlen) bks ->
  rt_safe (chk_rphtfc bitsrp maxlen) bitsrp R0 bks = true.
Proof.
  intros Hb HR H. apply (rt_safe_of_covers _ _ (rt_hdr_ok maxlen)); try assumption.
  intros c hb n Hh. unfold chk_rphtfc, rt_hdr_ok in *. cbn [fst] in Hh. lia.
Qed.

(* ... which holds for every header: at most maxlength symbols (NUL included) of at most 32 bits each *)
Lemma tmp_encode_bytes_le bits m : Forall (fun b => b <= 32) bits -> lenN bits <= m -> fst (tmp_encode bits) <= 4 * m.
Proof.
  intros H Hl. rewrite tmp_encode_spec by exact H. cbn [fst].
  pose proof (sumN_le_len 32 bits H). lia.
Qed.

Lemma sym_bits_le32 bl x : Forall (fun k => k <= 32) bl -> sym_bits bl x <= 32.
Proof.
  intros H. unfold sym_bits, nthN. destruct (nth_error bl (N.to_nat x)) as [k|] eqn:E; [|lia].
  rewrite Forall_forall in H. apply H. eapply nth_error_In. exact E.
Qed.

Lemma map_sym_bits_le32 bl s : Forall (fun k => k <= 32) bl -> Forall (fun b => b <= 32) (map (sym_bits bl) s).
Proof. intros H. apply Forall_forall. intros b Hb. apply in_map_iff in Hb. destruct Hb as (x & <- & _). apply sym_bits_le32. exact H. Qed.

Theorem rphtfc_header_ok bl maxlen h : Forall (fun k => k <= 32) bl -> lenN h + 1 <= maxlen ->
  rt_hdr_ok maxlen (fst (tmp_encode (map (sym_bits bl) (h ++ [0]))), 0).
Proof.
  intros Hbl Hl. unfold rt_hdr_ok. cbn [fst]. apply tmp_encode_bytes_le; [apply map_sym_bits_le32; exact Hbl|].
  unfold lenN. rewrite map_length, app_length. cbn [length]. unfold lenN in Hl. lia.
Qed.

(* the check used before commit b947f63 (`bucketsize * 1000`): 3000-byte strings in buckets of 2, as in that fix *)
Theorem rt_old_refuted :
  let bks := repeat (3001, 3002) 30 in
  rt_safe (chk_rt_old 2) 9 65536 bks = false /\ rt_safe (chk_rpfc 9) 9 65536 bks = true /\
  nth 20 (rt_run (chk_rt_old 2) 9 (65536, 0) bks) (0, 0) = (131072, 133959).
Proof. vm_compute. repeat split; reflexivity. Qed.

(* ---------------------------------------------------------------------- *)
(* 3. HTFC / HHTFC                                                          *)
(* ---------------------------------------------------------------------- *)
Definition it_bits (it : ht_item) : list N := fst (fst (fst it)).
Definition it_hdr (it : ht_item) : bool := snd (fst (fst it)).

(* bytes an item can need beyond the cursor: a header is copied from bit 0, an internal string is appended at a bit offset
   of up to 7 and may be followed by the closing `bytesStrings++; textStrings[bytesStrings] = 0` *)
Definition ht_cost (it : ht_item) : N :=
  if it_hdr it then (sumN (it_bits it) + 7) / 8 + 1 else (sumN (it_bits it) + 14) / 8 + 1.

Lemma ht_step_bound chk R c off it : off <= 7 -> Forall (fun b => b <= 32) (it_bits it) ->
  let '(R', c', off', hi) := ht_step chk (R, c, off) it in
  R' = cap_grow (chk c) R /\ off' <= 7 /\ c' <= c + ht_cost it /\ hi <= c + ht_cost it.
Proof.
  intros Ho Hb. destruct it as [[[bits hdr] bend] z]. unfold ht_cost, it_bits, it_hdr in *. cbn [fst snd] in *.
  unfold ht_step. destruct hdr.
  - rewrite tmp_encode_spec by exact Hb. cbv beta iota zeta.
    split; [reflexivity|]. split; [lia|]. split; [lia|].
    destruct z; [lia|]. destruct (0 <? (sumN bits + 7) / 8); lia.
  - rewrite enc_syms_spec by assumption. cbv beta iota zeta.
    destruct (bend && (0 <? (off + sumN bits) mod 8)) eqn:E.
    + apply andb_true_iff in E. destruct E as [_ E]. apply N.ltb_lt in E.
      split; [reflexivity|]. split; [lia|]. split; lia.
    + split; [reflexivity|]. split; [lia|]. split; [lia|].
      destruct (0 <? sumN bits); lia.
Qed.

Definition ht_covers (chk : N -> N) (ok : ht_item -> Prop) : Prop :=
  forall c it, ok it -> Forall (fun b => b <= 32) (it_bits it) /\ c + ht_cost it <= chk c.

Theorem ht_run_safe chk ok : ht_covers chk ok ->
  forall items R c off, 1 <= R -> off <= 7 -> Forall ok items -> Forall fits (ht_run chk (R, c, off) items).
Proof.
  intros Hc. induction items as [|it r IH]; intros R c off HR Ho Hok; [constructor|].
  inversion Hok as [|? ? Hit Hr]; subst.
  destruct (Hc c it Hit) as [Hb Hcov].
  cbn [ht_run]. pose proof (ht_step_bound chk R c off it Ho Hb) as Hs.
  destruct (ht_step chk (R, c, off) it) as [[[R' c'] off'] hi].
  destruct Hs as (-> & Ho' & Hc' & Hhi).
  destruct (cap_grow_spec (chk c) R HR) as [Hneed Hmono].
  constructor.
  - unfold fits. cbn [fst snd]. lia.
  - apply IH; [lia|exact Ho'|exact Hr].
Qed.

Lemma ht_safe_of_covers chk ok R0 items : ht_covers chk ok -> 1 <= R0 -> Forall ok items -> ht_safe chk R0 items = true.
Proof.
  intros Hc HR H. unfold ht_safe. apply all_fit_Forall. constructor.
  - unfold fits. cbn [fst snd]. exact HR.
  - apply (ht_run_safe chk ok Hc); [exact HR|lia|exact H].
Qed.

(* an item of a dictionary whose longest string has maxlen - 1 bytes: code words of at most 32 bits; a header has at most
   maxlen symbols (NUL included), an internal string at most maxlen + 1 (VByte, string, NUL) *)
Definition ht_item_ok (maxlen : N) (it : ht_item) : Prop :=
  Forall (fun b => b <= 32) (it_bits it) /\ lenN (it_bits it) <= (if it_hdr it then maxlen else maxlen + 1).

Lemma chk_ht_covers maxlen : ht_covers (chk_ht maxlen) (ht_item_ok maxlen).
Proof.
  intros c it [Hb Hl]. split; [exact Hb|]. pose proof (sumN_le_len 32 _ Hb) as Hs.
  unfold chk_ht, ht_cost. destruct (it_hdr it); lia.
Qed.

(* HTFC / HHTFC, check of the current source `bytesStrings + 4 * (size_t)maxlength + 6`: sufficient for EVERY item sequence
   with code words of at most 32 bits, from every initial reservation >= 1 *)
Theorem ht_ok maxlen R0 items : 1 <= R0 -> Forall (ht_item_ok maxlen) items -> ht_safe (chk_ht maxlen) R0 items = true.
Proof. intros HR H. apply (ht_safe_of_covers _ _ R0 items (chk_ht_covers maxlen) HR H). Qed.

(* the intermediate repair `+ 2` needs 31 bits of slack in an internal item of maxlen + 1 symbols *)
Definition ht_item_ok2 (maxlen : N) (it : ht_item) : Prop :=
  Forall (fun b => b <= 32) (it_bits it) /\ sumN (it_bits it) <= (if it_hdr it then 32 * maxlen else 32 * maxlen + 1).

Lemma chk_ht2_covers maxlen : ht_covers (chk_ht2 maxlen) (ht_item_ok2 maxlen).
Proof.
  intros c it [Hb Hs]. split; [exact Hb|]. unfold chk_ht2, ht_cost. destruct (it_hdr it); lia.
Qed.

Theorem ht2_ok maxlen R0 items : 1 <= R0 -> Forall (ht_item_ok2 maxlen) items -> ht_safe (chk_ht2 maxlen) R0 items = true.
Proof. intros HR H. apply (ht_safe_of_covers _ _ R0 items (chk_ht2_covers maxlen) HR H). Qed.

(* ... and the slack is necessary in the model: three 32-bit symbols (VByte 0x80, one byte, NUL) at the end of a bucket *)
Theorem ht2_slack_necessary :
  let items := [([32; 32; 32], false, true, true)] in
  ht_item_ok 2 (hd ([], false, false, false) items) /\
  ht_safe (chk_ht2 2) 10 items = false /\ ht_safe (chk_ht 2) 10 items = true /\
  ht_run (chk_ht2 2) (10, 0, 0) items = [(10, 13)].
Proof.
  split.
  - split; [repeat constructor; lia|vm_compute; discriminate].
  - vm_compute. repeat split; reflexivity.
Qed.

(* the old check `bytesStrings + 2 * maxlength`: sufficient exactly for items of at most 2 * maxlength bytes *)
Definition ht_item_ok_old (maxlen : N) (it : ht_item) : Prop :=
  Forall (fun b => b <= 32) (it_bits it) /\ ht_cost it <= 2 * maxlen.

Lemma chk_ht_old_covers maxlen : maxlen < 2 ^ 31 -> ht_covers (chk_ht_old maxlen) (ht_item_ok_old maxlen).
Proof.
  intros Hm c it [Hb Hs]. split; [exact Hb|]. unfold chk_ht_old.
  rewrite N.mod_small by (change (2 ^ 32) with (2 * 2 ^ 31); lia). lia.
Qed.

Theorem ht_old_ok_if maxlen R0 items : maxlen < 2 ^ 31 -> 1 <= R0 -> Forall (ht_item_ok_old maxlen) items ->
  ht_safe (chk_ht_old maxlen) R0 items = true.
Proof. intros Hm HR H. apply (ht_safe_of_covers _ _ R0 items (chk_ht_old_covers maxlen Hm) HR H). Qed.

(* --- from strings to items --- *)
Lemma lenN_map {A B} (f : A -> B) l : lenN (map f l) = lenN l.
Proof. unfold lenN. rewrite map_length. reflexivity. Qed.

Lemma enc_internal_len prev s : lenN (enc_internal prev s) <= lenN s + 2.
Proof.
  unfold enc_internal. rewrite !lenN_app, lenN_skipN. change (lenN [0]) with 1.
  fold (vb_len (lcp prev s)). pose proof (vb_len_le_succ (lcp prev s)). pose proof (lcp_le_r prev s). lia.
Qed.

Lemma ht_items_ok blh bli b m : Forall (fun k => k <= 32) blh -> Forall (fun k => k <= 32) bli ->
  forall S i prev, Forall (fun s => lenN s + 1 <= m) S -> Forall (ht_item_ok m) (ht_items_from blh bli b i prev S).
Proof.
  intros Hh Hi. induction S as [|s r IH]; intros i prev H; cbn [ht_items_from]; [constructor|].
  inversion H as [|? ? Hs Hr]; subst. constructor; [|apply IH; exact Hr].
  unfold ht_item_ok, it_bits, it_hdr. cbn [fst snd].
  destruct (i mod b =? 0).
  - split; [apply map_sym_bits_le32; exact Hh|]. rewrite lenN_map, lenN_app. change (lenN [0]) with 1. lia.
  - split; [apply map_sym_bits_le32; exact Hi|]. rewrite lenN_map. pose proof (enc_internal_len prev s). lia.
Qed.

(* HTFC / HHTFC constructor with the current check: in bounds for EVERY string list, every bucket size, every pair of code
   tables with code words of at most 32 bits and every non-zero initial reservation (MEMALLOC * bucketsize mod 2^32) *)
Theorem ht_ok_strings memalloc blh bli b0 S :
  Forall (fun k => k <= 32) blh -> Forall (fun k => k <= 32) bli -> 1 <= (memalloc * clamp_bsize b0) mod 2 ^ 32 ->
  ht_ctor_in_bounds chk_ht memalloc blh bli b0 S = true.
Proof.
  intros Hh Hi HR. unfold ht_ctor_in_bounds. apply ht_ok; [exact HR|].
  unfold ht_items. apply ht_items_ok; try assumption. apply spec_maxlen_Forall.
Qed.

(* the `+ 2` variant on strings: when NUL and the VByte of lcp 0 (byte 0x80) together take at most 33 bits in the table of
   the internal strings *)
Lemma vb_encode_0 : vb_encode 0 = [128].
Proof. reflexivity. Qed.

Lemma sumN_map_le32 bl s : Forall (fun k => k <= 32) bl -> sumN (map (sym_bits bl) s) <= 32 * lenN s.
Proof. intros H. pose proof (sumN_le_len 32 _ (map_sym_bits_le32 bl s H)). rewrite lenN_map in *. lia. Qed.

Lemma ht_items_ok2 blh bli b m : Forall (fun k => k <= 32) blh -> Forall (fun k => k <= 32) bli ->
  sym_bits bli 0 + sym_bits bli 128 <= 33 ->
  forall S i prev, Forall (fun s => lenN s + 1 <= m) S -> Forall (ht_item_ok2 m) (ht_items_from blh bli b i prev S).
Proof.
  intros Hh Hi Hsl. induction S as [|s r IH]; intros i prev H; cbn [ht_items_from]; [constructor|].
  inversion H as [|? ? Hs Hr]; subst. constructor; [|apply IH; exact Hr].
  unfold ht_item_ok2, it_bits, it_hdr. cbn [fst snd].
  destruct (i mod b =? 0).
  - split; [apply map_sym_bits_le32; exact Hh|].
    pose proof (sumN_map_le32 blh (s ++ [0]) Hh) as H1. rewrite lenN_app in H1. change (lenN [0]) with 1 in H1. lia.
  - split; [apply map_sym_bits_le32; exact Hi|].
    unfold enc_internal. destruct (N.eq_dec (lcp prev s) 0) as [E|E].
    + rewrite E, vb_encode_0. unfold skipN. cbn [N.to_nat skipn]. cbn [app map sumN].
      rewrite map_app, sumN_app. cbn [map sumN].
      pose proof (sumN_map_le32 bli s Hi). lia.
    + pose proof (sumN_map_le32 bli (vb_encode (lcp prev s) ++ skipN (lcp prev s) s ++ [0]) Hi) as H1.
      rewrite !lenN_app, lenN_skipN in H1. change (lenN [0]) with 1 in H1. fold (vb_len (lcp prev s)) in H1.
      pose proof (vb_len_le_self (lcp prev s) ltac:(lia)). pose proof (lcp_le_r prev s). lia.
Qed.

Theorem ht2_ok_strings memalloc blh bli b0 S :
  Forall (fun k => k <= 32) blh -> Forall (fun k => k <= 32) bli -> sym_bits bli 0 + sym_bits bli 128 <= 33 ->
  1 <= (memalloc * clamp_bsize b0) mod 2 ^ 32 ->
  ht_ctor_in_bounds chk_ht2 memalloc blh bli b0 S = true.
Proof.
  intros Hh Hi Hsl HR. unfold ht_ctor_in_bounds. apply ht2_ok; [exact HR|].
  unfold ht_items. apply ht_items_ok2; try assumption. apply spec_maxlen_Forall.
Qed.

(* --- the old check is refuted --- *)
Lemma all_fit_second_false a b l : (snd b <=? fst b) = false -> all_fit (a :: b :: l) = false.
Proof. intros H. unfold all_fit. cbn [forallb]. rewrite H. apply andb_false_r. Qed.

Lemma ht_witness_table_ok : code_table_ok ht_witness_table = true /\ Forall (fun k => k <= 32) ht_witness_table.
Proof.
  split; [vm_compute; reflexivity|].
  apply Forall_forall. intros k Hk.
  assert (H : forallb (fun k => k <=? 32) ht_witness_table = true) by (vm_compute; reflexivity).
  rewrite forallb_forall in H. apply N.leb_le. apply H. exact Hk.
Qed.

(* EVERY string list that starts with W and has no longer string overflows at its first string when the reservation is the
   shrunk one of the harness (MEMALLOC = 16, bucket size 2: the buffer grows to 512 = 2 * maxlength bytes) and the code table
   is the one HuTucker computed for the replayed witness: W takes 560 bytes *)
Theorem ht_old_refuted_strings rest : spec_maxlen (ht_witness_W :: rest) = 255 ->
  ht_ctor_in_bounds chk_ht_old 16 ht_witness_table ht_witness_table 2 (ht_witness_W :: rest) = false.
Proof.
  intros Hm. unfold ht_ctor_in_bounds, ht_safe, ht_items. rewrite Hm.
  cbn [ht_items_from ht_run].
  replace (ht_step (chk_ht_old (255 + 1)) ((16 * clamp_bsize 2) mod 2 ^ 32, 0, 0)
             (if 0 mod clamp_bsize 2 =? 0 then map (sym_bits ht_witness_table) (ht_witness_W ++ [0])
              else map (sym_bits ht_witness_table) (enc_internal [] ht_witness_W), 0 mod clamp_bsize 2 =? 0,
              (0 + 1) mod clamp_bsize 2 =? 0, true))
    with (512, 560, 0, 561) by (vm_compute; reflexivity).
  apply all_fit_second_false. reflexivity.
Qed.

(* the state of the real run with the DEFAULT reservation (MEMALLOC = 32768, bucket size 2; 9695 strings before W):
   cursor 65024 of 65536, no growth (65024 + 512 <= 65536), W is an internal string with lcp 0 that ends its bucket and
   takes 4490 bits: indices up to 65586 are written (ASan: heap-buffer-overflow in StatCoder::encodeSymbol) *)
Theorem ht_old_refuted_real :
  let it := (map (sym_bits ht_witness_table) (enc_internal [] ht_witness_W), false, true, true) in
  sumN (it_bits it) = 4490 /\ ht_item_ok 256 it /\
  ht_step (chk_ht_old 256) (65536, 65024, 0) it = (65536, 65586, 0, 65587) /\
  ht_step (chk_ht 256) (65536, 65024, 0) it = (131072, 65586, 0, 65587).
Proof.
  split; [vm_compute; reflexivity|]. split.
  - split; [apply map_sym_bits_le32; apply ht_witness_table_ok|vm_compute; discriminate].
  - vm_compute. split; reflexivity.
Qed.

(* the property for the OLD constructor as a statement about every table and every string list, and its refutation *)
Definition C07_htfc_capacity_old_full : Prop :=
  forall memalloc bl b0 S, code_table_ok bl = true -> valid_set S -> 1 <= (memalloc * clamp_bsize b0) mod 2 ^ 32 ->
    ht_ctor_in_bounds chk_ht_old memalloc bl bl b0 S = true.

Theorem ht_old_refuted : ~ C07_htfc_capacity_old_full.
Proof.
  intros H.
  assert (Hv : valid_set [ht_witness_W]) by (apply valid_set_b_sound; vm_compute; reflexivity).
  pose proof (H 16 ht_witness_table 2 [ht_witness_W] (proj1 ht_witness_table_ok) Hv ltac:(vm_compute; discriminate)) as H1.
  rewrite (ht_old_refuted_strings [] ltac:(vm_compute; reflexivity)) in H1. discriminate.
Qed.

(* ---------------------------------------------------------------------- *)
(* 4. HASHHF                                                                *)
(* ---------------------------------------------------------------------- *)
Lemma hh_step_spec chk R c bits : Forall (fun b => b <= 32) bits ->
  hh_step chk (R, c) bits =
  (cap_grow (chk c) R, c + (sumN bits + 7) / 8,
   if 0 <? (sumN bits + 7) / 8 then c + (sumN bits + 7) / 8 else 0).
Proof. intros H. unfold hh_step. rewrite tmp_encode_spec by exact H. reflexivity. Qed.

Definition hh_covers (chk : N -> N) (ok : list N -> Prop) : Prop :=
  forall c bits, ok bits -> Forall (fun b => b <= 32) bits /\ c + (sumN bits + 7) / 8 <= chk c.

(* with the growth loop before the three trailing bytes *)
Theorem hh_run_safe chk ok : hh_covers chk ok ->
  forall items R c, 1 <= R -> Forall ok items -> Forall fits (hh_run chk true (R, c) items).
Proof.
  intros Hc. induction items as [|it r IH]; intros R c HR Hok.
  - cbn [hh_run fst snd]. constructor; [|constructor].
    unfold fits. cbn [fst snd]. destruct (cap_grow_spec (c + 3) R HR). lia.
  - inversion Hok as [|? ? Hit Hr]; subst. destruct (Hc c it Hit) as [Hb Hcov].
    cbn [hh_run]. rewrite hh_step_spec by exact Hb.
    destruct (cap_grow_spec (chk c) R HR) as [Hneed Hmono].
    constructor.
    + unfold fits. cbn [fst snd]. destruct (0 <? (sumN it + 7) / 8); lia.
    + apply IH; [lia|exact Hr].
Qed.

(* a string of a dictionary whose longest string has maxlen - 1 bytes: at most maxlen symbols (NUL included), <= 32 bits each *)
Definition hh_item_ok (maxlen : N) (bits : list N) : Prop := Forall (fun b => b <= 32) bits /\ lenN bits <= maxlen.

Lemma chk_hh_covers maxlen : hh_covers (chk_hh maxlen) (hh_item_ok maxlen).
Proof.
  intros c bits [Hb Hl]. split; [exact Hb|]. pose proof (sumN_le_len 32 _ Hb). unfold chk_hh. lia.
Qed.

(* HASHHF, current source (`bytesStrings + 4 * (size_t)maxlength + 2` per string, `bytesStrings + 3` before the trailing
   bytes): sufficient for EVERY item sequence with code words of at most 32 bits, from every initial reservation >= 1 *)
Theorem hh_ok maxlen R0 items : 1 <= R0 -> Forall (hh_item_ok maxlen) items -> hh_safe (chk_hh maxlen) true R0 items = true.
Proof.
  intros HR H. unfold hh_safe. apply all_fit_Forall. constructor.
  - unfold fits. cbn [fst snd]. exact HR.
  - apply (hh_run_safe _ _ (chk_hh_covers maxlen)); [exact HR|exact H].
Qed.

(* ... for every string list in every order (the hash-table order is whatever it is) *)
Theorem hh_ok_strings memalloc bl order : Forall (fun k => k <= 32) bl -> 1 <= memalloc ->
  hh_ctor_in_bounds chk_hh true memalloc bl order = true.
Proof.
  intros Hbl HR. unfold hh_ctor_in_bounds. apply hh_ok; [exact HR|].
  unfold hh_items. apply Forall_forall. intros bits Hin. apply in_map_iff in Hin. destruct Hin as (s & <- & Hs).
  split; [apply map_sym_bits_le32; exact Hbl|].
  rewrite lenN_map, lenN_app. change (lenN [0]) with 1. pose proof (spec_maxlen_ge order s Hs). lia.
Qed.

Lemma hh_witness_table_ok : code_table_ok hh_witness_table = true.
Proof. vm_compute. reflexivity. Qed.

(* the constructor before the repairs (old check, no growth loop before the trailing bytes) on the seven strings "a" .. "g"
   with the shrunk reservation of the harness (MEMALLOC = 16) and the table Huffman computes for them: every string takes
   14 bits = 2 bytes, the cursor reaches 14 without growth (12 + 4 <= 16) and the third trailing byte is index 16 of 16
   (ASan: heap-buffer-overflow at StringDictionaryHASHHF.cpp:249).  Any order of the seven strings gives the same run. *)
Theorem hh_tail_refuted_strings :
  valid_set_b hh_witness_S = true /\
  hh_ctor_in_bounds chk_hh_old false 16 hh_witness_table hh_witness_S = false /\
  last (hh_run (chk_hh_old 2) false (16, 0) (hh_items hh_witness_table hh_witness_S)) (0, 0) = (16, 17) /\
  hh_ctor_in_bounds chk_hh_old false 16 hh_witness_table (removelast hh_witness_S) = true /\
  hh_ctor_in_bounds chk_hh true 16 hh_witness_table hh_witness_S = true.
Proof. vm_compute. repeat split; reflexivity. Qed.

(* the growth loop before the trailing bytes is needed also with the new per-string check (model level: two 32-bit symbols) *)
Theorem hh_tail_necessary :
  hh_item_ok 2 [32; 32] /\ hh_safe (chk_hh 2) false 10 [[32; 32]] = false /\ hh_safe (chk_hh 2) true 10 [[32; 32]] = true.
Proof.
  split; [split; [repeat constructor; lia|vm_compute; discriminate]|]. vm_compute. split; reflexivity.
Qed.

(* the old per-string check `2 * maxlength` is too weak for the memcpy as well (same long string as for HTFC) *)
Theorem hh_old_refuted :
  hh_ctor_in_bounds chk_hh_old true 16 ht_witness_table [ht_witness_W] = false /\
  hh_run (chk_hh_old 256) true (16, 0) (hh_items ht_witness_table [ht_witness_W]) = [(512, 560); (1024, 563)] /\
  hh_ctor_in_bounds chk_hh true 16 ht_witness_table [ht_witness_W] = true.
Proof. vm_compute. repeat split; reflexivity. Qed.

(* ---------------------------------------------------------------------- *)
(* 5. scratch buffers                                                       *)
(* ---------------------------------------------------------------------- *)
(* a string encoded into a scratch buffer of [size] bytes stays inside it iff its code takes fewer than 8 * size bits
   (the byte cleared ahead is index T / 8) *)
Theorem tmp_ok size bits : Forall (fun b => b <= 32) bits -> sumN bits < 8 * size -> snd (tmp_encode bits) <= size.
Proof. intros H Hs. rewrite tmp_encode_spec by exact H. cbn [snd]. lia. Qed.

Lemma sumN_Exists_31 bits : Forall (fun b => b <= 32) bits -> Exists (fun b => b <= 31) bits -> sumN bits + 1 <= 32 * lenN bits.
Proof.
  intros H He. induction He as [b l Hb|b l He IH]; inversion H as [|? ? Hb' Hl]; subst; cbn [sumN]; rewrite lenN_cons.
  - pose proof (sumN_le_len 32 l Hl). lia.
  - specialize (IH Hl). lia.
Qed.

(* `new uchar[4 * maxlength]` (headers of HTFC / HHTFC / RPHTFC, every string of HASHUFFDAC): at most maxlength symbols; safe
   when the string is shorter than the longest one or one of its symbols (e.g. its NUL) has a code word below 32 bits *)
Theorem tmp4_ok m bits : Forall (fun b => b <= 32) bits -> lenN bits <= m ->
  lenN bits < m \/ Exists (fun b => b <= 31) bits -> snd (tmp_encode bits) <= 4 * m.
Proof.
  intros H Hl Hx. apply tmp_ok; [exact H|].
  destruct Hx as [Hlt|He].
  - pose proof (sumN_le_len 32 bits H). lia.
  - pose proof (sumN_Exists_31 bits H He). lia.
Qed.

(* ... and only then (model level): maxlength symbols of exactly 32 bits clear the byte at index 4 * maxlength *)
Theorem tmp4_tight : tmp_encode [32; 32] = (8, 9) /\ hh_item_ok 2 [32; 32].
Proof. split; [vm_compute; reflexivity|]. split; [repeat constructor; lia|vm_compute; discriminate]. Qed.

(* `new uchar[6 * maxlength]` (HASHHF): always enough *)
Theorem tmp6_ok m bits : Forall (fun b => b <= 32) bits -> lenN bits <= m -> 1 <= m -> snd (tmp_encode bits) <= 6 * m.
Proof. intros H Hl Hm. apply tmp_ok; [exact H|]. pose proof (sumN_le_len 32 bits H). lia. Qed.

(* StatCoder::encodeString(str, strLen + 1) allocates 4 * (strLen + 1) bytes for the pattern and its NUL: enough for EVERY
   pattern as soon as the NUL has a code word below 32 bits *)
Theorem encode_string_ok bl q : Forall (fun k => k <= 32) bl -> sym_bits bl 0 <= 31 ->
  snd (tmp_encode (map (sym_bits bl) (q ++ [0]))) <= 4 * (lenN q + 1).
Proof.
  intros Hbl H0. apply tmp4_ok.
  - apply map_sym_bits_le32. exact Hbl.
  - rewrite lenN_map, lenN_app. change (lenN [0]) with 1. lia.
  - right. rewrite map_app. apply Exists_app. right. cbn [map]. constructor. exact H0.
Qed.

(* ... since commit "StatCoder::encodeString overruns its buffer by one byte": 4 * strLen + 1 bytes, enough for EVERY table with code
   words of at most 32 bits and every pattern - no hypothesis on the NUL's code word is needed any more *)
Theorem tmp4p1_ok m bits : Forall (fun b => b <= 32) bits -> lenN bits <= m -> snd (tmp_encode bits) <= 4 * m + 1.
Proof. intros H Hl. apply tmp_ok; [exact H|]. pose proof (sumN_le_len 32 bits H). lia. Qed.

Theorem encode_string_p1_ok bl q : Forall (fun k => k <= 32) bl ->
  snd (tmp_encode (map (sym_bits bl) (q ++ [0]))) <= 4 * (lenN q + 1) + 1.
Proof.
  intros Hbl. apply tmp4p1_ok.
  - apply map_sym_bits_le32. exact Hbl.
  - rewrite lenN_map, lenN_app. change (lenN [0]) with 1. lia.
Qed.

(* the old allocation (4 * strLen) is overrun by the one-symbol string whose code word has 32 bits *)
Theorem encode_string_old_refuted : exists bits, Forall (fun b => b <= 32) bits /\ lenN bits = 1 /\ 4 * 1 < snd (tmp_encode bits).
Proof. exists [32]. split; [repeat constructor; lia|]. split; [reflexivity|]. vm_compute. reflexivity. Qed.

(* RPHTFC appends the two bytes its header decoder reads ahead after `while ((bytesStrings + 2) > reservedStrings) reserved = Reallocate`:
   the doubling loop [cap_grow] of CapacityDefs establishes the bound, and the two writes are below it *)
Theorem tail2_ok cursor reserved : 1 <= reserved ->
  let r := CapacityDefs.cap_grow (cursor + 2) reserved in cursor < r /\ cursor + 1 < r.
Proof.
  intros Hr r. destruct (CapacityProofs.cap_grow_spec (cursor + 2) reserved Hr) as [H _]. fold r in H. lia.
Qed.

(* maxcomplength: the constructors keep the maximum of the encoded header sizes; decoding reads `maxcomplength + 4` bytes *)
Lemma fold_max_ge_init : forall (l : list N) m, m <= fold_left N.max l m.
Proof. induction l as [|y l IH]; intros m; cbn [fold_left]; [lia|]. specialize (IH (N.max m y)). lia. Qed.

Theorem maxcomplength_ge : forall (l : list N) m x, In x l -> x <= fold_left N.max l m.
Proof.
  induction l as [|y l IH]; intros m x Hin; [destruct Hin|].
  cbn [fold_left]. destruct Hin as [->|Hin]; [|apply IH; exact Hin].
  pose proof (fold_max_ge_init l (N.max m x)). lia.
Qed.

(* StringDictionaryHASHUFFDAC::extractString: `dec = new uchar[4 * maxlength]` receives the bytes of the encoded string and
   then `dec[level] = 0`: enough when the string is not the longest one or one symbol (e.g. its NUL) has at most 24 bits *)
Lemma sumN_Exists_slack d bits : d <= 32 -> Forall (fun b => b <= 32) bits -> Exists (fun b => b + d <= 32) bits ->
  sumN bits + d <= 32 * lenN bits.
Proof.
  intros Hd H He. induction He as [b l Hb|b l He IH]; inversion H as [|? ? Hb' Hl]; subst; cbn [sumN]; rewrite lenN_cons.
  - pose proof (sumN_le_len 32 l Hl). lia.
  - specialize (IH Hl). lia.
Qed.

Theorem hashuffdac_dec_ok m bits : Forall (fun b => b <= 32) bits -> lenN bits <= m ->
  lenN bits < m \/ Exists (fun b => b + 8 <= 32) bits -> fst (tmp_encode bits) + 1 <= 4 * m.
Proof.
  intros H Hl Hx. rewrite tmp_encode_spec by exact H. cbn [fst].
  destruct Hx as [Hlt|He].
  - pose proof (sumN_le_len 32 bits H). lia.
  - pose proof (sumN_Exists_slack 8 bits ltac:(lia) H He). lia.
Qed.
