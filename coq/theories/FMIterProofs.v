(* FM-index dictionary, part 2:
     1. the three statements FMProofs.v left as `Definition ..._full : Prop` (string streams of
        extractSubstr / extractPrefix, the ID stream of locatePrefix) + extractTable;
     2. composition with the pointer wavelet tree of BitRGDefs.v: a copy of the FMDefs.v model that is
        PARAMETRIC in the sequence operations (Sequence::rank / Sequence::access(i, rank) / getLength),
        proved equal to FMDefs.v for every instance that agrees with the list-level operations, and the
        instance "pointer WaveletTree over any lawful bitmap" (in particular over the word-exact BitSequenceRG).
   No Axiom / Admitted. *)
From LibCSD Require Import Base Spec SpecProofs IterDefs IterProofs FMDefs FMProofs.
From LibCSD Require BitRGDefs BitRGProofs.
From Coq Require Import Lia ZifyBool ZifyNat ZifyN Permutation Sorted.
Ltac Zify.zify_post_hook ::= Z.to_euclidean_division_equations.
Local Open Scope N_scope.

(* ================================================================================ *)
(* Part A: strings named by ID lists (specification side only)                        *)
(* ================================================================================ *)
Lemma ids_where_extract f : forall (L pre : list str),
  map (spec_extract (pre ++ L)) (ids_where f L (lenN pre + 1)) = map Some (filter f L).
Proof.
  induction L as [|s r IH]; intros pre; [reflexivity|].
  cbn [ids_where filter].
  assert (E : pre ++ s :: r = (pre ++ [s]) ++ r) by (rewrite <- app_assoc; reflexivity).
  pose proof (IH (pre ++ [s])) as IH'. rewrite <- E in IH'. rewrite lenN_snoc in IH'.
  assert (Hs : spec_extract (pre ++ s :: r) (lenN pre + 1) = Some s).
  { unfold spec_extract. destruct (N.eqb_spec (lenN pre + 1) 0); [lia|].
    replace (lenN pre + 1 - 1) with (lenN pre) by lia. apply nthN_mid. }
  destruct (f s); cbn [map]; [rewrite Hs|]; rewrite IH'; reflexivity.
Qed.

Lemma spec_substr_extract S p :
  map (spec_extract S) (spec_substr_ids S p) = map Some (spec_substr_strs S p).
Proof. exact (ids_where_extract (is_infix p) S []). Qed.
Lemma spec_prefix_extract S p :
  map (spec_extract S) (spec_prefix_ids S p) = map Some (spec_prefix_strs S p).
Proof. exact (ids_where_extract (is_prefix p) S []). Qed.

Lemma ids_where_all : forall (L : list str) i, ids_where (fun _ => true) L i = seq_from i (length L).
Proof. induction L as [|s r IH]; intros i; [reflexivity|]. cbn [ids_where length seq_from]. rewrite IH. reflexivity. Qed.
Lemma filter_all {A} (L : list A) : filter (fun _ => true) L = L.
Proof. induction L as [|s r IH]; [reflexivity|]. cbn [filter]. rewrite IH. reflexivity. Qed.
Lemma spec_table_extract (S : list str) : map (spec_extract S) (seq_from 1 (length S)) = map Some S.
Proof. rewrite <- ids_where_all. pose proof (ids_where_extract (fun _ => true) S []) as H. rewrite filter_all in H. exact H. Qed.

Lemma map_Some_nil {A} (l : list A) : [] = map Some l -> l = [].
Proof. destruct l; [reflexivity|discriminate]. Qed.
Lemma map_Some_cons {A B} (f : A -> option B) x r (l : list B) : map f (x :: r) = map Some l -> l <> [].
Proof. destruct l; [discriminate|]. intros _. discriminate. Qed.

Lemma dict_text_len_ge (L : list str) : lenN L + 2 <= lenN (dict_text L).
Proof. induction L as [|x l IH]; [cbn; lia|]. rewrite dict_text_cons, !lenN_cons, lenN_app. lia. Qed.

Lemma run_iter_nonempty {St A} (it : itmachine St A) cap st ids more st' :
  it_has_next it st = true -> run_iter it (Datatypes.S cap) st = Some (ids, more, st') -> ids <> [].
Proof.
  unfold run_iter. rewrite drain_S. intros ->. destruct (it_next it st) as [[x st1]|]; [|discriminate].
  destruct (drain_iter it cap st1) as [[l st2]|]; [|discriminate]. intros H; inversion H. discriminate.
Qed.

(* the contiguous iterator over a non-empty range a .. a+k *)
Lemma contig_run_seq a k cap : 1 <= a -> a + N.of_nat k < sz64 -> (Datatypes.S k <= cap)%nat ->
  exists st', run_iter contig_iter cap (contig_init a (a + N.of_nat k)) = Some (seq_from a (Datatypes.S k), false, st').
Proof.
  intros Ha Hb Hc. pose proof (contig_iter_spec a (a + N.of_nat k) ltac:(lia) Hb) as Hd.
  unfold contig_list in Hd.
  assert ((1 <=? a) && (a <=? a + N.of_nat k) = true) as E by (apply andb_true_iff; split; apply N.leb_le; lia).
  rewrite E in Hd. replace (N.to_nat (a + N.of_nat k + 1 - a)) with (Datatypes.S k) in Hd by lia.
  destruct (denotes_run contig_iter _ _ Hd cap) as (st' & Hr). exists st'. rewrite Hr.
  rewrite seqN_length. rewrite firstn_all2 by (rewrite seqN_length; lia).
  assert ((cap <? Datatypes.S k)%nat = false) as -> by (apply Nat.ltb_ge; lia). reflexivity.
Qed.

(* ================================================================================ *)
(* Part B: the iterator layer of StringDictionaryFMINDEX                              *)
(* ================================================================================ *)
Section DictIter.
  Variable S : list str.
  Hypothesis HS : valid_set S.
  Variable sa : list N.
  Variable d : fmidx.
  Hypothesis Hchk : fm_check S sa d = true.

  Notation P := (table_of (dict_text S) sa).
  Notation lo := (FMProofs.lo P).
  Notation hi := (FMProofs.hi P).
  Notation occs := (FMProofs.occs P).

  Let HSs' : sorted_lt S := HSs S HS.
  Let HP' := HP S sa d Hchk.
  Let Hbwt' := Hbwt S sa d Hchk.
  Let Halpha' := Halpha S sa d Hchk.
  Let Hsmall' := Hsmall S sa d Hchk.

  Lemma lenS_small : lenN S + 3 < w32.
  Proof. pose proof (dict_text_len_ge S). pose proof Hsmall'. lia. Qed.
  Lemma elements_eq : fm_elements d = lenN S.
  Proof. apply (chk_parts S sa d Hchk). Qed.

  (* extract_id on the row of a valid ID gives the member *)
  Lemma extract_row id s : spec_extract S id = Some s -> ssa_extract_id d (row_of_id d id) = Some s.
  Proof.
    intros H. pose proof (fm_extract_spec S HS sa d Hchk id) as E. rewrite H in E. unfold fm_extract in E.
    destruct ((0 <? id) && (id <=? fm_elements d)); [|discriminate E].
    destruct (ssa_extract_id d (row_of_id d id)); [|discriminate E]. congruence.
  Qed.

  Lemma extract_ids_spec : forall ids l, map (spec_extract S) ids = map Some l -> extract_ids d ids = Some l.
  Proof.
    induction ids as [|id r IH]; intros [|s l] H; cbn [map] in H; try discriminate H; [reflexivity|].
    inversion H as [[H1 H2]]. cbn [extract_ids]. rewrite (extract_row id s H1), (IH l H2). reflexivity.
  Qed.

  (* IteratorDictStringFMINDEX over the IDs i .. i+n-1 *)
  Lemma fmstr_iter_spec : forall n cap i l, (n <= cap)%nat -> i + N.of_nat n < sz64 ->
    map (spec_extract S) (seq_from i n) = map Some l ->
    fmstr_iter d cap i (i + N.of_nat n) = Some (l, false).
  Proof.
    induction n as [|n IH]; intros cap i l Hc Hb H.
    - cbn [seq_from map] in H. apply map_Some_nil in H. subst l. change (N.of_nat 0) with 0. rewrite N.add_0_r.
      destruct cap; cbn [fmstr_iter]; rewrite N.ltb_irrefl; reflexivity.
    - destruct cap as [|cap]; [lia|]. destruct l as [|s l]; [discriminate H|]. cbn [seq_from map] in H. inversion H as [[H1 H2]].
      cbn [fmstr_iter]. assert (i <? i + N.of_nat (Datatypes.S n) = true) as -> by (apply N.ltb_lt; lia).
      rewrite (extract_row i s H1). rewrite wrap64_small by lia.
      replace (i + N.of_nat (Datatypes.S n)) with (i + 1 + N.of_nat n) by lia.
      rewrite (IH cap (i + 1) l); [reflexivity|lia|lia|exact H2].
  Qed.

  (* ---- extractTable: the whole dictionary in ID order ---- *)
  Theorem fm_extractTable_spec cap : (length S <= cap)%nat -> fm_extractTable d cap = Some (S, false).
  Proof.
    intros Hcap. unfold fm_extractTable. rewrite elements_eq. pose proof lenS_small as B.
    rewrite wrap64_small by (unfold w32, sz64 in *; lia).
    replace (lenN S + 1) with (1 + N.of_nat (length S)) by (unfold lenN; lia).
    apply fmstr_iter_spec; [exact Hcap|unfold lenN, w32, sz64 in *; lia|apply spec_table_extract].
  Qed.

  (* ---- locatePrefix: the ID stream the client sees ---- *)
  Theorem fm_locatePrefix_ids_spec p cap : p <> [] -> valid_query p -> (length S <= cap)%nat ->
    fm_locatePrefix_ids d p cap = Some (spec_prefix_ids S p, false).
  Proof.
    intros Hpn Hq Hcap. unfold fm_locatePrefix_ids. rewrite (fm_locatePrefix_spec S HS sa d Hchk p Hpn Hq).
    rewrite (spec_prefix_ids_run S p HSs').
    match goal with |- context [seq_from ?a0 ?n0] => set (a := a0); set (n := n0) end.
    assert (Hn : (n <= length S)%nat) by apply cnt_le.
    assert (Ha : 1 <= a <= lenN S + 1).
    { unfold a. assert (Hc0 : (cnt (fun s : list N => ltb s p) S <= length S)%nat) by apply cnt_le. unfold lenN. lia. }
    pose proof lenS_small as B. clearbody a n.
    destruct n as [|k].
    - cbn [seq_from range_of].
      destruct (denotes_run contig_iter _ [] contig_iter_noresult cap) as (st' & ->). rewrite firstn_nil. destruct cap; reflexivity.
    - change (range_of (seq_from a (Datatypes.S k))) with (a, last (seq_from a (Datatypes.S k)) a). rewrite last_seq_from.
      destruct (contig_run_seq a k cap) as (st' & ->); [lia|unfold lenN, w32, sz64 in *; lia|lia|reflexivity].
  Qed.

  (* ---- SSA::locateP on `\1 p`: limits and count, exactly ---- *)
  Lemma ssa_locateP_prefix p : p <> [] -> valid_query p ->
    ssa_locateP d (1 :: p) =
    Some (match cnt (fun s => is_prefix p s) S with
          | O => None
          | Datatypes.S k =>
              Some (N.of_nat (Datatypes.S (cnt (fun s => ltb s p) S)),
                    N.of_nat (Datatypes.S (cnt (fun s => ltb s p) S)) + N.of_nat k,
                    N.of_nat (Datatypes.S k))
          end).
  Proof.
    intros Hpn Hq. pose proof (valid_query_vstr p Hq) as Hv.
    rewrite <- (occs_prefix S HS sa d Hchk p Hv Hpn).
    set (a := N.of_nat (Datatypes.S (cnt (fun s => ltb s p) S))).
    assert (Hzero : occs (1 :: p) = 0%nat ->
              Some None = Some (match occs (1 :: p) with O => None | Datatypes.S k => Some (a, a + N.of_nat k, N.of_nat (Datatypes.S k)) end)).
    { intros ->. reflexivity. }
    unfold ssa_locateP. cbn [rev].
    destruct (rev p) as [|c rp] eqn:Erev; [apply (f_equal (@rev N)) in Erev; rewrite rev_involutive in Erev; cbn in Erev; congruence|].
    assert (Ep : 1 :: p = rev (rp ++ [1]) ++ [c]).
    { rewrite rev_app_distr. cbn [rev app]. rewrite <- (rev_involutive p), Erev. reflexivity. }
    assert (Hsym : Forall symok (c :: rp)) by (rewrite <- Erev; apply Forall_rev, valid_query_symok; exact Hq).
    pose proof (Forall_inv Hsym) as [Hc1 Hc2]. pose proof (Forall_inv_tail Hsym) as Hrp.
    assert (Hrp1 : Forall symok (rp ++ [1])) by (apply Forall_app; split; [exact Hrp|constructor; [unfold symok; lia|constructor]]).
    cbn [app]. destruct (alpha_total d Halpha' c Hc2) as ([|] & Ha); rewrite Ha.
    2:{ apply Hzero. rewrite Ep. apply (occs_absent _ P HP'); [exact Hc1|]. apply (alpha_false P d Hbwt' Halpha'); assumption. }
    pose proof (alpha_true d Halpha' c Hc2 Ha) as Hin.
    destruct (bs_init' S sa d Hchk c Hc1 Hin) as (H0 & o1 & H1 & H1'). rewrite H0, H1, H1'.
    pose proof (bs_spec S sa d Hchk sz64 (or_intror eq_refl) (rp ++ [1]) [c] ltac:(discriminate) Hrp1) as Hb. rewrite <- Ep in Hb.
    destruct (bs_loop sz64 d (rp ++ [1]) (N.of_nat (lo [c])) (N.of_nat (hi [c]) - 1)) as [| |sp ep]; [contradiction|apply Hzero; exact Hb|].
    destruct (N.leb_spec sp ep); [|apply Hzero; exact Hb].
    destruct Hb as (-> & -> & Hpos). pose proof (hi_lo P (1 :: p)) as Hhl. pose proof (hi_le _ P HP' (1 :: p)) as Hhb.
    pose proof (lo_prefix S HS sa d Hchk p Hv Hpn) as Hlo. pose proof Hsmall' as B. unfold lenN in B.
    assert (E1 : sub_sz (N.of_nat (lo (1 :: p))) 2 = a).
    { unfold a, sub_sz, sz64. unfold w32 in B. rewrite Hlo. lia. }
    assert (E2 : sub_sz (N.of_nat (hi (1 :: p)) - 1) 2 = a + N.of_nat (occs (1 :: p) - 1)).
    { unfold a, sub_sz, sz64. unfold w32 in B. rewrite Hhl, Hlo. lia. }
    assert (E3 : wrap64 (sub_sz (N.of_nat (hi (1 :: p)) - 1) (N.of_nat (lo (1 :: p))) + 1) = N.of_nat (occs (1 :: p))).
    { unfold wrap64, sub_sz, sz64, w32 in *. rewrite Hhl. lia. }
    rewrite E1, E2, E3. destruct (occs (1 :: p)) as [|k]; [lia|].
    replace (Datatypes.S k - 1)%nat with k by lia. reflexivity.
  Qed.

  (* ---- extractPrefix: the strings with prefix p, in ID order (NULL iterator when none) ---- *)
  Theorem fm_extractPrefix_spec p cap : p <> [] -> valid_query p -> (length S <= cap)%nat ->
    fm_extractPrefix d p cap = Some (match spec_prefix_strs S p with [] => None | l => Some (l, false) end).
  Proof.
    intros Hpn Hq Hcap. unfold fm_extractPrefix. rewrite (ssa_locateP_prefix p Hpn Hq).
    pose proof (spec_prefix_extract S p) as Hx. rewrite (spec_prefix_ids_run S p HSs') in Hx.
    match type of Hx with context [seq_from ?a0 ?n0] => set (a := a0) in *; set (n := n0) in * end.
    assert (Hn : (n <= length S)%nat) by apply cnt_le.
    assert (Ha : 1 <= a <= lenN S + 1).
    { unfold a. assert (Hc0 : (cnt (fun s : list N => ltb s p) S <= length S)%nat) by apply cnt_le. unfold lenN. lia. }
    pose proof lenS_small as B. clearbody a n.
    destruct n as [|k].
    - cbn [seq_from map] in Hx. apply map_Some_nil in Hx. rewrite Hx. reflexivity.
    - assert (N.of_nat (Datatypes.S k) mod w32 = N.of_nat (Datatypes.S k)) as -> by (apply N.mod_small; unfold lenN in B; lia).
      assert (0 <? N.of_nat (Datatypes.S k) = true) as -> by (apply N.ltb_lt; lia).
      rewrite (N.mod_small a) by lia. rewrite wrap64_small by (unfold lenN, w32, sz64 in *; lia).
      replace (a + N.of_nat k + 1) with (a + N.of_nat (Datatypes.S k)) by lia.
      rewrite (fmstr_iter_spec (Datatypes.S k) cap a (spec_prefix_strs S p)); [|lia|unfold lenN, w32, sz64 in *; lia|exact Hx].
      cbn [seq_from] in Hx. apply map_Some_cons in Hx. destruct (spec_prefix_strs S p); [congruence|reflexivity].
  Qed.

  (* ---- extractSubstr: the members containing p, each once, in ID order (NULL when none) ---- *)
  Theorem fm_extractSubstr_spec p cap : fm_samplesuff d <> 0 -> p <> [] -> valid_query p -> (length S <= cap)%nat ->
    fm_extractSubstr d p cap = Some (match spec_substr_strs S p with [] => None | l => Some (l, false) end).
  Proof.
    intros Hstep Hpn Hq Hcap.
    pose proof (fm_locateSubstr_spec S HS sa d Hchk Hstep p cap Hpn Hq Hcap) as HL.
    pose proof (spec_substr_extract S p) as Hx.
    unfold fm_locateSubstr in HL. unfold fm_extractSubstr.
    destruct (fm_samplesuff d =? 0); [discriminate HL|].
    destruct (ssa_locate d p) as [oc|]; [|discriminate HL].
    destruct (w32 <=? lenN oc); [discriminate HL|].
    destruct (0 <? lenN oc) eqn:Hpos.
    - destruct (run_iter dup_iter cap (arr_init (dup_array (isortN oc)) (lenN oc))) as [[[ids more] st]|] eqn:Hrun; [|discriminate HL].
      assert (ids = spec_substr_ids S p /\ more = false) as [-> ->] by (split; congruence).
      rewrite (extract_ids_spec _ _ Hx).
      assert (Hlen1 : (1 <= length S)%nat).
      { pose proof (proj1 HS) as Hne0. destruct (length S) eqn:E0; [apply length_zero_iff_nil in E0; contradiction|lia]. }
      destruct cap as [|cap]; [lia|].
      assert (Hne : spec_substr_ids S p <> []) by (apply (run_iter_nonempty dup_iter cap (arr_init (dup_array (isortN oc)) (lenN oc)) _ _ _ Hpos Hrun)).
      destruct (spec_substr_ids S p) as [|x r]; [congruence|]. apply map_Some_cons in Hx.
      destruct (spec_substr_strs S p); [congruence|reflexivity].
    - destruct (denotes_run contig_iter _ [] contig_iter_noresult cap) as (st' & Hr). rewrite Hr, firstn_nil in HL.
      assert (E : spec_substr_ids S p = []) by congruence. rewrite E in Hx. cbn [map] in Hx. apply map_Some_nil in Hx.
      rewrite Hx. reflexivity.
  Qed.

  (* ---- what the streams look like: members of S, hence non-empty and NUL/separator-free, no repeats ---- *)
  Lemma filter_members (f : str -> bool) :
    NoDup (filter f S) /\ Forall valid_str (filter f S) /\ (forall s, In s (filter f S) <-> In s S /\ f s = true).
  Proof.
    split; [apply NoDup_filter, sorted_NoDup; exact HSs'|]. split; [|intros s; apply filter_In].
    pose proof (proj1 (proj2 HS)) as Hv. rewrite Forall_forall in *. intros s Hs. apply filter_In in Hs. apply Hv, Hs.
  Qed.
  Corollary fm_extractSubstr_stream p cap : fm_samplesuff d <> 0 -> p <> [] -> valid_query p -> (length S <= cap)%nat ->
    forall l more, fm_extractSubstr d p cap = Some (Some (l, more)) ->
      more = false /\ NoDup l /\ Forall valid_str l /\ (forall s, In s l <-> In s S /\ is_infix p s = true).
  Proof.
    intros Hstep Hpn Hq Hcap l more H. rewrite (fm_extractSubstr_spec p cap Hstep Hpn Hq Hcap) in H.
    pose proof (filter_members (is_infix p)) as F. fold (spec_substr_strs S p) in F.
    destruct (spec_substr_strs S p) as [|x r]; [discriminate H|]. inversion H; subst. split; [reflexivity|exact F].
  Qed.
  Corollary fm_extractPrefix_stream p cap : p <> [] -> valid_query p -> (length S <= cap)%nat ->
    forall l more, fm_extractPrefix d p cap = Some (Some (l, more)) ->
      more = false /\ NoDup l /\ Forall valid_str l /\ (forall s, In s l <-> In s S /\ is_prefix p s = true).
  Proof.
    intros Hpn Hq Hcap l more H. rewrite (fm_extractPrefix_spec p cap Hpn Hq Hcap) in H.
    pose proof (filter_members (is_prefix p)) as F. fold (spec_prefix_strs S p) in F.
    destruct (spec_prefix_strs S p) as [|x r]; [discriminate H|]. inversion H; subst. split; [reflexivity|exact F].
  Qed.
End DictIter.

(* the statements of FMProofs.v, Part 9, are now theorems *)
Theorem fm_extractSubstr_spec_full_proved : fm_extractSubstr_spec_full.
Proof. intros S sa d p cap HS Hc Hs Hp Hq Hcap. exact (fm_extractSubstr_spec S HS sa d Hc p cap Hs Hp Hq Hcap). Qed.
Theorem fm_extractPrefix_spec_full_proved : fm_extractPrefix_spec_full.
Proof. intros S sa d p cap HS Hc Hp Hq Hcap. exact (fm_extractPrefix_spec S HS sa d Hc p cap Hp Hq Hcap). Qed.
Theorem fm_locatePrefix_ids_spec_full_proved : fm_locatePrefix_ids_spec_full.
Proof. intros S sa d p cap HS Hc Hp Hq Hcap. exact (fm_locatePrefix_ids_spec S HS sa d Hc p cap Hp Hq Hcap). Qed.

(* ================================================================================ *)
(* Part C: the FMDefs.v model, parametric in the sequence operations                  *)
(* ================================================================================ *)
(* What SSA uses of `Sequence *bwt`: getLength(), rank(c, i), access(i, rank).
   None = the call is made with an argument outside the sequence. *)
Record seqops : Type := mk_seqops {
  so_len : N;                               (* bwt->getLength() = n + 1 *)
  so_rank : N -> N -> option N;             (* bwt->rank(c, i) *)
  so_access : N -> option (N * N)           (* bwt->access(i, rank): symbol and rank *)
}.
(* the instance FMDefs.v is written over *)
Definition list_ops (l : list N) : seqops := mk_seqops (lenN l) (FMDefs.seq_rank l) (FMDefs.seq_access l).

Section FMParam.
  Variable o : seqops.

  Definition p_bs_step (W : N) (d : fmidx) (c sp ep : N) : option (N * N) :=
    match nthN (fm_occ d) c, so_rank o c (sub1W W sp), so_rank o c ep with
    | Some o0, Some r1, Some r2 => Some ((o0 + r1) mod W, sub1W W ((o0 + r2) mod W))
    | _, _, _ => None
    end.

  Fixpoint p_bs_loop (W : N) (d : fmidx) (rp : list N) (sp ep : N) : bs_result :=
    match rp with
    | [] => BS_range sp ep
    | c :: rp' =>
        if sp <=? ep then
          match nthN (fm_alpha d) c with
          | None => BS_oob
          | Some false => BS_notalpha
          | Some true =>
              match p_bs_step W d c sp ep with
              | None => BS_oob
              | Some (sp', ep') => p_bs_loop W d rp' sp' ep'
              end
          end
        else BS_range sp ep
    end.

  Definition p_ssa_locate_id (d : fmidx) (pat : list N) : option N :=
    match rev pat with
    | [] => None
    | c :: rp =>
        match nthN (fm_occ d) c, nthN (fm_occ d) (c + 1) with
        | Some o0, Some o1 =>
            match p_bs_loop w32 d rp o0 (sub1W w32 o1) with
            | BS_oob => None
            | BS_notalpha => Some 0
            | BS_range sp ep => Some (if sp <=? ep then sp else 0)
            end
        | _, _ => None
        end
    end.

  Definition p_ssa_locateP (d : fmidx) (pat : list N) : option (option (N * N * N)) :=
    match rev pat with
    | [] => None
    | c :: rp =>
        match nthN (fm_alpha d) c with
        | None => None
        | Some false => Some None
        | Some true =>
            match nthN (fm_occ d) c, nthN (fm_occ d) (c + 1) with
            | Some o0, Some o1 =>
                match p_bs_loop sz64 d rp o0 (sub1W w32 o1) with
                | BS_oob => None
                | BS_notalpha => Some None
                | BS_range sp ep =>
                    if sp <=? ep then Some (Some (sub_sz sp 2, sub_sz ep 2, wrap64 (sub_sz ep sp + 1)))
                    else Some None
                end
            | _, _ => None
            end
        end
    end.

  Fixpoint p_ssa_walk (d : fmidx) (fuel : nat) (j : N) : option N :=
    match fuel with
    | O => None
    | Datatypes.S f =>
        match nthN (fm_sampled d) j with
        | None => None
        | Some true =>
            match bit_rank1 (fm_sampled d) j with
            | None => None
            | Some r => nthN (fm_suff d) (sub_sz r 1)
            end
        | Some false =>
            match so_access o j with
            | None => None
            | Some (c, rk) =>
                if c =? 1 then Some (sub_sz rk 1)
                else match nthN (fm_occ d) c with
                     | None => None
                     | Some o0 => p_ssa_walk d f (wrap64 (o0 + sub_sz rk 1))
                     end
            end
        end
    end.

  Definition p_fuel : nat := Datatypes.S (N.to_nat (so_len o)).

  Fixpoint p_walk_rows (d : fmidx) (rows : list N) : option (list N) :=
    match rows with
    | [] => Some []
    | r :: rest =>
        match p_ssa_walk d p_fuel r, p_walk_rows d rest with
        | Some x, Some l => Some (x :: l)
        | _, _ => None
        end
    end.

  Definition p_ssa_locate (d : fmidx) (pat : list N) : option (list N) :=
    if fm_samplesuff d =? 0 then Some []
    else
      match rev pat with
      | [] => None
      | c :: rp =>
          match nthN (fm_alpha d) c with
          | None => None
          | Some false => Some []
          | Some true =>
              match nthN (fm_occ d) c, nthN (fm_occ d) (c + 1) with
              | Some o0, Some o1 =>
                  match p_bs_loop sz64 d rp o0 (sub1W w32 o1) with
                  | BS_oob => None
                  | BS_notalpha => Some []
                  | BS_range sp ep =>
                      if sp <=? ep then
                        if ep <? so_len o then p_walk_rows d (seq_from sp (N.to_nat (ep + 1 - sp)))
                        else None
                      else Some []
                  end
              | _, _ => None
              end
          end
      end.

  Fixpoint p_extract_loop (d : fmidx) (fuel : nat) (i : N) (acc : list N) (k : N) : option (list N) :=
    match fuel with
    | O => None
    | Datatypes.S f =>
        match so_access o i with
        | None => None
        | Some (c, rk) =>
            if c =? 1 then Some acc
            else if fm_maxlength d <? k then None
            else match nthN (fm_occ d) c with
                 | None => None
                 | Some o0 => p_extract_loop d f ((sub_sz rk 1 + o0) mod w32) (c :: acc) (k + 1)
                 end
        end
    end.
  Definition p_ssa_extract_id (d : fmidx) (row : N) : option (list N) :=
    p_extract_loop d p_fuel (row mod w32) [] 0.

  (* ---- StringDictionaryFMINDEX ---- *)
  Definition p_fm_locate (d : fmidx) (q : str) : option N :=
    match p_ssa_locate_id d (1 :: q ++ [1]) with
    | None => None
    | Some oc => Some (if oc =? 0 then 0 else sub_sz oc 2)
    end.

  Definition p_fm_extract (d : fmidx) (id : N) : option (option str) :=
    if (0 <? id) && (id <=? fm_elements d) then
      match p_ssa_extract_id d (row_of_id d id) with
      | None => None
      | Some s => Some (Some s)
      end
    else Some None.

  Definition p_fm_locatePrefix (d : fmidx) (p : str) : option (N * N) :=
    match p_ssa_locateP d (1 :: p) with
    | None => None
    | Some None => Some (0, 0)
    | Some (Some (l, r, cnt)) => if 0 <? cnt mod w32 then Some (l, r) else Some (0, 0)
    end.
  Definition p_fm_locatePrefix_ids (d : fmidx) (p : str) (cap : nat) : option (list N * bool) :=
    match p_fm_locatePrefix d p with
    | None => None
    | Some (l, r) =>
        match run_iter contig_iter cap (contig_init l r) with
        | None => None
        | Some (ids, more, _) => Some (ids, more)
        end
    end.

  Definition p_fm_locateSubstr (d : fmidx) (p : str) (cap : nat) : option (option (list N * bool)) :=
    if fm_samplesuff d =? 0 then Some None
    else
      match p_ssa_locate d p with
      | None => None
      | Some occs =>
          if w32 <=? lenN occs then None
          else if 0 <? lenN occs then
            match run_iter dup_iter cap (arr_init (dup_array (isortN occs)) (lenN occs)) with
            | None => None
            | Some (ids, more, _) => Some (Some (ids, more))
            end
          else
            match run_iter contig_iter cap (contig_init 0 0) with
            | None => None
            | Some (ids, more, _) => Some (Some (ids, more))
            end
      end.

  Fixpoint p_extract_ids (d : fmidx) (ids : list N) : option (list str) :=
    match ids with
    | [] => Some []
    | id :: r =>
        match p_ssa_extract_id d (row_of_id d id), p_extract_ids d r with
        | Some s, Some l => Some (s :: l)
        | _, _ => None
        end
    end.

  Definition p_fm_extractSubstr (d : fmidx) (p : str) (cap : nat) : option (option (list str * bool)) :=
    if fm_samplesuff d =? 0 then Some None
    else
      match p_ssa_locate d p with
      | None => None
      | Some occs =>
          if w32 <=? lenN occs then None
          else if 0 <? lenN occs then
            match run_iter dup_iter cap (arr_init (dup_array (isortN occs)) (lenN occs)) with
            | None => None
            | Some (ids, more, _) =>
                match p_extract_ids d ids with None => None | Some l => Some (Some (l, more)) end
            end
          else Some None
      end.

  Fixpoint p_fmstr_iter (d : fmidx) (cap : nat) (processed scanneable : N) : option (list str * bool) :=
    match cap with
    | O => Some ([], processed <? scanneable)
    | Datatypes.S f =>
        if processed <? scanneable then
          match p_ssa_extract_id d (row_of_id d processed), p_fmstr_iter d f (wrap64 (processed + 1)) scanneable with
          | Some s, Some (l, more) => Some (s :: l, more)
          | _, _ => None
          end
        else Some ([], false)
    end.
  Definition p_fm_extractPrefix (d : fmidx) (p : str) (cap : nat) : option (option (list str * bool)) :=
    match p_ssa_locateP d (1 :: p) with
    | None => None
    | Some None => Some None
    | Some (Some (l, r, cnt)) =>
        if 0 <? cnt mod w32 then
          match p_fmstr_iter d cap (l mod w32) (wrap64 (r + 1)) with
          | None => None
          | Some x => Some (Some x)
          end
        else Some None
    end.
  Definition p_fm_extractTable (d : fmidx) (cap : nat) : option (list str * bool) :=
    p_fmstr_iter d cap 1 (wrap64 (fm_elements d + 1)).
End FMParam.

(* [o] answers like the plain list [l]: same length, same rank, same access -- on EVERY argument
   (for arguments outside the sequence both sides say None) *)
Definition ops_agree (o : seqops) (l : list N) : Prop :=
  so_len o = lenN l /\ (forall c i, so_rank o c i = FMDefs.seq_rank l c i) /\ (forall i, so_access o i = FMDefs.seq_access l i).

Lemma list_ops_agree l : ops_agree (list_ops l) l.
Proof. repeat split. Qed.

(* extensionality: the parametric model over any agreeing instance IS the FMDefs.v model *)
Section FMParamExt.
  Variable o : seqops.
  Variable d : fmidx.
  Hypothesis Hag : ops_agree o (fm_bwt d).

  Let Hlen : so_len o = lenN (fm_bwt d) := proj1 Hag.
  Let Hrk : forall c i, so_rank o c i = FMDefs.seq_rank (fm_bwt d) c i := proj1 (proj2 Hag).
  Let Hac : forall i, so_access o i = FMDefs.seq_access (fm_bwt d) i := proj2 (proj2 Hag).

  Lemma p_fuel_eq : p_fuel o = Datatypes.S (length (fm_bwt d)).
  Proof. unfold p_fuel. rewrite Hlen. unfold lenN. rewrite Nat2N.id. reflexivity. Qed.

  Lemma p_bs_step_eq W c sp ep : p_bs_step o W d c sp ep = bs_step W d c sp ep.
  Proof. unfold p_bs_step, bs_step. rewrite !Hrk. reflexivity. Qed.

  Lemma p_bs_loop_eq W : forall rp sp ep, p_bs_loop o W d rp sp ep = bs_loop W d rp sp ep.
  Proof.
    induction rp as [|c rp IH]; intros sp ep; cbn [p_bs_loop bs_loop]; [reflexivity|].
    rewrite p_bs_step_eq. destruct (sp <=? ep); [|reflexivity].
    destruct (nthN (fm_alpha d) c) as [[|]|]; try reflexivity.
    destruct (bs_step W d c sp ep) as [[sp' ep']|]; [apply IH|reflexivity].
  Qed.

  Lemma p_ssa_locate_id_eq pat : p_ssa_locate_id o d pat = ssa_locate_id d pat.
  Proof.
    unfold p_ssa_locate_id, ssa_locate_id. destruct (rev pat) as [|c rp]; [reflexivity|].
    destruct (nthN (fm_occ d) c); [|reflexivity]. destruct (nthN (fm_occ d) (c + 1)); [|reflexivity].
    rewrite p_bs_loop_eq. reflexivity.
  Qed.

  Lemma p_ssa_locateP_eq pat : p_ssa_locateP o d pat = ssa_locateP d pat.
  Proof.
    unfold p_ssa_locateP, ssa_locateP. destruct (rev pat) as [|c rp]; [reflexivity|].
    destruct (nthN (fm_alpha d) c) as [[|]|]; try reflexivity.
    destruct (nthN (fm_occ d) c); [|reflexivity]. destruct (nthN (fm_occ d) (c + 1)); [|reflexivity].
    rewrite p_bs_loop_eq. reflexivity.
  Qed.

  Lemma p_ssa_walk_eq : forall fuel j, p_ssa_walk o d fuel j = ssa_walk d fuel j.
  Proof.
    induction fuel as [|f IH]; intros j; cbn [p_ssa_walk ssa_walk]; [reflexivity|].
    destruct (nthN (fm_sampled d) j) as [[|]|]; try reflexivity.
    rewrite Hac. destruct (FMDefs.seq_access (fm_bwt d) j) as [[c rk]|]; [|reflexivity].
    destruct (c =? 1); [reflexivity|]. destruct (nthN (fm_occ d) c); [apply IH|reflexivity].
  Qed.

  Lemma p_walk_rows_eq : forall rows, p_walk_rows o d rows = walk_rows d rows.
  Proof.
    induction rows as [|r rest IH]; cbn [p_walk_rows walk_rows]; [reflexivity|].
    rewrite p_fuel_eq, p_ssa_walk_eq, IH. reflexivity.
  Qed.

  Lemma p_ssa_locate_eq pat : p_ssa_locate o d pat = ssa_locate d pat.
  Proof.
    unfold p_ssa_locate, ssa_locate. destruct (fm_samplesuff d =? 0); [reflexivity|].
    destruct (rev pat) as [|c rp]; [reflexivity|].
    destruct (nthN (fm_alpha d) c) as [[|]|]; try reflexivity.
    destruct (nthN (fm_occ d) c) as [o0|]; [|reflexivity]. destruct (nthN (fm_occ d) (c + 1)) as [o1|]; [|reflexivity].
    rewrite p_bs_loop_eq. destruct (bs_loop sz64 d rp o0 (sub1W w32 o1)) as [| |sp ep]; try reflexivity.
    rewrite Hlen, p_walk_rows_eq. reflexivity.
  Qed.

  Lemma p_extract_loop_eq : forall fuel i acc k, p_extract_loop o d fuel i acc k = extract_loop d fuel i acc k.
  Proof.
    induction fuel as [|f IH]; intros i acc k; cbn [p_extract_loop extract_loop]; [reflexivity|].
    rewrite Hac. destruct (FMDefs.seq_access (fm_bwt d) i) as [[c rk]|]; [|reflexivity].
    destruct (c =? 1); [reflexivity|]. destruct (fm_maxlength d <? k); [reflexivity|].
    destruct (nthN (fm_occ d) c); [apply IH|reflexivity].
  Qed.

  Lemma p_ssa_extract_id_eq row : p_ssa_extract_id o d row = ssa_extract_id d row.
  Proof. unfold p_ssa_extract_id, ssa_extract_id. rewrite p_fuel_eq. apply p_extract_loop_eq. Qed.

  Theorem p_fm_locate_eq q : p_fm_locate o d q = fm_locate d q.
  Proof. unfold p_fm_locate, fm_locate. rewrite p_ssa_locate_id_eq. reflexivity. Qed.
  Theorem p_fm_extract_eq id : p_fm_extract o d id = fm_extract d id.
  Proof. unfold p_fm_extract, fm_extract. rewrite p_ssa_extract_id_eq. reflexivity. Qed.
  Theorem p_fm_locatePrefix_eq p : p_fm_locatePrefix o d p = fm_locatePrefix d p.
  Proof. unfold p_fm_locatePrefix, fm_locatePrefix. rewrite p_ssa_locateP_eq. reflexivity. Qed.
  Theorem p_fm_locatePrefix_ids_eq p cap : p_fm_locatePrefix_ids o d p cap = fm_locatePrefix_ids d p cap.
  Proof. unfold p_fm_locatePrefix_ids, fm_locatePrefix_ids. rewrite p_fm_locatePrefix_eq. reflexivity. Qed.
  Theorem p_fm_locateSubstr_eq p cap : p_fm_locateSubstr o d p cap = fm_locateSubstr d p cap.
  Proof. unfold p_fm_locateSubstr, fm_locateSubstr. rewrite p_ssa_locate_eq. reflexivity. Qed.
  Lemma p_extract_ids_eq : forall ids, p_extract_ids o d ids = extract_ids d ids.
  Proof. induction ids as [|id r IH]; cbn [p_extract_ids extract_ids]; [reflexivity|]. rewrite p_ssa_extract_id_eq, IH. reflexivity. Qed.
  Theorem p_fm_extractSubstr_eq p cap : p_fm_extractSubstr o d p cap = fm_extractSubstr d p cap.
  Proof.
    unfold p_fm_extractSubstr, fm_extractSubstr. rewrite p_ssa_locate_eq.
    destruct (fm_samplesuff d =? 0); [reflexivity|]. destruct (ssa_locate d p) as [oc|]; [|reflexivity].
    destruct (w32 <=? lenN oc); [reflexivity|]. destruct (0 <? lenN oc); [|reflexivity].
    destruct (run_iter dup_iter cap (arr_init (dup_array (isortN oc)) (lenN oc))) as [[[ids more] st]|]; [|reflexivity].
    rewrite p_extract_ids_eq. reflexivity.
  Qed.
  Lemma p_fmstr_iter_eq : forall cap i k, p_fmstr_iter o d cap i k = fmstr_iter d cap i k.
  Proof. induction cap as [|f IH]; intros i k; cbn [p_fmstr_iter fmstr_iter]; [reflexivity|]. rewrite p_ssa_extract_id_eq, IH. reflexivity. Qed.
  Theorem p_fm_extractPrefix_eq p cap : p_fm_extractPrefix o d p cap = fm_extractPrefix d p cap.
  Proof.
    unfold p_fm_extractPrefix, fm_extractPrefix. rewrite p_ssa_locateP_eq.
    destruct (ssa_locateP d (1 :: p)) as [[[[l r] cnt]|]|]; try reflexivity.
    rewrite p_fmstr_iter_eq. reflexivity.
  Qed.
  Theorem p_fm_extractTable_eq cap : p_fm_extractTable o d cap = fm_extractTable d cap.
  Proof. unfold p_fm_extractTable, fm_extractTable. apply p_fmstr_iter_eq. Qed.
End FMParamExt.

(* ================================================================================ *)
(* Part D: the instance "pointer wavelet tree" (BitRGDefs.v)                          *)
(* ================================================================================ *)
From LibCSD Require Import BitRGDefs BitRGProofs.
(* NB: from here on [seq_rank]/[seq_access] are the BitRGDefs ones; the FMDefs ones are written qualified *)

(* the two plain specifications of rank coincide *)
Lemma countb_seq_bits c l : countb true (seq_bits c l) = count_eq c l.
Proof.
  induction l as [|x l IH]; [reflexivity|]. unfold seq_bits in *. cbn [map countb count_eq]. rewrite IH, (N.eqb_sym c x).
  destruct (x =? c); reflexivity.
Qed.
Lemma seq_rank_bridge c l i : BitRGDefs.seq_rank c l i = rank_excl l c (i + 1).
Proof.
  unfold BitRGDefs.seq_rank, bv_rank1, prefix_count, rank_excl. unfold seq_bits. rewrite firstn_map.
  apply (countb_seq_bits c (firstn (N.to_nat (i + 1)) l)).
Qed.

Section FMOverWT.
  Variable B : Type.
  Variable bbuild : list bool -> B.              (* BitSequenceBuilder::build *)
  Variable baccess : B -> N -> bool.
  Variable brank1 : B -> N -> N.
  Variable bselect1 bselect0 : B -> N -> N.
  Variable is_set : N -> nat -> bool.            (* wt_coder::is_set *)
  Variable maxlen : N.
  Hypothesis Hmax : maxlen <= W32 - 2.
  (* the plain bitmap laws, exactly the hypotheses of C19_wt_* *)
  Hypothesis Hacc : forall bits i, lenN bits < maxlen -> i < lenN bits -> baccess (bbuild bits) i = bv_access bits i.
  Hypothesis Hrank : forall bits i, lenN bits < maxlen -> i < lenN bits -> brank1 (bbuild bits) i = bv_rank1 bits i.
  Hypothesis Hrank_m1 : forall bits, lenN bits < maxlen -> brank1 (bbuild bits) (W64 - 1) = 0.
  Hypothesis Hsel1 : forall bits j p, lenN bits < maxlen -> bv_select1 bits j = Some p -> bselect1 (bbuild bits) j = p.
  Hypothesis Hsel0 : forall bits j p, lenN bits < maxlen -> bv_select0 bits j = Some p -> bselect0 (bbuild bits) j = p.

  Notation build := (wt_build B bbuild is_set).
  Notation child := (wt_child B bbuild is_set).
  Notation nrank := (wtn_rank B brank1 is_set).

  (* wt_node_internal::access(size_t pos, size_t &rankp) / wt_node_leaf::access(pos, rank): ONE descent
     along the bitmap bits that returns the symbol of the leaf and `pos + 1` at the leaf *)
  Fixpoint wtn_access_rank (t : wt B) (pos : N) : option (N * N) :=
    match t with
    | WNull => None
    | WBad => None
    | WLeaf sym _ => Some (sym, u64 (pos + 1))
    | WNode bm lc rc =>
        if baccess bm pos then wtn_access_rank rc (dec64 (brank1 bm pos))
        else wtn_access_rank lc (dec64 (brank0 B brank1 bm pos))
    end.

  (* the (sub)tree answers access(pos, rank) for the (sub)sequence c like access followed by rank *)
  Definition good2 (t : wt B) (c : list N) (l : nat) : Prop :=
    forall p, p < lenN c -> exists sym, nthN c p = Some sym /\ wtn_access_rank t p = Some (sym, nrank t sym p l).

  Lemma good2_null l : good2 WNull [] l.
  Proof. intros p H. unfold lenN in H. cbn in H. lia. Qed.

  Lemma good2_leaf x c l : Forall (eq x) c -> good2 (WLeaf x (lenN c)) c l.
  Proof.
    intros Hall p Hp. destruct (nthN_lt_Some c p Hp) as (y & Hy). exists y. split; [exact Hy|].
    assert (y = x) as ->.
    { unfold nthN in Hy. apply nth_error_In in Hy. rewrite Forall_forall in Hall. symmetry. apply Hall. exact Hy. }
    cbn [wtn_access_rank wtn_rank]. rewrite N.eqb_refl. reflexivity.
  Qed.

  Lemma node_good2 f l s :
    lenN s < maxlen ->
    good2 (child f l (childb (fun x => is_set x l) false s)) (childb (fun x => is_set x l) false s) (Datatypes.S l) ->
    good2 (child f l (childb (fun x => is_set x l) true s)) (childb (fun x => is_set x l) true s) (Datatypes.S l) ->
    good2 (build (Datatypes.S f) l s) s l.
  Proof.
    intros Hlen Hgl Hgr. rewrite wt_build_S.
    set (fl := fun x => is_set x l) in *. set (bits := map fl s). set (bm := bbuild bits).
    assert (Hbl : lenN bits = lenN s) by (unfold bits, lenN; now rewrite map_length).
    assert (Hg : forall b, good2 (child f l (childb fl b s)) (childb fl b s) (Datatypes.S l)) by (intros [|]; assumption).
    assert (HW6 : W64 = 18446744073709551616) by reflexivity. assert (HW : W32 = 4294967296) by reflexivity.
    intros p Hp.
    assert (Hpn : (N.to_nat p < length s)%nat) by (unfold lenN in Hp; lia).
    exists (nth (N.to_nat p) s 0). split; [unfold nthN; apply nth_error_nth'; exact Hpn|].
    cbn [wtn_access_rank wtn_rank]. fold bm.
    assert (Hacc' : baccess bm p = fl (nth (N.to_nat p) s 0)).
    { unfold bm. rewrite Hacc by lia. unfold bv_access, bits.
      rewrite (nth_indep _ false (fl 0)) by (rewrite map_length; exact Hpn).
      apply (map_nth fl s 0). }
    destruct (part_access fl s (N.to_nat p) Hpn) as (Hc1 & Hc2). cbv zeta in Hc1, Hc2.
    change (is_set (nth (N.to_nat p) s 0) l) with (fl (nth (N.to_nat p) s 0)).
    set (sym := nth (N.to_nat p) s 0) in *. set (b := fl sym) in *.
    pose proof (rankb_spec B bbuild baccess brank1 bselect1 bselect0 is_set maxlen Hmax Hacc Hrank Hrank_m1 Hsel1 Hsel0 bits b p) as Hr.
    rewrite Hbl in Hr.
    assert (E : u64 (p + 1) = p + 1) by (unfold u64; apply N.mod_small; lia).
    rewrite E in Hr. specialize (Hr Hlen ltac:(lia) ltac:(lia)). fold bm in Hr.
    assert (Hcnt : prefix_count b bits (p + 1) = countb b (firstn (Datatypes.S (N.to_nat p)) (map fl s))).
    { unfold prefix_count, bits. do 2 f_equal. lia. }
    rewrite Hcnt in Hr. set (cnt := countb b (firstn (Datatypes.S (N.to_nat p)) (map fl s))) in *.
    assert (Hcl : cnt <= lenN (childb fl b s)) by (rewrite childb_len; unfold cnt; apply countb_firstn_le).
    pose proof (childb_le fl b s) as Hcs.
    destruct (Hg b (cnt - 1) ltac:(lia)) as (sym' & Hs' & Har).
    assert (sym' = sym) as ->.
    { unfold nthN in Hs'. rewrite <- Hc2 in Hs'. unfold sym in *. rewrite (nth_error_nth' s 0 Hpn) in Hs'. congruence. }
    rewrite Hacc'. unfold rankb in Hr. destruct b; rewrite Hr, dec64_pos by lia; exact Har.
  Qed.

  Lemma separable_child' f l s b :
    separable is_set f l s -> separable is_set (pred f) (Datatypes.S l) (childb (fun x => is_set x l) b s).
  Proof.
    intros H a c Ha Hc Hne. apply childb_In in Ha. apply childb_In in Hc.
    destruct Ha as (Ha & Hab), Hc as (Hc & Hcb).
    destruct (H a c Ha Hc Hne) as (k & Hk & Hd). exists k. split; [|exact Hd].
    assert (k <> l) by (intros ->; congruence). lia.
  Qed.

  Lemma child_good2 f l c :
    lenN c < maxlen -> separable is_set (pred f) (Datatypes.S l) c ->
    (forall f', f = Datatypes.S f' -> forall l' s', lenN s' < maxlen -> separable is_set f' l' s' ->
       good2 (build (Datatypes.S f') l' s') s' l') ->
    good2 (child f l c) c (Datatypes.S l).
  Proof.
    intros Hlen Hsep IH. destruct c as [|x t]; [apply good2_null|].
    unfold wt_child. destruct (all_same (x :: t)) eqn:E.
    - apply good2_leaf. apply all_same_Forall; exact E.
    - destruct (all_same_false _ E) as (a & b & Ha & Hb & Hab).
      destruct (Hsep a b Ha Hb Hab) as (k & Hk & _).
      destruct f as [|f']; [cbn [pred] in Hk; lia|]. cbn [pred] in Hsep.
      apply (IH f' eq_refl); [exact Hlen|exact Hsep].
  Qed.

  Lemma wt_build_good2 : forall f l s,
    lenN s < maxlen -> separable is_set f l s -> good2 (build (Datatypes.S f) l s) s l.
  Proof.
    induction f as [|f IH]; intros l s Hlen Hsep.
    - apply node_good2; [exact Hlen| |];
        (apply child_good2; [pose proof (childb_le (fun x => is_set x l) false s); pose proof (childb_le (fun x => is_set x l) true s); lia
                            |apply (separable_child' 0 l s _ Hsep)
                            |intros f' Hf'; discriminate]).
    - apply node_good2; [exact Hlen| |];
        (apply child_good2; [pose proof (childb_le (fun x => is_set x l) false s); pose proof (childb_le (fun x => is_set x l) true s); lia
                            |apply (separable_child' (Datatypes.S f) l s _ Hsep)
                            |intros f' Hf'; injection Hf' as <-; exact IH]).
  Qed.

  (* WaveletTree::access(pos, rank) = root->access(pos, rank) *)
  Definition wt_access_rank (t : wt B) (pos : N) : option (N * N) := wtn_access_rank t pos.

  Notation wtree depth s := (wt_new B bbuild is_set depth s).

  (* access(i, r): the symbol at i and its inclusive rank, as the list-level Sequence of FMDefs.v *)
  Theorem wt_access_rank_correct depth s i :
    lenN s < maxlen -> separable is_set depth 0 s -> i < lenN s ->
    wt_access_rank (wtree depth s) i = FMDefs.seq_access s i.
  Proof.
    intros Hlen Hsep Hi. destruct (wt_build_good2 depth 0 s Hlen Hsep i Hi) as (sym & Hs & Har).
    unfold wt_access_rank, wt_new. rewrite Har. unfold FMDefs.seq_access. rewrite Hs. do 2 f_equal.
    change (wtn_rank B brank1 is_set (wt_build B bbuild is_set (Datatypes.S depth) 0 s) sym i 0)
      with (wt_rank B brank1 is_set (wtree depth s) sym i).
    rewrite (wt_rank_correct B bbuild baccess brank1 bselect1 bselect0 is_set maxlen Hmax Hacc Hrank Hrank_m1 Hsel1 Hsel0
               depth s sym i Hlen Hsep Hi).
    apply seq_rank_bridge.
  Qed.
  (* the same descent agrees with the two-call form access(i), rank(access(i), i) *)
  Corollary wt_access_rank_split depth s i c r :
    lenN s < maxlen -> separable is_set depth 0 s -> i < lenN s ->
    wt_access_rank (wtree depth s) i = Some (c, r) ->
    wt_access B baccess brank1 (wtree depth s) i = Some c /\ wt_rank B brank1 is_set (wtree depth s) c i = r.
  Proof.
    intros Hlen Hsep Hi H. rewrite (wt_access_rank_correct depth s i Hlen Hsep Hi) in H. unfold FMDefs.seq_access in H.
    rewrite (wt_access_correct B bbuild baccess brank1 bselect1 bselect0 is_set maxlen Hmax Hacc Hrank Hrank_m1 Hsel1 Hsel0 depth s i Hlen Hsep Hi).
    unfold BitRGDefs.seq_access. destruct (nthN s i) as [c'|]; [|discriminate H]. inversion H; subst. split; [reflexivity|].
    rewrite (wt_rank_correct B bbuild baccess brank1 bselect1 bselect0 is_set maxlen Hmax Hacc Hrank Hrank_m1 Hsel1 Hsel0
               depth s c i Hlen Hsep Hi).
    apply seq_rank_bridge.
  Qed.

  (* what SSA sees of a WaveletTree object with length field n *)
  Definition wt_ops (t : wt B) (n : N) : seqops :=
    mk_seqops n
      (fun c i => if i <? n then Some (wt_rank B brank1 is_set t c i) else None)
      (fun i => if i <? n then wt_access_rank t i else None).

  (* THE composition theorem: the wavelet tree built over the BWT symbols answers every in-range
     rank / access(i, rank) like the plain list, and is never asked anything else than the list would be *)
  Theorem fm_over_wt depth bwt :
    lenN bwt < maxlen -> separable is_set depth 0 bwt ->
    ops_agree (wt_ops (wtree depth bwt) (lenN bwt)) bwt.
  Proof.
    intros Hlen Hsep. split; [reflexivity|]. split.
    - intros c i. cbn [wt_ops so_rank]. unfold FMDefs.seq_rank. destruct (N.ltb_spec i (lenN bwt)) as [Hi|Hi]; [|reflexivity].
      rewrite (wt_rank_correct B bbuild baccess brank1 bselect1 bselect0 is_set maxlen Hmax Hacc Hrank Hrank_m1 Hsel1 Hsel0
                 depth bwt c i Hlen Hsep Hi).
      rewrite seq_rank_bridge. reflexivity.
    - intros i. cbn [wt_ops so_access]. destruct (N.ltb_spec i (lenN bwt)) as [Hi|Hi].
      + apply wt_access_rank_correct; assumption.
      + unfold FMDefs.seq_access, nthN. assert (nth_error bwt (N.to_nat i) = None) as -> by (apply nth_error_None; unfold lenN in Hi; lia).
        reflexivity.
  Qed.

  (* ---- the dictionary operations over a wavelet-tree BWT ---- *)
  (* [d] supplies occ / alphabet / samples / elements / maxlength; its fm_bwt field is NOT read *)
  Definition fm_locate_wt (t : wt B) (n : N) (d : fmidx) (q : str) : option N := p_fm_locate (wt_ops t n) d q.
  Definition fm_extract_wt (t : wt B) (n : N) (d : fmidx) (id : N) : option (option str) := p_fm_extract (wt_ops t n) d id.
  Definition fm_locatePrefix_wt (t : wt B) (n : N) (d : fmidx) (p : str) : option (N * N) := p_fm_locatePrefix (wt_ops t n) d p.
  Definition fm_locateSubstr_wt (t : wt B) (n : N) (d : fmidx) (p : str) (cap : nat) := p_fm_locateSubstr (wt_ops t n) d p cap.
  Definition fm_extractPrefix_wt (t : wt B) (n : N) (d : fmidx) (p : str) (cap : nat) := p_fm_extractPrefix (wt_ops t n) d p cap.
  Definition fm_extractSubstr_wt (t : wt B) (n : N) (d : fmidx) (p : str) (cap : nat) := p_fm_extractSubstr (wt_ops t n) d p cap.

  Section Corollaries.
    Variable S : list str.
    Variable sa : list N.
    Variable d : fmidx.
    Variable depth : nat.
    Hypothesis HS : valid_set S.
    Hypothesis Hchk : fm_check S sa d = true.
    Hypothesis Hlen : lenN (fm_bwt d) < maxlen.
    Hypothesis Hsep : separable is_set depth 0 (fm_bwt d).

    Notation t := (wtree depth (fm_bwt d)).
    Notation n := (lenN (fm_bwt d)).
    Let Hag : ops_agree (wt_ops t n) (fm_bwt d) := fm_over_wt depth (fm_bwt d) Hlen Hsep.

    Theorem fm_locate_wt_spec q : valid_query q -> fm_locate_wt t n d q = Some (spec_locate S q).
    Proof. intros Hq. unfold fm_locate_wt. rewrite (p_fm_locate_eq _ d Hag). exact (fm_locate_spec S HS sa d Hchk q Hq). Qed.

    Theorem fm_extract_wt_spec id : fm_extract_wt t n d id = Some (spec_extract S id).
    Proof. unfold fm_extract_wt. rewrite (p_fm_extract_eq _ d Hag). exact (fm_extract_spec S HS sa d Hchk id). Qed.

    Theorem fm_locatePrefix_wt_spec p : p <> [] -> valid_query p ->
      fm_locatePrefix_wt t n d p = Some (range_of (spec_prefix_ids S p)).
    Proof. intros Hp Hq. unfold fm_locatePrefix_wt. rewrite (p_fm_locatePrefix_eq _ d Hag). exact (fm_locatePrefix_spec S HS sa d Hchk p Hp Hq). Qed.

    Theorem fm_locateSubstr_wt_spec p cap : fm_samplesuff d <> 0 -> p <> [] -> valid_query p -> (length S <= cap)%nat ->
      fm_locateSubstr_wt t n d p cap = Some (Some (spec_substr_ids S p, false)).
    Proof.
      intros Hs Hp Hq Hcap. unfold fm_locateSubstr_wt. rewrite (p_fm_locateSubstr_eq _ d Hag).
      exact (fm_locateSubstr_spec S HS sa d Hchk Hs p cap Hp Hq Hcap).
    Qed.

    Theorem fm_extractPrefix_wt_spec p cap : p <> [] -> valid_query p -> (length S <= cap)%nat ->
      fm_extractPrefix_wt t n d p cap = Some (match spec_prefix_strs S p with [] => None | l => Some (l, false) end).
    Proof.
      intros Hp Hq Hcap. unfold fm_extractPrefix_wt. rewrite (p_fm_extractPrefix_eq _ d Hag).
      exact (fm_extractPrefix_spec S HS sa d Hchk p cap Hp Hq Hcap).
    Qed.

    Theorem fm_extractSubstr_wt_spec p cap : fm_samplesuff d <> 0 -> p <> [] -> valid_query p -> (length S <= cap)%nat ->
      fm_extractSubstr_wt t n d p cap = Some (match spec_substr_strs S p with [] => None | l => Some (l, false) end).
    Proof.
      intros Hs Hp Hq Hcap. unfold fm_extractSubstr_wt. rewrite (p_fm_extractSubstr_eq _ d Hag).
      exact (fm_extractSubstr_spec S HS sa d Hchk p cap Hs Hp Hq Hcap).
    Qed.
  End Corollaries.
End FMOverWT.

(* ================================================================================ *)
(* Part E: ... over the word-exact BitSequenceRG (BitSequenceBuilderRG(factor))       *)
(* ================================================================================ *)
(* what StringDictionaryFMINDEX builds with BitSequenceBuilderRG(bparam): WaveletTree(bwt, wt_coder, RG builder) *)
Definition rg_wt_ops (factor : N) (is_set : N -> nat -> bool) (depth : nat) (bwt : list N) : seqops :=
  wt_ops rg rgt_access rgt_rank1 is_set (wt_rg factor is_set depth bwt) (lenN bwt).

Theorem fm_over_wt_rg factor is_set depth bwt :
  1 <= factor -> lenN bwt < W32 - 64 -> separable is_set depth 0 bwt ->
  ops_agree (rg_wt_ops factor is_set depth bwt) bwt.
Proof.
  intros Hf Hlen Hsep. unfold rg_wt_ops, wt_rg.
  exact (fm_over_wt rg (rgt_build factor) rgt_access rgt_rank1 rgt_select1 rgt_select0 is_set (W32 - 64) rg_maxlen_ok
           (rgt_access_law factor Hf) (rgt_rank_law factor Hf) (rgt_rank_m1_law factor Hf)
           (rgt_select1_law factor Hf) (rgt_select0_law factor Hf) depth bwt Hlen Hsep).
Qed.

(* locate / locateSubstr with every rank and access answered by BitSequenceRG words inside a pointer wavelet tree *)
Theorem fm_locate_rg_spec S sa d factor is_set depth q :
  valid_set S -> fm_check S sa d = true -> 1 <= factor -> lenN (fm_bwt d) < W32 - 64 ->
  separable is_set depth 0 (fm_bwt d) -> valid_query q ->
  p_fm_locate (rg_wt_ops factor is_set depth (fm_bwt d)) d q = Some (spec_locate S q).
Proof.
  intros HS Hc Hf Hlen Hsep Hq. rewrite (p_fm_locate_eq _ d (fm_over_wt_rg factor is_set depth (fm_bwt d) Hf Hlen Hsep)).
  exact (fm_locate_spec S HS sa d Hc q Hq).
Qed.

Theorem fm_locateSubstr_rg_spec S sa d factor is_set depth p cap :
  valid_set S -> fm_check S sa d = true -> 1 <= factor -> lenN (fm_bwt d) < W32 - 64 ->
  separable is_set depth 0 (fm_bwt d) -> fm_samplesuff d <> 0 -> p <> [] -> valid_query p -> (length S <= cap)%nat ->
  p_fm_locateSubstr (rg_wt_ops factor is_set depth (fm_bwt d)) d p cap = Some (Some (spec_substr_ids S p, false)).
Proof.
  intros HS Hc Hf Hlen Hsep Hs Hp Hq Hcap.
  rewrite (p_fm_locateSubstr_eq _ d (fm_over_wt_rg factor is_set depth (fm_bwt d) Hf Hlen Hsep)).
  exact (fm_locateSubstr_spec S HS sa d Hc Hs p cap Hp Hq Hcap).
Qed.

Theorem fm_extract_rg_spec S sa d factor is_set depth id :
  valid_set S -> fm_check S sa d = true -> 1 <= factor -> lenN (fm_bwt d) < W32 - 64 ->
  separable is_set depth 0 (fm_bwt d) ->
  p_fm_extract (rg_wt_ops factor is_set depth (fm_bwt d)) d id = Some (spec_extract S id).
Proof.
  intros HS Hc Hf Hlen Hsep. rewrite (p_fm_extract_eq _ d (fm_over_wt_rg factor is_set depth (fm_bwt d) Hf Hlen Hsep)).
  exact (fm_extract_spec S HS sa d Hc id).
Qed.
