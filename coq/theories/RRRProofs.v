(* C19 — proofs about the word-exact BitSequenceRRR model (RRRDefs.v).

   T. the universal table: compute_offset / short_bitmap are inverse bijections between the 15-bit
      blocks of a class and the offsets 0 .. C(15,class)-1 (finite check over the 2^15 blocks);
   B. blocks of the plain bit vector and their popcounts vs prefix counts;
   C. build: representation invariant [rrr_wf], no out-of-bounds access for 1 <= n (and n = 0);
   Q. access / rank1 / rank0 = the plain definitions (BitRGDefs section A), no out-of-bounds read;
   S. select1 / select0 = the plain definitions, fuel sufficient;
   R. refutations: the pre-6ffe6c2 allocation of O, the late padding loop, absurd sample rates. *)
From LibCSD Require Import Base Bytes LogSeqDefs LogSeqProofs BitRGDefs BitRGProofs Cds32Defs Cds32Proofs RRRDefs.
Require Import Lia ZifyBool ZifyNat ZifyN.
Ltac Zify.zify_post_hook ::= Z.to_euclidean_division_equations.
Local Open Scope N_scope.

(* ========================================================================= *)
(* T. the universal table                                                       *)
(* ========================================================================= *)

Lemma rrr_range_In : forall cnt s b, In b (rrr_range cnt s) <-> s <= b < s + N.of_nat cnt.
Proof.
  induction cnt as [|c IH]; intros s b; cbn [rrr_range In].
  - lia.
  - rewrite IH. lia.
Qed.

Definition rrr_lg_ok (E : toff) (c : N) : bool :=
  match rrr_log2 E c with
  | Some l => (l <=? 13) && ((c =? 0) || (c =? 15) || (1 <=? l))
  | None => false
  end.

Definition toff_ok (E : toff) : bool :=
  (e_u E =? 15) &&
  forallb (rrr_block_ok E) (rrr_range (N.to_nat 32768) 0) &&
  forallb (rrr_class_ok E) (rrr_range 16 0) &&
  forallb (rrr_lg_ok E) (rrr_range 16 0).

(* the table the C++ constructor builds passes the check (2^15 blocks, 16 classes) *)
Lemma rrr_E_ok : toff_ok rrr_E = true.
Proof. vm_compute. reflexivity. Qed.

Lemma rrr_E_rows :
  map (e_get_binomial rrr_E 15) (rrr_range 16 0) =
    map Some [1; 15; 105; 455; 1365; 3003; 5005; 6435; 6435; 5005; 3003; 1365; 455; 105; 15; 1] /\
  map (e_get_log2binomial rrr_E 15) (rrr_range 16 0) =
    map Some [0; 4; 7; 9; 11; 12; 13; 13; 13; 13; 12; 11; 9; 7; 4; 0] /\
  e_offset_class rrr_E =
    [0; 1; 16; 121; 576; 1941; 4944; 9949; 16384; 22819; 27824; 30827; 32192; 32647; 32752; 32767; 32768].
Proof. vm_compute. split; [reflexivity|split; reflexivity]. Qed.

Lemma u32_small x : x < 4294967296 -> c32_u32 x = x.
Proof. intros H. apply c32_u32_small. exact H. Qed.
Lemma u64_small x : x < 18446744073709551616 -> c32_u64 x = x.
Proof. intros H. apply c32_u64_small. exact H. Qed.
Lemma u16_small x : x < 65536 -> rrr_u16 x = x.
Proof. intros H. unfold rrr_u16. apply N.mod_small. exact H. Qed.

Lemma dec32_pos a : 1 <= a -> a <= 4294967296 -> rrr_dec32 a = a - 1.
Proof.
  intros H1 H2. unfold rrr_dec32, c32_u32, c32_W. symmetry. apply (N.mod_unique _ _ 1); lia.
Qed.
Lemma dec32_zero : rrr_dec32 0 = 4294967295.
Proof. reflexivity. Qed.
Lemma dec64_pos a : 1 <= a -> a <= 18446744073709551616 -> rrr_dec64 a = a - 1.
Proof.
  intros H1 H2. unfold rrr_dec64, c32_u64, c32_W64. symmetry. apply (N.mod_unique _ _ 1); lia.
Qed.
Lemma dec64_zero : rrr_dec64 0 = 18446744073709551615.
Proof. reflexivity. Qed.

Section Table.
Variable E : toff.
Hypothesis HE : toff_ok E = true.

(* total versions of the table lookups *)
Definition lg (c : N) : N := match rrr_log2 E c with Some l => l | None => 0 end.
Definition offv (b : N) : N := match rrr_compute_offset E b with Some o => o | None => 0 end.

Lemma HE_parts :
  e_u E = 15 /\
  (forall b, b < 32768 -> rrr_block_ok E b = true) /\
  (forall c, c <= 15 -> rrr_class_ok E c = true) /\
  (forall c, c <= 15 -> rrr_lg_ok E c = true).
Proof.
  unfold toff_ok in HE. rewrite !andb_true_iff in HE. destruct HE as [[[H1 H2] H3] H4].
  rewrite forallb_forall in H2, H3, H4. split; [apply N.eqb_eq; exact H1|].
  split; [|split]; intros x Hx; [apply H2|apply H3|apply H4]; apply rrr_range_In; lia.
Qed.

Lemma E_u : e_u E = 15.
Proof. apply HE_parts. Qed.

Lemma lg_some c : c <= 15 -> rrr_log2 E c = Some (lg c) /\ lg c <= 13.
Proof.
  intros Hc. destruct HE_parts as (_ & _ & _ & H). specialize (H c Hc).
  unfold rrr_lg_ok in H. unfold lg. destruct (rrr_log2 E c) as [l|]; [|discriminate].
  split; [reflexivity|]. apply andb_true_iff in H. destruct H as [H _]. apply N.leb_le. exact H.
Qed.

Lemma lg_zero_class c : c <= 15 -> lg c = 0 -> c = 0 \/ c = 15.
Proof.
  intros Hc Hl. destruct HE_parts as (_ & _ & _ & H). specialize (H c Hc).
  unfold rrr_lg_ok in H. unfold lg in Hl. destruct (rrr_log2 E c) as [l|]; [|discriminate]. subst l.
  apply andb_true_iff in H. destruct H as [_ H]. rewrite !orb_true_iff in H.
  destruct H as [[H|H]|H]; [left; apply N.eqb_eq; exact H|right; apply N.eqb_eq; exact H|discriminate].
Qed.

(* for the two uniform classes short_bitmap ignores the offset *)
Lemma short_bitmap_uniform c x y : c <= 15 -> lg c = 0 -> rrr_short_bitmap E c x = rrr_short_bitmap E c y.
Proof.
  intros Hc Hl. destruct (lg_zero_class c Hc Hl) as [->| ->]; unfold rrr_short_bitmap, e_short_bitmap.
  - change (c32_u32 0) with 0. change (0 =? 0) with true. cbv iota. reflexivity.
  - rewrite E_u. change (c32_u32 15) with 15. change (15 =? 0) with false. change (15 =? 15) with true.
    cbv iota. reflexivity.
Qed.

Lemma block_ok b : b < 32768 ->
  rrr_compute_offset E b = Some (offv b) /\ offv b < 2 ^ lg (popcount b) /\ popcount b <= 15 /\
  rrr_short_bitmap E (popcount b) (offv b) = Some b.
Proof.
  intros Hb. destruct HE_parts as (_ & H & _ & _). specialize (H b Hb).
  unfold rrr_block_ok in H. unfold offv, lg.
  destruct (rrr_compute_offset E b) as [o|]; [|discriminate].
  destruct (rrr_log2 E (popcount b)) as [l|]; [|discriminate].
  destruct (e_get_binomial E rrr_BS (popcount b)) as [bn|]; [|discriminate].
  rewrite !andb_true_iff in H. destruct H as [[[[H1 H2] H3] H4] H5].
  destruct (rrr_short_bitmap E (popcount b) o) as [b'|]; [|discriminate].
  apply N.eqb_eq in H5. subst b'. apply N.ltb_lt in H2. apply N.leb_le in H4. auto.
Qed.

(* the bijection, both directions, with the binomial bound *)
Theorem table_block_to_offset b : b < 2 ^ 15 ->
  exists o bn l, rrr_compute_offset E b = Some o /\ e_get_binomial E 15 (popcount b) = Some bn /\
    rrr_log2 E (popcount b) = Some l /\ o < bn /\ o < 2 ^ l /\ popcount b <= 15 /\
    rrr_short_bitmap E (popcount b) o = Some b.
Proof.
  intros Hb. change (2 ^ 15) with 32768 in Hb.
  destruct HE_parts as (_ & H & _ & _). specialize (H b Hb). unfold rrr_block_ok in H.
  destruct (rrr_compute_offset E b) as [o|]; [|discriminate].
  destruct (rrr_log2 E (popcount b)) as [l|]; [|discriminate].
  change rrr_BS with 15 in H.
  destruct (e_get_binomial E 15 (popcount b)) as [bn|]; [|discriminate].
  rewrite !andb_true_iff in H. destruct H as [[[[H1 H2] H3] H4] H5].
  destruct (rrr_short_bitmap E (popcount b) o) as [b'|] eqn:Esb; [|discriminate].
  apply N.eqb_eq in H5. subst b'. exists o, bn, l.
  apply N.ltb_lt in H1, H2. apply N.leb_le in H4. auto 10.
Qed.

Theorem table_offset_to_block c o bn : c <= 15 -> e_get_binomial E 15 c = Some bn -> o < bn ->
  exists b, rrr_short_bitmap E c o = Some b /\ b < 2 ^ 15 /\ popcount b = c /\ rrr_compute_offset E b = Some o.
Proof.
  intros Hc Hbn Ho. destruct HE_parts as (_ & _ & H & _). specialize (H c Hc). unfold rrr_class_ok in H.
  change rrr_BS with 15 in H. rewrite Hbn in H. destruct (rrr_log2 E c) as [l|]; [|discriminate].
  apply andb_true_iff in H. destruct H as [_ H]. rewrite forallb_forall in H.
  specialize (H o). unfold rrr_slot_ok in H.
  assert (Hin : In o (rrr_range (N.to_nat bn) 0)) by (apply rrr_range_In; lia).
  specialize (H Hin). destruct (rrr_short_bitmap E c o) as [b|]; [|discriminate].
  rewrite !andb_true_iff in H. destruct H as [[H1 H2] H3].
  destruct (rrr_compute_offset E b) as [o'|] eqn:Eco; [|discriminate].
  exists b. apply N.ltb_lt in H1. apply N.eqb_eq in H2, H3. subst o'. change (2 ^ 15) with 32768.
  repeat split; assumption || reflexivity.
Qed.

Theorem table_log2binomial c bn : c <= 15 -> e_get_binomial E 15 c = Some bn ->
  rrr_log2 E c = Some (bits32 (bn - 1)).
Proof.
  intros Hc Hbn. destruct HE_parts as (_ & _ & H & _). specialize (H c Hc). unfold rrr_class_ok in H.
  change rrr_BS with 15 in H. rewrite Hbn in H. destruct (rrr_log2 E c) as [l|]; [|discriminate].
  apply andb_true_iff in H. destruct H as [H _]. apply N.eqb_eq in H. congruence.
Qed.

End Table.

(* ========================================================================= *)
(* B. blocks of the plain bit vector                                            *)
(* ========================================================================= *)

Definition blk (bv : list bool) (k : N) : N := rrr_blockv bv k.
Definition cls (bv : list bool) (k : N) : N := popcount (blk bv k).
Definition pc1 (bv : list bool) (k : N) : N := prefix_count true bv k.

Lemma blk_testbit bv k t : N.testbit (blk bv k) t = (t <? 15) && nth (N.to_nat (15 * k + t)) bv false.
Proof.
  unfold blk, rrr_blockv. rewrite word_of_bits_testbit.
  destruct (N.ltb_spec t 15) as [Ht|Ht]; cbn [andb].
  - rewrite nth_firstn_lt by lia. rewrite nth_skipn_add. f_equal. lia.
  - apply nth_overflow. rewrite firstn_length. lia.
Qed.

Lemma blk_lt bv k : blk bv k < 32768.
Proof.
  unfold blk, rrr_blockv. eapply N.lt_le_trans; [apply word_of_bits_lt|].
  change 32768 with (2 ^ 15). apply N.pow_le_mono_r; [lia|].
  unfold lenN. rewrite firstn_length. lia.
Qed.

Lemma countb_bitsn_wob : forall l k, (length l <= k)%nat -> countb true (bitsn k (word_of_bits l)) = countb true l.
Proof.
  induction l as [|b l IH]; intros k Hk.
  - cbn [word_of_bits fold_right countb]. apply bitsn_zero.
  - destruct k as [|k]; [cbn in Hk; lia|]. cbn [length] in Hk.
    rewrite bitsn_S. cbn [word_of_bits fold_right]. fold (word_of_bits l).
    cbn [countb]. rewrite <- (IH k) by lia.
    replace (N.odd ((if b then 1 else 0) + 2 * word_of_bits l)) with b.
    + replace (((if b then 1 else 0) + 2 * word_of_bits l) / 2) with (word_of_bits l); [reflexivity|].
      destruct b; lia.
    + destruct b; rewrite N.odd_add_mul_2; reflexivity.
Qed.

Lemma popcount_wob l : (length l <= 32)%nat -> popcount (word_of_bits l) = countb true l.
Proof. intros H. rewrite popcount_spec. apply countb_bitsn_wob. exact H. Qed.

Lemma land_ones_wob m l : N.land (N.ones m) (word_of_bits l) = word_of_bits (firstn (N.to_nat m) l).
Proof.
  apply N.bits_inj. intros t. rewrite N.land_spec, !word_of_bits_testbit.
  destruct (N.lt_ge_cases t m) as [Ht|Ht].
  - rewrite N.ones_spec_low by exact Ht. cbn [andb]. rewrite nth_firstn_lt by lia. reflexivity.
  - rewrite N.ones_spec_high by exact Ht. cbn [andb]. symmetry. apply nth_overflow.
    rewrite firstn_length. lia.
Qed.

Lemma pc1_split bv a m : pc1 bv (a + m) = pc1 bv a + countb true (firstn (N.to_nat m) (skipn (N.to_nat a) bv)).
Proof.
  unfold pc1, prefix_count. replace (N.to_nat (a + m)) with (N.to_nat a + N.to_nat m)%nat by lia.
  rewrite firstn_add, countb_app. reflexivity.
Qed.

(* ones among the first m bits of block k *)
Lemma blk_partial bv k m : m <= 15 ->
  popcount (N.land (N.ones m) (blk bv k)) = countb true (firstn (N.to_nat m) (skipn (N.to_nat (15 * k)) bv)).
Proof.
  intros Hm. unfold blk, rrr_blockv. rewrite land_ones_wob.
  rewrite popcount_wob by (rewrite !firstn_length; lia).
  rewrite firstn_firstn. replace (Nat.min (N.to_nat m) 15) with (N.to_nat m) by lia. reflexivity.
Qed.

Lemma pc1_partial bv k m : m <= 15 -> pc1 bv (15 * k + m) = pc1 bv (15 * k) + popcount (N.land (N.ones m) (blk bv k)).
Proof. intros Hm. rewrite pc1_split, blk_partial by exact Hm. reflexivity. Qed.

Lemma land_ones15_blk bv k : N.land (N.ones 15) (blk bv k) = blk bv k.
Proof.
  rewrite N.land_comm, N.land_ones. apply N.mod_small. change (2 ^ 15) with 32768. apply blk_lt.
Qed.

Lemma pc1_block bv k : pc1 bv (15 * (k + 1)) = pc1 bv (15 * k) + cls bv k.
Proof.
  replace (15 * (k + 1)) with (15 * k + 15) by lia. rewrite pc1_partial by lia.
  rewrite land_ones15_blk. reflexivity.
Qed.

Lemma cls_le bv k : cls bv k <= 15.
Proof.
  unfold cls. rewrite <- land_ones15_blk, blk_partial by lia.
  eapply N.le_trans; [apply countb_le_len|]. unfold lenN. rewrite firstn_length. lia.
Qed.

Lemma pc1_mono bv a b : a <= b -> pc1 bv a <= pc1 bv b.
Proof. apply prefix_count_mono. Qed.

Lemma pc1_le bv a : pc1 bv a <= a.
Proof. apply prefix_count_le_k. Qed.

Lemma pc1_total bv a : lenN bv <= a -> pc1 bv a = bv_ones bv.
Proof. apply prefix_count_all. Qed.

Lemma pc1_le_ones bv a : pc1 bv a <= bv_ones bv.
Proof. apply prefix_count_le_total. Qed.

(* number of blocks *)
Definition nblocks (n : N) : N := n / 15 + (if n mod 15 =? 0 then 0 else 1).

Lemma nblocks_spec n : 15 * (nblocks n - 1) < n + (if n =? 0 then 1 else 0) /\ n <= 15 * nblocks n.
Proof.
  unfold nblocks. destruct (N.eqb_spec (n mod 15) 0); destruct (N.eqb_spec n 0); lia.
Qed.

(* ========================================================================= *)
(* the block read by the constructor from the caller's array                    *)
(* ========================================================================= *)

Lemma arr32_words_of_bits bv : lenN bv < 4294967296 -> arr32 (words_of_bits bv).
Proof.
  intros H. split; [apply words32_words_of_bits|]. rewrite words_of_bits_length.
  change (2 ^ 59) with 576460752303423488. lia.
Qed.

Lemma rrr_block_spec bv k : 1 <= lenN bv -> lenN bv + 14 < 4294967296 -> k < nblocks (lenN bv) ->
  rrr_block (words_of_bits bv) (lenN bv) k = Some (blk bv k).
Proof.
  intros Hn1 Hn Hk. set (n := lenN bv) in *.
  pose proof (nblocks_spec n) as [Hb1 Hb2]. destruct (N.eqb_spec n 0) as [|_]; [lia|].
  unfold rrr_block. change rrr_BS with 15.
  rewrite (u32_small (k * 15)) by lia. rewrite (u32_small n) by lia.
  rewrite (u32_small ((k + 1) * 15)) by lia. rewrite !dec32_pos by lia.
  set (fin := N.min (n - 1) ((k + 1) * 15 - 1)).
  assert (Hfin : fin + 1 = N.min n (15 * k + 15)) by lia.
  destruct (get_var_field32_bits (words_of_bits bv) (k * 15) fin) as (v & Hv & Hbits).
  - apply arr32_words_of_bits. lia.
  - lia.
  - lia.
  - rewrite words_of_bits_length. fold n. lia.
  - rewrite Hv. f_equal. apply N.bits_inj. intros t. rewrite Hbits, blk_testbit, wbit32_words_of_bits.
    replace (k * 15 + t) with (15 * k + t) by lia.
    destruct (N.ltb_spec t (fin + 1 - k * 15)) as [H1|H1]; destruct (N.ltb_spec t 15) as [H2|H2]; cbn [andb]; try reflexivity; try lia.
    symmetry. apply nth_overflow. unfold n, lenN in *. lia.
Qed.
