(* C19 — proofs about the word-exact BitSequenceRRR model (RRRDefs.v).

   T. the universal table: compute_offset / short_bitmap are inverse bijections between the 15-bit
      blocks of a class and the offsets 0 .. C(15,class)-1 (finite check over the 2^15 blocks);
   B. blocks of the plain bit vector and their popcounts vs prefix counts;
   C. build: representation invariant [rrr_wf], no out-of-bounds access for 1 <= n < 2^32 (and n = 0);
   Q. access / rank1 / rank0 = the plain definitions (BitRGDefs section A), no out-of-bounds read;
   S. select1 / select0 = the plain definitions, fuel sufficient;
   R. refutations: the pre-6ffe6c2 allocation of O, the late padding loop (incl. divergence),
      sample rates >= 2^32/15 in select0;
   then the statements for the table the C++ builds (rrr_E), save/load, and the pointer wavelet
   tree of BitRGDefs section C over RRR bitmaps. *)
From LibCSD Require Import Base Bytes LogSeqDefs LogSeqProofs BitRGDefs BitRGProofs Cds32Defs Cds32Proofs RRRDefs.
Require Import Lia ZifyBool ZifyNat ZifyN.
Ltac Zify.zify_post_hook ::= Z.to_euclidean_division_equations.
Local Open Scope N_scope.

(* ========================================================================= *)
(* T. the universal table                                                       *)
(* ========================================================================= *)

Lemma rrr_range_In : forall cnt s b, In b (rrr_range cnt s) <-> s <= b < s + N.of_nat cnt.
Proof.
  induction cnt as [|c IH]; intros s b; cbn [rrr_range In].
  - lia.
  - rewrite IH. lia.
Qed.

Definition rrr_lg_ok (E : toff) (c : N) : bool :=
  match rrr_log2 E c with
  | Some l => (l <=? 13) && ((c =? 0) || (c =? 15) || (1 <=? l))
  | None => false
  end.

Definition toff_ok (E : toff) : bool :=
  (e_u E =? 15) &&
  forallb (rrr_block_ok E) (rrr_range (N.to_nat 32768) 0) &&
  forallb (rrr_class_ok E) (rrr_range 16 0) &&
  forallb (rrr_lg_ok E) (rrr_range 16 0).

(* the table the C++ constructor builds passes the check (2^15 blocks, 16 classes) *)
Lemma rrr_E_ok : toff_ok rrr_E = true.
Proof. vm_compute. reflexivity. Qed.

Lemma rrr_E_rows :
  map (e_get_binomial rrr_E 15) (rrr_range 16 0) =
    map Some [1; 15; 105; 455; 1365; 3003; 5005; 6435; 6435; 5005; 3003; 1365; 455; 105; 15; 1] /\
  map (e_get_log2binomial rrr_E 15) (rrr_range 16 0) =
    map Some [0; 4; 7; 9; 11; 12; 13; 13; 13; 13; 12; 11; 9; 7; 4; 0] /\
  e_offset_class rrr_E =
    [0; 1; 16; 121; 576; 1941; 4944; 9949; 16384; 22819; 27824; 30827; 32192; 32647; 32752; 32767; 32768].
Proof. vm_compute. split; [reflexivity|split; reflexivity]. Qed.

Lemma u32_small x : x < 4294967296 -> c32_u32 x = x.
Proof. intros H. apply c32_u32_small. exact H. Qed.
Lemma u64_small x : x < 18446744073709551616 -> c32_u64 x = x.
Proof. intros H. apply c32_u64_small. exact H. Qed.
Lemma u16_small x : x < 65536 -> rrr_u16 x = x.
Proof. intros H. unfold rrr_u16. apply N.mod_small. exact H. Qed.

Lemma dec32_pos a : 1 <= a -> a <= 4294967296 -> rrr_dec32 a = a - 1.
Proof.
  intros H1 H2. unfold rrr_dec32, c32_u32, c32_W. symmetry. apply (N.mod_unique _ _ 1); lia.
Qed.
Lemma dec32_zero : rrr_dec32 0 = 4294967295.
Proof. reflexivity. Qed.
Lemma dec64_pos a : 1 <= a -> a <= 18446744073709551616 -> rrr_dec64 a = a - 1.
Proof.
  intros H1 H2. unfold rrr_dec64, c32_u64, c32_W64. symmetry. apply (N.mod_unique _ _ 1); lia.
Qed.
Lemma dec64_zero : rrr_dec64 0 = 18446744073709551615.
Proof. reflexivity. Qed.

Section Table.
Variable E : toff.
Hypothesis HE : toff_ok E = true.

(* total versions of the table lookups *)
Definition lg (c : N) : N := match rrr_log2 E c with Some l => l | None => 0 end.
Definition offv (b : N) : N := match rrr_compute_offset E b with Some o => o | None => 0 end.

Lemma HE_parts :
  e_u E = 15 /\
  (forall b, b < 32768 -> rrr_block_ok E b = true) /\
  (forall c, c <= 15 -> rrr_class_ok E c = true) /\
  (forall c, c <= 15 -> rrr_lg_ok E c = true).
Proof.
  unfold toff_ok in HE. rewrite !andb_true_iff in HE. destruct HE as [[[H1 H2] H3] H4].
  rewrite forallb_forall in H2, H3, H4. split; [apply N.eqb_eq; exact H1|].
  split; [|split]; intros x Hx; [apply H2|apply H3|apply H4]; apply rrr_range_In; lia.
Qed.

Lemma E_u : e_u E = 15.
Proof. apply HE_parts. Qed.

Lemma lg_some c : c <= 15 -> rrr_log2 E c = Some (lg c) /\ lg c <= 13.
Proof.
  intros Hc. destruct HE_parts as (_ & _ & _ & H). specialize (H c Hc).
  unfold rrr_lg_ok in H. unfold lg. destruct (rrr_log2 E c) as [l|]; [|discriminate].
  split; [reflexivity|]. apply andb_true_iff in H. destruct H as [H _]. apply N.leb_le. exact H.
Qed.

Lemma lg_zero_class c : c <= 15 -> lg c = 0 -> c = 0 \/ c = 15.
Proof.
  intros Hc Hl. destruct HE_parts as (_ & _ & _ & H). specialize (H c Hc).
  unfold rrr_lg_ok in H. unfold lg in Hl. destruct (rrr_log2 E c) as [l|]; [|discriminate]. subst l.
  apply andb_true_iff in H. destruct H as [_ H]. rewrite !orb_true_iff in H.
  destruct H as [[H|H]|H]; [left; apply N.eqb_eq; exact H|right; apply N.eqb_eq; exact H|discriminate].
Qed.

(* for the two uniform classes short_bitmap ignores the offset *)
Lemma short_bitmap_uniform c x y : c <= 15 -> lg c = 0 -> rrr_short_bitmap E c x = rrr_short_bitmap E c y.
Proof.
  intros Hc Hl. destruct (lg_zero_class c Hc Hl) as [->| ->]; unfold rrr_short_bitmap, e_short_bitmap.
  - change (c32_u32 0) with 0. change (0 =? 0) with true. cbv iota. reflexivity.
  - rewrite E_u. change (c32_u32 15) with 15. change (15 =? 0) with false. change (15 =? 15) with true.
    cbv iota. reflexivity.
Qed.

Lemma block_ok b : b < 32768 ->
  rrr_compute_offset E b = Some (offv b) /\ offv b < 2 ^ lg (popcount b) /\ popcount b <= 15 /\
  rrr_short_bitmap E (popcount b) (offv b) = Some b.
Proof.
  intros Hb. destruct HE_parts as (_ & H & _ & _). specialize (H b Hb).
  unfold rrr_block_ok in H. unfold offv, lg.
  destruct (rrr_compute_offset E b) as [o|]; [|discriminate].
  destruct (rrr_log2 E (popcount b)) as [l|]; [|discriminate].
  destruct (e_get_binomial E rrr_BS (popcount b)) as [bn|]; [|discriminate].
  rewrite !andb_true_iff in H. destruct H as [[[[H1 H2] H3] H4] H5].
  destruct (rrr_short_bitmap E (popcount b) o) as [b'|]; [|discriminate].
  apply N.eqb_eq in H5. subst b'. apply N.ltb_lt in H2. apply N.leb_le in H4. auto.
Qed.

(* the bijection, both directions, with the binomial bound *)
Theorem table_block_to_offset b : b < 2 ^ 15 ->
  exists o bn l, rrr_compute_offset E b = Some o /\ e_get_binomial E 15 (popcount b) = Some bn /\
    rrr_log2 E (popcount b) = Some l /\ o < bn /\ o < 2 ^ l /\ popcount b <= 15 /\
    rrr_short_bitmap E (popcount b) o = Some b.
Proof.
  intros Hb. change (2 ^ 15) with 32768 in Hb.
  destruct HE_parts as (_ & H & _ & _). specialize (H b Hb). unfold rrr_block_ok in H.
  destruct (rrr_compute_offset E b) as [o|]; [|discriminate].
  destruct (rrr_log2 E (popcount b)) as [l|]; [|discriminate].
  change rrr_BS with 15 in H.
  destruct (e_get_binomial E 15 (popcount b)) as [bn|]; [|discriminate].
  rewrite !andb_true_iff in H. destruct H as [[[[H1 H2] H3] H4] H5].
  destruct (rrr_short_bitmap E (popcount b) o) as [b'|] eqn:Esb; [|discriminate].
  apply N.eqb_eq in H5. subst b'. exists o, bn, l.
  apply N.ltb_lt in H1, H2. apply N.leb_le in H4. auto 10.
Qed.

Theorem table_offset_to_block c o bn : c <= 15 -> e_get_binomial E 15 c = Some bn -> o < bn ->
  exists b, rrr_short_bitmap E c o = Some b /\ b < 2 ^ 15 /\ popcount b = c /\ rrr_compute_offset E b = Some o.
Proof.
  intros Hc Hbn Ho. destruct HE_parts as (_ & _ & H & _). specialize (H c Hc). unfold rrr_class_ok in H.
  change rrr_BS with 15 in H. rewrite Hbn in H. destruct (rrr_log2 E c) as [l|]; [|discriminate].
  apply andb_true_iff in H. destruct H as [_ H]. rewrite forallb_forall in H.
  specialize (H o). unfold rrr_slot_ok in H.
  assert (Hin : In o (rrr_range (N.to_nat bn) 0)) by (apply rrr_range_In; lia).
  specialize (H Hin). destruct (rrr_short_bitmap E c o) as [b|]; [|discriminate].
  rewrite !andb_true_iff in H. destruct H as [[H1 H2] H3].
  destruct (rrr_compute_offset E b) as [o'|] eqn:Eco; [|discriminate].
  exists b. apply N.ltb_lt in H1. apply N.eqb_eq in H2, H3. subst o'. change (2 ^ 15) with 32768.
  repeat split; assumption || reflexivity.
Qed.

Theorem table_log2binomial c bn : c <= 15 -> e_get_binomial E 15 c = Some bn ->
  rrr_log2 E c = Some (bits32 (bn - 1)).
Proof.
  intros Hc Hbn. destruct HE_parts as (_ & _ & H & _). specialize (H c Hc). unfold rrr_class_ok in H.
  change rrr_BS with 15 in H. rewrite Hbn in H. destruct (rrr_log2 E c) as [l|]; [|discriminate].
  apply andb_true_iff in H. destruct H as [H _]. apply N.eqb_eq in H. congruence.
Qed.

End Table.

(* ========================================================================= *)
(* B. blocks of the plain bit vector                                            *)
(* ========================================================================= *)

Definition blk (bv : list bool) (k : N) : N := rrr_blockv bv k.
Definition cls (bv : list bool) (k : N) : N := popcount (blk bv k).
Definition pc1 (bv : list bool) (k : N) : N := prefix_count true bv k.

Lemma blk_testbit bv k t : N.testbit (blk bv k) t = (t <? 15) && nth (N.to_nat (15 * k + t)) bv false.
Proof.
  unfold blk, rrr_blockv. rewrite word_of_bits_testbit.
  destruct (N.ltb_spec t 15) as [Ht|Ht]; cbn [andb].
  - rewrite nth_firstn_lt by lia. rewrite nth_skipn_add. f_equal. lia.
  - apply nth_overflow. rewrite firstn_length. lia.
Qed.

Lemma blk_lt bv k : blk bv k < 32768.
Proof.
  unfold blk, rrr_blockv. eapply N.lt_le_trans; [apply word_of_bits_lt|].
  change 32768 with (2 ^ 15). apply N.pow_le_mono_r; [lia|].
  unfold lenN. rewrite firstn_length. lia.
Qed.

Lemma countb_bitsn_wob : forall l k, (length l <= k)%nat -> countb true (bitsn k (word_of_bits l)) = countb true l.
Proof.
  induction l as [|b l IH]; intros k Hk.
  - cbn [word_of_bits fold_right countb]. apply bitsn_zero.
  - destruct k as [|k]; [cbn in Hk; lia|]. cbn [length] in Hk.
    rewrite bitsn_S. cbn [word_of_bits fold_right]. fold (word_of_bits l).
    cbn [countb]. rewrite <- (IH k) by lia.
    replace (N.odd ((if b then 1 else 0) + 2 * word_of_bits l)) with b.
    + replace (((if b then 1 else 0) + 2 * word_of_bits l) / 2) with (word_of_bits l); [reflexivity|].
      destruct b; lia.
    + destruct b; rewrite N.odd_add_mul_2; reflexivity.
Qed.

Lemma popcount_wob l : (length l <= 32)%nat -> popcount (word_of_bits l) = countb true l.
Proof. intros H. rewrite popcount_spec. apply countb_bitsn_wob. exact H. Qed.

Lemma land_ones_wob m l : N.land (N.ones m) (word_of_bits l) = word_of_bits (firstn (N.to_nat m) l).
Proof.
  apply N.bits_inj. intros t. rewrite N.land_spec, !word_of_bits_testbit.
  destruct (N.lt_ge_cases t m) as [Ht|Ht].
  - rewrite N.ones_spec_low by exact Ht. cbn [andb]. rewrite nth_firstn_lt by lia. reflexivity.
  - rewrite N.ones_spec_high by exact Ht. cbn [andb]. symmetry. apply nth_overflow.
    rewrite firstn_length. lia.
Qed.

Lemma pc1_split bv a m : pc1 bv (a + m) = pc1 bv a + countb true (firstn (N.to_nat m) (skipn (N.to_nat a) bv)).
Proof.
  unfold pc1, prefix_count. replace (N.to_nat (a + m)) with (N.to_nat a + N.to_nat m)%nat by lia.
  rewrite firstn_add, countb_app. reflexivity.
Qed.

(* ones among the first m bits of block k *)
Lemma blk_partial bv k m : m <= 15 ->
  popcount (N.land (N.ones m) (blk bv k)) = countb true (firstn (N.to_nat m) (skipn (N.to_nat (15 * k)) bv)).
Proof.
  intros Hm. unfold blk, rrr_blockv. rewrite land_ones_wob.
  rewrite popcount_wob by (rewrite !firstn_length; lia).
  rewrite firstn_firstn. replace (Nat.min (N.to_nat m) 15) with (N.to_nat m) by lia. reflexivity.
Qed.

Lemma pc1_partial bv k m : m <= 15 -> pc1 bv (15 * k + m) = pc1 bv (15 * k) + popcount (N.land (N.ones m) (blk bv k)).
Proof. intros Hm. rewrite pc1_split, blk_partial by exact Hm. reflexivity. Qed.

Lemma land_ones15_blk bv k : N.land (N.ones 15) (blk bv k) = blk bv k.
Proof.
  rewrite N.land_comm, N.land_ones. apply N.mod_small. change (2 ^ 15) with 32768. apply blk_lt.
Qed.

Lemma pc1_block bv k : pc1 bv (15 * (k + 1)) = pc1 bv (15 * k) + cls bv k.
Proof.
  replace (15 * (k + 1)) with (15 * k + 15) by lia. rewrite pc1_partial by lia.
  rewrite land_ones15_blk. reflexivity.
Qed.

Lemma cls_le bv k : cls bv k <= 15.
Proof.
  unfold cls. rewrite <- land_ones15_blk, blk_partial by lia.
  eapply N.le_trans; [apply countb_le_len|]. unfold lenN. rewrite firstn_length. lia.
Qed.

Lemma pc1_mono bv a b : a <= b -> pc1 bv a <= pc1 bv b.
Proof. apply prefix_count_mono. Qed.

Lemma pc1_le bv a : pc1 bv a <= a.
Proof. apply prefix_count_le_k. Qed.

Lemma pc1_total bv a : lenN bv <= a -> pc1 bv a = bv_ones bv.
Proof. apply prefix_count_all. Qed.

Lemma pc1_le_ones bv a : pc1 bv a <= bv_ones bv.
Proof. apply prefix_count_le_total. Qed.

(* number of blocks *)
Definition nblocks (n : N) : N := n / 15 + (if n mod 15 =? 0 then 0 else 1).

Lemma nblocks_spec n : 15 * (nblocks n - 1) < n + (if n =? 0 then 1 else 0) /\ n <= 15 * nblocks n.
Proof.
  unfold nblocks. destruct (N.eqb_spec (n mod 15) 0); destruct (N.eqb_spec n 0); lia.
Qed.

(* ========================================================================= *)
(* the block read by the constructor from the caller's array                    *)
(* ========================================================================= *)

Lemma arr32_words_of_bits bv : lenN bv < 4294967296 -> arr32 (words_of_bits bv).
Proof.
  intros H. split; [apply words32_words_of_bits|]. rewrite words_of_bits_length.
  change (2 ^ 59) with 576460752303423488. lia.
Qed.

Lemma rrr_block_spec bv k : 1 <= lenN bv -> lenN bv < 4294967296 -> k < nblocks (lenN bv) ->
  rrr_block (words_of_bits bv) (lenN bv) k = Some (blk bv k).
Proof.
  intros Hn1 Hn Hk. set (n := lenN bv) in *.
  pose proof (nblocks_spec n) as [Hb1 Hb2]. destruct (N.eqb_spec n 0) as [|_]; [lia|].
  unfold rrr_block. change rrr_BS with 15.
  rewrite (u32_small (k * 15)) by lia. rewrite (u32_small n) by lia.
  rewrite (u32_small ((k + 1) * 15)) by lia. rewrite !dec32_pos by lia.
  set (fin := N.min (n - 1) ((k + 1) * 15 - 1)).
  assert (Hfin : fin + 1 = N.min n (15 * k + 15)) by lia.
  destruct (get_var_field32_bits (words_of_bits bv) (k * 15) fin) as (v & Hv & Hbits).
  - apply arr32_words_of_bits. lia.
  - lia.
  - lia.
  - rewrite words_of_bits_length. fold n. lia.
  - rewrite Hv. f_equal. apply N.bits_inj. intros t. rewrite Hbits, blk_testbit, wbit32_words_of_bits.
    replace (k * 15 + t) with (15 * k + t) by lia.
    destruct (N.ltb_spec t (fin + 1 - k * 15)) as [H1|H1]; destruct (N.ltb_spec t 15) as [H2|H2]; cbn [andb]; try reflexivity; try lia.
    symmetry. apply nth_overflow. unfold n, lenN in *. lia.
Qed.

(* ========================================================================= *)
(* generic helpers about fields                                                 *)
(* ========================================================================= *)

Lemma uint_len32_comm a b : a < 4294967296 -> b < 4294967296 -> uint_len32 a b = uint_len32 b a.
Proof.
  intros Ha Hb. unfold uint_len32. rewrite (u32_small a), (u32_small b), (u64_small a), (u64_small b) by lia.
  rewrite (N.mul_comm a b). reflexivity.
Qed.

Lemma get_field_of_bits A len q v : arr32 A -> len <= 32 -> in_range32 A len q -> v < 2 ^ len ->
  (forall t, t < len -> wbit32 A (q * len + t) = N.testbit v t) -> get_field32 A len q = Some v.
Proof.
  intros HA Hlen Hin Hv Hb. destruct (get_field32_bits A len q HA Hlen Hin) as (v' & Hg & Hbits).
  rewrite Hg. f_equal. apply N.bits_inj. intros t. rewrite Hbits.
  destruct (N.ltb_spec t len) as [Ht|Ht]; cbn [andb].
  - apply Hb. exact Ht.
  - symmetry. apply (testbit_lt_pow2_false v t len); assumption.
Qed.

Lemma set_field_inv A fb q0 v : arr32 A -> fb <= 32 -> in_range32 A fb q0 -> v < 2 ^ fb ->
  exists A', set_field32 A fb q0 v = Some A' /\ arr32 A' /\ lenN A' = lenN A /\
    (forall q t, t < fb -> wbit32 A' (q * fb + t) = if q =? q0 then N.testbit v t else wbit32 A (q * fb + t)).
Proof.
  intros HA Hfb Hin Hv. destruct (set_field32_bits A fb q0 v HA Hfb Hin Hv) as (A' & Hs & HA' & Hl & Hb).
  exists A'. split; [exact Hs|]. split; [exact HA'|]. split; [exact Hl|].
  intros q t Ht. rewrite Hb. destruct (N.eqb_spec q q0) as [->|Hne].
  - destruct (N.leb_spec (q0 * fb) (q0 * fb + t)); [|lia].
    destruct (N.ltb_spec (q0 * fb + t) (q0 * fb + fb)); [|lia]. cbn [andb]. f_equal. lia.
  - assert (Hd : q * fb + t < q0 * fb \/ q0 * fb + fb <= q * fb + t) by nia.
    destruct (N.leb_spec (q0 * fb) (q * fb + t)); destruct (N.ltb_spec (q * fb + t) (q0 * fb + fb)); cbn [andb]; try reflexivity; lia.
Qed.

Lemma in_range_of_len fb cnt A q : fb <= 32 -> cnt < 4294967296 -> uint_len32 cnt fb <= lenN A -> q < cnt -> in_range32 A fb q.
Proof.
  intros Hfb Hc Hl Hq. unfold in_range32. rewrite uint_len32_comm in Hl by lia.
  destruct (uint_len32_fits fb cnt Hfb Hc) as [H1 _]. nia.
Qed.

(* the two degenerate var-field calls with ini = 0, fin = (uint)-1 (an empty field at bit 0 whose
   end was computed in uint): both touch word 0 *)
Lemma set_var_field32_wrapped A : words32 A -> 1 <= lenN A -> set_var_field32 A 0 4294967295 0 = Some A.
Proof.
  intros HA Hl. destruct A as [|a A']; [unfold lenN in Hl; cbn in Hl; lia|].
  assert (Ha : a < 4294967296) by (inversion HA; assumption).
  unfold set_var_field32, set_var_field32_gen. cbv zeta.
  change (c32_u32 0) with 0. change (0 =? c32_u64 (4294967295 + 1)) with false. cbv iota.
  change (c32_u32 (0 / 32)) with 0. change (c32_u32 (0 * 32)) with 0.
  change (c32_u32 (c32_subw c32_u64 0 0)) with 0.
  change (c32_u32 (c32_u64 (c32_subw c32_u64 4294967295 0 + 1))) with 0.
  unfold wr_core32. cbv zeta. change (c32_u32 (0 + 0)) with 0. change (0 <? 32) with true. cbv iota.
  change (c32_subw c32_u32 32 0) with 32. change (32 <? 32) with false. change (32 <? 0) with false. cbv iota.
  change (shl32 ones32 0) with 4294967295. change (shl32 0 0) with 0.
  unfold c32_rd, rdN. rewrite lenN_cons. destruct (N.ltb_spec 0 (1 + lenN A')); [|lia].
  change (nthN (a :: A') 0) with (Some a). rewrite N.lor_0_r, N.lor_0_r.
  change 4294967295 with (N.ones 32). rewrite N.land_ones. rewrite N.mod_small by exact Ha. reflexivity.
Qed.

Lemma get_var_field32_wrapped A : 1 <= lenN A -> exists v, get_var_field32 A 0 4294967295 = Some v.
Proof.
  intros Hl. destruct A as [|a A']; [unfold lenN in Hl; cbn in Hl; lia|].
  unfold get_var_field32, get_var_field32_gen. cbv zeta.
  change (0 =? c32_u64 (4294967295 + 1)) with false. cbv iota.
  change (0 / 32) with 0. change (c32_subw c32_u64 0 (32 * 0)) with 0.
  change (c32_u32 (c32_u64 (c32_subw c32_u64 4294967295 0 + 1))) with 0.
  unfold rd_core32. change (c32_u64 (0 + 0) <=? 32) with true. cbv iota.
  unfold c32_rd, rdN. rewrite lenN_cons. destruct (N.ltb_spec 0 (1 + lenN A')); [|lia].
  change (nthN (a :: A') 0) with (Some a). eexists. reflexivity.
Qed.

Lemma rrr_range_length cnt s : length (rrr_range cnt s) = cnt.
Proof. revert s. induction cnt as [|c IH]; intros s; cbn [rrr_range length]; [reflexivity|]. rewrite IH. reflexivity. Qed.

Lemma rrr_range_nth : forall cnt s q, (q < cnt)%nat -> nth_error (rrr_range cnt s) q = Some (s + N.of_nat q).
Proof.
  induction cnt as [|c IH]; intros s q Hq; [lia|]. cbn [rrr_range]. destruct q as [|q]; cbn [nth_error].
  - f_equal. lia.
  - rewrite IH by lia. f_equal. lia.
Qed.

Section Blocks.
Variable bv : list bool.
Let n := lenN bv.
Let nb := nblocks n.

Definition classes : list N := map (cls bv) (rrr_range (N.to_nat nb) 0).

Lemma classes_len : lenN classes = nb.
Proof. unfold classes, lenN. rewrite map_length, rrr_range_length. lia. Qed.
Lemma classes_nth k : k < nb -> nthN classes k = Some (cls bv k).
Proof.
  intros Hk. unfold classes, nthN. rewrite nth_error_map, rrr_range_nth by lia. cbn. f_equal. f_equal. lia.
Qed.
Lemma classes_bound : Forall (fun v => v < 2 ^ 4) classes.
Proof.
  unfold classes. apply Forall_forall. intros x Hx. apply in_map_iff in Hx. destruct Hx as (k & <- & _).
  pose proof (cls_le bv k). change (2 ^ 4) with 16. lia.
Qed.

Hypothesis Hn1 : 1 <= n.
Hypothesis Hn : n < 4294967296.

Lemma nb_bounds : 1 <= nb /\ 15 * (nb - 1) < n /\ n <= 15 * nb /\ nb < 286331154.
Proof.
  pose proof (nblocks_spec n) as [H1 H2]. fold nb in H1, H2.
  destruct (N.eqb_spec n 0); [lia|]. lia.
Qed.

Lemma C_get k : k < nb -> get_field32 (pack32 4 classes) 4 k = Some (cls bv k).
Proof.
  intros Hk. pose proof nb_bounds as Hnb. rewrite pack32_get; [apply classes_nth; exact Hk|lia| |apply classes_bound|].
  - rewrite classes_len. unfold c32_W. lia.
  - rewrite classes_len. exact Hk.
Qed.

End Blocks.

(* ========================================================================= *)
(* C. build                                                                    *)
(* ========================================================================= *)
Section Build.
Variable E : toff.
Hypothesis HE : toff_ok E = true.
Variable bv : list bool.
Let n := lenN bv.
Let nb := nblocks n.

Notation lgc k := (lg E (cls bv k)).

(* bit position in O of the offset of block k: sum of the widths of the blocks before it *)
Fixpoint oposn (k : nat) : N :=
  match k with O => 0 | S k' => oposn k' + lg E (cls bv (N.of_nat k')) end.
Definition opos (k : N) : N := oposn (N.to_nat k).

Lemma opos_0 : opos 0 = 0. Proof. reflexivity. Qed.
Lemma opos_succ k : opos (k + 1) = opos k + lgc k.
Proof.
  unfold opos. replace (N.to_nat (k + 1)) with (S (N.to_nat k)) by lia. cbn [oposn]. rewrite N2Nat.id. reflexivity.
Qed.
Lemma lgc_le k : lgc k <= 13.
Proof. apply lg_some; [exact HE|apply cls_le]. Qed.
Lemma lgc_some k : rrr_log2 E (cls bv k) = Some (lgc k).
Proof. apply lg_some; [exact HE|apply cls_le]. Qed.
Lemma opos_le k : opos k <= 13 * k.
Proof.
  induction k as [|k IH] using N.peano_ind; [rewrite opos_0; lia|].
  rewrite <- N.add_1_r, opos_succ. pose proof (lgc_le k). lia.
Qed.
Lemma opos_mono a b : a <= b -> opos a <= opos b.
Proof.
  intros H. replace b with (a + (b - a)) by lia. generalize (b - a) as m. clear H b.
  induction m as [|m IH] using N.peano_ind; [rewrite N.add_0_r; lia|].
  rewrite <- N.add_1_r, N.add_assoc, opos_succ. lia.
Qed.
Lemma opos_next_le a b : a < b -> opos a + lgc a <= opos b.
Proof. intros H. rewrite <- opos_succ. apply opos_mono. lia. Qed.

Hypothesis Hn1 : 1 <= n.
Hypothesis Hn : n < 4294967296.

(* ---- table C ---- *)
Lemma build_C_spec : forall cnt i C,
  i + N.of_nat cnt <= nb ->
  rrr_build_C E (words_of_bits bv) n 4 cnt i C (pc1 bv (15 * i)) (opos i) =
    match pack32_fill C 4 i (map (cls bv) (rrr_range cnt i)) with
    | Some C' => Some (C', pc1 bv (15 * (i + N.of_nat cnt)), opos (i + N.of_nat cnt))
    | None => None
    end.
Proof.
  pose proof (nb_bounds bv Hn1 Hn) as Hnb; fold n in Hnb; fold nb in Hnb.
  induction cnt as [|c IH]; intros i C Hi.
  - cbn [rrr_build_C rrr_range map pack32_fill]. rewrite N.add_0_r. reflexivity.
  - cbn [rrr_build_C rrr_range map pack32_fill].
    rewrite rrr_block_spec by (fold n; fold nb; lia). fold (cls bv i).
    destruct (set_field32 C 4 i (cls bv i)) as [C'|]; [|reflexivity].
    rewrite lgc_some.
    pose proof (pc1_le bv (15 * (i + 1))). pose proof (opos_le (i + 1)).
    rewrite u64_small by (rewrite <- pc1_block; lia). rewrite <- pc1_block.
    rewrite u32_small by (rewrite <- opos_succ; lia). rewrite <- opos_succ.
    rewrite IH by lia. replace (i + 1 + N.of_nat c) with (i + N.of_nat (S c)) by lia. reflexivity.
Qed.

Lemma uint_len_C : uint_len32 nb 4 = uint_len32 4 (lenN (classes bv)).
Proof. pose proof (nb_bounds bv Hn1 Hn) as Hnb; fold n in Hnb; fold nb in Hnb. rewrite (classes_len bv). fold n. fold nb. apply uint_len32_comm; lia. Qed.

Lemma build_C_ok :
  rrr_build_C E (words_of_bits bv) n 4 (N.to_nat nb) 0 (repeat 0 (N.to_nat (uint_len32 nb 4))) 0 0 =
    Some (pack32 4 (classes bv), bv_ones bv, opos nb).
Proof.
  pose proof (nb_bounds bv Hn1 Hn) as Hnb; fold n in Hnb; fold nb in Hnb.
  pose proof (build_C_spec (N.to_nat nb) 0 (repeat 0 (N.to_nat (uint_len32 nb 4))) ltac:(lia)) as H.
  rewrite N.mul_0_r in H. unfold pc1 at 1 in H. rewrite prefix_count_0, opos_0 in H. rewrite H. clear H.
  rewrite N.add_0_l, N2Nat.id. change (map (cls bv) (rrr_range (N.to_nat nb) 0)) with (classes bv).
  rewrite uint_len_C.
  change (pack32_fill (repeat 0 (N.to_nat (uint_len32 4 (lenN (classes bv))))) 4 0 (classes bv))
    with (pack32w (uint_len32 4 (lenN (classes bv))) 4 (classes bv)).
  rewrite pack32_is_pack32w; [|lia|rewrite (classes_len bv); fold n; fold nb; unfold c32_W; lia|apply (classes_bound bv)].
  f_equal. f_equal. f_equal. apply pc1_total. fold n. lia.
Qed.

(* ---- table O ---- *)
Section TableO.
Variable olen : N.
Hypothesis Holen1 : 1 <= olen.
Hypothesis Holen : opos nb <= 32 * olen.
Hypothesis Holen59 : olen < 2 ^ 59.

Definition O_inv (Ow : list N) (i : N) : Prop :=
  arr32 Ow /\ lenN Ow = olen /\
  forall k t, k < i -> t < lgc k -> wbit32 Ow (opos k + t) = N.testbit (offv E (blk bv k)) t.

Lemma build_O_spec : forall cnt i Ow, i + N.of_nat cnt = nb -> O_inv Ow i ->
  exists Ow', rrr_build_O E (words_of_bits bv) n cnt i Ow (opos i) = Some Ow' /\ O_inv Ow' nb.
Proof.
  pose proof (nb_bounds bv Hn1 Hn) as Hnb; fold n in Hnb; fold nb in Hnb.
  induction cnt as [|c IH]; intros i Ow Hi Hinv.
  - exists Ow. split; [reflexivity|]. replace nb with i by lia. exact Hinv.
  - cbn [rrr_build_O]. rewrite rrr_block_spec by (fold n; fold nb; lia).
    pose proof (blk_lt bv i) as Hb. rewrite u16_small by lia. fold (cls bv i). rewrite lgc_some.
    destruct (block_ok E HE (blk bv i) Hb) as (Hco & Hoff & _ & _). rewrite Hco. fold (cls bv i) in Hoff.
    destruct Hinv as (HA & HL & Hbits).
    pose proof (opos_le (i + 1)) as Hop. rewrite opos_succ in Hop.
    pose proof (opos_mono (i + 1) nb ltac:(lia)) as Hmono. rewrite opos_succ in Hmono.
    pose proof (lgc_le i) as Hl13.
    assert (Hstep : exists Ow1, set_var_field32 Ow (opos i) (rrr_dec32 (opos i + lgc i)) (offv E (blk bv i)) = Some Ow1 /\ O_inv Ow1 (i + 1)).
    { destruct (N.eq_dec (opos i + lgc i) 0) as [Hz|Hz].
      - assert (Hp0 : opos i = 0) by lia. assert (Hl0 : lgc i = 0) by lia.
        rewrite Hz, Hp0, dec32_zero. rewrite Hl0 in Hoff. change (2 ^ 0) with 1 in Hoff.
        replace (offv E (blk bv i)) with 0 by lia.
        exists Ow. split; [apply set_var_field32_wrapped; [apply HA|lia]|].
        split; [exact HA|]. split; [exact HL|]. intros k t Hk Ht.
        destruct (N.eq_dec k i) as [->|Hne]; [lia|]. apply Hbits; [lia|exact Ht].
      - rewrite dec32_pos by lia.
        destruct (set_var_field32_bits Ow (opos i) (opos i + lgc i - 1) (offv E (blk bv i))) as (Ow1 & Hs & HA1 & HL1 & Hb1).
        + exact HA.
        + lia.
        + lia.
        + rewrite HL. lia.
        + unfold c32_W. lia.
        + replace (opos i + lgc i - 1 + 1 - opos i) with (lgc i) by lia. exact Hoff.
        + exists Ow1. split; [exact Hs|]. split; [exact HA1|]. split; [congruence|].
          intros k t Hk Ht. rewrite Hb1. destruct (N.eq_dec k i) as [->|Hne].
          * destruct (N.leb_spec (opos i) (opos i + t)); [|lia].
            destruct (N.ltb_spec (opos i + t) (opos i + lgc i - 1 + 1)); [|lia]. cbn [andb]. f_equal. lia.
          * pose proof (opos_next_le k i ltac:(lia)).
            destruct (N.leb_spec (opos i) (opos k + t)); [lia|]. cbn [andb]. apply Hbits; [lia|exact Ht]. }
    destruct Hstep as (Ow1 & Hs & Hinv1). rewrite Hs.
    rewrite u32_small by lia. rewrite <- opos_succ. apply IH; [lia|exact Hinv1].
Qed.

Lemma build_O_ok : exists Ow,
  rrr_build_O E (words_of_bits bv) n (N.to_nat nb) 0 (repeat 0 (N.to_nat olen)) 0 = Some Ow /\ O_inv Ow nb.
Proof.
  rewrite <- opos_0. apply build_O_spec; [lia|].
  split; [apply arr32_repeat0; lia|]. split; [rewrite lenN_repeat; lia|]. intros k t Hk. lia.
Qed.
End TableO.

(* ---- create_sampling ---- *)
Section Sampling.
Variable sr : N.
Hypothesis Hsr1 : 1 <= sr.
Hypothesis Hsr : sr < 4294967296.

Let ones := bv_ones bv.
Let csfb := bits32 ones.
Let opfb := bits32 (opos nb).
Let csl := nb / sr + 2.
Let opl := nb / sr + 1.

Lemma ones_lt : ones < 4294967296.
Proof. unfold ones, bv_ones. pose proof (countb_le_len true bv). fold n in H. lia. Qed.
Lemma csfb_le : csfb <= 32.
Proof. apply bits32_le_32. apply ones_lt. Qed.
Lemma ones_fits : ones < 2 ^ csfb.
Proof. apply bits32_spec. apply ones_lt. Qed.
Lemma oposnb_lt : opos nb < 4294967296.
Proof. pose proof (opos_le nb). pose proof (nb_bounds bv Hn1 Hn) as Hnb; fold n in Hnb; fold nb in Hnb. lia. Qed.
Lemma opfb_le : opfb <= 32.
Proof. apply bits32_le_32. apply oposnb_lt. Qed.
Lemma oposnb_fits : opos nb < 2 ^ opfb.
Proof. apply bits32_spec. apply oposnb_lt. Qed.

(* C_sampling[q] = ones before block min(q * sample_rate, C_len) *)
Definition csval (q : N) : N := pc1 bv (15 * N.min (q * sr) nb).
Definition opval (q : N) : N := opos (q * sr).

Lemma csval_fits q : csval q < 2 ^ csfb.
Proof. unfold csval. pose proof (pc1_le_ones bv (15 * N.min (q * sr) nb)). pose proof ones_fits. fold ones in H. lia. Qed.

Definition fld_inv (A : list N) (w fb : N) (P : N -> Prop) (val : N -> N) : Prop :=
  arr32 A /\ lenN A = w /\ forall q t, P q -> t < fb -> wbit32 A (q * fb + t) = N.testbit (val q) t.

Lemma cs_loop_spec w : uint_len32 csl csfb <= w -> w < 2 ^ 59 ->
  forall cnt i CS, i + N.of_nat cnt = nb ->
  fld_inv CS w csfb (fun q => q * sr < i) csval ->
  exists CS', rrr_cs_loop (pack32 4 (classes bv)) 4 sr csfb cnt i CS (pc1 bv (15 * i)) = Some (CS', ones) /\
              fld_inv CS' w csfb (fun q => q * sr < nb) csval.
Proof.
  intros Hw Hw59. pose proof (nb_bounds bv Hn1 Hn) as Hnb; fold n in Hnb; fold nb in Hnb. pose proof csfb_le as Hfb.
  induction cnt as [|c IH]; intros i CS Hi Hinv.
  - exists CS. cbn [rrr_cs_loop]. replace i with nb by lia. split; [|replace nb with i by lia; exact Hinv].
    f_equal. f_equal. apply pc1_total. fold n. lia.
  - cbn [rrr_cs_loop]. rewrite (C_get bv Hn1 Hn) by (fold n; fold nb; lia).
    pose proof (pc1_le bv (15 * (i + 1))) as Hpc.
    rewrite u32_small by (rewrite <- pc1_block; lia). rewrite <- pc1_block.
    assert (Hstep : exists CS1, (if i mod sr =? 0 then set_field32 CS csfb (i / sr) (pc1 bv (15 * i)) else Some CS) = Some CS1 /\
                                fld_inv CS1 w csfb (fun q => q * sr < i + 1) csval).
    { destruct Hinv as (HA & HL & Hb).
      destruct (N.eqb_spec (i mod sr) 0) as [Hm|Hm].
      - assert (Hiq : i / sr * sr = i) by (pose proof (N.div_mod' i sr) as Hd; rewrite Hm in Hd; rewrite N.mul_comm; lia).
        assert (Hv : pc1 bv (15 * i) = csval (i / sr)).
        { unfold csval. rewrite Hiq. f_equal. lia. }
        destruct (set_field_inv CS csfb (i / sr) (pc1 bv (15 * i))) as (CS1 & Hs & HA1 & HL1 & Hb1).
        + exact HA.
        + exact Hfb.
        + apply (in_range_of_len csfb csl); [exact Hfb|unfold csl; lia|rewrite HL; exact Hw|].
          unfold csl. assert (i / sr <= nb / sr) by (apply N.div_le_mono; lia). lia.
        + rewrite Hv. apply csval_fits.
        + exists CS1. split; [exact Hs|]. split; [exact HA1|]. split; [congruence|].
          intros q t Hq Ht. rewrite Hb1 by exact Ht. destruct (N.eqb_spec q (i / sr)) as [->|Hne].
          * rewrite Hv. reflexivity.
          * apply Hb; [|exact Ht]. assert (q * sr <> i) by (intros He; apply Hne; subst i; rewrite N.div_mul; lia). lia.
      - exists CS. split; [reflexivity|]. split; [exact HA|]. split; [exact HL|].
        intros q t Hq Ht. apply Hb; [|exact Ht].
        assert (q * sr <> i) by (intros He; apply Hm; subst i; apply N.mod_mul; lia). lia. }
    destruct Hstep as (CS1 & Hs & Hinv1). rewrite Hs. apply IH; [lia|exact Hinv1].
Qed.

Lemma cs_pad_spec w : uint_len32 csl csfb <= w -> w < 2 ^ 59 ->
  forall cnt j CS, j + N.of_nat cnt = csl -> (forall q, q * sr < nb -> q < j) ->
  fld_inv CS w csfb (fun q => q < j) csval ->
  exists CS', rrr_cs_pad csfb cnt j CS ones = Some CS' /\ fld_inv CS' w csfb (fun q => q < csl) csval.
Proof.
  intros Hw Hw59. pose proof (nb_bounds bv Hn1 Hn) as Hnb; fold n in Hnb; fold nb in Hnb. pose proof csfb_le as Hfb.
  induction cnt as [|c IH]; intros j CS Hj Hhi Hinv.
  - exists CS. split; [reflexivity|]. replace csl with j by lia. exact Hinv.
  - cbn [rrr_cs_pad]. destruct Hinv as (HA & HL & Hb).
    assert (Hv : ones = csval j).
    { unfold csval. assert (~ j * sr < nb) by (intros Hc; apply Hhi in Hc; lia).
      replace (N.min (j * sr) nb) with nb by lia. unfold ones. symmetry. apply pc1_total. fold n. lia. }
    destruct (set_field_inv CS csfb j ones) as (CS1 & Hs & HA1 & HL1 & Hb1).
    + exact HA.
    + exact Hfb.
    + apply (in_range_of_len csfb csl); [exact Hfb|unfold csl; lia|rewrite HL; exact Hw|lia].
    + apply ones_fits.
    + rewrite Hs. apply IH.
      * lia.
      * intros q Hq. specialize (Hhi q Hq). lia.
      * split; [exact HA1|]. split; [congruence|]. intros q t Hq Ht. rewrite Hb1 by exact Ht.
        destruct (N.eqb_spec q j) as [->|Hne]; [rewrite Hv; reflexivity|]. apply Hb; [lia|exact Ht].
Qed.
Lemma opval_fits q : q * sr < nb -> opval q < 2 ^ opfb.
Proof. intros Hq. unfold opval. pose proof (opos_mono (q * sr) nb ltac:(lia)). pose proof oposnb_fits. lia. Qed.

Lemma op_loop_spec w : uint_len32 opl opfb <= w -> w < 2 ^ 59 ->
  forall cnt i OP, i + N.of_nat cnt = nb ->
  fld_inv OP w opfb (fun q => q * sr < i) opval ->
  exists OP', rrr_op_loop E (pack32 4 (classes bv)) 4 sr opfb cnt i OP (opos i) = Some OP' /\
              fld_inv OP' w opfb (fun q => q * sr < nb) opval.
Proof.
  intros Hw Hw59. pose proof (nb_bounds bv Hn1 Hn) as Hnb; fold n in Hnb; fold nb in Hnb. pose proof opfb_le as Hfb.
  induction cnt as [|c IH]; intros i OP Hi Hinv.
  - exists OP. cbn [rrr_op_loop]. split; [reflexivity|]. replace nb with i by lia. exact Hinv.
  - cbn [rrr_op_loop]. rewrite (C_get bv Hn1 Hn) by (fold n; fold nb; lia). rewrite lgc_some.
    pose proof (opos_mono (i + 1) nb ltac:(lia)) as Hmono. pose proof oposnb_lt as Hlt.
    rewrite u32_small by (rewrite <- opos_succ; lia). rewrite <- opos_succ.
    assert (Hstep : exists OP1, (if i mod sr =? 0 then set_field32 OP opfb (i / sr) (opos i) else Some OP) = Some OP1 /\
                                fld_inv OP1 w opfb (fun q => q * sr < i + 1) opval).
    { destruct Hinv as (HA & HL & Hb).
      destruct (N.eqb_spec (i mod sr) 0) as [Hm|Hm].
      - assert (Hiq : i / sr * sr = i) by (pose proof (N.div_mod' i sr) as Hd; rewrite Hm in Hd; rewrite N.mul_comm; lia).
        assert (Hv : opos i = opval (i / sr)) by (unfold opval; rewrite Hiq; reflexivity).
        destruct (set_field_inv OP opfb (i / sr) (opos i)) as (OP1 & Hs & HA1 & HL1 & Hb1).
        + exact HA.
        + exact Hfb.
        + apply (in_range_of_len opfb opl); [exact Hfb|unfold opl; lia|rewrite HL; exact Hw|].
          unfold opl. assert (i / sr <= nb / sr) by (apply N.div_le_mono; lia). lia.
        + rewrite Hv. apply opval_fits. rewrite Hiq. lia.
        + exists OP1. split; [exact Hs|]. split; [exact HA1|]. split; [congruence|].
          intros q t Hq Ht. rewrite Hb1 by exact Ht. destruct (N.eqb_spec q (i / sr)) as [->|Hne].
          * rewrite Hv. reflexivity.
          * apply Hb; [|exact Ht]. assert (q * sr <> i) by (intros He; apply Hne; subst i; rewrite N.div_mul; lia). lia.
      - exists OP. split; [reflexivity|]. split; [exact HA|]. split; [exact HL|].
        intros q t Hq Ht. apply Hb; [|exact Ht].
        assert (q * sr <> i) by (intros He; apply Hm; subst i; apply N.mod_mul; lia). lia. }
    destruct Hstep as (OP1 & Hs & Hinv1). rewrite Hs. apply IH; [lia|exact Hinv1].
Qed.

Lemma fld_inv_weaken A w fb (P P' : N -> Prop) val : (forall q, P' q -> P q) -> fld_inv A w fb P val -> fld_inv A w fb P' val.
Proof. intros H (HA & HL & Hb). split; [exact HA|]. split; [exact HL|]. intros q t Hq. apply Hb. apply H. exact Hq. Qed.

Lemma fld_inv_zero w fb P val : w < 2 ^ 59 -> (forall q, ~ P q) -> fld_inv (repeat 0 (N.to_nat w)) w fb P val.
Proof.
  intros Hw HP. split; [apply arr32_repeat0; lia|]. split; [rewrite lenN_repeat; lia|]. intros q t Hq. destruct (HP q Hq).
Qed.

Lemma div_lt_mul q a : q * sr < a -> q <= (a - 1) / sr.
Proof. intros H. apply N.div_le_lower_bound; lia. Qed.
Lemma lt_div_mul q a : 1 <= a -> q <= (a - 1) / sr -> q * sr < a.
Proof. intros Ha H. pose proof (N.mul_div_le (a - 1) sr ltac:(lia)). nia. Qed.

Lemma uint_len_lt a b : a < 4294967296 -> b <= 32 -> uint_len32 a b < 2 ^ 59.
Proof.
  intros Ha Hb. rewrite uint_len32_comm by lia. apply uint_len32_fits; [exact Hb|exact Ha].
Qed.

Lemma create_sampling_ok d0 :
  r_C d0 = pack32 4 (classes bv) -> r_C_len d0 = nb -> r_C_field_bits d0 = 4 -> r_ones d0 = ones -> r_O_bits_len d0 = opos nb ->
  exists cs op,
    rrr_create_sampling E d0 sr =
      Some (mkRRR (r_length d0) ones (r_C d0) (r_O d0) nb (r_O_len d0) 4 (opos nb) cs op csl opl csfb opfb sr) /\
    fld_inv cs (N.max 1 (uint_len32 csl csfb)) csfb (fun q => q < csl) csval /\
    fld_inv op (uint_len32 opl opfb) opfb (fun q => q * sr < nb) opval.
Proof.
  intros HC HCl Hcfb Hones Hobl. pose proof (nb_bounds bv Hn1 Hn) as Hnb; fold n in Hnb; fold nb in Hnb. pose proof ones_lt as Hol.
  assert (Hq : nb / sr <= nb) by (apply N.div_le_upper_bound; nia).
  unfold rrr_create_sampling, rrr_create_sampling_gen. cbv zeta.
  destruct (N.eqb_spec sr 0) as [|_]; [lia|].
  rewrite HC, HCl, Hcfb, Hones, Hobl. rewrite (u32_small ones) by exact Hol. fold csfb. fold opfb.
  rewrite (u32_small (nb / sr + 2)) by lia. rewrite (u32_small (nb / sr + 1)) by lia. fold csl. fold opl.
  set (wcs := N.max 1 (uint_len32 csl csfb)).
  assert (Hwcs : wcs < 2 ^ 59).
  { pose proof (uint_len_lt csl csfb ltac:(unfold csl; lia) csfb_le). change (2 ^ 59) with 576460752303423488 in *. unfold wcs. lia. }
  destruct (cs_loop_spec wcs ltac:(unfold wcs; lia) Hwcs (N.to_nat nb) 0 (repeat 0 (N.to_nat wcs)) ltac:(lia)) as (cs1 & Hcs1 & Hinv1).
  { apply fld_inv_zero; [exact Hwcs|]. intros q. lia. }
  rewrite N.mul_0_r in Hcs1. unfold pc1 at 1 in Hcs1. rewrite prefix_count_0 in Hcs1. rewrite Hcs1.
  unfold rrr_pad_start. rewrite dec32_pos by lia. rewrite (u32_small ((nb - 1) / sr + 1)).
  2:{ assert ((nb - 1) / sr <= nb - 1) by (apply N.div_le_upper_bound; nia). lia. }
  set (st := (nb - 1) / sr + 1).
  assert (Hst : st <= csl).
  { unfold st, csl. assert ((nb - 1) / sr <= nb / sr) by (apply N.div_le_mono; lia). lia. }
  destruct (cs_pad_spec wcs ltac:(unfold wcs; lia) Hwcs (N.to_nat (csl - st)) st cs1 ltac:(lia)) as (cs & Hcs & Hinv).
  { intros q Hq'. apply div_lt_mul in Hq'. unfold st. lia. }
  { apply (fld_inv_weaken _ _ _ (fun q => q * sr < nb)); [|exact Hinv1].
    intros q Hq'. apply lt_div_mul; [lia|]. unfold st in Hq'. lia. }
  rewrite Hcs.
  set (wop := uint_len32 opl opfb).
  assert (Hwop : wop < 2 ^ 59) by (apply uint_len_lt; [unfold opl; lia|apply opfb_le]).
  destruct (op_loop_spec wop ltac:(lia) Hwop (N.to_nat nb) 0 (repeat 0 (N.to_nat wop)) ltac:(lia)) as (op & Hop & Hinvo).
  { apply fld_inv_zero; [exact Hwop|]. intros q. lia. }
  rewrite opos_0 in Hop. rewrite Hop.
  exists cs, op. split; [reflexivity|]. split; [exact Hinv|exact Hinvo].
Qed.

End Sampling.

End Build.

(* ---- the representation invariant the constructor establishes ---- *)
Record rrr_wf (E : toff) (bv : list bool) (sr : N) (d : rrr) : Prop := {
  wf_length : r_length d = lenN bv;
  wf_ones : r_ones d = bv_ones bv;
  wf_C : r_C d = pack32 4 (classes bv);
  wf_C_len : r_C_len d = nblocks (lenN bv);
  wf_cfb : r_C_field_bits d = 4;
  wf_obl : r_O_bits_len d = opos E bv (nblocks (lenN bv));
  wf_O : O_inv E bv (r_O_len d) (r_O d) (nblocks (lenN bv));
  wf_O_len1 : 1 <= r_O_len d;
  wf_O_len : opos E bv (nblocks (lenN bv)) <= 32 * r_O_len d;
  wf_csl : r_C_sampling_len d = nblocks (lenN bv) / sr + 2;
  wf_opl : r_O_pos_len d = nblocks (lenN bv) / sr + 1;
  wf_csfb : r_C_sampling_field_bits d = bits32 (bv_ones bv);
  wf_opfb : r_O_pos_field_bits d = bits32 (opos E bv (nblocks (lenN bv)));
  wf_sr : r_sample_rate d = sr;
  wf_CS : fld_inv (r_C_sampling d) (N.max 1 (uint_len32 (nblocks (lenN bv) / sr + 2) (bits32 (bv_ones bv))))
            (bits32 (bv_ones bv)) (fun q => q < nblocks (lenN bv) / sr + 2) (csval bv sr);
  wf_OP : fld_inv (r_O_pos d) (uint_len32 (nblocks (lenN bv) / sr + 1) (bits32 (opos E bv (nblocks (lenN bv)))))
            (bits32 (opos E bv (nblocks (lenN bv)))) (fun q => q * sr < nblocks (lenN bv)) (opval E bv sr)
}.

Theorem rrr_build_wf E bv sr : toff_ok E = true ->
  1 <= lenN bv -> lenN bv < 4294967296 -> 1 <= sr < 4294967296 ->
  exists d, rrr_of_bits E bv sr = Some d /\ rrr_wf E bv sr d.
Proof.
  intros HE Hn1 Hn [Hsr1 Hsr].
  pose proof (nb_bounds bv Hn1 Hn) as Hnb.
  unfold rrr_of_bits, rrr_build, rrr_build_gen. cbv zeta. change rrr_BS with 15. change (bits32 15) with 4.
  fold (nblocks (lenN bv)). rewrite (u32_small (nblocks (lenN bv))) by lia.
  rewrite (build_C_ok E HE bv Hn1 Hn).
  pose proof (opos_le E HE bv (nblocks (lenN bv))) as Hop.
  assert (Hul : uint_len32 1 (opos E bv (nblocks (lenN bv))) = (opos E bv (nblocks (lenN bv)) + 31) / 32).
  { rewrite uint_len32_spec by (unfold c32_W; lia). f_equal. lia. }
  set (olen := N.max 1 (uint_len32 1 (opos E bv (nblocks (lenN bv))))).
  destruct (build_O_ok E HE bv Hn1 Hn olen) as (Ow & HO & HOinv).
  { unfold olen. lia. }
  { unfold olen. rewrite Hul. lia. }
  { unfold olen. rewrite Hul. change (2 ^ 59) with 576460752303423488. lia. }
  rewrite HO.
  destruct (create_sampling_ok E HE bv Hn1 Hn sr Hsr1 Hsr
              (mkRRR (lenN bv) (bv_ones bv) (pack32 4 (classes bv)) Ow (nblocks (lenN bv)) olen 4 (opos E bv (nblocks (lenN bv))) [] [] 0 0 0 0 0))
    as (cs & op & Hcs & Hinvc & Hinvo); try reflexivity.
  fold (rrr_create_sampling E). rewrite Hcs. cbn [r_length r_C r_O r_O_len].
  eexists. split; [reflexivity|].
  constructor; cbn [r_length r_ones r_C r_O r_C_len r_O_len r_C_field_bits r_O_bits_len r_C_sampling r_O_pos
                    r_C_sampling_len r_O_pos_len r_C_sampling_field_bits r_O_pos_field_bits r_sample_rate];
    try reflexivity; try assumption.
  - unfold olen. lia.
  - unfold olen. rewrite Hul. lia.
Qed.

(* ========================================================================= *)
(* Q. access / rank                                                            *)
(* ========================================================================= *)

Lemma get_var_field32_empty A p : p < 18446744073709551616 -> get_var_field32 A p (rrr_dec64 p) = Some 0.
Proof.
  intros Hp. unfold get_var_field32, get_var_field32_gen.
  replace (c32_u64 (rrr_dec64 p + 1)) with p; [rewrite N.eqb_refl; reflexivity|].
  unfold rrr_dec64, c32_u64, c32_W64. symmetry.
  destruct (N.eq_dec p 0) as [->|Hne]; [reflexivity|].
  replace ((p + 18446744073709551616 - 1) mod 18446744073709551616) with (p - 1).
  - rewrite N.mod_small; lia.
  - apply (N.mod_unique _ _ 1); lia.
Qed.

Lemma ones_pow2 m : 2 ^ m - 1 = N.ones m.
Proof. rewrite N.ones_equiv. rewrite N.sub_1_r. reflexivity. Qed.

Section Query.
Variable E : toff.
Hypothesis HE : toff_ok E = true.
Variable bv : list bool.
Variable sr : N.
Variable d : rrr.
Hypothesis Hwf : rrr_wf E bv sr d.
Let n := lenN bv.
Let nb := nblocks n.
Hypothesis Hn1 : 1 <= n.
Hypothesis Hn : n < 4294967296.
Hypothesis Hsr1 : 1 <= sr.
Hypothesis Hsr : sr < 4294967296.

Notation lgc k := (lg E (cls bv k)).
Notation opos := (opos E bv).

Lemma q_nb : 1 <= nb /\ 15 * (nb - 1) < n /\ n <= 15 * nb /\ nb < 286331154.
Proof. apply (nb_bounds bv Hn1 Hn). Qed.

Lemma q_C k : k < nb -> get_field32 (r_C d) (r_C_field_bits d) k = Some (cls bv k).
Proof. intros Hk. rewrite (wf_C _ _ _ _ Hwf), (wf_cfb _ _ _ _ Hwf). apply (C_get bv Hn1 Hn). exact Hk. Qed.

Lemma q_CS q : q <= nb / sr + 1 ->
  get_field32 (r_C_sampling d) (r_C_sampling_field_bits d) q = Some (csval bv sr q).
Proof.
  intros Hq. rewrite (wf_csfb _ _ _ _ Hwf). destruct (wf_CS _ _ _ _ Hwf) as (HA & HL & Hb).
  pose proof (csfb_le E bv Hn1 Hn sr Hsr1 Hsr) as Hfb. pose proof q_nb as Hnb.
  assert (Hq' : nb / sr <= nb) by (apply N.div_le_upper_bound; nia).
  apply get_field_of_bits.
  - exact HA.
  - exact Hfb.
  - apply (in_range_of_len _ (nb / sr + 2)); [exact Hfb|lia|fold n in HL; fold nb in HL; rewrite HL; apply N.le_max_r|lia].
  - apply (csval_fits E bv Hn1 Hn sr Hsr1 Hsr).
  - intros t Ht. apply Hb; [fold n; fold nb; lia|exact Ht].
Qed.

Lemma q_OP q : q * sr < nb ->
  get_field32 (r_O_pos d) (r_O_pos_field_bits d) q = Some (opos (q * sr)).
Proof.
  intros Hq. rewrite (wf_opfb _ _ _ _ Hwf). destruct (wf_OP _ _ _ _ Hwf) as (HA & HL & Hb).
  pose proof (opfb_le E HE bv Hn1 Hn sr Hsr1 Hsr) as Hfb. pose proof q_nb as Hnb.
  assert (Hq' : nb / sr <= nb) by (apply N.div_le_upper_bound; nia).
  assert (Hq2 : q <= nb / sr) by (apply N.div_le_lower_bound; lia).
  apply get_field_of_bits.
  - exact HA.
  - exact Hfb.
  - apply (in_range_of_len _ (nb / sr + 1)); [exact Hfb|lia|fold n in HL; fold nb in HL; rewrite HL; apply N.le_refl|lia].
  - apply (opval_fits E HE bv Hn1 Hn sr Hsr1 Hsr). exact Hq.
  - intros t Ht. apply Hb; [exact Hq|exact Ht].
Qed.

Lemma q_O_arr : arr32 (r_O d) /\ 1 <= lenN (r_O d) /\ opos nb <= 32 * lenN (r_O d).
Proof.
  destruct (wf_O _ _ _ _ Hwf) as (HA & HL & _). pose proof (wf_O_len1 _ _ _ _ Hwf). pose proof (wf_O_len _ _ _ _ Hwf).
  rewrite HL. auto.
Qed.

(* the stored offset of block k *)
Lemma q_O k : k < nb -> 1 <= lgc k ->
  get_var_field32 (r_O d) (opos k) (opos k + lgc k - 1) = Some (offv E (blk bv k)).
Proof.
  intros Hk Hl. destruct q_O_arr as (HA & HL1 & HL). destruct (wf_O _ _ _ _ Hwf) as (_ & _ & Hb).
  pose proof (lgc_le E HE bv k) as Hl13.
  pose proof (opos_next_le E bv k nb Hk) as Hnx. fold n in Hnx.
  destruct (get_var_field32_bits (r_O d) (opos k) (opos k + lgc k - 1) HA) as (v & Hv & Hbits); try lia.
  rewrite Hv. f_equal. apply N.bits_inj. intros t. rewrite Hbits.
  destruct (block_ok E HE (blk bv k) (blk_lt bv k)) as (_ & Hoff & _ & _). fold (cls bv k) in Hoff.
  destruct (N.ltb_spec t (opos k + lgc k - 1 + 1 - opos k)) as [Ht|Ht]; cbn [andb].
  - apply Hb; [exact Hk|lia].
  - symmetry. apply (testbit_lt_pow2_false _ t (lgc k)); [exact Hoff|lia].
Qed.

Lemma q_sb k : k < nb -> rrr_short_bitmap E (cls bv k) (offv E (blk bv k)) = Some (blk bv k).
Proof. intros Hk. destruct (block_ok E HE (blk bv k) (blk_lt bv k)) as (_ & _ & _ & H). exact H. Qed.

Lemma offv_zero k : lgc k = 0 -> offv E (blk bv k) = 0.
Proof.
  intros Hl. destruct (block_ok E HE (blk bv k) (blk_lt bv k)) as (_ & Hoff & _ & _). fold (cls bv k) in Hoff.
  rewrite Hl in Hoff. change (2 ^ 0) with 1 in Hoff. lia.
Qed.

Lemma q_opos_lt k : k <= nb -> opos k < 4294967296.
Proof. intros Hk. pose proof (opos_le E HE bv k). pose proof q_nb. lia. Qed.

(* the block decoded the way access / select do it (size_t arithmetic) *)
Lemma decode64 k : k < nb ->
  exists off, get_var_field32 (r_O d) (opos k) (rrr_dec64 (c32_u64 (opos k + lgc k))) = Some off /\
              rrr_short_bitmap E (cls bv k) off = Some (blk bv k).
Proof.
  intros Hk. pose proof (q_opos_lt k ltac:(lia)) as Hp. pose proof (lgc_le E HE bv k) as Hl13.
  rewrite u64_small by lia.
  destruct (N.eq_dec (lgc k) 0) as [Hl|Hl].
  - rewrite Hl, N.add_0_r. exists 0. split; [apply get_var_field32_empty; lia|].
    rewrite <- (offv_zero k Hl). apply q_sb. exact Hk.
  - rewrite dec64_pos by lia. exists (offv E (blk bv k)). split; [apply q_O; [exact Hk|lia]|apply q_sb; exact Hk].
Qed.

(* ... and the way rank1 does it (the end of the field computed in uint) *)
Lemma decode32 k : k < nb ->
  exists off, get_var_field32 (r_O d) (opos k) (rrr_dec32 (opos k + lgc k)) = Some off /\
              rrr_short_bitmap E (cls bv k) off = Some (blk bv k).
Proof.
  intros Hk. pose proof (q_opos_lt k ltac:(lia)) as Hp. pose proof (lgc_le E HE bv k) as Hl13.
  pose proof (q_opos_lt (k + 1) ltac:(lia)) as Hp1. rewrite opos_succ in Hp1.
  destruct (N.eq_dec (lgc k) 0) as [Hl|Hl].
  - rewrite Hl, N.add_0_r. destruct (N.eq_dec (opos k) 0) as [Hz|Hz].
    + rewrite Hz, dec32_zero. destruct q_O_arr as (_ & HL1 & _).
      destruct (get_var_field32_wrapped (r_O d) HL1) as (v & Hv). exists v. split; [exact Hv|].
      rewrite (short_bitmap_uniform E HE (cls bv k) v (offv E (blk bv k)) (cls_le bv k) Hl). apply q_sb. exact Hk.
    + exists 0. split.
      * rewrite dec32_pos by lia. rewrite <- (dec64_pos (opos k)) by lia. apply get_var_field32_empty. lia.
      * rewrite <- (offv_zero k Hl). apply q_sb. exact Hk.
  - rewrite dec32_pos by lia. exists (offv E (blk bv k)). split; [apply q_O; [exact Hk|lia]|apply q_sb; exact Hk].
Qed.

(* ---- access ---- *)
Lemma acc_loop_spec : forall cnt k, k + N.of_nat cnt <= nb ->
  rrr_acc_loop E d cnt k (opos k) = Some (opos (k + N.of_nat cnt)).
Proof.
  induction cnt as [|c IH]; intros k Hk; cbn [rrr_acc_loop].
  - rewrite N.add_0_r. reflexivity.
  - rewrite q_C by lia. rewrite (lgc_some E HE).
    pose proof (q_opos_lt (k + 1) ltac:(lia)) as Hp. rewrite opos_succ in Hp.
    rewrite u64_small by lia. rewrite <- opos_succ. rewrite IH by lia. f_equal. f_equal. lia.
Qed.

Lemma idx_bounds i : i < n -> i / 15 < nb /\ i / 15 / sr * sr <= i / 15 /\ i / 15 / sr <= nb / sr.
Proof.
  intros Hi. pose proof q_nb as Hnb. assert (H1 : i / 15 < nb) by lia.
  split; [exact H1|]. split.
  - rewrite N.mul_comm. apply N.mul_div_le. lia.
  - apply N.div_le_mono; lia.
Qed.

Theorem rrr_access_wf i : i < n -> rrr_access E d i = Some (bv_access bv i).
Proof.
  intros Hi. pose proof q_nb as Hnb. destruct (idx_bounds i Hi) as (Hpos & Hk0 & Hq).
  unfold rrr_access. rewrite (wf_sr _ _ _ _ Hwf). destruct (N.eqb_spec sr 0) as [|_]; [lia|].
  change rrr_BS with 15. set (pos := i / 15) in *. set (nsv := pos / sr) in *.
  rewrite q_OP by lia. rewrite (u64_small (nsv * sr)) by lia.
  rewrite acc_loop_spec by lia. replace (nsv * sr + N.of_nat (N.to_nat (pos - nsv * sr))) with pos by lia.
  rewrite q_C by exact Hpos. rewrite (lgc_some E HE).
  destruct (decode64 pos Hpos) as (off & Hoff & Hsb). rewrite Hoff, Hsb. f_equal.
  rewrite land_bit_test, blk_testbit. unfold bv_access.
  destruct (N.ltb_spec (i mod 15) 15); [|lia]. cbn [andb]. f_equal. unfold pos. lia.
Qed.

(* ---- rank1 ---- *)
Lemma rank_one_spec k : k < nb ->
  rrr_rank_one E d k (pc1 bv (15 * k)) (opos k) = Some (k + 1, pc1 bv (15 * (k + 1)), opos (k + 1)).
Proof.
  intros Hk. pose proof q_nb as Hnb. unfold rrr_rank_one. rewrite q_C by exact Hk. rewrite (lgc_some E HE).
  pose proof (q_opos_lt (k + 1) ltac:(lia)) as Hp. pose proof (pc1_le bv (15 * (k + 1))) as Hc.
  rewrite opos_succ in Hp. rewrite pc1_block in Hc.
  rewrite !u32_small by lia. rewrite <- opos_succ, <- pc1_block. reflexivity.
Qed.

Lemma C_arr : arr32 (r_C d) /\ lenN (r_C d) = (4 * nb + 31) / 32 /\
  forall q t, q < nb -> t < 4 -> wbit32 (r_C d) (q * 4 + t) = N.testbit (cls bv q) t.
Proof.
  pose proof q_nb as Hnb. rewrite (wf_C _ _ _ _ Hwf).
  assert (Hlen : lenN (classes bv) < c32_W) by (rewrite (classes_len bv); fold n; fold nb; unfold c32_W; lia).
  destruct (uint_len32_fits 4 (lenN (classes bv)) ltac:(lia) Hlen) as [H1 H2].
  destruct (pack32w_spec _ 4 (classes bv) ltac:(lia) (classes_bound bv) H1 H2) as (A & HA & Harr & Hl & _ & Hb & _).
  rewrite (pack32_is_pack32w 4 (classes bv) ltac:(lia) Hlen (classes_bound bv)) in HA. injection HA as <-.
  split; [exact Harr|]. split.
  - rewrite Hl, uint_len32_spec by (try exact Hlen; lia). rewrite (classes_len bv). reflexivity.
  - intros q t Hq Ht. rewrite Hb by (try rewrite (classes_len bv); assumption).
    rewrite (nth_indep _ 0 (cls bv 0)) by (pose proof (classes_len bv) as Hc; fold n in Hc; fold nb in Hc; unfold lenN in Hc; lia).
    pose proof (classes_nth bv q Hq) as Hnth. unfold nthN in Hnth.
    apply nth_error_nth with (d := cls bv 0) in Hnth. rewrite Hnth. reflexivity.
Qed.

Lemma cls_bit_high k t : 4 <= t -> N.testbit (cls bv k) t = false.
Proof.
  intros Ht. apply (testbit_lt_pow2_false _ t 4); [|exact Ht]. pose proof (cls_le bv k). change (2 ^ 4) with 16. lia.
Qed.

(* byte b of C holds the classes of blocks 2b (low nibble) and 2b+1 (high nibble) *)
Lemma C_byte b : 2 * b + 1 < nb ->
  exists v, rrr_byte (r_C d) b = Some v /\ N.land v 15 = cls bv (2 * b) /\ v / 16 = cls bv (2 * b + 1).
Proof.
  intros Hb. destruct C_arr as (HA & HL & Hbits). unfold rrr_byte. rewrite c32_rd_eq.
  destruct (nthN_lt_Some (r_C d) (b / 4)) as (w & Hw); [rewrite HL; lia|]. rewrite Hw.
  eexists. split; [reflexivity|].
  set (v := (w / 2 ^ (8 * (b mod 4))) mod 256).
  assert (Hv : forall t, t < 8 -> N.testbit v t = wbit32 (r_C d) (8 * b + t)).
  { intros t Ht. unfold v. change 256 with (2 ^ 8). rewrite N.mod_pow2_bits_low by exact Ht.
    rewrite N.div_pow2_bits. unfold wbit32. replace ((8 * b + t) / 32) with (b / 4) by lia. rewrite Hw.
    f_equal. lia. }
  assert (Hvh : forall t, 8 <= t -> N.testbit v t = false).
  { intros t Ht. unfold v. change 256 with (2 ^ 8). apply N.mod_pow2_bits_high. exact Ht. }
  split; apply N.bits_inj; intros t.
  - change 15 with (N.ones 4). rewrite N.land_ones.
    destruct (N.lt_ge_cases t 4) as [Ht|Ht].
    + rewrite N.mod_pow2_bits_low by exact Ht. rewrite Hv by lia.
      replace (8 * b + t) with (2 * b * 4 + t) by lia. apply Hbits; lia.
    + rewrite N.mod_pow2_bits_high by exact Ht. symmetry. apply cls_bit_high. exact Ht.
  - change 16 with (2 ^ 4). rewrite N.div_pow2_bits.
    destruct (N.lt_ge_cases t 4) as [Ht|Ht].
    + rewrite Hv by lia. replace (8 * b + (t + 4)) with ((2 * b + 1) * 4 + t) by lia. apply Hbits; lia.
    + rewrite Hvh by lia. symmetry. apply cls_bit_high. exact Ht.
Qed.

Lemma rank_bytes_spec : forall cnt k, k mod 2 = 0 -> k + 2 * N.of_nat cnt <= nb - 1 + 1 -> k + 2 * N.of_nat cnt <= nb ->
  (cnt = O \/ k + 2 * N.of_nat cnt < nb + 1) ->
  rrr_rank_bytes E (r_C d) cnt (k / 2) k (pc1 bv (15 * k)) (opos k) =
    Some (k + 2 * N.of_nat cnt, pc1 bv (15 * (k + 2 * N.of_nat cnt)), opos (k + 2 * N.of_nat cnt)).
Proof.
  pose proof q_nb as Hnb.
  induction cnt as [|c IH]; intros k Hev Hk _ _; cbn [rrr_rank_bytes].
  - rewrite N.mul_0_r, N.add_0_r. reflexivity.
  - destruct (C_byte (k / 2)) as (v & Hv & Hlo & Hhi); [lia|]. rewrite Hv, Hlo, Hhi.
    replace (2 * (k / 2)) with k by lia. rewrite !(lgc_some E HE).
    pose proof (q_opos_lt (k + 2) ltac:(lia)) as Hp. pose proof (pc1_le bv (15 * (k + 2))) as Hc.
    replace (k + 2) with (k + 1 + 1) in Hp, Hc by lia. rewrite opos_succ, opos_succ in Hp.
    rewrite pc1_block, pc1_block in Hc.
    rewrite !u32_small by lia.
    replace (pc1 bv (15 * k) + (cls bv k + cls bv (k + 1))) with (pc1 bv (15 * (k + 1 + 1))) by (rewrite !pc1_block; lia).
    replace (opos k + (lgc k + lgc (k + 1))) with (opos (k + 1 + 1)) by (rewrite !opos_succ; lia).
    replace (k / 2 + 1) with ((k + 2) / 2) by lia. replace (k + 1 + 1) with (k + 2) by lia.
    rewrite IH; [|lia|lia|lia|right; lia].
    replace (k + 2 + 2 * N.of_nat c) with (k + 2 * N.of_nat (S c)) by lia. reflexivity.
Qed.

Theorem rrr_rank1_wf i : i < n -> rrr_rank1 E d i = Some (bv_rank1 bv i).
Proof.
  intros Hi. pose proof q_nb as Hnb. destruct (idx_bounds i Hi) as (Hpos & Hk0 & Hq).
  unfold rrr_rank1. rewrite (u64_small (i + 1)) by lia. destruct (N.eqb_spec (i + 1) 0) as [|_]; [lia|].
  rewrite (wf_sr _ _ _ _ Hwf). destruct (N.eqb_spec sr 0) as [|_]; [lia|].
  change rrr_BS with 15. set (pos := i / 15) in *. set (nsv := pos / sr) in *.
  rewrite (u32_small nsv) by lia. rewrite (u32_small pos) by lia. rewrite (u32_small (nsv * sr)) by lia.
  rewrite q_CS by lia. rewrite q_OP by lia. set (k0 := nsv * sr) in *.
  unfold csval. fold n. fold nb. replace (N.min (nsv * sr) nb) with k0 by (unfold k0; lia).
  (* phase 1: make k even *)
  assert (H1 : exists k1, (if (k0 mod 2 =? 1) && (k0 <? pos) then rrr_rank_one E d k0 (pc1 bv (15 * k0)) (opos k0)
                           else Some (k0, pc1 bv (15 * k0), opos k0)) = Some (k1, pc1 bv (15 * k1), opos k1) /\
                          k1 <= pos /\ (k1 mod 2 = 0 \/ k1 = pos)).
  { destruct (N.eqb_spec (k0 mod 2) 1) as [Ho|Ho]; destruct (N.ltb_spec k0 pos) as [Hl|Hl]; cbn [andb].
    - exists (k0 + 1). rewrite rank_one_spec by lia. split; [reflexivity|]. split; [lia|left; lia].
    - exists k0. split; [reflexivity|]. split; [lia|right; lia].
    - exists k0. split; [reflexivity|]. split; [lia|left; lia].
    - exists k0. split; [reflexivity|]. split; [lia|right; lia]. }
  destruct H1 as (k1 & -> & Hk1 & Hk1e).
  (* phase 2: two classes per byte *)
  assert (Hlim : rrr_rank_lim pos = pos - 1).
  { unfold rrr_rank_lim. destruct (N.eqb_spec pos 0) as [->|]; [reflexivity|].
    destruct (N.leb_spec 2147483648 pos); [lia|]. reflexivity. }
  rewrite Hlim. set (cnt := N.to_nat ((pos - 1 - k1 + 1) / 2)).
  assert (H2 : exists k2, rrr_rank_bytes E (r_C d) cnt (k1 / 2) k1 (pc1 bv (15 * k1)) (opos k1) =
                          Some (k2, pc1 bv (15 * k2), opos k2) /\ k2 <= pos /\ pos <= k2 + 1).
  { destruct (N.lt_ge_cases k1 (pos - 1)) as [Hlt|Hge].
    - destruct Hk1e as [Hev|Heq]; [|lia]. exists (k1 + 2 * N.of_nat cnt).
      split; [apply rank_bytes_spec; unfold cnt; try lia; right; lia|]. unfold cnt. lia.
    - exists k1. replace cnt with O by (unfold cnt; lia). cbn [rrr_rank_bytes]. split; [reflexivity|lia]. }
  destruct H2 as (k2 & -> & Hk2a & Hk2b).
  (* phase 3: the last odd class *)
  assert (H3 : (if k2 <? pos then rrr_rank_one E d k2 (pc1 bv (15 * k2)) (opos k2) else Some (k2, pc1 bv (15 * k2), opos k2)) =
               Some (pos, pc1 bv (15 * pos), opos pos)).
  { destruct (N.ltb_spec k2 pos) as [Hl|Hl].
    - rewrite rank_one_spec by lia. replace (k2 + 1) with pos by lia. reflexivity.
    - replace k2 with pos by lia. reflexivity. }
  rewrite H3. rewrite q_C by exact Hpos. rewrite (lgc_some E HE).
  destruct (decode32 pos Hpos) as (off & Hoff & Hsb). rewrite Hoff, Hsb. f_equal.
  rewrite ones_pow2. pose proof (pc1_partial bv pos (i mod 15 + 1) ltac:(lia)) as Hp.
  pose proof (pc1_le bv (15 * pos + (i mod 15 + 1))) as Hc.
  rewrite u32_small by lia. rewrite <- Hp. unfold bv_rank1, pc1. f_equal. unfold pos. lia.
Qed.

Theorem rrr_rank0_wf i : i < n -> rrr_rank0 E d i = Some (bv_rank0 bv i).
Proof.
  intros Hi. unfold rrr_rank0. rewrite (u64_small (i + 1)) by lia. destruct (N.eqb_spec (i + 1) 0) as [|_]; [lia|].
  rewrite rrr_rank1_wf by exact Hi. f_equal.
  pose proof (bv_rank0_rank1 bv i Hi) as H. unfold c32_u64, c32_W64.
  symmetry. apply (N.mod_unique _ _ 1); lia.
Qed.

End Query.

(* ========================================================================= *)
(* S. select                                                                   *)
(* ========================================================================= *)

(* occurrences of [want] among positions 0 .. x-1 of the bit vector continued with zeros for ever *)
Definition Wc (bv : list bool) (want : bool) (x : N) : N := if want then pc1 bv x else x - pc1 bv x.
Definition pbit (bv : list bool) (p : N) : bool := nth (N.to_nat p) bv false.

Lemma pc1_succ bv p : pc1 bv (p + 1) = pc1 bv p + (if pbit bv p then 1 else 0).
Proof.
  unfold pc1, pbit. destruct (N.lt_ge_cases p (lenN bv)) as [H|H].
  - rewrite prefix_count_succ by exact H. destruct (nth (N.to_nat p) bv false); reflexivity.
  - rewrite !prefix_count_all by lia. rewrite nth_overflow by (unfold lenN in H; lia). lia.
Qed.

Lemma Wc_succ bv want p : Wc bv want (p + 1) = Wc bv want p + (if Bool.eqb (pbit bv p) want then 1 else 0).
Proof.
  unfold Wc. pose proof (pc1_succ bv p) as H. pose proof (pc1_le bv p) as Hl.
  destruct want; destruct (pbit bv p); cbn [Bool.eqb] in *; lia.
Qed.

Lemma Wc_mono bv want a b : a <= b -> Wc bv want a <= Wc bv want b.
Proof.
  intros H. replace b with (a + (b - a)) by lia. generalize (b - a) as m. clear H b.
  induction m as [|m IH] using N.peano_ind; [rewrite N.add_0_r; lia|].
  rewrite <- N.add_1_r, N.add_assoc, Wc_succ. lia.
Qed.

Lemma Wc_0 bv want : Wc bv want 0 = 0.
Proof. unfold Wc, pc1. rewrite prefix_count_0. destruct want; reflexivity. Qed.

Lemma Wc_block bv want k : Wc bv want (15 * (k + 1)) = Wc bv want (15 * k) + (if want then cls bv k else 15 - cls bv k).
Proof.
  unfold Wc. pose proof (pc1_block bv k). pose proof (cls_le bv k). pose proof (pc1_le bv (15 * k)). destruct want; lia.
Qed.

Lemma blk_odd bv b t : t < 15 -> N.odd (blk bv b / 2 ^ t) = pbit bv (15 * b + t).
Proof.
  intros Ht. rewrite <- N.bit0_odd, N.div_pow2_bits, N.add_0_l, blk_testbit.
  destruct (N.ltb_spec t 15); [|lia]. reflexivity.
Qed.

Section Select.
Variable E : toff.
Hypothesis HE : toff_ok E = true.
Variable bv : list bool.
Variable sr : N.
Variable d : rrr.
Hypothesis Hwf : rrr_wf E bv sr d.
Let n := lenN bv.
Let nb := nblocks n.
Hypothesis Hn1 : 1 <= n.
Hypothesis Hn : n < 4294967296.
Hypothesis Hsr1 : 1 <= sr.
Hypothesis Hsr : sr < 4294967296.
Variable want : bool.
(* sample_rate * BLOCK_SIZE is evaluated in uint by select0 *)
Hypothesis Hsr15 : want = true \/ sr * 15 < 4294967296.
Variable i : N.
Hypothesis Hi1 : 1 <= i.
Hypothesis Hi : i <= (if want then bv_ones bv else n - bv_ones bv).

Notation lgc k := (lg E (cls bv k)).
Notation opos := (opos E bv).
Notation W := (Wc bv want).

Lemma Hnb : 1 <= nb /\ 15 * (nb - 1) < n /\ n <= 15 * nb /\ nb < 286331154.
Proof. exact (q_nb bv Hn1 Hn). Qed.
Lemma qC k : k < nb -> get_field32 (r_C d) (r_C_field_bits d) k = Some (cls bv k).
Proof. exact (q_C E bv sr d Hwf Hn1 Hn k). Qed.
Lemma qCS q : q <= nb / sr + 1 -> get_field32 (r_C_sampling d) (r_C_sampling_field_bits d) q = Some (csval bv sr q).
Proof. exact (q_CS E bv sr d Hwf Hn1 Hn Hsr1 Hsr q). Qed.
Lemma qOP q : q * sr < nb -> get_field32 (r_O_pos d) (r_O_pos_field_bits d) q = Some (opos (q * sr)).
Proof. exact (q_OP E HE bv sr d Hwf Hn1 Hn Hsr1 Hsr q). Qed.
Lemma dec64 k : k < nb ->
  exists off, get_var_field32 (r_O d) (opos k) (rrr_dec64 (c32_u64 (opos k + lgc k))) = Some off /\
              rrr_short_bitmap E (cls bv k) off = Some (blk bv k).
Proof. exact (decode64 E HE bv sr d Hwf Hn1 Hn Hsr1 Hsr k). Qed.
Lemma oposlt k : k <= nb -> opos k < 4294967296.
Proof. exact (q_opos_lt E HE bv sr Hn1 Hn Hsr1 Hsr k). Qed.

Lemma csval_eq q : csval bv sr q = pc1 bv (15 * (q * sr)).
Proof.
  unfold csval. fold n. fold nb. destruct (N.le_gt_cases (q * sr) nb) as [H|H].
  - rewrite N.min_l by exact H. reflexivity.
  - rewrite N.min_r by lia. rewrite !pc1_total; [reflexivity| |]; fold n; pose proof Hnb; lia.
Qed.

Lemma W_total : i <= W (15 * nb).
Proof.
  pose proof Hnb. unfold Wc. rewrite pc1_total by (fold n; lia). destruct want; lia.
Qed.

Lemma W_bound x : W x <= x.
Proof. unfold Wc. pose proof (pc1_le bv x). destruct want; lia. Qed.

(* key of the binary search at sample q *)
Definition keyv (q : N) : N := W (15 * (q * sr)).

Lemma key_small q : keyv q < i -> q * sr < nb /\ q <= nb / sr.
Proof.
  intros H. assert (Hq : q * sr < nb).
  { destruct (N.lt_ge_cases (q * sr) nb) as [Hlt|Hge]; [exact Hlt|].
    pose proof (Wc_mono bv want (15 * nb) (15 * (q * sr)) ltac:(lia)). pose proof W_total. unfold keyv in H. lia. }
  split; [exact Hq|]. apply N.div_le_lower_bound; lia.
Qed.

Lemma sel_key_spec q : q <= nb / sr + 1 -> rrr_sel_key want d q (csval bv sr q) = keyv q.
Proof.
  intros Hq. pose proof Hnb as Hnb'. unfold rrr_sel_key, keyv, Wc. rewrite (wf_sr _ _ _ _ Hwf). rewrite csval_eq. destruct want; [reflexivity|].
  assert (Hq' : nb / sr <= nb) by (apply N.div_le_upper_bound; nia).
  assert (Hqs : q * sr <= nb + sr) by (pose proof (N.mul_div_le nb sr ltac:(lia)); nia).
  change rrr_BS with 15. rewrite (u64_small (q * sr)) by lia. rewrite (u64_small (q * sr * 15)) by lia.
  pose proof (pc1_le bv (15 * (q * sr))). unfold c32_u64, c32_W64.
  symmetry. apply (N.mod_unique _ _ 1); lia.
Qed.

(* lia with the quotient by the (variable) sample rate abstracted *)
Ltac gdiv := repeat match goal with
  | H : context [?a / sr] |- _ => generalize dependent (a / sr); intros
  | |- context [?a / sr] => generalize dependent (a / sr); intros
  end.
Ltac dlia := gdiv; lia.

(* ---- binary search ---- *)
Lemma bsearch_done g start en : keyv start < i -> start <= en -> en <= nb + 1 -> (en = 0 \/ en <= start + 1) ->
  rrr_sel_bsearch want d i (S g) start en = Some start.
Proof.
  intros Hk Hse Hen Hc. cbn [rrr_sel_bsearch]. destruct (N.eq_dec en 0) as [->|Hne].
  - assert (start = 0) by lia. subst start. rewrite dec64_zero. change (0 <? 18446744073709551615) with true. cbv iota.
    change (c32_u64 (0 + 0) / 2) with 0. unfold rrr_cs. rewrite qCS by apply N.le_0_l. rewrite sel_key_spec by apply N.le_0_l.
    destruct (N.ltb_spec (keyv 0) i); [|lia]. reflexivity.
  - rewrite dec64_pos by (pose proof Hnb; lia). destruct (N.ltb_spec start (en - 1)); [lia|reflexivity].
Qed.

Lemma bsearch_ok : forall f start en,
  keyv start < i -> start <= en -> en <= nb / sr + 1 -> en - start <= 2 ^ N.of_nat f ->
  exists s, rrr_sel_bsearch want d i (S f) start en = Some s /\ keyv s < i.
Proof.
  assert (Hq' : nb / sr <= nb) by (apply N.div_le_upper_bound; pose proof Hnb; nia).
  induction f as [|f IH]; intros start en Hk Hse Hen Hd.
  - exists start. split; [|exact Hk]. apply bsearch_done; try assumption; [lia|]. change (2 ^ N.of_nat 0) with 1 in Hd. lia.
  - destruct (N.le_gt_cases en (start + 1)) as [Hle|Hgt].
    + exists start. split; [|exact Hk]. apply bsearch_done; try assumption; [lia|]. right. exact Hle.
    + rewrite Nat2N.inj_succ, N.pow_succ_r' in Hd. set (P := 2 ^ N.of_nat f) in *.
      remember (S f) as g eqn:Eg. cbn [rrr_sel_bsearch]. subst g. rewrite dec64_pos by (pose proof Hnb; lia).
      destruct (N.ltb_spec start (en - 1)) as [_|Hge]; [|lia].
      rewrite (u64_small (start + en)) by (pose proof Hnb; lia). set (med := (start + en) / 2).
      assert (Hmed : start < med /\ med < en) by (unfold med; lia).
      unfold rrr_cs. rewrite qCS by (clear - Hmed Hen; dlia). rewrite sel_key_spec by (clear - Hmed Hen; dlia).
      destruct (N.ltb_spec (keyv med) i) as [Hlt|Hge].
      * destruct (N.eqb_spec med start) as [Heq|_]; [lia|]. apply IH; [exact Hlt|lia|exact Hen|clear - Hd Hgt; unfold med; lia].
      * destruct (N.eqb_spec en 0) as [Heq|_]; [lia|]. rewrite dec64_pos by (pose proof Hnb; lia).
        apply IH; [exact Hk|lia|clear - Hmed Hen; dlia|clear - Hd Hgt; unfold med; lia].
Qed.

(* ---- skipping equal samples ---- *)
Lemma sel_step_spec : rrr_sel_step want d = if want then 0 else sr * 15.
Proof.
  unfold rrr_sel_step. rewrite (wf_sr _ _ _ _ Hwf). change rrr_BS with 15. destruct want; [reflexivity|].
  destruct Hsr15 as [Hc|Hc]; [discriminate|]. apply u32_small. exact Hc.
Qed.

Lemma csval_le q : csval bv sr q <= 15 * (q * sr).
Proof. rewrite csval_eq. apply pc1_le. Qed.

Lemma skip_ok : forall fuel start, keyv start < i -> nb - 1 - start <= N.of_nat fuel ->
  exists s, rrr_sel_skip want d fuel start (csval bv sr start) = Some (s, csval bv sr s) /\ keyv s < i.
Proof.
  assert (Hq' : nb / sr <= nb) by (apply N.div_le_upper_bound; pose proof Hnb; nia).
  assert (Hbody : forall fuel start, keyv start < i ->
            (forall f', fuel = S f' -> keyv (start + 1) < i ->
               exists s, rrr_sel_skip want d f' (start + 1) (csval bv sr (start + 1)) = Some (s, csval bv sr s) /\ keyv s < i) ->
            (fuel = O -> nb - 1 <= start) ->
            exists s, rrr_sel_skip want d fuel start (csval bv sr start) = Some (s, csval bv sr s) /\ keyv s < i).
  { intros fuel start Hk Hrec Hz. destruct (key_small start Hk) as [Hs1 Hs2].
    assert (Hstep : forall rest, (if start <? rrr_dec32 (r_C_len d) then rest else Some (start, csval bv sr start)) =
                                 (if start <? nb - 1 then rest else Some (start, csval bv sr start))).
    { intros rest. rewrite (wf_C_len _ _ _ _ Hwf). fold n. fold nb. rewrite dec32_pos by (pose proof Hnb; lia). reflexivity. }
    destruct fuel as [|f']; cbn [rrr_sel_skip]; rewrite Hstep; destruct (N.ltb_spec start (nb - 1)) as [Hlt|Hge];
      try (exists start; split; [reflexivity|exact Hk]).
    - specialize (Hz eq_refl). lia.
    - rewrite (u64_small (start + 1)) by (pose proof Hnb; lia). unfold rrr_cs. rewrite qCS by lia.
      rewrite sel_step_spec.
      pose proof (csval_le start) as Hcl. pose proof (csval_le (start + 1)) as Hcl1.
      assert (Hsz : start * sr <= nb /\ sr * 15 <= 64424509440) by (pose proof Hnb; nia).
      rewrite (u64_small (csval bv sr start + (if want then 0 else sr * 15))) by (pose proof Hnb; destruct want; nia).
      destruct (N.eqb_spec (csval bv sr start + (if want then 0 else sr * 15)) (csval bv sr (start + 1))) as [Heq|Hne].
      + rewrite Heq. apply (Hrec f' eq_refl).
        unfold keyv, Wc in *. rewrite <- !csval_eq in *. destruct want; [lia|nia].
      + exists start. split; [reflexivity|exact Hk]. }
  induction fuel as [|f IH]; intros start Hk Hf.
  - apply Hbody; [exact Hk|discriminate|intros _; lia].
  - apply Hbody; [exact Hk| |discriminate]. intros f' Hf' Hk'. injection Hf' as <-. apply IH; [exact Hk'|lia].
Qed.

(* ---- sequential search over C ---- *)
Lemma sel_add_spec k : k < nb -> rrr_sel_add want (W (15 * k)) (cls bv k) = W (15 * (k + 1)).
Proof.
  intros Hk. pose proof Hnb. pose proof (W_bound (15 * k)) as Hb. pose proof (cls_le bv k) as Hc.
  rewrite Wc_block. unfold rrr_sel_add. change rrr_BS with 15.
  generalize dependent (W (15 * k)). intros w Hb. destruct want.
  - apply u64_small. lia.
  - rewrite (u64_small (w + 15)) by lia. unfold c32_u64, c32_W64. symmetry. apply (N.mod_unique _ _ 1); lia.
Qed.

Lemma scan_ok : forall cnt pos s0, pos + N.of_nat cnt = nb -> W (15 * pos) < i ->
  exists b, rrr_sel_scan E want d i cnt pos (opos pos) (W (15 * pos)) s0 = Some (b, opos b, W (15 * b), cls bv b) /\
            b < nb /\ W (15 * b) < i /\ i <= W (15 * (b + 1)).
Proof.
  induction cnt as [|c IH]; intros pos s0 Hp Hk.
  - pose proof W_total. replace pos with nb in Hk by lia. lia.
  - cbn [rrr_sel_scan]. rewrite qC by lia. rewrite sel_add_spec by lia.
    destruct (N.leb_spec i (W (15 * (pos + 1)))) as [Hle|Hgt].
    + exists pos. split; [reflexivity|]. split; [lia|]. split; [exact Hk|exact Hle].
    + rewrite (lgc_some E HE). pose proof Hnb.
      pose proof (oposlt (pos + 1) ltac:(lia)) as Ho. rewrite opos_succ in Ho.
      rewrite (u64_small (pos + 1)) by lia. rewrite (u64_small (opos pos + lgc pos)) by lia. rewrite <- opos_succ.
      apply IH; [lia|exact Hgt].
Qed.

(* ---- the scan inside the block ---- *)
Lemma bits_ok b : b < nb -> i <= W (15 * (b + 1)) ->
  forall cnt t, t + N.of_nat cnt = 15 -> W (15 * b + t) <= i -> (forall y, 15 * b <= y < 15 * b + t -> W y < i) ->
  exists x, rrr_sel_bits want i cnt (15 * b + t) (W (15 * b + t)) (blk bv b / 2 ^ t) = (x, i) /\
            x <= 15 * b + 15 /\ W x = i /\ (forall y, 15 * b <= y < x -> W y < i).
Proof.
  intros Hb Hi2. pose proof Hnb as Hnb'.
  induction cnt as [|c IH]; intros t Ht Hacc Hmin.
  - assert (t = 15) by lia. subst t. cbn [rrr_sel_bits]. replace (15 * b + 15) with (15 * (b + 1)) in * by lia.
    exists (15 * (b + 1)). assert (W (15 * (b + 1)) = i) by lia. split; [congruence|]. split; [lia|]. split; assumption.
  - cbn [rrr_sel_bits]. destruct (N.ltb_spec (W (15 * b + t)) i) as [Hlt|Hge].
    + pose proof (W_bound (15 * b + t + 1)) as Hwb.
      rewrite (u64_small (15 * b + t + 1)) by lia.
      rewrite blk_odd by lia. rewrite <- Wc_succ. rewrite (u64_small (W (15 * b + t + 1))) by lia.
      replace (blk bv b / 2 ^ t / 2) with (blk bv b / 2 ^ (t + 1)) by (rewrite N.pow_add_r, N.div_div by (try apply N.pow_nonzero; lia); reflexivity).
      replace (15 * b + t + 1) with (15 * b + (t + 1)) by lia.
      apply IH.
      * lia.
      * replace (15 * b + (t + 1)) with (15 * b + t + 1) by lia. rewrite Wc_succ.
        destruct (Bool.eqb (pbit bv (15 * b + t)) want); lia.
      * intros y Hy. destruct (N.eq_dec y (15 * b + t)) as [->|Hne]; [exact Hlt|apply Hmin; lia].
    + exists (15 * b + t). assert (W (15 * b + t) = i) by lia. split; [congruence|]. split; [lia|]. split; assumption.
Qed.

Lemma inblock_ok b f : b < nb -> W (15 * b) < i -> i <= W (15 * (b + 1)) ->
  exists x, rrr_sel_inblock E want d i (cls bv b) (S (S f)) (c32_u64 (b * 15)) (opos b) (W (15 * b)) = Some x /\
            15 * b < x <= 15 * b + 15 /\ W x = i /\ W (x - 1) = i - 1 /\ pbit bv (x - 1) = want.
Proof.
  intros Hb Hlo Hhi. pose proof Hnb as Hnb'. cbn [rrr_sel_inblock].
  destruct (N.ltb_spec (W (15 * b)) i) as [_|Hge]; [|lia].
  rewrite (lgc_some E HE). destruct (dec64 b Hb) as (off & Hoff & Hsb).
  pose proof (oposlt (b + 1) ltac:(lia)) as Ho. rewrite opos_succ in Ho.
  rewrite Hoff, Hsb.
  destruct (bits_ok b Hb Hhi 15%nat 0 ltac:(lia)) as (x & Hx & Hx1 & Hx2 & Hx3).
  { rewrite N.add_0_r. lia. }
  { intros y Hy. lia. }
  rewrite N.add_0_r in Hx. change (2 ^ 0) with 1 in Hx. rewrite N.div_1_r in Hx.
  rewrite (u64_small (b * 15)) by lia. replace (b * 15) with (15 * b) by lia.
  change (N.to_nat rrr_BS) with 15%nat. rewrite Hx.
  assert (Hxl : 15 * b < x).
  { destruct (N.lt_ge_cases (15 * b) x) as [H|H]; [exact H|]. assert (x = 15 * b \/ x < 15 * b) by lia.
    pose proof (Wc_mono bv want x (15 * b) ltac:(lia)). lia. }
  exists x. split.
  - destruct f as [|f']; cbn [rrr_sel_inblock]; destruct (N.ltb_spec i i); try lia; reflexivity.
  - split; [lia|]. split; [exact Hx2|].
    pose proof (Hx3 (x - 1) ltac:(lia)) as Hprev. pose proof (Wc_succ bv want (x - 1)) as Hs.
    replace (x - 1 + 1) with x in Hs by lia. destruct (Bool.eqb (pbit bv (x - 1)) want) eqn:Eb.
    + split; [lia|]. apply Bool.eqb_prop. exact Eb.
    + lia.
Qed.

(* ---- the whole of select ---- *)
Lemma select_core_ok :
  exists p, rrr_select_core E want d i = Some p /\ p < n /\ pbit bv p = want /\ W (p + 1) = i.
Proof.
  pose proof Hnb as Hnb'.
  assert (Hq' : nb / sr <= nb) by (apply N.div_le_upper_bound; nia).
  unfold rrr_select_core. rewrite (wf_csl _ _ _ _ Hwf). fold n. fold nb.
  rewrite dec32_pos by dlia. replace (nb / sr + 2 - 1) with (nb / sr + 1) by dlia.
  assert (Hk0 : keyv 0 < i) by (unfold keyv; rewrite N.mul_0_l, N.mul_0_r, Wc_0; lia).
  destruct (bsearch_ok (S (N.size_nat (nb / sr + 2))) 0 (nb / sr + 1) Hk0 ltac:(dlia) ltac:(dlia)) as (s0 & Hs0 & Hks0).
  { pose proof (size_nat_gt (nb / sr + 2)) as Hsz. rewrite Nat2N.inj_succ, N.pow_succ_r' by lia. dlia. }
  unfold rrr_bsearch_fuel. rewrite (wf_csl _ _ _ _ Hwf). fold n. fold nb. rewrite Hs0.
  destruct (key_small s0 Hks0) as [Hs0a Hs0b].
  unfold rrr_cs at 1. rewrite qCS by dlia.
  rewrite (wf_C_len _ _ _ _ Hwf). fold n. fold nb.
  destruct (skip_ok (N.to_nat nb) s0 Hks0 ltac:(dlia)) as (s & Hs & Hks). rewrite Hs.
  destruct (key_small s Hks) as [Hsa Hsb].
  rewrite (wf_sr _ _ _ _ Hwf). rewrite qOP by exact Hsa.
  assert (Hacc : (if want then rrr_cs d s
                  else Some (c32_u64 (c32_u64 (c32_u64 (s * sr) * rrr_BS) + c32_W64 - csval bv sr s))) = Some (keyv s)).
  { pose proof (sel_key_spec s ltac:(dlia)) as Hkey. unfold rrr_sel_key in Hkey. rewrite (wf_sr _ _ _ _ Hwf) in Hkey.
    destruct want.
    - unfold rrr_cs. rewrite qCS by dlia. f_equal. exact Hkey.
    - f_equal. exact Hkey. }
  rewrite Hacc. rewrite (u64_small (s * sr)) by dlia. unfold keyv.
  destruct (scan_ok (N.to_nat (nb - s * sr)) (s * sr) 0 ltac:(dlia) Hks) as (b & Hb & Hb1 & Hb2 & Hb3). rewrite Hb.
  unfold rrr_inblock_fuel. change (2 + 8 * (length (r_C d) + length (r_O d)))%nat with (S (S (8 * (length (r_C d) + length (r_O d))))).
  change rrr_BS with 15.
  destruct (inblock_ok b (8 * (length (r_C d) + length (r_O d))) Hb1 Hb2 Hb3) as (x & Hx & Hx1 & Hx2 & Hx3 & Hx4).
  rewrite Hx. exists (x - 1). split; [rewrite dec64_pos by dlia; reflexivity|].
  replace (x - 1 + 1) with x by dlia. split; [|split; [exact Hx4|exact Hx2]].
  (* the position found lies inside the bit vector *)
  destruct (N.lt_ge_cases (x - 1) n) as [Hlt|Hge]; [exact Hlt|exfalso].
  destruct want.
  - unfold pbit in Hx4. rewrite nth_overflow in Hx4 by (unfold n, lenN in Hge; lia). discriminate.
  - unfold Wc in Hx3. rewrite pc1_total in Hx3 by (fold n; lia). lia.
Qed.

End Select.

Theorem rrr_select1_wf E bv sr d j : toff_ok E = true -> rrr_wf E bv sr d ->
  1 <= lenN bv -> lenN bv < 4294967296 -> 1 <= sr < 4294967296 ->
  1 <= j <= bv_ones bv -> rrr_select1 E d j = bv_select1 bv j.
Proof.
  intros HE Hwf Hn1 Hn [Hsr1 Hsr] [Hj1 Hj].
  destruct (select_core_ok E HE bv sr d Hwf Hn1 Hn Hsr1 Hsr true (or_introl eq_refl) j Hj1 Hj) as (p & Hp & Hpn & Hpb & Hpw).
  unfold rrr_select1. destruct (N.eqb_spec j 0) as [|_]; [lia|].
  rewrite (wf_ones _ _ _ _ Hwf). destruct (N.ltb_spec (bv_ones bv) j) as [|_]; [lia|].
  rewrite Hp. symmetry. rewrite <- Hpw. unfold Wc. apply (bv_select_rank1 bv p Hpn). exact Hpb.
Qed.

Theorem rrr_select0_wf E bv sr d j : toff_ok E = true -> rrr_wf E bv sr d ->
  1 <= lenN bv -> lenN bv < 4294967296 -> 1 <= sr -> sr * 15 < 4294967296 ->
  1 <= j <= bv_zeros bv -> rrr_select0 E d j = bv_select0 bv j.
Proof.
  intros HE Hwf Hn1 Hn Hsr1 Hsr15 [Hj1 Hj].
  pose proof (countb_compl bv) as Hcc. fold (bv_ones bv) in Hcc. fold (bv_zeros bv) in Hcc.
  assert (Hsr : sr < 4294967296) by lia. assert (Hj' : j <= lenN bv - bv_ones bv) by lia.
  destruct (select_core_ok E HE bv sr d Hwf Hn1 Hn Hsr1 Hsr false (or_intror Hsr15) j Hj1 Hj') as (p & Hp & Hpn & Hpb & Hpw).
  unfold rrr_select0. destruct (N.eqb_spec j 0) as [|_]; [lia|].
  rewrite (wf_ones _ _ _ _ Hwf), (wf_length _ _ _ _ Hwf).
  assert (Hz : c32_u64 (lenN bv + c32_W64 - bv_ones bv) = bv_zeros bv).
  { unfold c32_u64, c32_W64. symmetry. apply (N.mod_unique _ _ 1); lia. }
  rewrite Hz. destruct (N.ltb_spec (bv_zeros bv) j) as [|_]; [lia|].
  rewrite Hp. symmetry.
  assert (Hr : bv_rank0 bv p = j).
  { pose proof (bv_rank0_rank1 bv p Hpn) as H. unfold Wc in Hpw. unfold bv_rank1 in H. fold (pc1 bv (p + 1)) in H.
    pose proof (pc1_le bv (p + 1)). lia. }
  rewrite <- Hr. apply (bv_select_rank0 bv p Hpn). exact Hpb.
Qed.

(* ========================================================================= *)
(* the empty bit vector, the out-of-range conventions                           *)
(* ========================================================================= *)

Lemma cs_pad_fb0 : forall cnt j CS s, rrr_cs_pad 0 cnt j CS s = Some CS.
Proof. induction cnt as [|c IH]; intros j CS s; cbn [rrr_cs_pad]; [reflexivity|]. apply IH. Qed.

(* n = 0: the constructor succeeds for every sample rate (no block, O = one zero word, empty O_pos);
   no table entry is read.  Every query position is then out of the domain. *)
Theorem rrr_build_empty E sr : 1 <= sr < 4294967296 ->
  rrr_of_bits E [] sr = Some (mkRRR 0 0 [] [0] 0 1 4 0 [0] [] 2 1 0 0 sr).
Proof.
  intros [H1 H2]. unfold rrr_of_bits, rrr_build, rrr_build_gen. cbv zeta.
  change (lenN (@nil bool)) with 0. change rrr_BS with 15. change (bits32 15) with 4.
  change (c32_u32 (0 / 15 + (if 0 mod 15 =? 0 then 0 else 1))) with 0.
  change (N.to_nat 0) with O. cbn [rrr_build_C rrr_build_O].
  change (N.max 1 (uint_len32 1 0)) with 1. change (repeat 0 (N.to_nat 1)) with [0].
  unfold rrr_create_sampling_gen. cbv zeta. destruct (N.eqb_spec sr 0) as [|_]; [lia|].
  cbn [r_C_len r_ones r_C r_C_field_bits r_O_bits_len r_length r_O r_O_len].
  rewrite N.div_0_l by lia. change (c32_u32 (0 + 2)) with 2. change (c32_u32 (0 + 1)) with 1.
  change (bits32 (c32_u32 0)) with 0. change (bits32 0) with 0.
  change (uint_len32 2 0) with 0. change (uint_len32 1 0) with 0. change (N.max 1 0) with 1.
  change (N.to_nat 0) with O. change (repeat 0 (N.to_nat 1)) with [0]. cbn [rrr_cs_loop rrr_op_loop repeat].
  rewrite cs_pad_fb0. reflexivity.
Qed.

Theorem rrr_select1_out_of_range E d j : j = 0 \/ r_ones d < j -> rrr_select1 E d j = Some (2 ^ 64 - 1).
Proof.
  intros H. unfold rrr_select1. destruct (N.eqb_spec j 0) as [|Hne]; [reflexivity|].
  destruct (N.ltb_spec (r_ones d) j); [reflexivity|lia].
Qed.

Theorem rrr_select0_out_of_range E d j : r_ones d <= r_length d -> r_length d < 2 ^ 64 ->
  j = 0 \/ r_length d - r_ones d < j -> rrr_select0 E d j = Some (2 ^ 32 - 1).
Proof.
  intros Ho Hl H. unfold rrr_select0. destruct (N.eqb_spec j 0) as [|Hne]; [reflexivity|].
  replace (c32_u64 (r_length d + c32_W64 - r_ones d)) with (r_length d - r_ones d).
  - destruct (N.ltb_spec (r_length d - r_ones d) j); [reflexivity|lia].
  - unfold c32_u64, c32_W64. change (2 ^ 64) with 18446744073709551616 in Hl. apply (N.mod_unique _ _ 1); lia.
Qed.

Theorem rrr_rank_minus1 E d : rrr_rank1 E d (2 ^ 64 - 1) = Some 0 /\ rrr_rank0 E d (2 ^ 64 - 1) = Some 0.
Proof. split; reflexivity. Qed.

(* ========================================================================= *)
(* R. refutations                                                              *)
(* ========================================================================= *)

(* before commit 6ffe6c2 (O_len = uint_len(1, O_bits_len)): every block of the all-zero 16-bit
   vector is uniform, O has no word, and the first set_var_field of the second loop touches O[0] *)
Theorem rrr_build_old_refuted :
  exists bv sr, lenN bv = 16 /\ 1 <= sr /\ rrr_of_bits_old rrr_E bv sr = None /\
    rrr_build_O rrr_E (words_of_bits bv) 16 2 0 [] 0 = None /\
    set_var_field32 [] 0 (rrr_dec32 (0 + 0)) 0 = None /\
    exists d, rrr_of_bits rrr_E bv sr = Some d /\ r_O d = [0] /\ r_O_bits_len d = 0.
Proof.
  exists (repeat false 16), 2. split; [reflexivity|]. split; [lia|]. split; [vm_compute; reflexivity|].
  split; [vm_compute; reflexivity|]. split; [vm_compute; reflexivity|].
  eexists. split; [vm_compute; reflexivity|]. split; reflexivity.
Qed.

(* the seeded change of create_sampling (padding loop started at C_len / sample_rate + 1): when the
   sample rate divides the number of blocks, C_sampling[C_len / sample_rate] keeps 0 and select1 never
   finds its block *)
Definition latepad_bv : list bool := repeat true 30.

Definition latepad_d : rrr := mkRRR 30 30 [255] [0] 2 1 4 0 [30720] [] 3 2 5 0 2.

Theorem rrr_latepad_refuted :
  rrr_of_bits_latepad rrr_E latepad_bv 2 = Some latepad_d /\
  (forall j, 1 <= j <= 30 -> rrr_select1 rrr_E latepad_d j = None) /\
  rrr_cs latepad_d 1 = Some 0 /\
  exists d', rrr_of_bits rrr_E latepad_bv 2 = Some d' /\ rrr_cs d' 1 = Some 30 /\ rrr_select1 rrr_E d' 30 = Some 29.
Proof.
  split; [vm_compute; reflexivity|]. split; [|split; [vm_compute; reflexivity|]].
  - intros j Hj.
    assert (Hall : forallb (fun j => match rrr_select1 rrr_E latepad_d j with None => true | Some _ => false end)
              (rrr_range 30 1) = true) by (vm_compute; reflexivity).
    rewrite forallb_forall in Hall. specialize (Hall j ltac:(apply rrr_range_In; lia)).
    destruct (rrr_select1 rrr_E latepad_d j); [discriminate|reflexivity].
  - eexists. split; [vm_compute; reflexivity|]. split; vm_compute; reflexivity.
Qed.

(* ... and it is a genuine infinite loop of "Search inside the block", not a bounds violation:
   with s = 0 the block read is empty for ever, whatever the fuel *)
Theorem rrr_latepad_diverges : forall fuel pos,
  rrr_sel_inblock rrr_E true latepad_d 1 0 fuel pos 0 0 = None.
Proof.
  induction fuel as [|f IH]; intros pos; cbn [rrr_sel_inblock]; change (0 <? 1) with true; cbv iota; [reflexivity|].
  assert (Hl : rrr_log2 rrr_E 0 = Some 0) by (vm_compute; reflexivity). rewrite Hl.
  change (c32_u64 (0 + 0)) with 0. change (rrr_dec64 0) with 18446744073709551615.
  unfold latepad_d at 1. cbn [r_O].
  assert (Hg : get_var_field32 [0] 0 18446744073709551615 = Some 0) by reflexivity. rewrite Hg.
  assert (Hs : rrr_short_bitmap rrr_E 0 0 = Some 0) by (vm_compute; reflexivity). rewrite Hs.
  destruct (rrr_sel_bits true 1 (N.to_nat rrr_BS) pos 0 0) as [pos' acc'] eqn:Eb.
  assert (Hbits : forall c p, snd (rrr_sel_bits true 1 c p 0 0) = 0).
  { induction c as [|c IHc]; intros p; cbn [rrr_sel_bits]; [reflexivity|].
    change (0 <? 1) with true. cbv iota. change (N.odd 0) with false. cbn [Bool.eqb].
    change (c32_u64 (0 + 0)) with 0. change (0 / 2) with 0. apply IHc. }
  assert (Hacc : acc' = 0) by (pose proof (Hbits (N.to_nat rrr_BS) pos) as Hb; rewrite Eb in Hb; exact Hb).
  subst acc'. apply IH.
Qed.

(* sample rates >= 2^32 / 15: select0 evaluates sample_rate * BLOCK_SIZE in uint; with 14 ones in a
   16-bit vector and sample_rate = 286331154 (15 * sample_rate = 2^32 + 14) the skip loop jumps over the answer *)
Definition bigsr_bv : list bool := repeat true 14 ++ [false; false].

Theorem rrr_select0_big_sample_rate_refuted :
  exists d, rrr_of_bits rrr_E bigsr_bv 286331154 = Some d /\
    rrr_select0 rrr_E d 1 = Some 4294967309 /\ bv_select0 bigsr_bv 1 = Some 14 /\
    rrr_select1 rrr_E d 14 = bv_select1 bigsr_bv 14.
Proof.
  eexists. split; [vm_compute; reflexivity|]. split; [vm_compute; reflexivity|]. split; vm_compute; reflexivity.
Qed.

(* ========================================================================= *)
(* the statements for the table the C++ builds (rrr_E)                          *)
(* ========================================================================= *)

Definition rrr_len_ok (bv : list bool) : Prop := 1 <= lenN bv /\ lenN bv < 4294967296.

Theorem rrr_build_ok bv sr : rrr_len_ok bv -> 1 <= sr < 4294967296 ->
  exists d, rrr_of_bits rrr_E bv sr = Some d /\ rrr_wf rrr_E bv sr d /\
    r_length d = lenN bv /\ r_ones d = bv_ones bv /\ r_C_len d = nblocks (lenN bv) /\
    r_sample_rate d = sr /\ 1 <= lenN (r_O d) /\ lenN (r_O d) = r_O_len d /\
    r_C_sampling_len d = nblocks (lenN bv) / sr + 2 /\ r_O_pos_len d = nblocks (lenN bv) / sr + 1.
Proof.
  intros [Hn1 Hn] Hsr. destruct (rrr_build_wf rrr_E bv sr rrr_E_ok Hn1 Hn Hsr) as (d & Hd & Hwf).
  exists d. split; [exact Hd|]. split; [exact Hwf|].
  destruct (wf_O _ _ _ _ Hwf) as (_ & HL & _). pose proof (wf_O_len1 _ _ _ _ Hwf).
  repeat split; try apply Hwf; try lia.
Qed.

Section Exported.
Variables (bv : list bool) (sr : N) (d : rrr).
Hypothesis Hlen : rrr_len_ok bv.
Hypothesis Hsr : 1 <= sr < 4294967296.
Hypothesis Hd : rrr_of_bits rrr_E bv sr = Some d.

Lemma built_wf : rrr_wf rrr_E bv sr d.
Proof.
  destruct Hlen as [Hn1 Hn]. destruct (rrr_build_wf rrr_E bv sr rrr_E_ok Hn1 Hn Hsr) as (d' & Hd' & Hwf).
  rewrite Hd in Hd'. injection Hd' as <-. exact Hwf.
Qed.

Theorem rrr_access_spec i : i < lenN bv -> rrr_access rrr_E d i = Some (bv_access bv i).
Proof. destruct Hlen, Hsr. apply (rrr_access_wf rrr_E rrr_E_ok bv sr d built_wf); assumption. Qed.
Theorem rrr_rank1_spec i : i < lenN bv -> rrr_rank1 rrr_E d i = Some (bv_rank1 bv i).
Proof. destruct Hlen, Hsr. apply (rrr_rank1_wf rrr_E rrr_E_ok bv sr d built_wf); assumption. Qed.
Theorem rrr_rank0_spec i : i < lenN bv -> rrr_rank0 rrr_E d i = Some (bv_rank0 bv i).
Proof. destruct Hlen, Hsr. apply (rrr_rank0_wf rrr_E rrr_E_ok bv sr d built_wf); assumption. Qed.
Theorem rrr_select1_spec j : 1 <= j <= bv_ones bv -> rrr_select1 rrr_E d j = bv_select1 bv j.
Proof. destruct Hlen. apply (rrr_select1_wf rrr_E bv sr d j rrr_E_ok built_wf); assumption. Qed.
Theorem rrr_select0_spec j : sr * 15 < 4294967296 -> 1 <= j <= bv_zeros bv -> rrr_select0 rrr_E d j = bv_select0 bv j.
Proof. destruct Hlen, Hsr. intros. apply (rrr_select0_wf rrr_E bv sr d j rrr_E_ok built_wf); assumption. Qed.

(* no read outside C, O, C_sampling, O_pos, the caller's array or the table; no loop runs out of fuel *)
Theorem rrr_no_oob :
  (forall i, i < lenN bv -> rrr_access rrr_E d i <> None /\ rrr_rank1 rrr_E d i <> None /\ rrr_rank0 rrr_E d i <> None) /\
  (forall j, 1 <= j <= bv_ones bv -> exists p, rrr_select1 rrr_E d j = Some p /\ p < lenN bv) /\
  (forall j, sr * 15 < 4294967296 -> 1 <= j <= bv_zeros bv -> exists p, rrr_select0 rrr_E d j = Some p /\ p < lenN bv).
Proof.
  split; [|split].
  - intros i Hi. rewrite rrr_access_spec, rrr_rank1_spec, rrr_rank0_spec by exact Hi. repeat split; discriminate.
  - intros j Hj. rewrite rrr_select1_spec by exact Hj.
    destruct (bv_rank_select1 bv j Hj) as (p & Hp & Hpn & _). exists p. split; assumption.
  - intros j Hs Hj. rewrite rrr_select0_spec by assumption.
    destruct (bv_rank_select0 bv j Hj) as (p & Hp & Hpn & _). exists p. split; assumption.
Qed.
End Exported.

(* the table: both directions of the bijection and the field width, for the table the C++ builds *)
Theorem rrr_table_block_to_offset b : b < 2 ^ 15 ->
  exists o bn l, rrr_compute_offset rrr_E b = Some o /\ e_get_binomial rrr_E 15 (popcount b) = Some bn /\
    rrr_log2 rrr_E (popcount b) = Some l /\ o < bn /\ o < 2 ^ l /\ popcount b <= 15 /\
    rrr_short_bitmap rrr_E (popcount b) o = Some b.
Proof. apply (table_block_to_offset rrr_E rrr_E_ok). Qed.
Theorem rrr_table_offset_to_block c o bn : c <= 15 -> e_get_binomial rrr_E 15 c = Some bn -> o < bn ->
  exists b, rrr_short_bitmap rrr_E c o = Some b /\ b < 2 ^ 15 /\ popcount b = c /\ rrr_compute_offset rrr_E b = Some o.
Proof. apply (table_offset_to_block rrr_E rrr_E_ok). Qed.
Theorem rrr_table_log2binomial c bn : c <= 15 -> e_get_binomial rrr_E 15 c = Some bn ->
  rrr_log2 rrr_E c = Some (bits32 (bn - 1)).
Proof. apply (table_log2binomial rrr_E rrr_E_ok). Qed.

(* ========================================================================= *)
(* save / load                                                                  *)
(* ========================================================================= *)

(* create_sampling reads only the members that save() writes *)
Lemma create_sampling_base E padf a b c o e f g h x1 x2 x3 x4 x5 x6 x7 y1 y2 y3 y4 y5 y6 y7 sr :
  rrr_create_sampling_gen E padf (mkRRR a b c o e f g h x1 x2 x3 x4 x5 x6 x7) sr =
  rrr_create_sampling_gen E padf (mkRRR a b c o e f g h y1 y2 y3 y4 y5 y6 y7) sr.
Proof. reflexivity. Qed.

Lemma create_sampling_fields E padf d0 sr d : rrr_create_sampling_gen E padf d0 sr = Some d ->
  r_length d = r_length d0 /\ r_ones d = r_ones d0 /\ r_C d = r_C d0 /\ r_O d = r_O d0 /\ r_C_len d = r_C_len d0 /\
  r_O_len d = r_O_len d0 /\ r_C_field_bits d = r_C_field_bits d0 /\ r_O_bits_len d = r_O_bits_len d0 /\ r_sample_rate d = sr.
Proof.
  unfold rrr_create_sampling_gen. cbv zeta. destruct (sr =? 0); [discriminate|].
  destruct (rrr_cs_loop _ _ _ _ _ _ _ _) as [[cs1 sum]|]; [|discriminate].
  destruct (rrr_cs_pad _ _ _ _ _) as [cs|]; [|discriminate].
  destruct (rrr_op_loop _ _ _ _ _ _ _ _ _) as [op|]; [|discriminate].
  intros H. injection H as <-. cbn. repeat split; reflexivity.
Qed.

Lemma build_inv E bv sr d : rrr_of_bits E bv sr = Some d ->
  rrr_create_sampling E (mkRRR (r_length d) (r_ones d) (r_C d) (r_O d) (r_C_len d) (r_O_len d) (r_C_field_bits d)
                               (r_O_bits_len d) [] [] 0 0 0 0 (r_sample_rate d)) sr = Some d.
Proof.
  unfold rrr_of_bits, rrr_build, rrr_build_gen. cbv zeta.
  destruct (rrr_build_C _ _ _ _ _ _ _ _ _) as [[[C ones] obl]|]; [|discriminate].
  destruct (rrr_build_O _ _ _ _ _ _ _) as [Ow|]; [|discriminate].
  intros H. pose proof (create_sampling_fields _ _ _ _ _ H) as (H1 & H2 & H3 & H4 & H5 & H6 & H7 & H8 & H9).
  cbn [r_length r_ones r_C r_O r_C_len r_O_len r_C_field_bits r_O_bits_len] in *.
  rewrite H1, H2, H3, H4, H5, H6, H7, H8. unfold rrr_create_sampling.
  rewrite <- H. apply create_sampling_base.
Qed.

Theorem rrr_load_save E bv sr d rest : toff_ok E = true ->
  1 <= lenN bv -> lenN bv < 4294967296 -> 1 <= sr < 4294967296 ->
  rrr_of_bits E bv sr = Some d ->
  exists img, rrr_save d = Some img /\ rrr_load E (img ++ rest) = Some (d, rest).
Proof.
  intros HE Hn1 Hn Hsr Hd.
  destruct (rrr_build_wf E bv sr HE Hn1 Hn Hsr) as (d' & Hd' & Hwf). rewrite Hd in Hd'. injection Hd' as <-.
  pose proof (build_inv E bv sr d Hd) as Hinv.
  pose proof (nb_bounds bv Hn1 Hn) as Hnb.
  destruct (C_arr E bv sr d Hwf Hn1 Hn (proj1 Hsr) (proj2 Hsr)) as ((HCw & _) & HCl & _).
  destruct (wf_O _ _ _ _ Hwf) as ((HOw & _) & HOl & _).
  pose proof (opos_le E HE bv (nblocks (lenN bv))) as Hop.
  pose proof (countb_le_len true bv) as Hones. fold (bv_ones bv) in Hones.
  assert (Hcw : uint_len32 (r_C_len d) (r_C_field_bits d) = lenN (r_C d)).
  { rewrite (wf_C_len _ _ _ _ Hwf), (wf_cfb _ _ _ _ Hwf), HCl. rewrite uint_len32_comm by lia.
    rewrite uint_len32_spec by (unfold c32_W; lia). reflexivity. }
  assert (HOlen : r_O_len d < 4294967296).
  { pose proof (wf_O_len _ _ _ _ Hwf) as H1. pose proof (wf_O_len1 _ _ _ _ Hwf) as H2.
    unfold rrr_of_bits, rrr_build, rrr_build_gen in Hd. cbv zeta in Hd.
    destruct (rrr_build_C _ _ _ _ _ _ _ _ _) as [[[C ones] obl]|]; [|discriminate].
    destruct (rrr_build_O _ _ _ _ _ _ _) as [Ow|]; [|discriminate].
    apply create_sampling_fields in Hd. destruct Hd as (_ & _ & _ & _ & _ & H6 & _). cbn [r_O_len] in H6. rewrite H6.
    assert (uint_len32 1 obl < 4294967296) by (unfold uint_len32, c32_u32, c32_W; apply N.mod_lt; lia). lia. }
  assert (HtC : take_exact (uint_len32 (r_C_len d) (r_C_field_bits d)) (r_C d) = Some (r_C d)).
  { unfold take_exact. rewrite Hcw, N.leb_refl. unfold lenN. rewrite Nat2N.id, firstn_all. reflexivity. }
  assert (HtO : take_exact (r_O_len d) (r_O d) = Some (r_O d)).
  { unfold take_exact. rewrite <- HOl, N.leb_refl. unfold lenN. rewrite Nat2N.id, firstn_all. reflexivity. }
  unfold rrr_save. rewrite HtC, HtO.
  eexists. split; [reflexivity|].
  rewrite <- !app_assoc. unfold rrr_load.
  change 4 with (lenN (le_bytes 4 RRR02_HDR)) at 1. rewrite take_bytes_app.
  change (le_value (le_bytes 4 RRR02_HDR) =? RRR02_HDR) with true. cbn [negb].
  replace 8 with (lenN (le_bytes 8 (r_length d))) at 1 by apply lenN_le_bytes. rewrite take_bytes_app.
  replace 8 with (lenN (le_bytes 8 (r_ones d))) at 1 by apply lenN_le_bytes. rewrite take_bytes_app.
  replace 4 with (lenN (le_bytes 4 (r_C_len d))) at 1 by apply lenN_le_bytes. rewrite take_bytes_app.
  replace 4 with (lenN (le_bytes 4 (r_C_field_bits d))) at 1 by apply lenN_le_bytes. rewrite take_bytes_app.
  replace 4 with (lenN (le_bytes 4 (r_O_len d))) at 1 by apply lenN_le_bytes. rewrite take_bytes_app.
  replace 4 with (lenN (le_bytes 4 (r_O_bits_len d))) at 1 by apply lenN_le_bytes. rewrite take_bytes_app.
  replace 4 with (lenN (le_bytes 4 (r_sample_rate d))) at 1 by apply lenN_le_bytes. rewrite take_bytes_app.
  cbv zeta.
  rewrite (le_value_le_bytes 8 (r_length d)) by (rewrite (wf_length _ _ _ _ Hwf); change (256 ^ N.of_nat 8) with 18446744073709551616; lia).
  rewrite (le_value_le_bytes 8 (r_ones d)) by (rewrite (wf_ones _ _ _ _ Hwf); change (256 ^ N.of_nat 8) with 18446744073709551616; lia).
  rewrite (le_value_le_bytes 4 (r_C_len d)) by (rewrite (wf_C_len _ _ _ _ Hwf); change (256 ^ N.of_nat 4) with 4294967296; lia).
  rewrite (le_value_le_bytes 4 (r_C_field_bits d)) by (rewrite (wf_cfb _ _ _ _ Hwf); reflexivity).
  rewrite (le_value_le_bytes 4 (r_O_len d)) by (change (256 ^ N.of_nat 4) with 4294967296; exact HOlen).
  rewrite (le_value_le_bytes 4 (r_O_bits_len d)) by (rewrite (wf_obl _ _ _ _ Hwf); change (256 ^ N.of_nat 4) with 4294967296; lia).
  rewrite (le_value_le_bytes 4 (r_sample_rate d)) by (rewrite (wf_sr _ _ _ _ Hwf); change (256 ^ N.of_nat 4) with 4294967296; lia).
  rewrite Hcw.
  replace (4 * lenN (r_C d)) with (lenN (flat_map (le_bytes 4) (r_C d))) by apply flat_map_le4_length.
  rewrite take_bytes_app.
  replace (4 * r_O_len d) with (lenN (flat_map (le_bytes 4) (r_O d))) by (rewrite flat_map_le4_length, HOl; reflexivity).
  rewrite take_bytes_app.
  replace (N.to_nat (lenN (r_C d))) with (length (r_C d)) by (unfold lenN; lia).
  replace (N.to_nat (r_O_len d)) with (length (r_O d)) by (rewrite <- HOl; unfold lenN; lia).
  rewrite !words32_roundtrip by assumption.
  rewrite (wf_sr _ _ _ _ Hwf) in *. rewrite Hinv. reflexivity.
Qed.

(* ========================================================================= *)
(* the pointer wavelet tree over RRR bitmaps (FM-index with sparse_bitsequence, XBW) *)
(* ========================================================================= *)
Section WTOverRRR.
  Variable sr : N.
  Hypothesis Hsr1 : 1 <= sr.
  Hypothesis Hsr15 : sr * 15 < 4294967296.

  Let Hsr : 1 <= sr < 4294967296. Proof. lia. Qed.

  Lemma rrrt_built bits : lenN bits < W32 - 64 ->
    rrr_of_bits rrr_E bits sr = Some (rrrt_build sr bits).
  Proof.
    intros H. unfold rrrt_build, rrrt_build_e. destruct (N.eq_dec (lenN bits) 0) as [Hz|Hz].
    - assert (bits = []) by (destruct bits; [reflexivity|unfold lenN in Hz; cbn in Hz; lia]). subst bits.
      rewrite (rrr_build_empty rrr_E sr Hsr). reflexivity.
    - assert (Hok : rrr_len_ok bits) by (unfold rrr_len_ok, W32 in *; lia).
      destruct (rrr_build_ok bits sr Hok Hsr) as (d & Hd & _). rewrite Hd. reflexivity.
  Qed.

  Lemma len_pos_ok bits i : lenN bits < W32 - 64 -> i < lenN bits -> rrr_len_ok bits.
  Proof. unfold rrr_len_ok, W32. lia. Qed.

  Lemma rrrt_access_law bits i : lenN bits < W32 - 64 -> i < lenN bits ->
    rrrt_access (rrrt_build sr bits) i = bv_access bits i.
  Proof.
    intros H Hi. unfold rrrt_access, rrrt_access_e.
    rewrite (rrr_access_spec bits sr _ (len_pos_ok bits i H Hi) Hsr (rrrt_built bits H) i Hi). reflexivity.
  Qed.

  Lemma rrrt_rank_law bits i : lenN bits < W32 - 64 -> i < lenN bits ->
    rrrt_rank1 (rrrt_build sr bits) i = bv_rank1 bits i.
  Proof.
    intros H Hi. unfold rrrt_rank1, rrrt_rank1_e.
    rewrite (rrr_rank1_spec bits sr _ (len_pos_ok bits i H Hi) Hsr (rrrt_built bits H) i Hi). reflexivity.
  Qed.

  Lemma rrrt_rank_m1_law bits : lenN bits < W32 - 64 -> rrrt_rank1 (rrrt_build sr bits) (W64 - 1) = 0.
  Proof. intros _. reflexivity. Qed.

  Lemma sel_len_ok b bits j p : lenN bits < W32 - 64 -> selb b bits j = Some p -> rrr_len_ok bits.
  Proof.
    intros H Hs. destruct (selb_spec _ _ _ _ Hs) as (Hp & _). unfold rrr_len_ok, W32 in *. lia.
  Qed.

  Lemma rrrt_select1_law bits j p : lenN bits < W32 - 64 -> bv_select1 bits j = Some p ->
    rrrt_select1 (rrrt_build sr bits) j = p.
  Proof.
    intros H Hs. destruct (selb_spec _ _ _ _ Hs) as (_ & _ & _ & Hj).
    unfold rrrt_select1, rrrt_select1_e.
    rewrite (rrr_select1_spec bits sr _ (sel_len_ok true bits j p H Hs) Hsr (rrrt_built bits H) j Hj), Hs. reflexivity.
  Qed.

  Lemma rrrt_select0_law bits j p : lenN bits < W32 - 64 -> bv_select0 bits j = Some p ->
    rrrt_select0 (rrrt_build sr bits) j = p.
  Proof.
    intros H Hs. destruct (selb_spec _ _ _ _ Hs) as (_ & _ & _ & Hj).
    unfold rrrt_select0, rrrt_select0_e.
    rewrite (rrr_select0_spec bits sr _ (sel_len_ok false bits j p H Hs) Hsr (rrrt_built bits H) j Hsr15 Hj), Hs. reflexivity.
  Qed.

  Variable is_set : N -> nat -> bool.
  Variable depth : nat.
  Variable s : list N.
  Hypothesis Hlen : lenN s < W32 - 64.
  Hypothesis Hsep : separable is_set depth 0 s.

  Definition wt_rrr := wt_new rrr (rrrt_build sr) is_set depth s.

  Theorem wt_rrr_access i : i < lenN s -> wt_access rrr rrrt_access rrrt_rank1 wt_rrr i = seq_access s i.
  Proof.
    apply (wt_access_correct rrr (rrrt_build sr) rrrt_access rrrt_rank1 rrrt_select1 rrrt_select0 is_set (W32 - 64) rg_maxlen_ok
             rrrt_access_law rrrt_rank_law rrrt_rank_m1_law rrrt_select1_law rrrt_select0_law depth s i Hlen Hsep).
  Qed.

  Theorem wt_rrr_rank c i : i < lenN s -> wt_rank rrr rrrt_rank1 is_set wt_rrr c i = seq_rank c s i.
  Proof.
    apply (wt_rank_correct rrr (rrrt_build sr) rrrt_access rrrt_rank1 rrrt_select1 rrrt_select0 is_set (W32 - 64) rg_maxlen_ok
             rrrt_access_law rrrt_rank_law rrrt_rank_m1_law rrrt_select1_law rrrt_select0_law depth s c i Hlen Hsep).
  Qed.

  Theorem wt_rrr_select c j p : seq_select c s j = Some p ->
    wt_select rrr rrrt_select1 rrrt_select0 is_set wt_rrr c j = p.
  Proof.
    apply (wt_select_correct rrr (rrrt_build sr) rrrt_access rrrt_rank1 rrrt_select1 rrrt_select0 is_set (W32 - 64) rg_maxlen_ok
             rrrt_access_law rrrt_rank_law rrrt_rank_m1_law rrrt_select1_law rrrt_select0_law depth s c j p Hlen Hsep).
  Qed.
End WTOverRRR.
