(* Double-hashing probe arithmetic in machine integers.
   The hashing models compute probe positions over unbounded N; the C++ evaluates
       next = (hval + i * h2) % tsize      (Hashdh::search, HASHRPDAC / HASHRPF locate)
       hval = (hval + h2) % tsize          (Hash::insert and the compact tables)
   in the integer types clang assigns to the two arithmetic nodes.  [probe_eval wm wa] is that evaluation with
   a [wm]-bit product and a [wa]-bit sum.  No proofs about the C++ here: the widths come from the regenerated
   file gen/Probe_gen.v (tools/translate_probe.py) and are checked in Properties_probe.v. *)
From Coq Require Import List NArith Lia String.
Import ListNotations.
Local Open Scope N_scope.

Definition probe_eval (wm wa : N) (hval i h2 tsize : N) : N :=
  ((hval + (i * h2) mod 2 ^ wm) mod 2 ^ wa) mod tsize.

Definition step_eval (wa : N) (hval h2 tsize : N) : N := ((hval + h2) mod 2 ^ wa) mod tsize.

Lemma pow2_mono a b : a <= b -> 2 ^ a <= 2 ^ b.
Proof. intros H. apply N.pow_le_mono_r; lia. Qed.

(* with 64-bit nodes and a table below 2^32 cells nothing wraps *)
Theorem probe_exact wm wa hval i h2 tsize :
  64 <= wm -> 64 <= wa -> 0 < tsize -> tsize < 2 ^ 32 -> hval < tsize -> h2 < tsize -> i < tsize ->
  probe_eval wm wa hval i h2 tsize = (hval + i * h2) mod tsize.
Proof.
  intros Hm Ha Ht Hs Hh H2 Hi. unfold probe_eval.
  assert (P : i * h2 < 2 ^ 32 * 2 ^ 32) by (apply N.mul_lt_mono; lia).
  replace (2 ^ 32 * 2 ^ 32) with (2 ^ 64) in P by reflexivity.
  pose proof (pow2_mono 64 wm Hm) as Em. pose proof (pow2_mono 64 wa Ha) as Ea.
  assert (E64 : 2 ^ 64 = 18446744073709551616) by reflexivity.
  assert (E32 : 2 ^ 32 = 4294967296) by reflexivity.
  rewrite (N.mod_small (i * h2)) by lia.
  rewrite (N.mod_small (hval + i * h2)); [reflexivity|].
  assert (i * h2 <= (2 ^ 32 - 1) * (2 ^ 32 - 1)) by (apply N.mul_le_mono; lia).
  rewrite E32 in *. lia.
Qed.

Theorem step_exact wa hval h2 tsize :
  33 <= wa -> 0 < tsize -> tsize < 2 ^ 32 -> hval < tsize -> h2 < tsize ->
  step_eval wa hval h2 tsize = (hval + h2) mod tsize.
Proof.
  intros Ha Ht Hs Hh H2. unfold step_eval.
  pose proof (pow2_mono 33 wa Ha) as Ea. assert (E33 : 2 ^ 33 = 8589934592) by reflexivity.
  assert (E32 : 2 ^ 32 = 4294967296) by reflexivity.
  rewrite (N.mod_small (hval + h2) (2 ^ wa)); [reflexivity|]. lia.
Qed.

(* iterating the incremental form gives the closed form: both loops visit the same cells *)
Fixpoint step_iter (k : nat) (hval h2 tsize : N) : N :=
  match k with O => hval | S k' => (step_iter k' hval h2 tsize + h2) mod tsize end.

Theorem step_iter_closed k hval h2 tsize : 0 < tsize -> hval < tsize ->
  step_iter k hval h2 tsize = (hval + N.of_nat k * h2) mod tsize.
Proof.
  intros Ht Hh. induction k as [|k IH].
  - cbn [step_iter]. rewrite N.mul_0_l, N.add_0_r, N.mod_small by lia. reflexivity.
  - cbn [step_iter]. rewrite IH. rewrite N.add_mod_idemp_l by lia. f_equal. lia.
Qed.

(* a 32-bit product is NOT enough: a table of 200 003 cells, probe 30 000 with step 150 000 *)
Theorem probe_mul32_refuted :
  exists hval i h2 tsize, 0 < tsize /\ tsize < 2 ^ 32 /\ hval < tsize /\ h2 < tsize /\ i < tsize /\
    probe_eval 32 64 hval i h2 tsize <> (hval + i * h2) mod tsize.
Proof. exists 5, 30000, 150000, 200003. repeat split; try (vm_compute; reflexivity). vm_compute. discriminate. Qed.

(* widths as read from the source *)
Definition site_ok (s : string * list (string * N)) : bool := forallb (fun o => 64 <=? snd o) (snd s).
Definition sites_ok (l : list (string * list (string * N))) : bool := forallb site_ok l.
Definition has_site (l : list (string * list (string * N))) (nm : string) : bool :=
  existsb (fun s => String.eqb (fst s) nm) l.

Lemma sites_ok_spec l : sites_ok l = true ->
  forall nm ops op w, In (nm, ops) l -> In (op, w) ops -> 64 <= w.
Proof.
  unfold sites_ok, site_ok. intros H nm ops op w Hin Hop. rewrite forallb_forall in H.
  specialize (H _ Hin). cbn [snd] in H. rewrite forallb_forall in H. specialize (H _ Hop). cbn [snd] in H.
  apply N.leb_le in H. exact H.
Qed.
