(* The synchronisation skeleton the labelled transition system of PoolDefs.v models, written by
   hand in the event vocabulary of tools/translate_pool.py.  On every run the skeleton is
   re-extracted from the CURRENT parallel/Worker.hpp / StringDictionaryHASHRPDACBlocks.cpp into
   gen/Pool_gen.v and compared with these references by reflexivity (Properties_poolskel.v).

   Correspondence with the program counters of PoolDefs.v (Worker::run):
     While(!stopped()||!queue.empty())      outer-loop test: two guarded reads, each its own atomic step
                                            (stopped() holds mutex_stop, queue.empty() holds the queue mutex for one access)
     Lock shared_mutex                      acquire step
     Wait queue_cv pred(stopped()||!queue.empty())   predicate evaluation (two reads) and, separately, the atomic release+sleep
     If(stopped()&&queue.empty()) Break     post-wait test, destructor unlock on break
     If(queue.empty()) Continue             continue test, destructor unlock
     Call queue.pop / Unlock / NotifyAll / Call task    pop, unlock, notify, run task
     NotifyAll queue_cv (after the loop)    final notify, then exited
   WorkerPool::add_task / stop_all_workers: in the FIXED variant the change of the predicate's inputs
   happens inside LockScope shared_mutex and the notify follows; in the PINNED variant (the source
   before commit 445bfb5) there is no LockScope: that is the variant with the lost wake-up
   (C10_pool_lost_wakeup_reachable).
   Blocks::constructor: slot reservation (PartsSize, PartsPush) inside LockScope m BEFORE Call
   wpool.add_task; the task builds its block (BuildBlock) outside the lock, then stores into its own slot
   and increments parts_done inside LockScope m, then notifies cv; the constructor waits for
   parts_done==parts.size() and only then stops and joins the pool (ParBuild section of PoolDefs.v). *)
From Coq Require Import List String Bool.
Import ListNotations.
Local Open Scope string_scope.

(* Refinement used for the comparison: the skeleton extracted from the source must contain the reference
   events in order; the ONLY extra events tolerated are additional notifications (NotifyAll / NotifyOne ...),
   because every theorem about the LTS already allows spurious wake-ups at any time, so an extra notify
   cannot invalidate them.  Anything else (a lock, an access, a predicate, a removed notify) is a difference. *)
Definition is_notify (e : string) : bool := String.prefix "Notify" e.

Fixpoint events_refine (gen ref : list string) : bool :=
  match gen, ref with
  | [], [] => true
  | g :: gen', r :: ref' =>
      if String.eqb g r then events_refine gen' ref'
      else if is_notify g then events_refine gen' ref else false
  | g :: gen', [] => is_notify g && events_refine gen' []
  | [], _ :: _ => false
  end.

Fixpoint skeleton_refines (gen ref : list (string * list string)) : bool :=
  match gen, ref with
  | [], [] => true
  | (n1, e1) :: gen', (n2, e2) :: ref' => String.eqb n1 n2 && events_refine e1 e2 && skeleton_refines gen' ref'
  | _, _ => false
  end.

Definition worker_skeleton_fixed : list (string * list string) :=
  [("WorkerQueue::add_task",
      ["Open"; "LockScope mutex"; "QPush"; "Close"]);
   ("WorkerQueue::empty",
      ["Open"; "LockScope mutex"; "Return(q.empty())"; "Close"]);
   ("WorkerQueue::pop",
      ["Open"; "LockScope mutex"; "QFront"; "QPopFront"; "Return(fun)"; "Close"]);
   ("Worker::stopped",
      ["Open"; "LockScope mutex_stop"; "Return(_stopped)"; "Close"]);
   ("Worker::set_stopped",
      ["Open"; "LockScope mutex_stop"; "WriteStopped"; "Close"]);
   ("Worker::stop",
      ["Open"; "Call set_stopped"; "Close"]);
   ("Worker::join",
      ["Open"; "Call th->join"; "Close"]);
   ("Worker::run",
      ["Open"; "While(!stopped()||!queue.empty())"; "Open"; "Lock shared_mutex"; "Wait queue_cv pred(stopped()||!queue.empty())"; "If(stopped()&&queue.empty())"; "Break"; "If(queue.empty())"; "Continue"; "Call queue.pop"; "Unlock"; "NotifyAll queue_cv"; "Call task"; "Close"; "NotifyAll queue_cv"; "Close"]);
   ("WorkerPool::add_task",
      ["Open"; "Open"; "LockScope shared_mutex"; "Call queue.add_task"; "Close"; "NotifyAll queue_cv"; "Close"]);
   ("WorkerPool::wait_workers",
      ["Open"; "For(auto&w:workers)"; "Call w->join"; "Close"]);
   ("WorkerPool::stop_all_workers",
      ["Open"; "Open"; "LockScope shared_mutex"; "For(auto&w:workers)"; "Call w->stop"; "Close"; "NotifyAll queue_cv"; "Close"])].

Definition blocks_skeleton_ref : list (string * list string) :=
  [("Blocks::constructor",
      ["Open"; "While"; "Open"; "If"; "Open"; "Open"; "LockScope m"; "PartsSize"; "PartsPush"; "Close"; "Call wpool.add_task"; "Open"; "BuildBlock"; "Open"; "LockScope m"; "PartsStore"; "PartsDoneInc"; "Close"; "NotifyAll cv"; "Close"; "Close"; "Close"; "Lock m"; "Wait cv pred(DONE==parts.size())"; "Call wpool.stop_all_workers"; "Call wpool.wait_workers"; "Close"])].

Definition sync_objects_ref : list (string * list string) :=
  [("Worker.hpp::sync_objects",
      ["mutex"; "mutex_stop"; "queue_cv"; "shared_mutex"])].

Definition worker_skeleton_pinned : list (string * list string) :=
  [("WorkerQueue::add_task",
      ["Open"; "LockScope mutex"; "QPush"; "Close"]);
   ("WorkerQueue::empty",
      ["Open"; "LockScope mutex"; "Return(q.empty())"; "Close"]);
   ("WorkerQueue::pop",
      ["Open"; "LockScope mutex"; "QFront"; "QPopFront"; "Return(fun)"; "Close"]);
   ("Worker::stopped",
      ["Open"; "LockScope mutex_stop"; "Return(_stopped)"; "Close"]);
   ("Worker::set_stopped",
      ["Open"; "LockScope mutex_stop"; "WriteStopped"; "Close"]);
   ("Worker::stop",
      ["Open"; "Call set_stopped"; "Close"]);
   ("Worker::join",
      ["Open"; "Call th->join"; "Close"]);
   ("Worker::run",
      ["Open"; "While(!stopped()||!queue.empty())"; "Open"; "Lock shared_mutex"; "Wait queue_cv pred(stopped()||!queue.empty())"; "If(stopped()&&queue.empty())"; "Break"; "If(queue.empty())"; "Continue"; "Call queue.pop"; "Unlock"; "NotifyAll queue_cv"; "Call task"; "Close"; "NotifyAll queue_cv"; "Close"]);
   ("WorkerPool::add_task",
      ["Open"; "Call queue.add_task"; "NotifyAll queue_cv"; "Close"]);
   ("WorkerPool::wait_workers",
      ["Open"; "For(auto&w:workers)"; "Call w->join"; "Close"]);
   ("WorkerPool::stop_all_workers",
      ["Open"; "For(auto&w:workers)"; "Call w->stop"; "NotifyAll queue_cv"; "Close"])].

