// Differential harness for libCSD: HTFC / HHTFC / RPHTFC / HASHHF / HASHUFFDAC.
//
//   harness <kind> <first-seed> <count> [-v]     random campaign
//   harness <kind> fib <k>   <param>             fib reproducer: strings chr(97+i) x fib(i), i=0..k
//   harness <kind> ab        <param>             reproducer {"a","b"}
//   harness <kind> rep <param> w0 w1 ...         strings chr(97+i) x wi
//   harness <kind> same <param> <code> <n>       strings chr(code) x k, k=1..n
//
//   env: HARNESS_LIST=1 lists the failing seeds, HARNESS_SIG=1 the failure
//        signatures (first library frames of the sanitizer report)
//
// Every dictionary is built, saved to a stream, loaded back and then every
// string is extracted and located; the answers are compared with the input.
// Each dictionary runs in a forked child: exit 0 = OK, 1 = wrong answer,
// anything else (signal, sanitizer abort, timeout) = crash.
#include <algorithm>
#include <cstdio>
#include <cstdlib>
#include <cstring>
#include <iostream>
#include <map>
#include <random>
#include <set>
#include <sstream>
#include <string>
#include <vector>

#include <sys/wait.h>
#include <unistd.h>

#include <StringDictionary.h>
#include <iterators/IteratorDictStringPlain.h>

enum Kind { K_HTFC, K_HHTFC, K_RPHTFC, K_HASHHF, K_HASHUFFDAC };

static Kind parseKind(const std::string &s) {
  if (s == "HTFC") return K_HTFC;
  if (s == "HHTFC") return K_HHTFC;
  if (s == "RPHTFC") return K_RPHTFC;
  if (s == "HASHHF") return K_HASHHF;
  if (s == "HASHUFFDAC") return K_HASHUFFDAC;
  std::cerr << "unknown kind " << s << std::endl;
  exit(2);
}
static bool isHash(Kind k) { return k == K_HASHHF || k == K_HASHUFFDAC; }

struct Case {
  std::vector<std::string> strs; // sorted, unique, non empty, no '\0'
  uint param;                    // bucket size or hash overhead
  std::string desc;
};

static Case genCase(Kind kind, uint64_t seed) {
  std::mt19937_64 rng(seed * 0x9E3779B97F4A7C15ull + 12345);
  auto rnd = [&](uint lo, uint hi) { return lo + (uint)(rng() % (hi - lo + 1)); };

  static const uint sigmas[5] = {2, 3, 8, 26, 253};
  uint sigma = sigmas[rnd(0, 4)];
  uint distr = rnd(0, 2); // 0 uniform, 1 skewed, 2 one dominant byte
  uint n = rnd(0, 9) < 3 ? rnd(1, 20) : rnd(1, 400);
  uint maxlen = rnd(0, 3) == 0 ? rnd(1, 6) : rnd(1, 40);

  // The alphabet: 2..254 for 253 symbols, random subset of it otherwise
  std::vector<uchar> alpha;
  if (sigma == 253) {
    for (uint c = 2; c <= 254; c++) alpha.push_back((uchar)c);
  } else if (rnd(0, 1)) {
    for (uint c = 0; c < sigma; c++) alpha.push_back((uchar)('a' + c));
  } else {
    std::set<uchar> s;
    while (s.size() < sigma) s.insert((uchar)rnd(2, 254));
    alpha.assign(s.begin(), s.end());
  }
  std::shuffle(alpha.begin(), alpha.end(), rng);

  // Symbol distribution
  std::vector<double> w(sigma, 1.0);
  if (distr == 1) {
    double ratio = 1.2 + (rng() % 1000) / 1000.0; // 1.2 .. 2.2
    double x = 1.0;
    for (uint i = 0; i < sigma; i++) {
      w[i] = x;
      x /= ratio;
      if (x < 1e-12) x = 1e-12;
    }
  } else if (distr == 2) {
    for (uint i = 1; i < sigma; i++) w[i] = 0.08 / (sigma - 1);
    w[0] = 0.92;
  }
  std::discrete_distribution<uint> pick(w.begin(), w.end());

  std::set<std::string> S;
  uint tries = 0;
  while (S.size() < n && tries < 20 * n + 100) {
    tries++;
    uint len = rnd(1, maxlen);
    std::string s;
    for (uint i = 0; i < len; i++) s.push_back((char)alpha[pick(rng)]);
    S.insert(s);
  }

  Case c;
  // std::string compares as unsigned char: the dictionary order
  c.strs.assign(S.begin(), S.end());
  if (isHash(kind)) {
    static const uint ov[3] = {0, 10, 50};
    c.param = ov[rnd(0, 2)];
  } else {
    static const uint bs[5] = {2, 3, 4, 8, 16};
    c.param = bs[rnd(0, 4)];
  }
  char buf[200];
  snprintf(buf, sizeof buf, "seed=%llu sigma=%u distr=%u n=%zu maxlen=%u param=%u",
           (unsigned long long)seed, sigma, distr, c.strs.size(), maxlen, c.param);
  c.desc = buf;
  return c;
}

static StringDictionary *build(Kind kind, const Case &c) {
  size_t len = 0;
  for (auto &s : c.strs) len += s.size() + 1;
  uchar *text = new uchar[len + 1];
  size_t p = 0;
  for (auto &s : c.strs) {
    memcpy(text + p, s.data(), s.size());
    p += s.size();
    text[p++] = 0;
  }
  text[len] = 0;
  IteratorDictString *it = new IteratorDictStringPlain(text, len);
  switch (kind) {
  case K_HTFC: return new StringDictionaryHTFC(it, c.param);
  case K_HHTFC: return new StringDictionaryHHTFC(it, c.param);
  case K_RPHTFC: return new StringDictionaryRPHTFC(it, c.param);
  case K_HASHHF: return new StringDictionaryHASHHF(it, len, c.param);
  case K_HASHUFFDAC: return new StringDictionaryHASHUFFDAC(it, len, c.param);
  }
  return NULL;
}

// Runs in the child. Returns 0 (OK) or 1 (wrong answer).
static int check(Kind kind, const Case &c, bool verbose) {
  StringDictionary *built = build(kind, c);
  std::stringstream ss(std::ios::in | std::ios::out | std::ios::binary);
  built->save(ss);
  delete built;
  ss.seekg(0);
  StringDictionary *d = StringDictionary::load(ss, 1 /* HASHUFF */);
  if (d == NULL) {
    if (verbose) fprintf(stderr, "load failed\n");
    return 1;
  }
  size_t n = c.strs.size();
  int bad = 0;
  if (d->numElements() != n) {
    if (verbose) fprintf(stderr, "numElements %zu != %zu\n", d->numElements(), n);
    bad = 1;
  }
  if (!isHash(kind)) {
    for (size_t i = 1; i <= n && !bad; i++) {
      const std::string &s = c.strs[i - 1];
      uint l = 0;
      uchar *e = d->extract(i, &l);
      if (e == NULL || l != s.size() || memcmp(e, s.data(), l) != 0) {
        if (verbose) fprintf(stderr, "extract(%zu) wrong (len %u, expected %zu)\n", i, l, s.size());
        bad = 1;
      }
      delete[] e;
      std::vector<uchar> q(s.begin(), s.end());
      q.push_back(0);
      size_t id = d->locate(q.data(), s.size());
      if (id != i) {
        if (verbose) fprintf(stderr, "locate(#%zu) = %zu\n", i, id);
        bad = 1;
      }
    }
  } else {
    // IDs are a permutation of 1..n chosen by the hash table
    std::vector<char> seen(n + 1, 0);
    for (size_t i = 1; i <= n && !bad; i++) {
      const std::string &s = c.strs[i - 1];
      std::vector<uchar> q(s.begin(), s.end());
      q.push_back(0);
      size_t id = d->locate(q.data(), s.size());
      if (id < 1 || id > n || seen[id]) {
        if (verbose) fprintf(stderr, "locate(#%zu) = %zu\n", i, id);
        bad = 1;
        break;
      }
      seen[id] = 1;
      uint l = 0;
      uchar *e = d->extract(id, &l);
      if (e == NULL || l != s.size() || memcmp(e, s.data(), l) != 0) {
        if (verbose) fprintf(stderr, "extract(%zu) wrong for #%zu (len %u, expected %zu)\n", id, i, l, s.size());
        bad = 1;
      }
      delete[] e;
    }
  }
  return bad;
}

// Signature of a failure taken from the child's stderr: the first frames of
// the sanitizer report lying in the library (or the harness message).
static std::string signature(const std::string &err) {
  std::istringstream in(err);
  std::string line, sig;
  int frames = 0;
  while (std::getline(in, line)) {
    if (sig.empty() && line.find("ERROR: AddressSanitizer") != std::string::npos) {
      size_t p = line.find("AddressSanitizer: ");
      std::string kind = line.substr(p + 18);
      sig = kind.substr(0, kind.find(' '));
      continue;
    }
    size_t in_ = line.find(" in ");
    if (line.compare(0, 5, "    #") == 0 && in_ != std::string::npos) {
      if (line.find("libsanitizer") != std::string::npos ||
          line.find("harness.cpp") != std::string::npos ||
          line.find("/src/") == std::string::npos)
        continue;
      std::string f = line.substr(in_ + 4);
      size_t paren = f.find('(');
      size_t slash = f.rfind('/');
      std::string func = f.substr(0, paren);
      std::string loc = slash == std::string::npos ? "" : f.substr(slash + 1);
      sig += " < " + func + "@" + loc;
      if (++frames == 3) break;
    }
  }
  if (sig.empty()) {
    std::istringstream in2(err);
    std::getline(in2, sig);
    // drop the numbers of a harness message
    for (auto &ch : sig) if (ch >= '0' && ch <= '9') ch = '#';
  }
  return sig;
}

// 0 OK, 1 wrong, 2 crash
static int runForked(Kind kind, const Case &c, bool verbose, std::string *sig = NULL) {
  fflush(NULL);
  int fds[2];
  if (pipe(fds) != 0) exit(3);
  pid_t pid = fork();
  if (pid == 0) {
    close(fds[0]);
    if (!verbose) {
      dup2(fds[1], 2);
      if (!freopen("/dev/null", "w", stdout)) _exit(3);
    }
    close(fds[1]);
    alarm(60);
    int r = check(kind, c, true);
    fflush(NULL);
    _exit(r);
  }
  close(fds[1]);
  std::string err;
  char buf[4096];
  ssize_t n;
  while ((n = read(fds[0], buf, sizeof buf)) > 0)
    if (err.size() < (1 << 20)) err.append(buf, n);
  close(fds[0]);
  int st = 0;
  waitpid(pid, &st, 0);
  int r = 2;
  if (WIFEXITED(st) && WEXITSTATUS(st) == 0) r = 0;
  else if (WIFEXITED(st) && WEXITSTATUS(st) == 1) r = 1;
  if (sig && r != 0) {
    *sig = signature(err);
    if (sig->empty() && WIFSIGNALED(st)) *sig = "signal " + std::to_string(WTERMSIG(st));
  }
  return r;
}

int main(int argc, char **argv) {
  if (argc < 4) {
    std::cerr << "usage: harness <kind> <first-seed> <count> [-v] | <kind> fib <k> <param> | <kind> ab <param>" << std::endl;
    return 2;
  }
  Kind kind = parseKind(argv[1]);
  std::string mode = argv[2];

  if (mode == "fib" || mode == "ab" || mode == "rep" || mode == "same") {
    Case c;
    if (mode == "same") {
      c.param = atoi(argv[3]);
      for (int k = 1; k <= atoi(argv[5]); k++)
        c.strs.push_back(std::string(k, (char)atoi(argv[4])));
    } else
    if (mode == "rep") {
      // HARNESS_REP_BASE: code of the first letter ('a' by default)
      int base = getenv("HARNESS_REP_BASE") ? atoi(getenv("HARNESS_REP_BASE")) : 97;
      c.param = atoi(argv[3]);
      for (int i = 4; i < argc; i++)
        c.strs.push_back(std::string(atol(argv[i]), (char)(base + i - 4)));
    } else if (mode == "fib") {
      uint k = atoi(argv[3]);
      c.param = argc > 4 ? atoi(argv[4]) : 4;
      unsigned long a = 1, b = 1;
      for (uint i = 0; i <= k; i++) {
        c.strs.push_back(std::string(a, (char)(97 + i)));
        unsigned long t = a + b;
        a = b;
        b = t;
      }
    } else {
      c.param = atoi(argv[3]);
      c.strs = {"a", "b"};
    }
    int r = runForked(kind, c, true);
    printf("%s %s: %s\n", argv[1], mode.c_str(), r == 0 ? "OK" : r == 1 ? "WRONG" : "CRASH");
    return r;
  }

  uint64_t first = strtoull(argv[2], NULL, 10);
  uint64_t count = strtoull(argv[3], NULL, 10);
  bool verbose = argc > 4 && std::string(argv[4]) == "-v";
  uint64_t ok = 0, wrong = 0, crash = 0;
  std::map<std::string, uint64_t> sigs;
  for (uint64_t s = first; s < first + count; s++) {
    Case c = genCase(kind, s);
    std::string sig;
    int r = runForked(kind, c, verbose, &sig);
    if (r == 0) ok++;
    else if (r == 1) wrong++;
    else crash++;
    if (r != 0) sigs[std::string(r == 1 ? "WRONG " : "CRASH ") + sig]++;
    if (r != 0 && (verbose || getenv("HARNESS_LIST")))
      printf("  %s %s: %s\n", argv[1], r == 1 ? "WRONG" : "CRASH", c.desc.c_str());
  }
  printf("%-10s dictionaries=%llu ok=%llu wrong=%llu crash=%llu\n", argv[1],
         (unsigned long long)count, (unsigned long long)ok,
         (unsigned long long)wrong, (unsigned long long)crash);
  // one line per failure signature ("SIG <kind> <count> <signature>")
  if (getenv("HARNESS_SIG"))
    for (auto &kv : sigs)
      printf("SIG %s %llu %s\n", argv[1], (unsigned long long)kv.second, kv.first.c_str());
  return 0;
}
