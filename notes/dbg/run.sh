#!/bin/bash
# Usage: run.sh <clean|fix1|fix2|both> [dictionaries-per-kind=2000] [first-seed=1]
#   env: PLAIN=1 (no sanitizer), KINDS="HTFC HHTFC ...", JOBS=n, REBUILD=1
#
# Exports HEAD of the worktree to a scratch directory under /var/tmp, applies
# the requested patch(es) from _out/, compiles the sources listed in the two
# CMakeLists with g++ -std=c++17 -O1 -g -fsanitize=address, links harness.cpp
# and runs the random campaign plus the two fixed reproducers.
set -e
VARIANT=${1:-clean}
COUNT=${2:-2000}
FIRST=${3:-1}
WT=/var/tmp/mut/DBG
OUT=$WT/_out
SCR=${SCRATCH:-/var/tmp/mut/DBG_scratch}/$VARIANT${PLAIN:+-plain}
JOBS=${JOBS:-$(nproc)}
CXX=${CXX:-g++}
CXXFLAGS="-std=c++17 -O1 -g -fsanitize=address -fno-omit-frame-pointer -w"
[ -n "$PLAIN" ] && CXXFLAGS="-std=c++17 -O1 -g -w"

if [ ! -f $SCR/libCSD.a ] || [ -n "$REBUILD" ]; then
  rm -rf $SCR && mkdir -p $SCR/src $SCR/obj
  git -C $WT archive HEAD | tar -x -C $SCR/src
  cd $SCR/src
  case $VARIANT in
    clean) ;;
    fix1) git apply $OUT/fix1.diff ;;
    fix2) git apply $OUT/fix2.diff ;;
    both) git apply $OUT/fix1.diff; git apply $OUT/fix2.diff ;;
    *) echo "unknown variant $VARIANT"; exit 2 ;;
  esac
  {
    tr -d '\r' < CMakeLists.txt | grep -E '^[A-Za-z0-9_/]+\.cpp$'
    tr -d '\r' < libcds/CMakeLists.txt | grep -E '^src/[A-Za-z0-9_/]+\.cpp$' | sort -u | sed 's|^|libcds/|'
  } > $SCR/sources.txt
  INC="-I$SCR/src -I$SCR/src/libcds/includes"
  cat $SCR/sources.txt | xargs -P $JOBS -I{} sh -c \
    "o=$SCR/obj/\$(echo {} | tr '/' '_').o; $CXX $CXXFLAGS $INC -c $SCR/src/{} -o \$o"
  # static archives, as in the CMake build (unused libcds members are not linked)
  ar rcs $SCR/libCSD.a $(ls $SCR/obj/*.o | grep -v '/libcds_')
  ar rcs $SCR/libcds.a $SCR/obj/libcds_*.o
fi
INC="-I$SCR/src -I$SCR/src/libcds/includes"
$CXX $CXXFLAGS $INC $OUT/harness.cpp $SCR/libCSD.a $SCR/libcds.a -o $SCR/harness -lpthread

export HARNESS_SIG=1
export ASAN_OPTIONS=detect_leaks=0:exitcode=99:abort_on_error=0:strict_memcmp=0:allocator_may_return_null=1
echo "== variant $VARIANT${PLAIN:+ (no sanitizer)}, $COUNT dictionaries per kind, seeds $FIRST.. =="
for kind in ${KINDS:-HTFC HHTFC HASHHF HASHUFFDAC RPHTFC}; do
  # split the seed range over the available cores
  per=$(( (COUNT + JOBS - 1) / JOBS ))
  seq 0 $((JOBS - 1)) | xargs -P $JOBS -I{} sh -c \
    "f=\$(( $FIRST + {} * $per )); c=$per; r=\$(( $FIRST + $COUNT - f )); [ \$r -lt \$c ] && c=\$r; [ \$c -gt 0 ] && $SCR/harness $kind \$f \$c || true" \
    > $SCR/out.$kind.txt
  grep -v '^SIG' $SCR/out.$kind.txt | awk -v k=$kind '{ for (i = 2; i <= NF; i++) { split($i, a, "="); s[a[1]] += a[2] } }
        END { printf "%-10s dictionaries=%d ok=%d wrong=%d crash=%d\n", k, s["dictionaries"], s["ok"], s["wrong"], s["crash"] }'
  grep '^SIG' $SCR/out.$kind.txt | awk '{ n = $3; $1 = $2 = $3 = ""; s[$0] += n } END { for (k in s) printf "    %5d x%s\n", s[k], k }' | sort -k1,1nr
done
echo "== fixed reproducers =="
rep() { "$@" 2>/dev/null | tail -1 | sed "s|^|  [$*] |; s|$SCR/harness ||" || true; }
# (1) a one-bit codeword repeated 16 times in a chunk
rep $SCR/harness HHTFC fib 16 4
rep $SCR/harness HHTFC fib 17 4
for k in HTFC HHTFC HASHHF HASHUFFDAC; do rep $SCR/harness $k same 2 97 40; done
rep $SCR/harness HTFC same 2 255 40
# (1) codewords of 17..20 bits on used symbols, no one-bit codeword
LONG="1 2 1 3 300 500 850 1400 2300 3900 6500 11000 18000 30000 50000 52000 53000"
for k in HTFC HHTFC HASHHF HASHUFFDAC; do rep $SCR/harness $k rep 4 $LONG; done
# (2)
rep $SCR/harness RPHTFC ab 2
rep $SCR/harness RPHTFC fib 8 3
