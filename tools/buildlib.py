#!/usr/bin/env python3
"""Build the libCSD sources of /repo's *current working tree* directly (not through
the repo's CMake project, which overrides CMAKE_CXX_FLAGS_* and silently drops
sanitizer flags).  The source list is read from the two CMakeLists.txt files.

usage: buildlib.py <outdir> [asan|tsan|plain]
Produces <outdir>/libcsdv.a .  A content-addressed cache (optional, under
/var/tmp/libcsd-verif-cache) avoids recompiling when several checks run on the
same tree; the key covers every source/header byte and the flags, so an edited
tree is always rebuilt.
"""
import hashlib, os, re, shutil, subprocess, sys, time, fcntl
from concurrent.futures import ThreadPoolExecutor

REPO = os.environ.get("VERIF_REPO", "/repo")
CACHE = os.environ.get("VERIF_CACHE", "/var/tmp/libcsd-verif-cache")
GUARD = "LIBCSD_VERIF"

FLAGS = {
    "asan": ["-O1", "-g", "-fsanitize=address", "-fsanitize-recover=address", "-fno-omit-frame-pointer"],
    "tsan": ["-O1", "-g", "-fsanitize=thread"],
    "plain": ["-O1", "-g"],
}
COMMON = ["-std=c++17", "-D" + GUARD, "-w", "-fPIC"]


def cmake_sources(path, base):
    txt = open(path).read()
    txt = re.sub(r"#.*", "", txt)
    srcs = []
    for m in re.finditer(r"set\(\s*(\w+_srcs)\s+([^)]*)\)", txt):
        for tok in m.group(2).split():
            if tok.endswith(".cpp") or tok.endswith(".c"):
                p = os.path.join(base, tok)
                if p not in srcs:
                    srcs.append(p)
    return srcs


def all_sources():
    s = cmake_sources(os.path.join(REPO, "CMakeLists.txt"), REPO)
    s += cmake_sources(os.path.join(REPO, "libcds/CMakeLists.txt"), os.path.join(REPO, "libcds"))
    return [p for p in s if os.path.exists(p)]


def tree_hash(mode):
    h = hashlib.sha256()
    h.update((mode + " ".join(FLAGS[mode] + COMMON)).encode())
    for root, dirs, files in os.walk(REPO):
        dirs[:] = sorted(d for d in dirs if d not in (".git", "_build", "build"))
        for f in sorted(files):
            if f.endswith((".cpp", ".h", ".hpp", ".c", ".txt")):
                p = os.path.join(root, f)
                h.update(p.encode())
                with open(p, "rb") as fh:
                    h.update(fh.read())
    return h.hexdigest()[:24]


def compile_one(args):
    src, obj, flags = args
    cmd = ["g++"] + COMMON + flags + ["-I", REPO, "-I", os.path.join(REPO, "libcds/includes"), "-c", src, "-o", obj]
    r = subprocess.run(cmd, capture_output=True, text=True)
    return src, r.returncode, r.stderr


def build(outdir, mode):
    os.makedirs(outdir, exist_ok=True)
    key = tree_hash(mode)
    cached = os.path.join(CACHE, key + "-" + mode, "libcsdv.a")
    lib = os.path.join(outdir, "libcsdv.a")
    use_cache = os.environ.get("VERIF_NO_CACHE") != "1"
    lockf = None
    if use_cache:
        os.makedirs(CACHE, exist_ok=True)
        lockf = open(os.path.join(CACHE, "lock-" + mode), "w")
        fcntl.flock(lockf, fcntl.LOCK_EX)
        if os.path.exists(cached):
            shutil.copy(cached, lib)
            fcntl.flock(lockf, fcntl.LOCK_UN)
            return lib, key, True
    try:
        objdir = os.path.join(outdir, "obj")
        os.makedirs(objdir, exist_ok=True)
        srcs = all_sources()
        jobs = []
        for i, s in enumerate(srcs):
            jobs.append((s, os.path.join(objdir, "%03d_%s.o" % (i, os.path.basename(s))), FLAGS[mode]))
        with ThreadPoolExecutor(max_workers=16) as ex:
            res = list(ex.map(compile_one, jobs))
        bad = [(s, e) for s, rc, e in res if rc != 0]
        if bad:
            for s, e in bad[:5]:
                sys.stderr.write("COMPILE FAILED %s\n%s\n" % (s, e[-3000:]))
            raise SystemExit(3)
        if os.path.exists(lib):
            os.unlink(lib)
        subprocess.run(["ar", "rcs", lib] + [j[1] for j in jobs], check=True)
        shutil.rmtree(objdir)
        if mode in ("asan", "tsan"):
            sym = "__asan_report" if mode == "asan" else "__tsan_"
            out = subprocess.run("nm %s 2>/dev/null | grep -c %s" % (lib, sym), shell=True, capture_output=True, text=True).stdout.strip()
            if out in ("", "0"):
                sys.stderr.write("sanitizer symbols missing in %s\n" % lib)
                raise SystemExit(3)
        if use_cache:
            # keep only the current tree's builds
            for d in os.listdir(CACHE):
                p = os.path.join(CACHE, d)
                if os.path.isdir(p) and d.endswith("-" + mode) and d != key + "-" + mode:
                    shutil.rmtree(p, ignore_errors=True)
            os.makedirs(os.path.dirname(cached), exist_ok=True)
            tmp = cached + ".tmp%d" % os.getpid()
            shutil.copy(lib, tmp)
            os.rename(tmp, cached)
        return lib, key, False
    finally:
        if lockf:
            fcntl.flock(lockf, fcntl.LOCK_UN)


if __name__ == "__main__":
    t = time.time()
    mode = sys.argv[2] if len(sys.argv) > 2 else "asan"
    lib, key, hit = build(sys.argv[1], mode)
    print("built %s key=%s cache_hit=%s %.1fs" % (lib, key, hit, time.time() - t))
