#!/usr/bin/env python3
"""Development aid: run all kinds x all operations on generated sets and summarise
disagreements by (kind, op).  Not a registered check."""
import os, random, sys, collections
sys.path.insert(0, os.path.dirname(os.path.abspath(__file__)))
import vlib
from vlib import Case
from props import dictcommon as D

seed = int(os.environ.get("VERIF_SEED", "1"))
rnd = random.Random(seed)
kinds = sys.argv[1].split(",") if len(sys.argv) > 1 and sys.argv[1] else D.ALL_KINDS
nsets = int(sys.argv[2]) if len(sys.argv) > 2 else 20
fresh = len(sys.argv) > 3 and sys.argv[3] == "fresh"
exe, msg = vlib.build_driver("asan")
print(msg)
ok, msg = vlib.build_oracle()
print(ok, msg)
cases = []
for kind in kinds:
    for si, (shape, S) in enumerate(D.gen_sets(rnd, nsets)):
        params = D.params_for(rnd, kind, len(S))
        cmds = D.build_cmds(S, kind, params)
        if fresh:
            dn = "d"
            phases = {"d": "fresh"}
        else:
            cmds += ["save d i", "load r i generic 1" if kind != "BLOCKS" else "load r i BLOCKS 1"]
            dn = "r"
            phases = {"r": "reloaded"}
        n = len(S)
        cmds += ["q %s numElements" % dn, "q %s maxLength" % dn]
        cmds += ["q %s extract %d" % (dn, i) for i in range(0, n + 2)]
        cmds += ["q %s locate %s" % (dn, D.hx(q)) for q in D.gen_queries(rnd, S)]
        cmds += ["q %s extractTable" % dn]
        for p in D.gen_prefixes(rnd, S, 16):
            cmds += ["q %s locatePrefix %s" % (dn, D.hx(p)), "q %s extractPrefix %s" % (dn, D.hx(p))]
        for p in D.gen_substrs(rnd, S, 12):
            cmds += ["q %s locateSubstr %s" % (dn, D.hx(p)), "q %s extractSubstr %s" % (dn, D.hx(p))]
        cmds += ["q %s locateRank %d" % (dn, k) for k in (1, n)] + ["q %s extractRank %d" % (dn, k) for k in (1, n)]
        cmds += ["free %s" % dn]
        cases.append(Case("%s-%d" % (kind, si), cmds, {"kind": kind, "S": S, "params": params, "shape": shape, "phases": phases}))
impl = vlib.run_cases(exe, cases)
model = vlib.run_cases(vlib.OCAML + "/oracle", cases, tag="model")
summary = collections.Counter()
examples = {}
for c in cases:
    fs = D.evaluate(c, impl[c.name], model[c.name])
    for f in fs:
        key = (c.meta["kind"], f.op, "crash" if "crash" in f.classes else "wrong")
        summary[key] += 1
        examples.setdefault(key, (c, f))
    if not fs:
        summary[(c.meta["kind"], "OK", "")] += 1
for k in sorted(summary):
    print(k, summary[k])
for k, (c, f) in sorted(examples.items()):
    print("==", k, c.name, "n=%d" % len(c.meta["S"]), c.meta["params"], c.meta["shape"])
    print("   ", f.cmd[:120])
    print("   ", f.detail[:400])
