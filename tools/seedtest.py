#!/usr/bin/env python3
"""Run checks against a seeded change WITHOUT touching /repo: a scratch git worktree of /repo's
HEAD gets the patch, the checks run with VERIF_REPO pointing at it and VERIF_OUT at a scratch
directory (so evidence/ and replay/ of /verif are not overwritten); everything is removed afterwards.
usage: seedtest.py <patch.diff> <Cxx> [<Cyy> ...]      (the registered way - git -C /repo apply ... - is equivalent)"""
import subprocess, sys, os, tempfile, shutil, json
patch = os.path.abspath(sys.argv[1])
checks = sys.argv[2:]
wt = tempfile.mkdtemp(prefix="seedwt.", dir="/var/tmp")
out = tempfile.mkdtemp(prefix="seedout.", dir="/var/tmp")
os.rmdir(wt)
subprocess.run(["git", "-C", "/repo", "worktree", "add", "-q", "--detach", wt, "HEAD"], check=True)
res = {}
try:
    r = subprocess.run(["git", "-C", wt, "apply", patch])
    assert r.returncode == 0, "patch does not apply"
    env = dict(os.environ, VERIF_REPO=wt, VERIF_OUT=out)
    procs = {c: subprocess.Popen(["python3", "/verif/tools/check.py", c, "--tier", "quick"], stdout=subprocess.PIPE,
                                 stderr=subprocess.STDOUT, text=True, cwd="/verif", env=env) for c in checks}
    for c, p in procs.items():
        o, _ = p.communicate()
        lines = [l for l in o.split("\n") if l.startswith("VIOLATION") or l.startswith(c + " ")]
        what = ""
        for l in lines:
            if l.startswith("VIOLATION"):
                try:
                    rp = json.load(open(l.split("replay=")[1].split()[0]))
                    what = (rp.get("what", "") + " | " + str(rp.get("command", "")))[:300]
                except Exception:
                    pass
                break
        res[c] = (p.returncode, lines[:2] + lines[-1:], what)
finally:
    subprocess.run(["git", "-C", "/repo", "worktree", "remove", "--force", wt])
    shutil.rmtree(out, ignore_errors=True)
for c, (rc, lines, what) in res.items():
    print("%s exit=%d %s" % (c, rc, "CAUGHT" if rc == 1 else "missed"))
    for l in lines:
        print("    " + l[:200])
    if what:
        print("    first: " + what)
