#!/usr/bin/env python3
"""Apply a seeded change to /repo, run the given checks (quick tier), undo the change.
usage: seedtest.py <patch.diff> <Cxx> [<Cyy> ...]   (never commits anything in /repo)"""
import subprocess, sys, os
patch = os.path.abspath(sys.argv[1])
checks = sys.argv[2:]
assert subprocess.run(["git", "-C", "/repo", "status", "--porcelain", "--untracked-files=no"], capture_output=True, text=True).stdout.strip() == "", "repo not clean"
r = subprocess.run(["git", "-C", "/repo", "apply", patch])
assert r.returncode == 0, "patch does not apply"
res = {}
try:
    for c in checks:
        p = subprocess.run(["python3", "/verif/tools/check.py", c, "--tier", "quick"], capture_output=True, text=True, cwd="/verif")
        lines = [l for l in p.stdout.split("\n") if l.startswith("VIOLATION") or l.startswith(c + " ")]
        res[c] = (p.returncode, lines[:3] + lines[-1:])
finally:
    subprocess.run(["git", "-C", "/repo", "checkout", "--", "."])
for c, (rc, lines) in res.items():
    print("%s exit=%d %s" % (c, rc, "CAUGHT" if rc == 1 else "missed"))
    for l in lines:
        print("    " + l[:200])
