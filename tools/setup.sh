#!/bin/sh
# Offline setup: full .vo build of the Coq development, extraction, OCaml oracle.
set -e
cd "$(dirname "$0")/.."
mkdir -p coq/theories/gen evidence replay
(cd coq && coq_makefile -f _CoqProject -o Makefile >/dev/null && timeout 3000 make -j16)
python3 - <<'PY'
import sys
sys.path.insert(0, "tools")
import vlib
ok, msg = vlib.build_oracle(force=True)
print("oracle:", ok, msg)
sys.exit(0 if ok else 1)
PY
