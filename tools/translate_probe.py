#!/usr/bin/env python3
"""Translator: integer widths of the double-hashing probe arithmetic -> coq/theories/gen/Probe_gen.v.

The hashing model (HashDefs.v / HashDictDefs.v) computes probe positions `(hval + i*h2) mod tsize` and
`(hval + h2) mod tsize` over unbounded N.  That is what the C++ computes only as long as no intermediate
result of the expression wraps, i.e. as long as every arithmetic node on the left of `% tsize` is evaluated
in a 64-bit type (ProbeWidths.v: probe_exact; with a 32-bit product the positions of insert and locate
diverge after 2^32/h2 probes: probe_mul32_refuted).  This translator reads, from clang's typed AST of the
CURRENT source, every expression `<lhs> % tsize` / `<lhs> % hash->tsize` in the hash classes and the hash
dictionaries and emits, per function, the list of (operator, bit width of the operator's result type) of
the arithmetic nodes inside <lhs>.  Properties_probe.v re-checks on every run that all of them are >= 64
bits wide and that every function the model speaks about is still among the sites."""
import json, os, re, sys
import translate_schema as TS

REPO = os.environ.get("VERIF_REPO", "/repo")
FILES = ["StringDictionaryHASHRPDAC.cpp", "StringDictionaryHASHRPF.cpp", "StringDictionaryHASHHF.cpp", "StringDictionaryHASHUFFDAC.cpp",
         "Hash/Hash.cpp", "Hash/Hashdh.cpp", "Hash/HashBdh.cpp", "Hash/HashBBdh.cpp", "Hash/HashDAC.cpp"]

ALWAYS = {"StringDictionaryHASHRPDAC.cpp": ["StringDictionaryHASHRPDAC::locate"], "StringDictionaryHASHRPF.cpp": ["StringDictionaryHASHRPF::locate"],
          "Hash/Hash.cpp": ["Hash::insert"], "Hash/Hashdh.cpp": ["Hashdh::search"], "Hash/HashBdh.cpp": ["HashBdh::search"],
          "Hash/HashBBdh.cpp": ["HashBBdh::search"], "Hash/HashDAC.cpp": ["HashDAC::insert", "HashDAC::search"]}

BITS = {k: 8 * v for k, v in TS.SIZES.items()}


def strip_comments(src):
    src = re.sub(r"/\*.*?\*/", lambda m: " " * len(m.group(0)), src, flags=re.S)
    return re.sub(r"//[^\n]*", lambda m: " " * len(m.group(0)), src)


def functions_with_probe(path):
    """names Class::method of the function definitions that contain `% tsize` / `% hash->tsize`"""
    try:
        src = strip_comments(open(os.path.join(REPO, path), "rb").read().decode("utf-8", "replace").replace("\r", ""))
    except OSError:
        return []
    heads = [(m.start(), m.group(1)) for m in re.finditer(r"\b(\w+::~?\w+)\s*\([^;{}]*\)\s*(?:const\s*)?\{", src)]
    out = []
    for m in re.finditer(r"%\s*(?:\w+\s*->\s*|this\s*->\s*)?tsize\b", src):
        prev = [h for h in heads if h[0] < m.start()]
        if prev and prev[-1][1] not in out:
            out.append(prev[-1][1])
    # the functions the hashing models speak about are always examined (their probe expression may live in a helper)
    for fn in ALWAYS.get(path, []):
        if fn not in out and re.search(r"\b%s\s*\(" % re.escape(fn), src):
            out.append(fn)
    return out


def type_bits(node):
    t = node.get("type", {})
    for key in ("desugaredQualType", "qualType"):
        q = t.get(key)
        if q:
            q = q.replace("const ", "").strip()
            if q in BITS:
                return BITS[q]
    return 0    # unknown type: reported as width 0, the obligation fails


def strip_casts(n):
    while n.get("kind") in ("ImplicitCastExpr", "ParenExpr", "CStyleCastExpr", "CXXStaticCastExpr", "CXXFunctionalCastExpr") and n.get("inner"):
        n = n["inner"][0]
    return n


def is_tsize(n):
    n = strip_casts(n)
    if n.get("kind") == "MemberExpr":
        return str(n.get("name", "")).endswith("tsize")
    if n.get("kind") == "DeclRefExpr":
        return str(n.get("referencedDecl", {}).get("name", "")).endswith("tsize")
    return False


def arith_nodes(n, acc):
    if n.get("kind") == "BinaryOperator" and n.get("opcode") in ("+", "-", "*", "<<"):
        acc.append((n["opcode"], type_bits(n)))
    # explicit narrowing casts inside the expression count too
    if n.get("kind") in ("CStyleCastExpr", "CXXStaticCastExpr", "CXXFunctionalCastExpr"):
        acc.append(("cast", type_bits(n)))
    for c in n.get("inner", []) or []:
        arith_nodes(c, acc)


def walk(n, found):
    if n.get("kind") == "BinaryOperator" and n.get("opcode") == "%" and len(n.get("inner", [])) == 2 and is_tsize(n["inner"][1]):
        acc = []
        arith_nodes(n["inner"][0], acc)
        found.append(acc)
    for c in n.get("inner", []) or []:
        walk(c, found)


def callees(n, acc):
    """names of the functions called inside the subtree (free functions and static helpers)"""
    if n.get("kind") == "CallExpr" and n.get("inner"):
        f = strip_casts(n["inner"][0])
        if f.get("kind") == "DeclRefExpr" and f.get("referencedDecl", {}).get("kind") == "FunctionDecl":
            acc.add(f["referencedDecl"]["name"])
    for c in n.get("inner", []) or []:
        callees(c, acc)


HELPER_SKIP = {"bitwisehash", "step_value", "nearest_prime"}     # the hash functions themselves (parameters of the model)


def translate():
    TS.REPO = REPO
    TS.CLANG = ["clang++", "-std=c++17", "-fsyntax-only", "-I" + REPO, "-I" + REPO + "/libcds/includes", "-w"]
    sites, problems = [], []
    for f in FILES:
        for fn in functions_with_probe(f):
            out, err, rc = TS.run_clang(f, fn)
            objs = TS.parse_multi(out)
            found = []
            called = set()
            for o in objs:
                walk(o, found)
                callees(o, called)
            # the probe position may be computed by a small helper (e.g. an inline function of a header): its expression counts
            # for the caller; the helper's parameter types decide the widths
            for h in sorted(called - HELPER_SKIP):
                hout, herr, hrc = TS.run_clang(f, h)
                for o in TS.parse_multi(hout):
                    if o.get("kind") == "FunctionDecl" and o.get("name") == h:
                        walk(o, found)
            if not found:
                problems.append("%s: no typed `%% tsize` expression found in %s (clang rc=%s %s)" % (f, fn, rc, err[-200:].replace("\n", " ")))
                continue
            for k, acc in enumerate(found):
                sites.append(("%s#%d" % (fn, k), acc))
    return sites, problems


def emit(sites, path):
    with open(path, "w") as fh:
        fh.write("(* GENERATED by tools/translate_probe.py from the current source of /repo: do not edit. *)\n")
        fh.write("Require Import List NArith String.\nImport ListNotations.\nLocal Open Scope string_scope.\nLocal Open Scope N_scope.\n\n")
        fh.write("(* per `<lhs> %% tsize` expression: (operator, bit width of its result type) of every arithmetic node of <lhs> *)\n".replace("%%", "%"))
        fh.write("Definition probe_sites : list (string * list (string * N)) :=\n  [")
        fh.write(";\n   ".join('("%s", [%s])' % (nm, "; ".join('("%s", %d)' % (op, b) for op, b in acc)) for nm, acc in sites))
        fh.write("].\n")


if __name__ == "__main__":
    s, p = translate()
    for nm, acc in s:
        print(nm, acc)
    print("problems:", p)
    if len(sys.argv) > 1:
        emit(s, sys.argv[1])
