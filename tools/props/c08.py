"""C08 — save is pure and deterministic; re-saving a loaded image reproduces it."""
import vlib
from props import dictcheck as DC, dictcommon as D


def make_cmds(rnd, kind, S, params, tier):
    opt = rnd.choice([1, 2, 3]) if kind in D.LOADOPT_KINDS else 1
    cmds = D.build_cmds(S, kind, params)
    names = {"r": "reloaded"}
    n = len(S)
    ids = list(range(1, n + 1)) if (n <= 20 or kind in D.HASH_KINDS or kind == "XBW") else sorted(rnd.sample(range(1, n + 1), 20))
    qs = [s for s in (S if n <= 15 else rnd.sample(S, 15))]
    fresh_ok = kind not in D.FRESH_BROKEN
    if fresh_ok:
        names["d"] = "fresh"
        cmds += ["q d extract %d" % i for i in ids] + ["q d locate %s" % D.hx(q) for q in qs]
    cmds += ["save d i1"]
    if fresh_ok:   # answers after save = answers before
        cmds += ["q d extract %d" % i for i in ids] + ["q d locate %s" % D.hx(q) for q in qs]
    cmds += ["save d i2", "imgeq i1 i2"]
    # an independent second build of the same input
    cmds += ["build e %s %s" % (kind, " ".join(params)), "save e i3", "imgeq i1 i3"]
    # load -> save
    cmds += ["load r i1 %s %d" % ("generic", opt)]
    cmds += ["q r extract %d" % i for i in ids] + ["q r locate %s" % D.hx(q) for q in qs]
    cmds += ["save r i4", "imgeq i1 i4", "save r i5", "imgeq i4 i5"]
    cmds += ["load rr i4 %s %d" % ("generic", opt)]
    names["rr"] = "reloaded"
    cmds += ["q rr extract %d" % i for i in ids] + ["q rr locate %s" % D.hx(q) for q in qs]
    cmds += ["q r extract %d" % i for i in ids[:5]]
    if kind == "PFC":
        cmds += ["pfc_image d", "pfc_image r"]
    return cmds, names, {"loadopt": opt}


def extra_eval(c, io, mo):
    fails = []
    kind = c.meta["kind"]
    lines = io["lines"]
    for k, l in enumerate(lines):
        if l.startswith("imgeq ") and l.endswith("= 0"):
            t = l.split()
            a, b = t[1], t[2]
            if (a, b) == ("i1", "i4"):
                # byte-identical OR loads equivalently: the queries on rr (loaded from the re-saved image) decide
                continue
            what = {("i1", "i2"): "a second save of the same object wrote different bytes",
                    ("i1", "i3"): "two builds from the same input and parameters gave different images",
                    ("i4", "i5"): "a second save of the loaded object wrote different bytes"}.get((a, b), "images differ")
            fails.append(D.Fail("save", what, l, ["image_differs"], "d"))
    return fails


def report_pinned_side_effects(run):
    """the regenerated obligation C08_save_pure pins the one state change found in a save body; it is a known finding and is
    reported as such on every run (a NEW side effect breaks the obligation instead)"""
    import os, re
    gen = os.path.join(vlib.COQ, "theories", "gen", "Schema_gen.v")
    try:
        src = open(gen).read()
    except OSError:
        return
    m = re.search(r"Definition save_side_effects[^:]*:[^=]*:=\s*\[(.*?)\]\.", src, re.S)
    if m and "DecodingTree" in m.group(1):
        for k in run.known:
            if k.get("input_class") == "save_side_effect_decodingtree":
                run.known_hits.append((k["key"], k["description"]))


def post(run, cases, impl, model):
    report_pinned_side_effects(run)
    """no uninitialised memory in an image: the same cases are run again with a different heap fill pattern
    (ASan malloc_fill_byte) and every saved image must have the same hash as in the first run"""
    exe, _ = vlib.build_driver("asan")
    fill = {"ASAN_OPTIONS": vlib.ASAN_ENV["ASAN_OPTIONS"] + ":malloc_fill_byte=90:max_malloc_fill_size=268435456"}
    impl2 = vlib.run_cases(exe, cases, tag="impl-fill", env=fill, timeout_case=CFG.timeout_case)
    nd = 0
    for c in cases:
        a, b = impl.get(c.name), impl2.get(c.name)
        if not a or not b:
            continue
        for la, lb in zip(a["lines"], b["lines"]):
            if la.startswith("save ") and lb.startswith("save ") and la != lb:
                nd += 1
                name = la.split()[1]
                cl = DC.derive_classes(c.meta, "save", ["uninitialised_image"], c.meta.get("phases", {}).get(name, ""), name)
                run.violation("%s: image of '%s' depends on the heap fill pattern (uninitialised memory in the image): %s vs %s"
                              % (c.meta["kind"], name, la[-40:], lb[-40:]),
                              {"kind": c.meta["kind"], "operation": "save", "command": la, "classes": cl,
                               "detail": "run with default ASan fill vs malloc_fill_byte=0x5a", "case": DC.case_payload(c)},
                              found_input=True, classes=cl)
                break
    # the bundled plain bitmap (BitSequenceRG: DAC level bitmaps, FM-index and hash bitmaps) at the boundary lengths the
    # dictionary cases reach only about once in 32 inputs: n = 0 mod 32 and its neighbours, every factor; image bytes under both fills
    from props import gen_bits
    from vlib import Case
    rnd = __import__("random").Random(run.seed * 31 + 5)
    rg = []
    for factor in (1, 2, 4, 20):
        for n in (32, 64, 96, 31, 33, 320, 1024, 32 * 20, 32 * 20 * 3, 2048 - 32):
            for pat in ("d50", "one", "last0"):
                bits = gen_bits.mk_bits(rnd, n, pat)
                rg.append(Case("C08-rg-f%d-n%d-%s" % (factor, n, pat), ["bs_build RG %d %s" % (factor, "".join(map(str, bits))), "bs_image"],
                               {"kind": "RG", "factor": factor, "n": n, "pat": pat}))
    o1 = vlib.run_cases(exe, rg, tag="impl-rg")
    o2 = vlib.run_cases(exe, rg, tag="impl-rg-fill", env=fill)
    for c in rg:
        a, b = o1.get(c.name, {"lines": []}), o2.get(c.name, {"lines": []})
        run.count((c.name, tuple(c.cmds)), nontrivial=True)
        if a["lines"] != b["lines"] or len(a["lines"]) < 2:
            nd += 1
            run.violation("BitSequenceRG(factor %d) over %d bits: saved image depends on the heap fill pattern (uninitialised memory in the image)"
                          % (c.meta["factor"], c.meta["n"]),
                          {"kind": "RG", "operation": "save", "command": c.cmds[0][:200], "detail": "bs_image under default ASan fill vs malloc_fill_byte=0x5a: %s vs %s"
                           % (a["lines"][-1:][0][-60:] if a["lines"] else "-", b["lines"][-1:][0][-60:] if b["lines"] else "-"),
                           "case": {"name": c.name, "cmds": c.cmds}}, found_input=True, classes=("uninitialised_image",))
            break
    run.extra["fill_pattern_differences"] = nd
    run.oblige("images are independent of the heap fill pattern (no uninitialised byte is saved)", nd == 0 or not run.violations, "%d cases differ" % nd)


CFG = DC.Config("C08", D.ALL_KINDS, make_cmds, nsets=(7, 18), big=True, extra_eval=extra_eval, post=post, serial=True,
                rule="all 13 kinds: queries before and after save must agree, a second save must write the same bytes, a second independent build "
                     "must give a byte-identical image, the whole case list is run twice with different heap fill patterns (every image hash must "
                     "be equal: no uninitialised byte is saved; plus BitSequenceRG images at lengths around multiples of 32 for every factor), load -> save must reproduce the image or at least an image that loads to the same "
                     "answers (queries on the object loaded from the RE-SAVED image). Non-trivial = a command; distinct by (kind, params, S, command).")


def check(run, tier, seed, replay):
    run.assumptions = ["the tag word written by save comes from a stable source: regenerated obligation C08_tag_stable_K / C08_tag_unstable_exact; "
                       "save bodies contain no state change: C08_save_pure (regenerated from the current source)"]
    DC.run(run, CFG, tier, seed, replay)
