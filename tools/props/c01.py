"""C01 — locate/extract round trip: IDs 1..n are a bijection onto the string set."""
from props import dictcheck as DC, dictcommon as D


def make_cmds(rnd, kind, S, params, tier):
    phases = ("fresh", "reloaded") if tier == "quick" else ("fresh", "reloaded", "own")
    opt = rnd.choice([1, 2, 3]) if kind in D.LOADOPT_KINDS else 1
    cmds, names = DC.std_phase_cmds(S, kind, params, phases, loadopt=opt)
    n = len(S)
    permuted = kind in D.HASH_KINDS or kind == "XBW"     # their ID -> string table must be complete
    ids = list(range(1, n + 1)) if (n <= 40 or permuted) else sorted(rnd.sample(range(1, n + 1), 40) + [1, n])
    mem = S if n <= 40 else [S[i - 1] for i in ids]
    if kind == "PFC":
        cmds.append("pfc_dump d")
    for dn in names:
        cmds += ["q %s extract %d" % (dn, i) for i in ids]
        cmds += ["q %s locate %s" % (dn, D.hx(s)) for s in mem]
        if kind == "PFC":
            cmds += ["mq %s extract %d" % (dn, i) for i in ids]
            cmds += ["mq %s locate %s" % (dn, D.hx(s)) for s in mem]
    return cmds, names, {"loadopt": opt}


from props import gen_iters, gen_hash, gen_hashdict, gen_rpfc, gen_xbw, gen_htfc, gen_dtdict, gen_hashhf, gen_hhtfc
from props.subgen import Sub, Slice
CFG = DC.Config("C01", D.ALL_KINDS, make_cmds, nsets=(9, 24), big=True,
                components=[gen_hash, gen_hashdict, gen_rpfc, gen_xbw, Slice(gen_htfc, 5, 0, 3), Slice(gen_hashhf, 3, 0, 2), Slice(gen_hhtfc, 8, 0, 3), gen_dtdict, Sub(gen_iters, ["bsbi_samples", "bsbi_index", "blocks"])],
                rule="all 13 kinds x boundary-directed string sets (n around multiples of the bucket sizes, ladders of proper "
                     "prefixes, shared prefixes and lengths >= 128, single characters, repetitive and dominant-symbol text) x "
                     "build parameters x {fresh, reloaded via generic loader, own loader (thorough)}; every ID 1..n extracted "
                     "and every member located. Non-trivial = a query command; distinct by (kind, params, S, command).")

CFG.fm_text_residues = [31, 0, 1, 30, 63 % 32, 15, 31]

# three-byte VByte inside the Re-Pair stream (shared prefix of 16384 bytes): witness of the recorded finding rp-front-coding-lcp-ge-16384;
# PFC answers it correctly
CFG.extra_sets = [(("PFC", "RPFC"), "lcp16384", sorted([b"a", b"k" * 16384 + b"b", b"k" * 16384 + b"c", b"z"]), ["4"])]
CFG.probe = True   # regenerated obligations on the probe arithmetic widths + large nearly-full tables


def check(run, tier, seed, replay):
    run.assumptions = ["string lengths and counts below 2^32 (the iterator reports lengths as uint)",
                       "HTFC/HHTFC/RPHTFC, HASHHF/HASHUFFDAC and XBW are covered by the specification theorems plus correspondence only; RPFC, RPDAC, FMINDEX, HASHRPDAC, HASHRPF, Blocks: theorems hold for every object certified by its verified checker"]
    DC.run(run, CFG, tier, seed, replay)
