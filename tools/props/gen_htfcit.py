"""HTFC string iterator (IteratorDictStringHTFC): extractTable / extractPrefix of the LOADED StringDictionaryHTFC (C13, C04).

Reuses gen_htfc's sets, phase-1 dump (`htfc_build`) and case format (`htfc_model <b> <hexes> <13 fields>`), then
  htfc_qi check                 okit= / oksm= : verdicts of the verified checkers htfc_iter_check / htfc_iter_small (implementation: 1 1)
  htfc_qi extractTable
  htfc_qi extractPrefix <hex>   every prefix of a member of length <= 3, sampled longer ones (whole members, |s|-1, middle),
                                absent patterns (neighbours, one-byte extensions, unused bytes), the empty pattern, and
                                patterns chosen so that the answer spans 1 / 2 / several buckets and starts / ends at bucket
                                boundaries (first, last, inner position of a bucket).
The implementation answers through the htfc_q code of cmd_htfc.inc (forked grandchild under ASan), the extracted model
HTFCIterDefs.v answers from the dumped object.  evaluate_property recomputes every answer in python from the sorted input.
"""
import os, random, sys
import vlib
from vlib import Case

HERE = os.path.dirname(os.path.abspath(__file__))
for _p in (HERE, "/verif/tools/props"):
    if _p not in sys.path:
        sys.path.append(_p)
import gen_htfc

_kv = gen_htfc._kv


def _extra_dir():
    return HERE if os.path.exists(os.path.join(HERE, "cmd_htfcit.inc")) else None


def prefix_queries(S, b, rnd, budget):
    n = len(S)
    members = S
    pats = {}

    def add(p, why):
        p = bytes(p)
        if 0 not in p and p not in pats:
            pats[p] = why

    def span(p):
        ids = [i for i, s in enumerate(S) if s.startswith(p)]
        return (ids[0], ids[-1]) if ids else None

    pick = members if n <= 40 else [S[0], S[1], S[n // 2], S[-2], S[-1]] + rnd.sample(S, 30)
    short = set()
    for s in pick:
        for k in (1, 2, 3):
            if k <= len(s):
                short.add(s[:k])
    for p in sorted(short):
        add(p, "short")
    for s in (pick if n <= 40 else rnd.sample(pick, 12)):
        add(s, "member")
        if len(s) > 4:
            add(s[:-1], "longprefix")
            add(s[: len(s) // 2], "longprefix")
            add(s[:4], "longprefix")
    used = sorted(set(c for s in S for c in s))
    for s in ([S[0], S[-1], S[n // 2]] + rnd.sample(S, min(n, 4))):
        add(s + bytes([used[0]]), "ext")
        add(s + b"\xff", "ext")
        add(s + b"\x01", "ext")
        add(s[:-1] + bytes([max(1, s[-1] - 1)]), "neighbour")
        add(s[:-1] + bytes([min(255, s[-1] + 1)]), "neighbour")
    for c in (1, 255, max(1, S[0][0] - 1), min(255, S[-1][0] + 1)):
        add(bytes([c]), "absent?")
    for _ in range(4):
        add(bytes(rnd.choice(used) for _ in range(rnd.randint(1, 5))), "random")
    # bucket geometry: classify what is there and make sure each class is represented
    classes = {}
    for p in list(pats):
        sp = span(p)
        if sp is None:
            classes.setdefault("none", []).append(p)
            continue
        lo, hi = sp
        nb = hi // b - lo // b + 1
        key = ("1" if nb == 1 else "2" if nb == 2 else "3+", "hdr" if lo % b == 0 else "last" if lo % b == b - 1 else "mid",
               "end" if (hi % b == b - 1 or hi == n - 1) else "in")
        classes.setdefault(key, []).append(p)
    # try to create the missing geometries from common prefixes of members at chosen positions
    want = [(nbk, st) for nbk in ("1", "2", "3+") for st in ("hdr", "mid", "last")]
    have = set((k[0], k[1]) for k in classes if k != "none")
    for nbk, st in want:
        if (nbk, st) in have:
            continue
        for _ in range(30):
            lo = rnd.randrange(n)
            if (st == "hdr") != (lo % b == 0) or (st == "last") != (lo % b == b - 1 and b > 1 and lo % b != 0):
                continue
            hi = min(n - 1, lo + {"1": 0, "2": b, "3+": 2 * b}[nbk] + rnd.randint(0, 1))
            k = gen_htfc.lcp(S[lo], S[hi])
            if k > 0:
                p = S[lo][:k]
                sp = span(p)
                if sp:
                    nb = sp[1] // b - sp[0] // b + 1
                    if {"1": nb == 1, "2": nb == 2, "3+": nb >= 3}[nbk]:
                        add(p, "geometry")
                        break
    keep = list(pats)
    if len(keep) > budget:
        must = [p for p in keep if pats[p] in ("geometry",)] + sorted(short)[: budget // 2]
        rest = [p for p in keep if p not in set(must)]
        keep = list(dict.fromkeys(must + rnd.sample(rest, max(0, budget - len(must)))))
    qs = ["htfc_qi extractPrefix %s" % p.hex() for p in sorted(keep)]
    qs.append("htfc_qi extractPrefix -")
    return qs


def gen(tier, seed):
    sets, rnd = gen_htfc.gen_sets(tier, seed)
    rnd = random.Random(seed * 104729 + 5)
    exe, msg = vlib.build_driver("asan", extra_dir=_extra_dir())
    if exe is None:
        raise RuntimeError("driver build failed: " + msg)
    p1 = [Case("p1_" + name, ["htfc_build %d " % b + " ".join(x.hex() for x in S)], {}) for name, S, b in sets]
    res = vlib.run_cases(exe, p1, tag="impl-p1")
    cases = []
    for name, S, b in sets:
        o = res.get("p1_" + name, {"lines": [], "status": "missing", "err": []})
        bb = max(2, b)
        meta = {"strings": [x.hex() for x in S], "b": b, "phase1_status": o["status"], "phase1_err": o["err"][:4],
                "max_inbucket_lcp": gen_htfc.max_inbucket_lcp(S, bb), "last_is_header": len(S) % bb == 1}
        line = o["lines"][0] if o["lines"] else ""
        if o["status"] == "ok" and line.startswith("htfc_build ") and "elements=" in line:
            d = _kv(line)
            meta["phase1"] = {k: (v if len(v) < 120 else v[:120] + "...") for k, v in d.items()}
            cmd = gen_htfc.model_cmd(b, S, d)
        else:
            cmd = "htfc_model %d %s 0 0 0 0 2 - 0 - 16 - - - -" % (b, ",".join(x.hex() for x in S))
        total = sum(len(x) for x in S)
        budget = (60 if tier == "quick" else 120) if total < 4000 else 10
        qs = ["htfc_qi check", "htfc_qi extractTable"] + prefix_queries(S, bb, rnd, budget)
        cases.append(Case("it_" + name, [cmd] + qs, meta))
    return cases


def evaluate_property(case, out, certified=None):
    """C13 / C04 on the implementation's lines: extractTable yields exactly S, each string with its true length (reported
    length = strlen of the returned buffer = |s|), in ID order, no MORE; extractPrefix(p) yields exactly the members having
    prefix p in ID order, NULL when there is none; no crash / sanitizer report (the known memcmp / memcpy over-reads of
    locatePrefix tolerated).  `certified` = the model's ok= and okit= verdicts (optional)."""
    fails = []
    m = case.meta
    if m.get("phase1_status") != "ok" or "phase1" not in m:
        return ["dictionary build (phase 1) %s: %s" % (m.get("phase1_status"), " | ".join(m.get("phase1_err", [])))]
    known_class = m.get("max_inbucket_lcp", 0) >= 128      # ht-front-coding-lcp-ge-128
    if out["status"] != "ok":
        fails.append("implementation %s on valid input: %s" % (out["status"], " | ".join(out["err"][:3])))
    S = [bytes.fromhex(h) for h in m["strings"]]
    lines = out["lines"]
    if not lines or not lines[0].startswith("htfc_model "):
        return fails + ["no htfc_model line"]
    cmds = case.cmds[1:]
    if len(lines) - 1 != len(cmds):
        fails.append("%d answers for %d queries" % (len(lines) - 1, len(cmds)))
    notes = out.get("notes", {})
    for k, (cmd, line) in enumerate(zip(cmds, lines[1:])):
        tk = cmd.split()
        op = tk[1]
        arg = tk[2] if len(tk) > 2 else ""
        if op == "check":
            continue
        dt = False
        for nt in notes.get(k + 1, []):
            if any(x in nt for x in gen_htfc.DT_SITES) or (nt.startswith("crash") and any(any(x in n2 for x in gen_htfc.DT_SITES) for n2 in notes.get(k + 1, []))):
                dt = True
            elif nt.startswith("crash"):
                if certified is not False and not known_class:
                    fails.append("query crashed: " + nt[:100])
            elif nt.startswith("asan") and not any(x in nt for x in gen_htfc.TOLERATED_SITES):
                if certified is not False and not known_class:
                    fails.append("sanitizer report: " + nt[:120])
        if dt and certified:
            fails.append("certified instance hit the decoder defect: " + " | ".join(notes.get(k + 1, []))[:160])
        if certified is False or known_class or dt:
            continue
        if " = " not in line + " ":
            fails.append("malformed answer: " + line[:80])
            continue
        ans = line.split("=", 1)[1].split()
        pat = b"" if arg in ("-", "") else bytes.fromhex(arg)
        sel = [s for s in S if op == "extractTable" or s.startswith(pat)]
        want = ["strs"] + ["%s/%d/%d" % (s.hex(), len(s), len(s)) for s in sel]
        if op == "extractPrefix" and not sel:
            want = ["NULL"]
        if ans != want:
            fails.append("%s(%s) = %s, expected %s" % (op, arg, " ".join(ans)[:80], " ".join(want)[:80]))
    return fails[:10]


def _certified(mo):
    ls = mo.get("lines") or []
    return len(ls) > 1 and "ok=1" in ls[0] and "okit=1" in ls[1]


def compare_lines(case, io, mo):
    import re
    cert = _certified(mo)
    dis = []
    for k, (a, b) in enumerate(zip(io["lines"], mo["lines"])):
        if b.startswith("SKIP"):
            continue
        if k == 0:
            a = re.sub(r" ok[23]?=[01]", "", a)
            b = re.sub(r" ok[23]?=[01]", "", b)
        if k == 1:
            a = re.sub(r" ok(it|sm)=[01]", "", a)
            b = re.sub(r" ok(it|sm)=[01]", "", b)
        if b.endswith(" =") and not cert:
            continue
        if a != b:
            dis.append({"cmd": case.cmds[k][:300] if k < len(case.cmds) else "?", "impl": a[:600], "model": b[:600]})
    if len(io["lines"]) != len(mo["lines"]) and io.get("status") == "ok":
        dis.append({"cmd": "(line count)", "impl": str(len(io["lines"])), "model": str(len(mo["lines"]))})
    return dis


def evaluate_property_m(case, io, mo):
    return evaluate_property(case, io, _certified(mo))


def sanitizer_scope(case):
    return False
