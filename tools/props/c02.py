"""C02 — no false positives: absent strings give NORESULT, bad IDs give NULL, no memory touched outside."""
from props import dictcheck as DC, dictcommon as D
from props.subgen import Slice

BAD_IDS = [0, (1 << 32) - 1, 1 << 32, (1 << 32) + 1, (1 << 64) - 1]


def make_cmds(rnd, kind, S, params, tier):
    phases = ("reloaded",) if kind in D.FRESH_BROKEN else ("fresh", "reloaded")
    cmds, names = DC.std_phase_cmds(S, kind, params, phases)
    n = len(S)
    Sset = set(S)
    qs = [q for q in D.gen_queries(rnd, S, limit=10, splice=60) if q not in Sset][:90]
    qs = [b""] + qs            # the empty string is never a member
    ids = BAD_IDS + [n + 1, n + 2, 2 * n + 1]
    for dn in names:
        cmds += ["q %s locate %s" % (dn, D.hx(q)) for q in qs]
        cmds += ["q %s extract %d" % (dn, i) for i in ids]
        if kind == "PFC":
            cmds += ["mq %s locate %s" % (dn, D.hx(q)) for q in qs]
            cmds += ["mq %s extract %d" % (dn, i) for i in ids]
    return cmds, names, {}


def extra_eval(c, io, mo):
    # a sanitizer report on a query that nevertheless answered correctly still violates
    # "neither call ... touches memory outside the dictionary"
    fails = []
    for k, notes in io.get("notes", {}).items():
        for x in notes:
            if x.startswith("asan ") and not any(y.startswith("crash ") for y in notes):
                t = x.split()
                cmd = c.cmds[k] if k < len(c.cmds) else ""
                if cmd.startswith("mq "):
                    continue
                fails.append(D.Fail(t[2], "sanitizer report during a query that returned: " + " ".join(t[4:]), cmd,
                                    ["memory_report", "site:" + " ".join(t[4:])], t[1]))
    return fails


from props import gen_hashdict, gen_xbw, gen_htfc, gen_hashhf, gen_hhtfc
CFG = DC.Config("C02", D.ALL_KINDS, make_cmds, components=[gen_hashdict, gen_xbw, Slice(gen_htfc, 5, 1, 3), Slice(gen_hashhf, 3, 1, 2), Slice(gen_hhtfc, 8, 1, 3)], nsets=(9, 24), big=True, extra_eval=extra_eval,
                rule="all 13 kinds; queries NOT in S: proper prefixes and one-byte extensions (0x02, a used byte, 0xFE) of members, "
                     "last byte +-1, one inner byte changed, below the first / above the last member, bytes occurring nowhere; "
                     "IDs 0, n+1, n+2, 2n+1, 2^32-1, 2^32, 2^32+1, 2^64-1. Each query runs in its own forked ASan process with the "
                     "pattern in an exact-size heap buffer. Non-trivial = a query command; distinct by (kind, params, S, command).")

CFG.probe = True   # regenerated obligations on the probe arithmetic widths + large nearly-full tables


def check(run, tier, seed, replay):
    run.assumptions = ["ASan verdict of every query is part of the observation (supporting evidence, not the claim)"]
    DC.run(run, CFG, tier, seed, replay)
