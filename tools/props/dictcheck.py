"""Generic runner for the dictionary-level properties (C01-C06, C08, C12-C16).

One check = proof side (Properties_<id>.v re-checked, Print Assumptions captured)
          + tie (C++ driver on /repo's working tree vs extracted oracle, API level against
            Spec.v for every kind, and against the concrete PFC model through `mq`/`pfc_dump`)
          + the property itself evaluated on the implementation's outputs
          + violation protocol (known findings, shrinking, replay files).
A property module supplies a Config."""
import collections, json, os, random
import vlib
from vlib import Case
from props import dictcommon as D

DT_KINDS = ("HTFC", "HHTFC", "RPHTFC", "HASHHF", "HASHUFFDAC")
DT_SITES = ("DecodingTable::getSubstring", "DecodingTable::processChunk", "VByte::decode", "StatCoder::decodeString",
            "StatCoder::decodeHeader", "decodeHeader", "decodeString")


def max_inbucket_lcp(S, b):
    m = 0
    for i in range(1, len(S)):
        if i % b == 0:
            continue
        x, y = S[i - 1], S[i]
        k = 0
        while k < len(x) and k < len(y) and x[k] == y[k]:
            k += 1
        m = max(m, k)
    return m


def derive_classes(meta, op, classes, phase, dname=""):
    """input-class tags used to match known findings (DESIGN §3.1): predicates on the concrete
    failing input / call site"""
    kind = meta["kind"]
    cl = list(classes)
    sites = [c[5:] for c in classes if c.startswith("site:")]
    if kind in DT_KINDS and "crash" in classes and "fresh_object" not in classes:
        if any(any(s in site for s in DT_SITES) for site in sites):
            cl.append("decoding_table_crash")
    if kind in DT_KINDS and "memory_report" in classes and any(any(s in site for s in DT_SITES) for site in sites):
        cl.append("decoding_table_crash")
    if kind in ("HTFC", "HHTFC", "RPHTFC") and any("MemcmpInterceptorCommon" in s or "memcmp" in s for s in sites) \
            and "crash" not in classes:
        cl.append("ht_memcmp_overread")
    if kind in ("HTFC", "HHTFC", "RPHTFC") and "fresh_object" not in classes:
        try:
            b = max(2, int(meta["params"][0]))
        except (IndexError, ValueError):
            b = 2
        if "vectors" in meta:
            b = 1 << 30
        if max_inbucket_lcp(meta["S"], b) >= 128:
            cl.append("ht_lcp_ge_128")
    if kind in ("HTFC", "HHTFC", "RPHTFC") and op in ("locatePrefix", "extractPrefix") and "crash" not in classes \
            and any("memcpy" in s for s in sites):
        cl.append("ht_memcpy_overread")
    if kind in ("RPFC", "RPHTFC") and "fresh_object_of_load_only_kind" not in classes:
        try:
            b = max(2, int(meta["params"][0]))
        except (IndexError, ValueError):
            b = 2
        if max(len(x) for x in meta["S"]) > 16384 and max_inbucket_lcp(meta["S"], b) >= 16384:
            cl.append("rp_lcp_ge_16384")
    if kind == "RPHTFC" and op == "build" and "crash" in classes:
        try:
            b = max(2, int(meta["params"][0]))
        except (IndexError, ValueError):
            b = 2
        if len(meta["S"]) % b == 1:
            cl.append("last_bucket_header_only")
    if kind in ("HASHHF", "HASHRPF") and meta.get("loadopt") in (2, 3) and (dname == "rr" or (dname == "r" and op == "save")):
        cl.append("resave_of_compact_hash")
    if kind in ("HASHHF", "HASHRPF") and meta.get("loadopt") in (2, 3) and op == "lifecycle" and \
            any("LogSequence::save" in s or "memcpy" in s or "Hash::save" in s for s in sites):
        cl.append("resave_of_compact_hash")
    if kind == "XBW" and op == "save" and "crash" in classes and dname == "r":
        cl.append("xbw_resave")
    if kind == "XBW" and op in ("locateSubstr", "extractSubstr"):
        cl.append("xbw_substr")
    if kind == "XBW" and op in ("locateRank", "extractRank"):
        cl.append("xbw_rank")
    if "empty_pattern" in classes and ((op in ("locatePrefix", "extractPrefix") and kind in ("FMINDEX", "XBW")) or
                                       (op in ("locateSubstr", "extractSubstr") and kind == "FMINDEX")):
        cl.append("empty_search_pattern")
    return cl


class Config:
    def __init__(self, pid, kinds, make_cmds, rule, nsets=(8, 60), extra_eval=None, big=False, title="",
                 kinds_thorough=None, post=None, set_filter=None, params_fn=None, timeout_case=60, serial=False, components=()):
        self.pid, self.kinds, self.make_cmds, self.rule = pid, kinds, make_cmds, rule
        self.nsets, self.extra_eval, self.big, self.title = nsets, extra_eval, big, title
        self.kinds_thorough = kinds_thorough or kinds
        self.post = post
        self.set_filter = set_filter
        self.params_fn = params_fn or D.params_for
        self.timeout_case = timeout_case
        self.serial = serial
        self.components = list(components)


def std_phase_cmds(S, kind, params, phases=("reloaded",), loadopt=1):
    """build + (save, load) commands; returns (cmds, {dictname: phase})"""
    cmds = D.build_cmds(S, kind, params)
    names = {}
    if "fresh" in phases:
        names["d"] = "fresh"
    if "reloaded" in phases or "own" in phases:
        cmds.append("save d i")
    if "reloaded" in phases:
        cmds.append("load r i %s %d" % ("generic", loadopt))
        names["r"] = "reloaded"
    if "own" in phases:
        cmds.append("load o i %s %d" % (kind, loadopt))
        names["o"] = "own"
    return cmds, names


def gen_cases(cfg, tier, seed):
    rnd = random.Random(seed * 1000003 + sum(map(ord, cfg.pid)))
    cases = []
    nsets = cfg.nsets[0] if tier == "quick" else cfg.nsets[1]
    kinds = cfg.kinds if tier == "quick" else cfg.kinds_thorough
    for kind in kinds:
        # the decoding-table kinds and XBW crash / hang on many inputs of the pinned tree (known findings): every such
        # query costs a watchdog time-out, so they get a bounded share of the thorough tier
        nk = min(nsets, 16) if (kind in DT_KINDS or kind == "XBW") else nsets
        sets = D.gen_sets(rnd, nk, big=(tier != "quick" and cfg.big))
        for si, (shape, S) in enumerate(sets):
            if cfg.set_filter and not cfg.set_filter(kind, shape, S):
                continue
            if kind == "FMINDEX" and getattr(cfg, "fm_text_residues", None):
                S = D.pad_total(S, cfg.fm_text_residues[si % len(cfg.fm_text_residues)])
            params = cfg.params_fn(rnd, kind, len(S))
            r = cfg.make_cmds(rnd, kind, S, params, tier)
            if r is None:
                continue
            cmds, phases, extra_meta = r
            meta = {"kind": kind, "S": S, "params": params, "shape": shape, "phases": phases}
            meta.update(extra_meta or {})
            cases.append(Case("%s-%s-%d" % (cfg.pid, kind, si), cmds, meta))
        # fixed extra sets of a check (kind filter, shape, S, params): witnesses of recorded findings and regression inputs
        for xi, (xkinds, shape, S, params) in enumerate(getattr(cfg, "extra_sets", [])):
            if kind not in xkinds:
                continue
            if params is None:
                params = cfg.params_fn(rnd, kind, len(S))
            r = cfg.make_cmds(rnd, kind, S, params, tier)
            if r is None:
                continue
            cmds, phases, extra_meta = r
            meta = {"kind": kind, "S": S, "params": params, "shape": shape, "phases": phases}
            meta.update(extra_meta or {})
            cases.append(Case("%s-%s-x%d" % (cfg.pid, kind, xi), cmds, meta))
    return cases


def case_payload(c):
    m = dict(c.meta)
    m["S"] = [s.hex() for s in m["S"]]
    return {"name": c.name, "cmds": c.cmds, "meta": m}


def case_from_payload(p):
    m = dict(p["meta"])
    m["S"] = [bytes.fromhex(s) for s in m["S"]]
    return Case(p["name"], p["cmds"], m)


def shrink(exe, c, fail, budget=40):
    """Greedy removal of strings that keeps the same command failing the same way
    (impl line != model line for that command).  Returns a smaller Case or None."""
    if not fail.cmd or not fail.cmd.startswith(("q ", "mq ")):
        return None
    S = list(c.meta["S"])
    kind, params = c.meta["kind"], c.meta["params"]
    prefix_cmds = [x for x in c.cmds if x.split()[0] in ("save", "load")]

    def trial(S2):
        if not S2:
            return False
        cmds = D.build_cmds(S2, kind, params) + prefix_cmds + [fail.cmd]
        cc = Case("shrink", cmds, dict(c.meta, S=S2))
        io = vlib.run_cases(exe, [cc], tag="impl-s", shards=1).get("shrink")
        mo = vlib.run_cases(vlib.oracle_exe(), [cc], tag="model-s", shards=1).get("shrink")
        if not io or not mo:
            return False
        fs = D.evaluate(cc, io, mo)
        return any(f.op == fail.op for f in fs)
    if not trial(S):
        return None
    i = len(S) - 1
    while i >= 0 and budget > 0:
        budget -= 1
        S2 = S[:i] + S[i + 1:]
        if trial(S2):
            S = S2
        i -= 1
    cmds = D.build_cmds(S, kind, params) + prefix_cmds + [fail.cmd]
    return Case(c.name + "-min", cmds, dict(c.meta, S=S))


def probe_cases(n=200003, kinds=("HASHRPDAC", "HASHRPF", "HASHHF", "HASHUFFDAC")):
    """nearly full, large tables (overhead 0): the last inserted keys need tens of thousands of probes, i*h2 passes 2^32"""
    rnd = random.Random(20261002)
    S = set()
    while len(S) < n:
        S.add(bytes(rnd.randrange(97, 123) for _ in range(rnd.choice([5, 5, 6]))))
    S = sorted(S)
    cs = []
    for kind in kinds:
        cmds = D.build_cmds(S, kind, ["0"]) + ["save d i", "load r i generic 1", "locall r"]
        cs.append(vlib.Case("probe-big-%s-%d" % (kind, n), cmds, {"kind": kind, "S": [], "n": n, "params": ["0"], "shape": "probe-big"}))
    return cs


def probe_search(run, cfg, deep=False):
    """bulk locate/extract of every member of large nearly-full tables; deep = the failing-input search after a probe-width
    obligation broke (a million keys: probe chains of tens of thousands of cells with steps up to 10^6)"""
    exe, msg = vlib.build_driver("plain")
    if exe is None:
        return False
    cs = probe_cases()
    if deep:
        cs += probe_cases(1000003) + probe_cases(300007, kinds=("HASHRPDAC", "HASHRPF"))
    out = vlib.run_cases(exe, cs, tag="impl-probe-big", timeout_case=1500)
    found = False
    for c in cs:
        o = out.get(c.name, {"lines": [], "status": "missing", "err": []})
        run.count((c.name,), nontrivial=True)
        line = next((l for l in o["lines"] if l.startswith("locall ")), "")
        bad = o["status"] != "ok" or not line or "notfound=0 wrongextract=0" not in line
        if bad:
            found = True
            run.violation("%s over %d strings, overhead 0: %s" % (c.meta["kind"], c.meta["n"], line or (o["status"] + " " + " | ".join(o["err"][:2]))),
                          {"kind": c.meta["kind"], "operation": "locate", "command": "locall r", "detail": line,
                           "case": {"name": c.name, "generator": "tools/props/dictcheck.py probe_cases()", "n": c.meta["n"], "params": ["0"]}},
                          found_input=True)
    return found


def run(runobj, cfg, tier, seed, replay):
    run = runobj
    pid = cfg.pid
    run.rule = cfg.rule
    proof_ok, r = vlib.proof_side(run, pid)
    serial_failed = []
    if cfg.serial:
        sok, serial_failed, slog = vlib.serial_side(run, pid)
        run.extra["schema_log_tail"] = slog[-1500:] if not sok else ""
    probe_failed = []
    if getattr(cfg, "probe", False):
        pok, probe_failed, _sites = vlib.probe_side(run, pid)
    ok, msg = vlib.build_oracle()
    run.oblige("extracted oracle builds", ok, msg)
    exe, msg = vlib.build_driver("asan", extra_defs=getattr(cfg, "extra_defs", ()))
    run.oblige("implementation + driver build from /repo working tree (ASan, -D%s %s)" % (vlib.GUARD, " ".join(getattr(cfg, "extra_defs", ()))),
               exe is not None, msg)
    if exe is None or not ok:
        run.violation("build failed", {"kind": "build", "operation": "build", "detail": msg}, found_input=False)
        return
    if replay:
        rp = json.load(open(replay))
        if "case" not in rp:
            print("replay file names no case (obligation-level violation):", rp.get("what"))
            cases = []
        elif "gen_index" in rp or "S" not in rp["case"].get("meta", {"S": 1}):
            # a case of one of the component generators: replayed by the component runner
            from props import compcheck
            compcheck.run_components(run, cfg.components, tier, seed, replay, exe, label=" (concrete component models)")
            return
        else:
            cases = [case_from_payload(rp["case"])]
    else:
        cases = gen_cases(cfg, tier, seed)
    impl = vlib.run_cases(exe, cases, tag="impl", timeout_case=cfg.timeout_case)
    model = vlib.run_cases(vlib.oracle_exe(), cases, tag="model")
    dist = collections.Counter()
    opsc = collections.Counter()
    sizes = collections.Counter()
    memreports = []
    corr_breaks = []
    nfail = 0
    shrunk = False
    for c in cases:
        io = impl.get(c.name, {"lines": [], "status": "missing", "err": []})
        mo = model.get(c.name, {"lines": [], "status": "missing", "err": []})
        kind = c.meta["kind"]
        dist[kind + "/" + c.meta["shape"]] += 1
        sizes[len(c.meta["S"])] += 1
        for cmd in c.cmds:
            t = cmd.split()
            if t[0] in ("q", "mq", "uq") and len(t) > 2:
                opsc[t[2]] += 1
                run.count((kind, tuple(c.meta["params"]), tuple(c.meta["S"]), cmd), nontrivial=True)
        if replay:
            for k, cmd in enumerate(c.cmds):
                print("cmd  :", cmd[:300])
                print(" impl :", io["lines"][k][:400] if k < len(io["lines"]) else "<none>")
                print(" model:", mo["lines"][k][:400] if k < len(mo["lines"]) else "<none>")
            print("status:", io["status"], io["err"][:4])
        fails = D.evaluate(c, io, mo, memreports=memreports)
        if cfg.extra_eval:
            fails += cfg.extra_eval(c, io, mo) or []
        # split: model-query (mq / pfc_dump) disagreements are correspondence items
        prop_fails, corr = [], []
        for f in fails:
            (corr if f.cmd.startswith(("mq ", "pfc_dump", "pfc_image")) else prop_fails).append(f)
        if corr:
            corr_breaks.append((c, corr))
        for f in prop_fails:
            nfail += 1
            phase = c.meta.get("phases", {}).get(f.dname, "")
            cl = derive_classes(c.meta, f.op, f.classes, phase, f.dname)
            payload = {"kind": kind, "operation": f.op, "params": c.meta["params"], "phase": phase,
                       "command": f.cmd, "detail": f.detail, "classes": cl, "case": case_payload(c),
                       "impl_status": io["status"], "impl_err": io["err"][:6]}
            before = len(run.violations)
            run.violation("%s %s: %s" % (kind, f.op, f.detail[:300]), payload, found_input=True, classes=cl)
            if len(run.violations) > before and not shrunk and not replay:
                shrunk = True
                try:
                    small = shrink(exe, c, f)
                    if small is not None:
                        p = run.write_replay("min", {"property": pid, "what": f.detail[:300], "kind": kind,
                                                     "operation": f.op, "case": case_payload(small), "seed": seed})
                        run.violations[-1]["replay"] = p
                except Exception as ex:  # shrinking is best effort
                    run.extra["shrink_error"] = repr(ex)
    # sanitizer reports on queries that still answered correctly count against memory-safety clauses
    run.extra["sanitizer_reports"] = len(memreports)
    run.extra["sanitizer_report_samples"] = memreports[:5]
    run.extra["input_distribution"] = {"kind/shape": dict(dist), "ops": dict(opsc),
                                       "set_sizes": {str(k): v for k, v in sorted(sizes.items())}}
    for c in cases[:2] + cases[len(cases) // 2: len(cases) // 2 + 1]:
        run.sample({"case": c.name, "kind": c.meta["kind"], "params": c.meta["params"], "n": len(c.meta["S"]),
                    "first_strings": [s.hex() for s in c.meta["S"][:4]], "cmds": c.cmds[1:6]})
    run.extra["correspondence_disagreements"] = len(corr_breaks)
    run.oblige("correspondence: concrete PFC model (PFCDefs.v) = implementation on every model query / layout dump",
               not corr_breaks, "" if not corr_breaks else repr(corr_breaks[0][1][:2]))
    run.oblige("correspondence: implementation = specification (Spec.v) on every query of every case (known findings excepted)",
               not run.violations, "" if not run.violations else run.violations[0]["what"][:300])
    comp_dis = 0
    if cfg.components and not replay:
        from props import compcheck
        comp_dis, first = compcheck.run_components(run, cfg.components, tier, seed, None, exe, label=" (concrete component models)")
        if comp_dis and not run.violations:
            c, dis = first
            run.violation("model/implementation correspondence broken for a component model (property not seen to fail)",
                          {"kind": str(c.meta.get("kind", "")), "operation": "correspondence", "disagreements": dis[:10],
                           "case": {"name": c.name, "cmds": c.cmds}}, found_input=False)
    if cfg.post:
        cfg.post(run, cases, impl, model)
    if serial_failed and not run.violations:
        run.violation("regenerated schema obligation(s) no longer check against the current source: %s (property not seen to fail on the explored inputs)"
                      % ", ".join(serial_failed[:6]),
                      {"kind": "schema", "operation": "Properties_serial", "obligations": serial_failed,
                       "detail": run.extra.get("schema_log_tail", "")}, found_input=False)
    if getattr(cfg, "probe", False):
        found = probe_search(run, cfg, deep=bool(probe_failed))     # cheap (seconds): runs on every check, and is the failing-input search when an obligation broke
        if probe_failed and not found and not run.violations:
            run.violation("regenerated obligation(s) on the probe arithmetic no longer check against the current source: %s (property not seen to "
                          "fail on the explored inputs, incl. the large nearly-full tables)" % ", ".join(probe_failed[:6]),
                          {"kind": "hash", "operation": "Properties_probe", "obligations": probe_failed,
                           "detail": run.extra.get("probe_check", {})}, found_input=False)
    if not proof_ok:
        run.violation("proof obligation of %s no longer checks" % pid,
                      {"kind": "proof", "operation": "coqc", "detail": run.extra.get("coq_failure", {})}, found_input=False)
    elif corr_breaks and not run.violations:
        c, corr = corr_breaks[0]
        run.violation("model/implementation correspondence broken (property not seen to fail): " + corr[0].detail[:200],
                      {"kind": c.meta["kind"], "operation": "correspondence", "command": corr[0].cmd,
                       "detail": corr[0].detail, "case": case_payload(c)}, found_input=False)
