"""C15 — metadata is truthful: exact element count, maxLength bounds every string."""
from props import dictcheck as DC, dictcommon as D


def make_cmds(rnd, kind, S, params, tier):
    opt = rnd.choice([1, 2, 3]) if kind in D.LOADOPT_KINDS else 1
    cmds, names = DC.std_phase_cmds(S, kind, params, ("fresh", "reloaded", "own"), loadopt=opt)
    n = len(S)
    longest = max(range(n), key=lambda i: len(S[i])) + 1
    for dn in names:
        cmds += ["q %s numElements" % dn, "q %s maxLength" % dn]
        if kind == "PFC":
            cmds += ["mq %s numElements" % dn, "mq %s maxLength" % dn]
        if not (names[dn] == "fresh" and kind in D.FRESH_BROKEN) and kind not in D.HASH_KINDS and kind != "XBW":
            cmds.append("q %s extract %d" % (dn, longest))
    return cmds, names, {}


def extra_eval(c, io, mo):
    S = c.meta["S"]
    mx = max(len(s) for s in S)
    fails = []
    for l in io["lines"]:
        pq = D.parse_q(l)
        if not pq or not l.startswith("q "):
            continue
        try:
            if pq[1] == "numElements" and int(pq[3]) != len(S):
                fails.append(D.Fail("numElements", "numElements = %s, %d strings were supplied" % (pq[3], len(S)), l, [], pq[0]))
            if pq[1] == "maxLength" and not (mx <= int(pq[3]) <= mx + 1):
                fails.append(D.Fail("maxLength", "maxLength = %s, longest member has %d bytes" % (pq[3], mx), l, [], pq[0]))
        except ValueError:
            pass
    return fails


CFG = DC.Config("C15", D.ALL_KINDS, make_cmds, nsets=(12, 40), big=True, extra_eval=extra_eval,
                rule="all 13 kinds x {fresh, reloaded through the generic loader, reloaded through the kind's own loader (random load option "
                     "for HASHHF/HASHRPF)}: numElements must equal n, maxLength must lie in [longest, longest+1], and the longest member "
                     "must extract intact. Non-trivial = a query command; distinct by (kind, params, S, command).")


# few strings with one very long, highly compressible member: every size field of the image (compressed text bytes, number of
# symbols, table sizes) is then SMALLER than the longest string, so a maxlength derived from / clamped by another field shows
ALLK = tuple(D.ALL_KINDS)
CFG.extra_sets = [(ALLK, "longrun3000", sorted([b"a" * 3000, b"a" * 3000 + b"b", b"a" * 3000 + b"c", b"b"]), None),
                  (ALLK, "runs100-600", sorted(b"x" * k for k in (100, 200, 300, 400, 500, 600)), None),
                  (ALLK, "single1000", [b"ab" * 500], None)]


def check(run, tier, seed, replay):
    DC.run(run, CFG, tier, seed, replay)
