"""C19 — bundled succinct structures agree with their plain definitions.

Generator (boundary-directed) and the property itself, evaluated on the implementation's own output:
every access/rank1/rank0/select1/select0 answer of every bundled bit sequence (fresh and after save/load)
equals the naive recomputation on the plain bit vector; the same for access/rank/select of the two wavelet trees.
Commands: see cmd_bits.inc."""
import random
from vlib import Case

BS_KINDS = [("RG", 1), ("RG", 2), ("RG", 3), ("RG", 4), ("RG", 20),
            ("RRR", 1), ("RRR", 2), ("RRR", 3), ("RRR", 5), ("RRR", 16), ("RRR", 32), ("RRR", 33), ("RRR", 64), ("RRR", 128),
            ("SDARRAY", 0), ("DARRAY", 0)]


def mk_bits(rnd, n, pat):
    if pat == "zero":
        return [0] * n
    if pat == "one":
        return [1] * n
    if pat == "first1":
        return [1] + [0] * (n - 1)
    if pat == "last1":
        return [0] * (n - 1) + [1]
    if pat == "first0":
        return [0] + [1] * (n - 1)
    if pat == "last0":
        return [1] * (n - 1) + [0]
    if pat == "alt":
        return [i & 1 for i in range(n)]
    if pat == "alt1":
        return [1 - (i & 1) for i in range(n)]
    if pat == "runs":
        out, b = [], rnd.randrange(2)
        while len(out) < n:
            out += [b] * rnd.choice([1, 2, 7, 8, 31, 32, 33, 64, 100, 257])
            b = 1 - b
        return out[:n]
    if pat == "word":  # whole words of ones / zeros, exercises popcount = 32 and = 0
        out = []
        while len(out) < n:
            out += [rnd.randrange(2)] * 32
        return out[:n]
    dens = {"d01": 0.01, "d50": 0.5, "d99": 0.99, "d10": 0.1, "d90": 0.9}[pat]
    return [1 if rnd.random() < dens else 0 for _ in range(n)]


PATS = ["zero", "one", "first1", "last1", "first0", "last0", "alt", "alt1", "runs", "word", "d01", "d50", "d99", "d10", "d90"]


def lengths_for(kind, param, tier):
    s = 32 * param if kind == "RG" else (param if kind == "RRR" else 64)
    s = max(s, 1)
    base = [1, 2, 3, 31, 32, 33, 63, 64, 65, 95, 96, 97, 127, 128, 129]
    for k in (1, 2, 3, 5):
        for d in (-1, 0, 1):
            base.append(k * s + d)
    base += [255, 256, 257, 1000, 1023, 1024, 1025, 1999, 2000, 2047, 2048, 2049]
    if tier != "quick":
        base += [4095, 4096, 4097, 15 * s, 15 * s + 1, 10007]
    return sorted(set(x for x in base if 1 <= x <= (2100 if tier == "quick" else 12000)))


def bs_queries(rnd, bits, kind, param):
    n = len(bits)
    ones = sum(bits)
    zeros = n - ones
    s = 32 * param if kind == "RG" else 64
    if n <= 70:
        pos = list(range(n))
        s1 = list(range(1, ones + 1))
        s0 = list(range(1, zeros + 1))
    else:
        cand = [0, 1, 30, 31, 32, 33, 62, 63, 64, 65, n - 33, n - 32, n - 2, n - 1]
        for k in range(1, n // s + 2):
            cand += [k * s - 2, k * s - 1, k * s, k * s + 1]
        cand = [p for p in cand if 0 <= p < n]
        if len(cand) > 60:
            cand = cand[:30] + rnd.sample(cand[30:], 30)
        pos = sorted(set(cand + [rnd.randrange(n) for _ in range(20)]))

        def sel_args(total):
            if total == 0:
                return []
            c = [1, 2, 3, total - 1, total, (total + 1) // 2, 31, 32, 33, 64, 65] + [rnd.randint(1, total) for _ in range(12)]
            return sorted(set(j for j in c if 1 <= j <= total))
        s1, s0 = sel_args(ones), sel_args(zeros)
        # select arguments whose answers sit on word / superblock boundaries
        run = 0
        bj1, bj0 = [], []
        c1 = c0 = 0
        for i, b in enumerate(bits):
            if b:
                c1 += 1
            else:
                c0 += 1
            if i % 32 in (0, 31) or i % s in (0, s - 1):
                (bj1 if b else bj0).append(c1 if b else c0)
        s1 = sorted(set(s1 + rnd.sample(bj1, min(10, len(bj1)))))
        s0 = sorted(set(s0 + rnd.sample(bj0, min(10, len(bj0)))))
    q = []
    for p in pos:
        q += ["bs_q access %d" % p, "bs_q rank1 %d" % p, "bs_q rank0 %d" % p]
    q += ["bs_q select1 %d" % j for j in s1]
    q += ["bs_q select0 %d" % j for j in s0]
    # outside the domain of the plain definition: recorded, compared with the concrete model for RG
    xq = ["bs_xq select1 %d" % (ones + 1), "bs_xq select0 %d" % (zeros + 1), "bs_xq select0 0", "bs_xq select1 0"]
    return q, xq


def bs_case(rnd, name, kind, param, bits, pat):
    q, xq = bs_queries(rnd, bits, kind, param)
    cmds = ["bs_build %s %d %s" % (kind, param, "".join(map(str, bits)) or "-")]
    if kind == "RG":
        cmds += ["bs_dump_rs", "bs_image"]
    cmds += q + xq + ["bs_reload"]
    if kind == "RG":
        cmds += ["bs_dump_rs"]
    cmds += q + xq
    return Case(name, cmds, {"kind": "bs", "bskind": kind, "param": param, "bits": bits, "pat": pat})


def mk_syms(rnd, n, shape):
    if shape == "one":
        return [rnd.choice([0, 1, 65, 255])] * n
    if shape == "two":
        a, b = rnd.sample(range(0, 256), 2)
        return [rnd.choice([a, b]) for _ in range(n)]
    if shape == "small":
        al = rnd.sample(range(1, 256), rnd.randint(3, 6))
        return [rnd.choice(al) for _ in range(n)]
    if shape == "bytes":
        return [rnd.randrange(1, 256) for _ in range(n)]
    if shape == "skew":  # one dominant symbol, geometric tail: long Huffman codes
        al = rnd.sample(range(1, 256), 12)
        out = []
        for _ in range(n):
            k = 0
            while k < 11 and rnd.random() < 0.5:
                k += 1
            out.append(al[k])
        return out
    if shape == "sorted":  # long runs, as in a BWT
        al = sorted(rnd.sample(range(1, 256), rnd.randint(2, 8)))
        out = sorted(rnd.choice(al) for _ in range(n))
        return out
    if shape == "wide":  # uint symbols beyond a byte
        al = rnd.sample(range(1, 5000), rnd.randint(2, 20))
        return [rnd.choice(al) for _ in range(n)]
    if shape == "zero":  # alphabet containing symbol 0 (terminator of a BWT)
        al = [0] + rnd.sample(range(1, 256), rnd.randint(1, 5))
        return [rnd.choice(al) for _ in range(n)]
    raise ValueError(shape)


SHAPES = ["one", "two", "small", "bytes", "skew", "sorted", "wide", "zero"]


def seq_case(rnd, name, kind, bk, param, syms, shape):
    n = len(syms)
    pos = list(range(n)) if n <= 40 else sorted(set([0, 1, 31, 32, 33, 63, 64, 65, n - 2, n - 1] + [rnd.randrange(n) for _ in range(25)]))
    pos = [p for p in pos if 0 <= p < n]
    alpha = sorted(set(syms))
    cs = alpha if len(alpha) <= 6 else rnd.sample(alpha, 6)
    q = ["seq_q access %d" % p for p in pos]
    for c in cs:
        cnt = syms.count(c)
        rp = pos if n <= 40 else rnd.sample(pos, min(12, len(pos)))
        q += ["seq_q rank %d %d" % (c, p) for p in rp]
        js = sorted(set(j for j in [1, 2, cnt - 1, cnt, (cnt + 1) // 2] + [rnd.randint(1, cnt) for _ in range(4)] if 1 <= j <= cnt))
        q += ["seq_q select %d %d" % (c, j) for j in js]
    # outside the domain: select beyond the number of occurrences / j = 0, a symbol that does not occur
    c0 = cs[0]
    absent = next(x for x in range(1, 6000) if x not in alpha)
    xq = ["seq_xq select %d %d" % (c0, syms.count(c0) + 1), "seq_xq select %d 0" % c0,
          "seq_xq rank %d %d" % (absent, n - 1), "seq_xq select %d 1" % absent]
    cmds = ["seq_build %s %s %d %s" % (kind, bk, param, " ".join(map(str, syms)))]
    if kind == "WT":
        cmds.append("seq_dump")
    cmds += q + xq + ["seq_reload"] + q
    return Case(name, cmds, {"kind": "seq", "skind": kind, "bk": bk, "param": param, "syms": syms, "shape": shape})


def sanitizer_scope(case):
    """a sanitizer report during build/save/load counts as a failure for the structures the dictionaries use (RG, RRR, the two
    wavelet trees); SDArray / DArray are bundled but used by no dictionary, and C19 speaks about their answers only"""
    return case.meta.get("bskind") not in ("SDARRAY", "DARRAY")


def gen(tier, seed):
    rnd = random.Random(seed * 104729 + 19)
    cases = []
    per_kind = 20 if tier == "quick" else 200
    ci = 0
    for kind, param in BS_KINDS:
        ls = lengths_for(kind, param, tier)
        # every pattern at least once per kind, lengths cycled so that each boundary length is met
        chosen = []
        for k in range(per_kind):
            n = ls[(k * 7 + rnd.randrange(3)) % len(ls)] if k >= len(PATS) else rnd.choice(ls)
            pat = PATS[k % len(PATS)]
            chosen.append((n, pat))
        for n, pat in chosen:
            bits = mk_bits(rnd, n, pat)
            cases.append(bs_case(rnd, "bs%d_%s%d_%s_%d" % (ci, kind, param, pat, n), kind, param, bits, pat))
            ci += 1
    # small exhaustive family: every length 1..70 for the RG factors used by the dictionaries
    for n in (range(1, 71) if tier != "quick" else [1, 2, 31, 32, 33, 63, 64, 65, 66, 70]):
        for kind, param in (("RG", 2), ("RG", 4), ("RG", 20)):
            pat = rnd.choice(PATS)
            cases.append(bs_case(rnd, "bx%d_%s%d_%s_%d" % (ci, kind, param, pat, n), kind, param, mk_bits(rnd, n, pat), pat))
            ci += 1
    # wavelet trees
    combos = [("WT", "RG", 2), ("WT", "RG", 4), ("WT", "RG", 20), ("WT", "RRR", 16), ("WT", "RRR", 32), ("WT", "RRR", 128), ("WT", "RRR", 3), ("WT", "RRR", 33),
              ("WTNP", "RG", 20), ("WTNP", "RG", 4), ("WTNP", "RRR", 32)]
    per_combo = 8 if tier == "quick" else 80
    for kind, bk, param in combos:
        for k in range(per_combo):
            shape = SHAPES[k % len(SHAPES)]
            n = rnd.choice([1, 2, 3, 31, 32, 33, 64, 65, 100, 257, 300] if k >= 3 else [1, 2, 33])
            syms = mk_syms(rnd, n, shape)
            cases.append(seq_case(rnd, "sq%d_%s_%s%d_%s_%d" % (ci, kind, bk, param, shape, n), kind, bk, param, syms, shape))
            ci += 1
    # two wavelet trees alive in one process, with different Huffman codes for the symbols they share, queried alternately
    # for the SAME symbol (per-instance state of the coder / of the nodes must not leak between structures)
    for k in range(6 if tier == "quick" else 40):
        kind, bk, param = rnd.choice([("WT", "RG", 20), ("WT", "RRR", 32), ("WT", "RG", 4), ("WTNP", "RG", 20)])
        sigma = rnd.choice([3, 4, 6, 9])
        alpha = rnd.sample(range(1, 60), sigma)
        n = rnd.choice([40, 100, 300, 700])
        wa = [2.0 ** (-i) for i in range(sigma)]
        A = rnd.choices(alpha, weights=wa, k=n)
        B = rnd.choices(alpha, weights=wa[::-1], k=n)           # reversed skew: every shared symbol gets a different codeword
        A[:sigma], B[:sigma] = alpha, alpha[::-1]                # every symbol occurs in both (rank of an absent symbol is outside the domain)
        cmds = ["seq_build %s %s %d %s" % (kind, bk, param, " ".join(map(str, A))), "seq_swap",
                "seq_build %s %s %d %s" % (kind, bk, param, " ".join(map(str, B)))]
        cur = 1
        for _ in range(40):
            c = rnd.choice(alpha)
            i = rnd.randrange(n)
            q = rnd.choice(["seq_q rank %d %d" % (c, i), "seq_q access %d" % i, "seq_q rank %d %d" % (c, n - 1)])
            cmds += [q, "seq_swap", q if rnd.random() < 0.7 else "seq_q rank %d %d" % (c, rnd.randrange(n))]
        # a third structure built right after a query on another one
        cmds += ["seq_q rank %d %d" % (alpha[-1], n - 1), "seq_build %s %s %d %s" % (kind, bk, param, " ".join(map(str, B[::-1]))),
                 "seq_q rank %d %d" % (alpha[-1], n - 1), "seq_q access 0"]
        cases.append(Case("sp%d_%s_%s%d_%d" % (ci, kind, bk, param, n), cmds, {"kind": "seqpair", "skind": kind, "bk": bk, "param": param}))
        ci += 1
    return cases


# ---------------------------------------------------------------------------
def naive_bs(bits, op, a):
    n = len(bits)
    if op == "access":
        return bits[a]
    if op == "rank1":
        return sum(bits[:a + 1])
    if op == "rank0":
        return a + 1 - sum(bits[:a + 1])
    want = 1 if op == "select1" else 0
    c = 0
    for i, b in enumerate(bits):
        if b == want:
            c += 1
            if c == a:
                return i
    return None


def naive_seq(syms, t):
    if t[0] == "access":
        return syms[int(t[1])]
    c = int(t[1])
    a = int(t[2])
    if t[0] == "rank":
        return sum(1 for x in syms[:a + 1] if x == c)
    k = 0
    for i, x in enumerate(syms):
        if x == c:
            k += 1
            if k == a:
                return i
    return None


def parse_tree(s, i=0):
    """tree grammar of seq_dump: '-' | L(sym,count) | N(bits,left,right)"""
    if s[i] == "-":
        return None, i + 1
    if s[i] == "L":
        j = s.index(")", i)
        a, b = s[i + 2:j].split(",")
        return ("L", int(a), int(b)), j + 1
    assert s[i] == "N"
    j = s.index(",", i)
    bits = s[i + 2:j]
    l, k = parse_tree(s, j + 1)
    assert s[k] == ","
    r, k = parse_tree(s, k + 1)
    assert s[k] == ")"
    return ("N", bits, l, r), k + 1


def ref_tree(codes, syms, lvl=0):
    """the shape the Coq model wt_build prescribes, for the implementation's own code table"""
    def bit(x):
        c = codes[x]
        return c[lvl] if lvl < len(c) else "0"
    bits = "".join(bit(x) for x in syms)
    left = [x for x in syms if bit(x) == "0"]
    right = [x for x in syms if bit(x) == "1"]

    def child(c):
        if not c:
            return None
        if all(x == c[0] for x in c):
            return ("L", c[0], len(c))
        return ref_tree(codes, c, lvl + 1)
    return ("N", bits, child(left), child(right))


def input_classes(case):
    """tags of input classes with a known defect of the pinned tree (for known_findings.json predicates)"""
    m = case.meta
    tags = []
    if m.get("kind") == "bs" and m["bskind"] == "DARRAY" and sum(m["bits"]) == 0:
        tags.append("darray_no_ones")            # BitSequenceDArray never initialises itself when the vector has no 1
    if m.get("kind") == "seq" and m["skind"] == "WTNP" and set(m["syms"]) == {0}:
        tags.append("wtnp_only_symbol_zero")     # WaveletTreeNoptrs of height 0
    return tags


def evaluate_property(case, out):
    m = case.meta
    fails = []
    if out["status"] != "ok":
        return ["implementation %s on valid input: %s" % (out["status"], " | ".join(out["err"][:3]))]
    lines = out["lines"]
    phase = "fresh"
    nq = 0
    if m["kind"] == "bs":
        bits = m["bits"]
        tag = "%s(%d) n=%d %s" % (m["bskind"], m["param"], len(bits), m["pat"])
        for l in lines:
            t = l.split()
            if t[0] == "bs_build":
                if "n=%d" % len(bits) not in t or "ones=%d" % sum(bits) not in t:
                    fails.append("%s: %s, expected n=%d ones=%d" % (tag, l, len(bits), sum(bits)))
            elif t[0] == "bs_reload":
                phase = "reloaded"
                kv = dict(x.split("=") for x in t[1:] if "=" in x)
                if "consumed" not in kv:
                    fails.append("%s: reload failed: %s" % (tag, l))
                elif kv["consumed"] != kv["of"]:
                    fails.append("%s: loader consumed %s of %s image bytes" % (tag, kv["consumed"], kv["of"]))
                elif int(kv["n"]) != len(bits) or int(kv["ones"]) != sum(bits):
                    fails.append("%s: reloaded object reports n=%s ones=%s" % (tag, kv["n"], kv["ones"]))
            elif t[0] == "bs_q":
                nq += 1
                exp = naive_bs(bits, t[1], int(t[2]))
                if exp is None:
                    continue
                if len(t) < 5 or t[4] != str(exp):
                    fails.append("%s %s: %s(%s) = %s, plain definition gives %d" % (tag, phase, t[1], t[2], " ".join(t[4:]) or "?", exp))
        nexp = sum(1 for c in case.cmds if c.startswith("bs_q "))
        if nq != nexp:
            fails.append("%s: %d of %d query lines present" % (tag, nq, nexp))
    elif m["kind"] == "seqpair":
        cur, parked = [], []
        tag = "%s/%s(%d) two sequences side by side" % (m["skind"], m["bk"], m["param"])
        for cmd, l in zip(case.cmds, lines):
            t = l.split()
            ct = cmd.split()
            if ct[0] == "seq_build":
                cur = [int(x) for x in ct[4:]]
            elif ct[0] == "seq_swap":
                cur, parked = parked, cur
            elif ct[0] == "seq_q":
                nq += 1
                if t[0] != "seq_q" or "=" not in t:
                    fails.append("%s: %s -> %s" % (tag, cmd, l[:80]))
                    continue
                exp = naive_seq(cur, t[1:t.index("=")])
                got = t[t.index("=") + 1:]
                if exp is not None and got != [str(exp)]:
                    fails.append("%s: %s = %s, plain definition gives %d" % (tag, " ".join(t[1:t.index("=")]), " ".join(got) or "?", exp))
        nexp = sum(1 for c in case.cmds if c.startswith("seq_q "))
        if nq != nexp:
            fails.append("%s: %d of %d query lines present" % (tag, nq, nexp))
    else:
        syms = m["syms"]
        tag = "%s/%s(%d) n=%d %s" % (m["skind"], m["bk"], m["param"], len(syms), m["shape"])
        for l in lines:
            t = l.split()
            if t[0] == "seq_reload":
                phase = "reloaded"
                kv = dict(x.split("=") for x in t[1:] if "=" in x)
                if "consumed" not in kv:
                    fails.append("%s: reload failed: %s" % (tag, l))
                elif kv["consumed"] != kv["of"]:
                    fails.append("%s: loader consumed %s of %s image bytes" % (tag, kv["consumed"], kv["of"]))
            elif t[0] == "seq_q":
                nq += 1
                exp = naive_seq(syms, t[1:t.index("=")])
                if exp is None:
                    continue
                got = t[t.index("=") + 1:]
                if got != [str(exp)]:
                    fails.append("%s %s: %s = %s, plain definition gives %d" % (tag, phase, " ".join(t[1:t.index("=")]), " ".join(got) or "?", exp))
            elif t[0] == "seq_dump" and len(t) == 3:
                # structural tie of model C: prefix-free code, tree = stable partition by code bits, leaf as soon as one symbol remains
                codes = {}
                for item in t[1][len("codes="):].split(","):
                    k, v = item.split(":")
                    codes[int(k)] = "" if v == "e" else v
                cl = list(codes.items())
                for i, (a, ca) in enumerate(cl):
                    for b, cb in cl[i + 1:]:
                        if ca.startswith(cb) or cb.startswith(ca):
                            fails.append("%s: code table not prefix-free: %d:%s %d:%s" % (tag, a, ca, b, cb))
                tree, _ = parse_tree(t[2][len("tree="):])
                if tree != ref_tree(codes, syms):
                    fails.append("%s: tree shape differs from the modelled construction" % tag)
        nexp = sum(1 for c in case.cmds if c.startswith("seq_q "))
        if nq != nexp:
            fails.append("%s: %d of %d query lines present" % (tag, nq, nexp))
    return fails


# ---------------------------------------------------------------------------
# second phase (layout-level tie of the wavelet-tree model C): the implementation's own code table, read from its
# seq_dump line, is handed to the extracted model (wt_new over the RG model); the model's tree must be the dumped tree
def model_phase(case, impl_out):
    """-> Case for the ORACLE only, or None when the case has no pointer wavelet tree over RG"""
    m = case.meta
    if m.get("kind") != "seq" or m["skind"] != "WT" or m["bk"] != "RG" or impl_out["status"] != "ok":
        return None
    dump = [l for l in impl_out["lines"] if l.startswith("seq_dump codes=")]
    if not dump:
        return None
    codes = dump[0].split()[1][len("codes="):]
    return Case(case.name + "~model", [case.cmds[0], "seq_model " + codes], dict(m, impl_tree=dump[0].split()[2]))


def check_model_phase(mcase, model_out):
    """-> list of disagreements between the modelled tree and the implementation's tree"""
    lines = [l for l in model_out["lines"] if l.startswith("seq_model ")]
    if not lines:
        return ["model produced no seq_model line: %r" % model_out["lines"][:2]]
    t = lines[0].split()
    fails = []
    if t[1] != "separable=true":
        fails.append("implementation's code table does not separate the symbols (%s)" % t[1])
    if t[2] != "answers=spec":
        fails.append("model C answers differ from the plain specification: %s" % t[2])
    if t[3] != mcase.meta["impl_tree"]:
        fails.append("modelled tree differs from the implementation's tree: model %s impl %s" % (t[3][:120], mcase.meta["impl_tree"][:120]))
    return fails
