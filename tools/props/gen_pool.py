"""C09/C10/C11 — worker pool (exactly once, shutdown completes), deterministic parallel block build.

gen(tier, seed) -> cases;  evaluate_property(case, impl_out) -> list of failures (the property itself,
evaluated on the implementation's output, independently of the model)."""
import os, random, re
import vlib
from vlib import Case


def pool_variant():
    """'fixed' when add_task / stop_all_workers of the CURRENT source change the wait predicate's inputs
    while holding shared_mutex, 'pinned' otherwise (decides which variant of the LTS is the model)."""
    src = open(os.path.join(vlib.REPO, "parallel", "Worker.hpp"), "rb").read().decode(errors="replace").replace("\r", "")
    m = re.search(r"void add_task\(std::function<void\(\)> &&task\)\s*\{(.*?)queue_cv\.notify_all\(\);", src, re.S)
    m2 = re.search(r"void stop_all_workers\(\)\s*\{(.*?)queue_cv\.notify_all\(\);", src, re.S)
    ok = m and m2 and "shared_mutex" in m.group(1) and "shared_mutex" in m2.group(1)
    return "fixed" if ok else "pinned"


def sorted_unique_strings(rnd, n, shape):
    out = set()
    while len(out) < n:
        if shape == "short":
            L = rnd.choice([1, 1, 2, 2, 3])
        elif shape == "long":
            L = rnd.choice([5, 9, 17, 40])
        else:
            L = rnd.choice([1, 2, 3, 5, 8, 13])
        alpha = "ab" if shape == "binary" else "abcdefgh"
        out.add("".join(rnd.choice(alpha) for _ in range(L)))
        if shape == "short" and len(out) >= 30:
            break
    return sorted(out)


def gen(tier, seed):
    rnd = random.Random(seed * 104729 + 9)
    variant = pool_variant()
    cases = []
    big = tier != "quick"
    # ---- (a) the real pool: W workers, n tasks, random delays
    Ws = [1, 2, 3, 8]
    ns = [0, 1, 2, 3, 7, 20, 50]
    reps = 2 if not big else 12
    k = 0
    for W in Ws:
        for n in ns:
            for _ in range(reps):
                s = rnd.randrange(1 << 30)
                cases.append(Case("pool%d" % k, ["pool_run %s %d %d %d" % (variant, W, n, s)],
                                  {"kind": "pool", "W": W, "n": n, "variant": variant}))
                k += 1
    # several pools in one process, one after the other (static workers_count, fresh cv/mutex)
    for _ in range(4 if not big else 40):
        cmds = []
        for _ in range(5):
            cmds.append("pool_run %s %d %d %d" % (variant, rnd.choice(Ws), rnd.choice(ns), rnd.randrange(1 << 30)))
        cases.append(Case("pool%d" % k, cmds, {"kind": "poolseq", "variant": variant}))
        k += 1
    # ---- (b) cutting loop: boundary-directed lengths around the cut size
    k = 0
    npart = 60 if not big else 600
    for _ in range(npart):
        n = rnd.choice([1, 1, 2, 3, 4, 5, 8, 13, 30])
        mode = rnd.choice(["ones", "mixed", "big", "exact"])
        lens = []
        cnt = {}
        for _ in range(n):
            if mode == "ones":
                L = rnd.choice([1, 2])
            elif mode == "big":
                L = rnd.choice([3, 10, 25, 60])
            else:
                L = rnd.choice([1, 2, 3, 4, 5, 7, 9])
            # the driver makes the strings of one length distinct with a base-26 counter
            if cnt.get(L, 0) >= 26 ** min(L, 3):
                L = 4
            cnt[L] = cnt.get(L, 0) + 1
            lens.append(L)
        tot = sum(l + 1 for l in lens)
        if mode == "exact":
            # cut exactly at / one below / one above a prefix sum
            j = rnd.randrange(n)
            pre = sum(l + 1 for l in lens[:j + 1])
            cut = max(0, pre + rnd.choice([-1, 0, 1]))
        else:
            cut = rnd.choice([0, 1, 2, 3, 5, 8, 16, 40, tot - 1, tot, tot + 1, 1 << 27])
        cut = max(0, cut)
        cases.append(Case("part%d" % k, ["partition %d %s" % (cut, " ".join(map(str, lens)))],
                          {"kind": "partition", "cut": cut, "lens": lens}))
        k += 1
    # ---- (c) image bytes independent of the thread count
    k = 0
    nimg = 25 if not big else 250
    for _ in range(nimg):
        shape = rnd.choice(["short", "mixed", "long", "binary"])
        n = rnd.choice([1, 2, 3, 6, 12, 40])
        S = sorted_unique_strings(rnd, n, shape)
        tot = sum(len(s) + 1 for s in S)
        cut = rnd.choice([0, 3, 8, 20, max(1, tot // 3), max(1, tot // 2), tot, 1 << 20])
        hexs = " ".join(s.encode().hex() for s in S)
        cmds = ["blocks_image %d %d %s" % (T, cut, hexs) for T in (1, 2, 3, 8)]
        cases.append(Case("img%d" % k, cmds, {"kind": "image", "cut": cut, "S": S}))
        k += 1
    # many blocks: hundreds of tiny block builders overlap in time (shared-state bugs in the builders show here)
    for j in range(2 if not big else 10):
        n = 1500 if j % 2 == 0 else 2500
        S = sorted(set("".join(rnd.choice("abcdefgh") for _ in range(rnd.choice([4, 5, 6, 9]))) for _ in range(n)))
        cut = rnd.choice([8, 16, 24])
        hexs = " ".join(x.encode().hex() for x in S)
        cmds = ["blocks_image %d %d %s" % (T, cut, hexs) for T in (1, 8, 3, 2)]
        cases.append(Case("bigimg%d" % j, cmds, {"kind": "image", "cut": cut, "S": S}))
    return cases


def py_partition(cut, lens):
    """independent re-statement of the cutting rule (not the extracted model)"""
    starts, sizes, first = [], [], []
    acc, qty, cur, new = 0, 0, 0, True
    for i, L in enumerate(lens):
        if new:
            starts.append(qty)
            first.append(L)
            new = False
        acc += L + 1
        qty += 1
        cur += 1
        if i == len(lens) - 1 or acc > cut:
            sizes.append(cur)
            acc, cur, new = 0, 0, True
    return starts, sizes, first


def evaluate_property(case, out):
    fails = []
    m = case.meta
    lines = out["lines"]
    if out["status"] != "ok":
        what = "hang (lost wake-up?)" if out["status"] == "timeout" else out["status"]
        return ["implementation %s: %s" % (what, " | ".join(out["err"][:3]))]
    if m["kind"] in ("pool", "poolseq"):
        for l in lines:
            t = l.split()
            if t[0] != "pool_run":
                continue
            n = int(t[3])
            kv = dict(x.split("=") for x in t[t.index("=") + 1:])
            # exactly once: every per-task counter is 1 and the number of executions is n
            if kv.get("counts_all_one") != "1" or int(kv.get("executed", -1)) != n:
                fails.append("pool %s: %s" % (" ".join(t[1:5]), " ".join(t[6:])))
        if len([l for l in lines if l.startswith("pool_run")]) != len(case.cmds):
            fails.append("missing pool_run result")
    elif m["kind"] == "partition":
        l = [x for x in lines if x.startswith("partition ")]
        if not l:
            return ["no partition line"]
        t = l[0].split()
        kv = dict(x.split("=") for x in t[t.index("=") + 1:])
        tolist = lambda s: [] if s == "-" else [int(x) for x in s.split(",")]
        starts, sizes, sl = tolist(kv["starts"]), tolist(kv["sizes"]), tolist(kv["samplelens"])
        lens = m["lens"]
        # covers S exactly in order, blocks non-empty, starts = prefix sums, samples = first strings
        if sum(sizes) != len(lens) or any(s <= 0 for s in sizes):
            fails.append("blocks do not cover the input: sizes=%s n=%d" % (sizes, len(lens)))
        pre = [sum(sizes[:i]) for i in range(len(sizes))]
        if starts != pre:
            fails.append("starting_indexes %s != prefix sums %s" % (starts, pre))
        if int(kv["parts"]) != len(sizes) or len(sl) != len(sizes):
            fails.append("parts/cut_samples count mismatch")
        elif sl != [lens[p] for p in pre if p < len(lens)]:
            fails.append("cut_samples are not the first strings of the blocks")
        if (starts, sizes, sl) != py_partition(m["cut"], lens):
            fails.append("cutting rule: got %s expected %s" % ((starts, sizes, sl), py_partition(m["cut"], lens)))
    elif m["kind"] == "image":
        vals = []
        for l in lines:
            t = l.split()
            if t[0] == "blocks_image":
                kv = dict(x.split("=") for x in t[t.index("=") + 1:])
                vals.append((t[1], kv))
        if len(vals) != 4:
            fails.append("expected 4 blocks_image lines, got %d" % len(vals))
        for T, kv in vals:
            if kv.get("complete") != "1":
                fails.append("threads=%s: a part is missing after the constructor returned" % T)
            if (kv["len"], kv["fnv"], kv["parts"]) != (vals[0][1]["len"], vals[0][1]["fnv"], vals[0][1]["parts"]):
                fails.append("image differs between thread counts %s and %s" % (vals[0][0], T))
    return fails
