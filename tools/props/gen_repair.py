"""C20 -- Re-Pair is lossless and never merges across terminators.

Protocol (two phases, both through the real code):
  phase 1 (inside gen): the driver is run on `rp_build s1 s2 ...` (resp. `rpd_build hex1 hex2 ...`); it runs the REAL
      compressor exactly as the dictionary constructors do and prints the grammar it produced
      (`terminals= rules= bits= rules_list= raw= cseq= expand=`).  The model has no opinion on these commands.
  phase 2 (the returned cases): `rp_check <input> <terminals> <rules_list> <raw>` built from the phase-1 output.
      The implementation re-runs the compressor (same= tells whether it reproduced the phase-1 grammar) and prints
      everything from the real objects; the extracted model recomputes the same line from the grammar alone:
      terminals (IRePair::prepare), bits (getBits), the compacted sequence (compaction loop on the real raw array),
      the expansion (packed expandRule), the words of G, the bytes of save / save(enc) and the load round trips.
      `ok=` is the verdict of the verified checker check_grammar (the implementation prints the constant 1).
evaluate_property evaluates C20 itself on the implementation's line, independently of the model.
"""
import os, random, sys
import vlib
from vlib import Case

HERE = os.path.dirname(os.path.abspath(__file__))


def _extra_dir():
    return HERE if os.path.exists(os.path.join(HERE, "cmd_repair.inc")) else None


def _kv(line):
    d = {}
    for tok in line.split()[1:]:
        if "=" in tok:
            k, v = tok.split("=", 1)
            d[k] = v
    return d


def _csv(s):
    return [] if s in ("-", "") else [int(x) for x in s.split(",")]


def sequences(tier, rnd):
    """(name, list of symbols 0..255) -- boundary-directed."""
    out = []
    big = tier != "quick"

    def add(name, seq):
        out.append(("%s_%d" % (name, len(out)), list(seq)))

    # degenerate
    add("empty", [])
    add("one0", [0])
    add("one", [5])
    add("one_noterm", [7, 0])
    add("two", [1, 2, 0])
    add("zeros", [0, 0, 0, 0])
    add("noterm", [3, 4, 3, 4, 3, 4])           # no terminator at all
    # no repeated pair
    add("norepeat", list(range(1, 40)) + [0])
    add("norepeat255", list(range(255, 200, -1)) + [0])
    # single string, repetitive
    for k in ([2, 3, 4, 5, 8, 16, 17, 31, 32, 33, 64] + ([127, 128, 129, 255, 256, 257, 1000] if big else [100])):
        add("abab", [97, 98] * k + [0])
        add("run", [97] * k + [0])               # runs of one symbol (overlapping occurrences aaa)
        add("run255", [255] * k + [0])
        add("run1", [1] * k + [0])
    # deep rules: a^(2^k)
    for k in range(1, 11 if big else 8):
        add("pow2", [9] * (2 ** k) + [0])
        add("pow2m1", [9] * (2 ** k - 1) + [0])
        add("pow2p1", [9] * (2 ** k + 1) + [0])
    # fibonacci words: deep, unbalanced rules
    a, b = [1], [1, 2]
    for _ in range(12 if big else 9):
        a, b = b, b + a
        add("fib", b + [0])
    # many short strings separated by 0
    for n in ([2, 3, 10, 50] + ([500] if big else [])):
        add("short", sum(([rnd.choice([97, 98, 99]) for _ in range(rnd.randint(1, 3))] + [0] for _ in range(n)), []))
        add("same", [97, 98, 99, 0] * n)
        add("empties", ([0] * 3 + [97, 98, 0]) * n)
    # the most frequent pair straddles a terminator: x 0 x 0 x 0 ... (exercises the 0 guard of incFreq)
    for n in [2, 3, 4, 8, 33] + ([300] if big else []):
        add("x0", [7, 0] * n)
        add("xy0", [7, 8, 0] * n)
        add("0x", [0, 7] * n + [0])
        add("x00", [7, 0, 0] * n)
        add("xx0", [7, 7, 0] * n)
        add("x0y0", [7, 0, 8, 0] * n)
    # symbols 1 and 255
    add("lohi", [1, 255, 1, 255, 1, 255, 0, 255, 1, 255, 1, 0])
    add("hi", [255, 255, 254, 255, 255, 254, 0])
    add("lo", [1, 1, 2, 1, 1, 2, 0])
    # number of symbols crossing a power of two (bits boundary): terminals + rules = 2^k
    for t in [2, 3, 4, 7, 8, 15, 16, 31, 32, 63, 64, 127, 128, 255]:
        base = list(range(1, t + 1))
        add("bits", base + base + base[: max(1, t // 2)] + [0])
    for goal in [4, 8, 16, 32]:
        # alphabet of 2 symbols, enough distinct repeated pairs to create about `goal` rules
        s = []
        for i in range(goal * 3):
            s += [1 + (i >> j & 1) for j in range(5)] * 2
        add("manyrules", s + [0])
    # the HASHRPF layout: words ended by M = (largest byte + 1), separated by 0, and NO final 0 - the last cell of the
    # sequence is an ordinary symbol (end-of-sequence bookkeeping of the pair replacement)
    for i in range(40 if not big else 400):
        sigma = rnd.choice([2, 3, 4])
        k = rnd.choice([3, 5, 6, 8, 12])
        suf = [rnd.randint(1, sigma) for _ in range(rnd.choice([1, 2, 2, 3]))]
        words = []
        for _ in range(k):
            w = [rnd.randint(1, sigma) for _ in range(rnd.choice([0, 1, 2, 3]))] + (suf if rnd.random() < 0.8 else [rnd.randint(1, sigma)])
            words.append(w)
        M = sigma + 1
        s = []
        for j, w in enumerate(words):
            s += w + [M] + ([0] if j < len(words) - 1 else [])
        add("hashrpf", s)
    # pair hash table growth: more than 0.75 * 131072 distinct pairs alive at once (strings of 25 two-byte "letters" over 361
    # letters: after ~360 rounds the text is a sequence of non-terminals with > 10^5 repeated adjacent pairs).  Too large for the
    # extracted checker (oracle answers SKIP): losslessness is evaluated directly on the implementation's expansion.
    for i in range(1 if not big else 3):
        r2 = random.Random(7000 + i)
        s = []
        for j in range(650000):
            x = r2.randrange(361)
            s += [2 + x // 19, 100 + x % 19]
            if j % 25 == 24:
                s.append(0)
        add("hashgrow", s + [0])
    # random
    nr = 60 if not big else 900
    for i in range(nr):
        sigma = rnd.choice([1, 2, 2, 3, 4, 8, 26, 255])
        n = rnd.choice([1, 2, 3, 5, 8, 13, 40, 100, 300] + ([1000, 3000] if big else []))
        p0 = rnd.choice([0.0, 0.05, 0.2, 0.5])
        hi = rnd.random() < 0.3
        s = []
        for _ in range(n):
            if rnd.random() < p0:
                s.append(0)
            else:
                v = rnd.randint(1, sigma)
                s.append(256 - v if hi else v)
        if rnd.random() < 0.8:
            s.append(0)
        add("rand", s)
    # repetitive random: concatenation of few blocks
    for i in range(30 if not big else 300):
        blocks = [[rnd.randint(1, 4) for _ in range(rnd.randint(1, 6))] + ([0] if rnd.random() < 0.5 else [])
                  for _ in range(rnd.randint(1, 4))]
        s = sum((rnd.choice(blocks) for _ in range(rnd.randint(2, 60 if not big else 300))), [])
        add("blocks", s + [0])
    return out


def string_sets(tier, rnd):
    """sorted, distinct, non-empty strings without byte 0 for the real StringDictionaryRPDAC."""
    out = []
    big = tier != "quick"

    def add(name, S):
        S = sorted(set(bytes(s) for s in S if len(s) > 0))
        if S:
            out.append(("dict_%s_%d" % (name, len(out)), S))

    add("single", [b"abababababababab"])
    add("single1", [b"a"])
    add("ladder", [b"a" * k for k in range(1, 20)])
    add("pow", [b"ab" * (2 ** k) for k in range(0, 7)])
    add("norepeat", [bytes([i, i + 1]) for i in range(1, 60, 2)])
    add("hi", [bytes([255] * k) for k in range(1, 9)] + [bytes([1] * k) for k in range(1, 9)])
    add("last1", [b"ab", b"abab", b"c"])
    add("all1", [b"a", b"b", b"c"])
    for i in range(25 if not big else 250):
        sigma = rnd.choice([1, 2, 3, 26])
        n = rnd.choice([1, 2, 3, 8, 33, 100])
        add("rand", [bytes(rnd.randint(97, 96 + sigma) for _ in range(rnd.randint(1, rnd.choice([2, 5, 30]))))
                     for _ in range(n)])
    return out


def gen(tier, seed):
    rnd = random.Random(seed * 104729 + 20)
    seqs = sequences(tier, rnd)
    sets = string_sets(tier, rnd)
    # ---- phase 1: the real compressor
    exe, msg = vlib.build_driver("asan", extra_dir=_extra_dir())
    if exe is None:
        raise RuntimeError("driver build failed: " + msg)
    p1 = [Case("p1_" + name, ["rp_build " + " ".join(map(str, s))], {}) for name, s in seqs]
    p1 += [Case("p1_" + name, ["rpd_build " + " ".join(x.hex() for x in S)], {}) for name, S in sets]
    res = vlib.run_cases(exe, p1, tag="impl-p1", timeout_case=300)
    cases = []
    for name, s in seqs:
        o = res.get("p1_" + name, {"lines": [], "status": "missing", "err": []})
        meta = {"kind": "seq", "input": s, "phase1_status": o["status"], "phase1_err": o["err"][:4]}
        line = o["lines"][0] if o["lines"] else ""
        if o["status"] == "ok" and line.startswith("rp_build "):
            d = _kv(line)
            meta["phase1"] = d
            cmd = "rp_check %s %s %s %s" % (",".join(map(str, s)) or "-", d["terminals"], d["rules_list"], d["raw"])
        else:
            # phase 1 failed: keep the case so that the failure is evaluated (the model will not agree)
            cmd = "rp_check %s 1 - %s" % (",".join(map(str, s)) or "-", ",".join(map(str, s)) or "-")
        cases.append(Case(name, [cmd], meta))
    for name, S in sets:
        o = res.get("p1_" + name, {"lines": [], "status": "missing", "err": []})
        meta = {"kind": "dict", "strings": [x.hex() for x in S], "phase1_status": o["status"], "phase1_err": o["err"][:4]}
        line = o["lines"][0] if o["lines"] else ""
        if o["status"] == "ok" and line.startswith("rpd_build "):
            d = _kv(line)
            meta["phase1"] = d
            cmd = "rpd_check %s %s %s %s" % (",".join(x.hex() for x in S), d["terminals"], d["rules_list"], d["seqs"])
        else:
            cmd = "rpd_check %s 1 - -" % ",".join(x.hex() for x in S)
        cases.append(Case(name, [cmd], meta))
    return cases


def _bits(n):
    return n.bit_length()


def evaluate_property(case, out):
    """C20 on the implementation's own output (independent of the model)."""
    fails = []
    m = case.meta
    if m.get("phase1_status") != "ok" or "phase1" not in m:
        return ["compressor run (phase 1) %s: %s" % (m.get("phase1_status"), " | ".join(m.get("phase1_err", [])))]
    if out["status"] != "ok":
        return ["implementation %s on valid input: %s" % (out["status"], " | ".join(out["err"][:3]))]
    if not out["lines"]:
        return ["no output"]
    d = _kv(out["lines"][0])
    p1 = m["phase1"]
    if d.get("same") != "1":
        fails.append("compressor is not deterministic: second run produced a different grammar")
    t, r, b = int(d["terminals"]), int(d["rules"]), int(d["bits"])
    rules = [tuple(int(x) for x in p.split(":")) for p in p1["rules_list"].split(",")] if p1["rules_list"] != "-" else []
    if len(rules) != r:
        fails.append("rules=%d but %d rules listed" % (r, len(rules)))
    for i, (a, bb) in enumerate(rules):
        if a == 0 or bb == 0:
            fails.append("rule %d = (%d,%d) contains the terminator 0" % (i, a, bb))
        if a >= t + i or bb >= t + i:
            fails.append("rule %d = (%d,%d) refers forward (terminals=%d)" % (i, a, bb, t))
        if a >= (1 << b) or bb >= (1 << b):
            fails.append("rule %d = (%d,%d) does not fit %d bits" % (i, a, bb, b))
    if m["kind"] == "seq":
        inp = m["input"]
        if _csv(d["expand"]) != inp:
            fails.append("expansion differs from the input: got %s" % d["expand"][:120])
        cseq = _csv(d["cseq"])
        for s in cseq:
            if s >= (1 << b):
                fails.append("sequence symbol %d does not fit %d bits" % (s, b))
                break
            if s >= t + r:
                fails.append("sequence symbol %d is not a terminal or rule (terminals=%d rules=%d)" % (s, t, r))
                break
        if cseq.count(0) != inp.count(0):
            fails.append("number of terminators changed: %d -> %d" % (inp.count(0), cseq.count(0)))
        if d.get("reload") != "1" or d.get("reloadseq") != "1":
            fails.append("grammar changed across save/load (reload=%s reloadseq=%s)" % (d.get("reload"), d.get("reloadseq")))
    else:
        want = ",".join(m["strings"])
        if d["extract"] != want:
            fails.append("extract through the real dictionary differs: got %s want %s" % (d["extract"][:100], want[:100]))
        for sq in p1["seqs"].split(","):
            for s in sq.split("."):
                if s and (int(s) >= (1 << b) or int(s) == 0):
                    fails.append("sequence symbol %s does not fit %d bits / is a terminator" % (s, b))
    return fails[:10]
