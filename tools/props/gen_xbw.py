"""XBW dictionary (StringDictionaryXBW / XBW): locate, extract, locatePrefix, extractPrefix.

Protocol (two phases, both through the real code):
  phase 1 (inside gen): `xbw_build S...` builds a real StringDictionaryXBW, saves it, reloads the image and dumps
      from the loaded XBW object the structures its queries run on (alpha labels, last bits, A bits, mapping,
      unmap, select_A, maxLabel, nodesCount).
  phase 2 (the returned cases): `xbw_check <S> <dump>` followed by `xbw_q op arg` lines.  The implementation rebuilds
      and reloads the dictionary (same= tells whether it reproduced the phase-1 arrays) and answers every query on
      the real loaded object; the oracle rebuilds the derived members with the model of XBW::XBW(istream&)
      (derived=), runs the verified checker xbw_check on the DUMPED arrays (ok=) and answers the queries with the
      extracted algorithm-level model run on the dumped arrays, flagging MODEL-MISMATCH when that differs from the
      abstract specification composed with the ID order the model exhibits (xbw_order) on an in-scope query.
evaluate_property recomputes the property itself in python on the implementation's lines, independently of the
model: locate/extract are mutually inverse bijections [1,n] <-> S (the numbering itself is free), absent strings
give 0, out-of-range ids give NULL, the prefix streams are exactly the sets of members with the prefix (IDs
consistent with the implementation's own locate answers), each once.
"""
import os, random
import vlib
from vlib import Case

HERE = os.path.dirname(os.path.abspath(__file__))


def _extra_dir():
    return HERE if os.path.exists(os.path.join(HERE, "cmd_xbw.inc")) else None


def _kv(line):
    d = {}
    for tok in line.split()[1:]:
        if "=" in tok:
            k, v = tok.split("=", 1)
            d[k] = v
    return d


def hx(b):
    return b.hex() if b else "-"


def string_sets(tier, rnd):
    out = []
    big = tier != "quick"

    def add(name, S):
        S = sorted(set(bytes(s) for s in S if len(s) > 0))
        if S:
            out.append(("%s_%d" % (name, len(out)), S))

    add("single1", [b"a"])
    add("single", [b"abracadabra"])
    add("two", [b"a", b"b"])
    add("two_rev", [b"ab", b"ba"])                           # ID order (reverse paths) differs from lexicographic
    add("aaaa", [b"aaaa"])
    add("ladder", [b"a" * k for k in range(1, 9)])           # every member is a proper prefix of the next
    add("ladder2", [b"abcdefgh"[:k] for k in range(1, 9)])
    add("ladder3", [b"x", b"xy", b"xyz", b"xyzx", b"xyzxy", b"y", b"yx", b"z"])
    add("shared", [b"prefix_" + bytes([c]) for c in b"abcdef"] + [b"prefix_"])
    add("shared2", [b"commonstem" + t for t in (b"", b"a", b"ab", b"b", b"ba", b"c")] + [b"common", b"com"])
    add("suffixes", [b"banana"[i:] for i in range(6)])        # shared SUFFIXES: equal upward paths
    add("banana", [b"banana", b"bandana", b"ananas", b"nab", b"an", b"na"])
    add("lohi", [bytes([2]), bytes([2, 2]), bytes([254]), bytes([254, 254]), bytes([2, 254]), bytes([254, 2])])
    add("lohi2", [bytes([2, 3, 2]), bytes([3]), bytes([253, 254]), bytes([254, 253, 254, 253])])
    add("only02", [bytes([2])])
    add("onlyfe", [bytes([254])])
    add("fe_ladder", [bytes([254]) * k for k in range(1, 6)])
    add("chars", [bytes([c]) for c in range(97, 123)])       # single characters
    add("chars_all", [bytes([c]) for c in range(2, 255)])    # every admissible byte is a label
    add("sparse_alpha", [bytes([2, 200]), bytes([100, 2]), bytes([200, 100, 200])])
    add("period", [b"abab", b"ababab", b"bababa", b"ab", b"ba", b"abababab"])
    add("nested", [b"abc", b"xabc", b"abcx", b"xabcx", b"xxabcxx", b"ab", b"bc", b"b"])
    add("samechar", [b"zz", b"zzz", b"z", b"zzzzzzz"])
    add("long", [bytes(rnd.choice(b"ab") for _ in range(70)), bytes(rnd.choice(b"ab") for _ in range(65))])
    for n in list(range(1, 13)) + [16, 17, 31, 32, 33, 47, 60] + ([64, 100, 200] if big else []):
        add("n%d" % n, [bytes(rnd.choice(b"abc") for _ in range(rnd.randint(1, 6))) for _ in range(n)])
    for i in range(20 if not big else 300):
        sigma = rnd.choice([1, 2, 2, 3, 4, 26])
        n = rnd.choice([1, 2, 3, 5, 8, 13, 20, 40, 60] + ([120, 300] if big else []))
        mx = rnd.choice([1, 2, 4, 9, 20])
        base = rnd.choice([2, 97, 97, 97, 255 - sigma])
        add("rand", [bytes(base + rnd.randrange(sigma) for _ in range(rnd.randint(1, mx))) for _ in range(n)])
    return out


def queries(S, rnd, tier):
    """(op, arg) list, boundary directed."""
    n = len(S)
    used = sorted(set(b for s in S for b in s))
    unused = [b for b in (1, 2, 3, 65, 96, 123, 200, 253, 254) if b not in used]
    q = [("numElements", ""), ("maxLength", "")]
    ids = sorted(set([0, 1, 2, n - 1, n, n + 1, n + 2, (1 << 32) - 1, 1 << 32, (1 << 32) + 1, (1 << 64) - 1]
                     + [rnd.randint(1, n) for _ in range(4)]))
    if n <= 64:
        ids = sorted(set(ids) | set(range(1, n + 1)))          # every id: the bijection is checked completely
    for i in ids:
        if i >= 0:
            q.append(("extract", str(i)))
    members = S if len(S) <= 64 else rnd.sample(S, 64)
    pats = set()
    for s in members:
        q.append(("locate", hx(s)))
    for s in (members if len(members) <= 14 else rnd.sample(members, 14)):
        pats.add(s)
        for L in sorted(set([1, 2, len(s) - 1])):
            if 0 < L <= len(s):
                pats.add(s[:L])                                    # proper prefixes
                pats.add(s[len(s) - L:])                           # suffixes (usually absent as prefixes)
        pats.add(s + bytes([used[0]]))                             # one byte too long
        pats.add(s + bytes([used[-1]]))
        pats.add(bytes([used[-1]]) + s)
        if len(s) > 1:
            t = bytearray(s)
            t[rnd.randrange(len(s))] = rnd.choice(used)
            pats.add(bytes(t))                                     # one inner byte changed
            pats.add(s[::-1])                                      # the reverse (the ID order is by reverse paths)
    for b in used[:5] + used[-2:]:
        pats.add(bytes([b]))
        pats.add(bytes([b, b]))
    for b in unused[:4]:
        pats.add(bytes([b]))                                       # bytes outside the alphabet
        pats.add(S[0][:1] + bytes([b]))
        pats.add(bytes([b]) + S[-1][-1:])
        pats.add(S[0] + bytes([b]))
    pats.add(S[-1] + S[-1])                                        # longer than every member
    pats = sorted(p for p in pats if p)
    lim = 60 if tier == "quick" else 120
    if len(pats) > lim:
        pats = rnd.sample(pats, lim)
    mxl = max(len(s) for s in S)
    for p in pats:
        q.append(("locate", hx(p)))
        q.append(("locatePrefix", hx(p)))
        if rnd.random() < 0.6:
            q.append(("extractPrefix", hx(p)))
    # the empty pattern (locate answers 0 since 9d5d76b) and patterns longer than the iterator's buffer of
    # maxlength+1 = maxlen+2 bytes (extractPrefix answers NULL for an empty interval since 0064a33)
    q.append(("locate", "-"))
    for extra in (3, 4, 17):
        long_p = (S[0] * (mxl + extra))[:mxl + extra]
        q.append(("extractPrefix", hx(long_p)))
        q.append(("locate", hx(long_p)))
    return q


def probes(S):
    """Queries outside the theorems' scope on which the pinned tree misbehaves (each reproduced by the model):
    (op, arg, class)."""
    mxl = max(len(s) for s in S)
    long_p = (S[0] * (mxl + 3))[:mxl + 3]
    return [("locate", hx(S[0] + b"\xff"), "xbw_ff_query"),           # terminator label inside the pattern: wild read
            ("locatePrefix", "-", "xbw_empty_query"),                  # duplicates, never-ending stream
            ("extractPrefix", "-", "xbw_empty_query")]                 # unbounded recursion


def gen(tier, seed, with_probes=False):
    rnd = random.Random(seed * 15485863 + 11)
    sets = string_sets(tier, rnd)
    exe, msg = vlib.build_driver("asan", extra_dir=_extra_dir())
    if exe is None:
        raise RuntimeError("driver build failed: " + msg)
    p1 = [Case("p1_" + nm, ["xbw_build " + " ".join(hx(s) for s in S)], {}) for nm, S in sets]
    res = vlib.run_cases(exe, p1, tag="impl-p1")
    cases = []
    for nm, S in sets:
        o = res.get("p1_" + nm, {"lines": [], "status": "missing", "err": []})
        meta = {"strings": [s.hex() for s in S], "phase1_status": o["status"], "phase1_err": o["err"][:4]}
        line = next((l for l in o["lines"] if l.startswith("xbw_build nodes=")), "")
        sarg = ",".join(hx(s) for s in S)
        if o["status"] == "ok" and line:
            d = _kv(line)
            meta["phase1"] = {k: d[k] for k in ("nodes", "maxLabel", "elements", "maxlength")}
            cmd = "xbw_check %s %s %s %s %s %s %s %s %s %s %s" % (sarg, d["nodes"], d["maxLabel"], d["elements"], d["maxlength"],
                                                                d["alpha"], d["last"], d["A"], d["mapping"], d["unmap"], d["selA"])
        else:
            cmd = "xbw_check %s 0 0 0 0 - - - - - -" % sarg
        qs = queries(S, random.Random(rnd.random()), tier)
        if with_probes:
            pr = probes(S)
            meta["probes"] = {"%s %s" % (op, a): cl for op, a, cl in pr}
            qs += [(op, a) for op, a, _ in pr]
        meta["queries"] = qs
        cases.append(Case(nm, [cmd] + ["xbw_q %s %s" % (op, a) if a else "xbw_q %s" % op for op, a in qs], meta))
    return cases


# ---- the property itself, recomputed in python ----------------------------------------
def evaluate_property(case, out):
    m = case.meta
    fails = []
    if m.get("phase1_status") != "ok" or "phase1" not in m:
        return ["construction (phase 1) %s: %s" % (m.get("phase1_status"), " | ".join(m.get("phase1_err", [])))]
    if out["status"] != "ok":
        return ["implementation %s on valid input: %s" % (out["status"], " | ".join(out["err"][:3]))]
    S = [bytes.fromhex(x) for x in m["strings"]]
    Sset = set(S)
    n = len(S)
    lines = out["lines"]
    if not lines or not lines[0].startswith("xbw_check "):
        return ["no xbw_check line"]
    d = _kv(lines[0])
    if d.get("same") != "1":
        fails.append("construction is not reproducible: the second build produced different arrays")
    if d.get("elements") != str(n):
        fails.append("elements=%s, expected %d" % (d.get("elements"), n))
    qs = m["queries"]
    if len(lines) - 1 != len(qs):
        fails.append("expected %d query lines, got %d" % (len(qs), len(lines) - 1))
    notes = out.get("notes", {})
    probes_ = m.get("probes", {})
    ans = []
    for k, ((op, arg), line) in enumerate(zip(qs, lines[1:])):
        if "%s %s" % (op, arg) in probes_:
            ans.append(None)            # out-of-scope probe of a recorded defect: see probe_report()
            continue
        if (k + 1) in notes:
            fails.append("%s %s: %s" % (op, arg, "; ".join(notes[k + 1])[:200]))
            ans.append(None)
            continue
        if "=" not in line:
            fails.append("%s %s: malformed line %r" % (op, arg, line[:80]))
            ans.append(None)
            continue
        ans.append(line.split("=", 1)[1])
    # pass 1: the numbering the implementation exhibits
    id_of, str_of = {}, {}
    for (op, arg), a in zip(qs, ans):
        if a is None:
            continue
        p = bytes.fromhex(arg) if op in ("locate", "locatePrefix", "extractPrefix") and arg not in ("", "-") else b""
        if op == "numElements" and a != " %d" % n:
            fails.append("numElements:%s" % a)
        if op == "maxLength" and a != " %d" % (max(len(s) for s in S) + 1):
            fails.append("maxLength:%s" % a)
        if op == "locate":
            try:
                v = int(a.split()[0])
            except Exception:
                fails.append("locate %s: unparsable%s" % (arg, a[:60]))
                continue
            if "PATTERN-MODIFIED" in a:
                fails.append("locate %s: pattern buffer modified" % arg)
            if p in Sset:
                if not (1 <= v <= n):
                    fails.append("locate %s (member): id %d not in [1,%d]" % (arg, v, n))
                elif id_of.setdefault(p, v) != v:
                    fails.append("locate %s: two different ids" % arg)
            elif v != 0:
                fails.append("locate %s (absent): got %d, want 0" % (arg, v))
        if op == "extract":
            i = int(arg)
            if 1 <= i <= n:
                parts = a.strip().split("/")
                if a.startswith(" NULL") or len(parts) != 3:
                    fails.append("extract %d: got%s" % (i, a[:60]))
                    continue
                s = bytes.fromhex(parts[0]) if parts[0] != "-" else b""
                if s not in Sset:
                    fails.append("extract %d: %s is not a member" % (i, parts[0]))
                elif parts[1] != str(len(s)) or parts[2] != str(len(s)):
                    fails.append("extract %d: length fields%s" % (i, a[:60]))
                else:
                    str_of[i] = s
            elif a != " NULL/0":
                fails.append("extract %d (out of range): got%s want NULL/0" % (i, a[:60]))
    # bijection: ids of distinct members distinct, extract inverts locate
    if len(set(id_of.values())) != len(id_of):
        fails.append("locate is not injective on members")
    if len(set(str_of.values())) != len(str_of):
        fails.append("extract is not injective on [1,n]")
    for s, i in id_of.items():
        if i in str_of and str_of[i] != s:
            fails.append("extract(locate(%s)) = %s" % (s.hex(), str_of[i].hex()))
    for i, s in str_of.items():
        if s in id_of and id_of[s] != i:
            fails.append("locate(extract(%d)) = %d" % (i, id_of[s]))
    full = len(str_of) == n                                     # complete ID -> string table known
    # pass 2: prefix streams
    for (op, arg), a in zip(qs, ans):
        if a is None or op not in ("locatePrefix", "extractPrefix"):
            continue
        p = bytes.fromhex(arg) if arg not in ("", "-") else b""
        want = sorted(s for s in S if s.startswith(p))
        if "PATTERN-MODIFIED" in a:
            fails.append("%s %s: pattern buffer modified" % (op, arg))
        if op == "locatePrefix":
            tok = a.split()
            if not tok or tok[0] != "ids" or "MORE" in tok:
                fails.append("locatePrefix %s: got%s" % (arg, a[:80]))
                continue
            ids = [int(t) for t in tok[1:]]
            if len(set(ids)) != len(ids):
                fails.append("locatePrefix %s: duplicate ids" % arg)
            if any(not (1 <= i <= n) for i in ids):
                fails.append("locatePrefix %s: id out of range" % arg)
            elif full:
                got = sorted(str_of[i] for i in ids)
                if got != want:
                    fails.append("locatePrefix %s: ids denote %d members, %d members have the prefix" % (arg, len(got), len(want)))
            elif len(ids) != len(want):
                fails.append("locatePrefix %s: %d ids, %d members have the prefix" % (arg, len(ids), len(want)))
        else:
            if a.strip() == "NULL":
                got = []
            else:
                tok = a.split()
                if not tok or tok[0] != "strs" or "MORE" in tok:
                    fails.append("extractPrefix %s: got%s" % (arg, a[:80]))
                    continue
                got = []
                bad = False
                for t in tok[1:]:
                    parts = t.split("/")
                    if len(parts) != 3 or parts[0] == "NULL":
                        bad = True
                        break
                    s = bytes.fromhex(parts[0]) if parts[0] != "-" else b""
                    if parts[1] != str(len(s)) or parts[2] != str(len(s)):
                        bad = True
                    got.append(s)
                if bad:
                    fails.append("extractPrefix %s: malformed / wrong length fields%s" % (arg, a[:80]))
                    continue
            if sorted(got) != want:
                fails.append("extractPrefix %s: got %d strings, want %d (%s)" % (arg, len(got), len(want), a[:80]))
    return fails[:10]


def probe_report(case, impl, model):
    """For cases generated with with_probes=True: (query, class, implementation observation, model line)."""
    rep = []
    pr = case.meta.get("probes", {})
    notes = impl.get("notes", {})
    for k, (op, arg) in enumerate(case.meta["queries"]):
        key = "%s %s" % (op, arg)
        if key in pr:
            il = impl["lines"][k + 1] if k + 1 < len(impl["lines"]) else "<missing>"
            ml = model["lines"][k + 1] if k + 1 < len(model["lines"]) else "<missing>"
            rep.append((key, pr[key], il.split("=", 1)[-1].strip()[:60] + " " + "; ".join(notes.get(k + 1, []))[:120], ml.split("=", 1)[-1].strip()[:60]))
    return rep
