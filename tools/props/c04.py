"""C04 — prefix search is exact: precisely the members that start with the pattern."""
from props import dictcheck as DC, dictcommon as D
from props.subgen import Slice


def boundary_prefixes(rnd, S, b):
    """prefixes whose match range spans 1 / 2 / many buckets or ends exactly at a bucket boundary"""
    out = []
    n = len(S)
    for start in range(0, n, b):
        for end in (start + b - 1, start + b, start + 2 * b - 1, start + 2 * b):
            if end < n:
                x, y = S[max(0, start - 1 if rnd.random() < 0.5 else start)], S[end]
                k = 0
                while k < len(x) and k < len(y) and x[k] == y[k]:
                    k += 1
                if k > 0:
                    out.append(x[:k])
    rnd.shuffle(out)
    return out[:12]


def make_cmds(rnd, kind, S, params, tier):
    phases = ("reloaded",) if kind in D.FRESH_BROKEN else ("fresh", "reloaded")
    cmds, names = DC.std_phase_cmds(S, kind, params, phases)
    b = 2
    if kind in D.FC_KINDS:
        b = max(2, int(params[0]))
    ps = D.gen_prefixes(rnd, S, 30) + boundary_prefixes(rnd, S, b)
    seen, pp = set(), []
    ps.append(b"")             # every member begins with the empty pattern
    for p in ps:
        if p not in seen:
            seen.add(p)
            pp.append(p)
    for dn in names:
        if kind == "XBW":   # IDs are not lexicographic: the ID -> string table comes from extract
            cmds += ["q %s extract %d" % (dn, i) for i in range(1, len(S) + 1)]
        for p in pp:
            cmds += ["q %s locatePrefix %s" % (dn, D.hx(p)), "q %s extractPrefix %s" % (dn, D.hx(p))]
            if kind == "PFC":
                cmds += ["mq %s locatePrefix %s" % (dn, D.hx(p)), "mq %s extractPrefix %s" % (dn, D.hx(p))]
    return cmds, names, {}


def extra_eval(c, io, mo):
    fails = []
    for k, notes in io.get("notes", {}).items():
        for x in notes:
            if x.startswith("asan ") and not any(y.startswith("crash ") for y in notes):
                t = x.split()
                cmd = c.cmds[k] if k < len(c.cmds) else ""
                if not cmd.startswith("mq "):
                    fails.append(D.Fail(t[2], "sanitizer report during a prefix query that returned: " + " ".join(t[4:]), cmd,
                                        ["memory_report", "site:" + " ".join(t[4:])], t[1]))
    return fails


from props import gen_rpdac, gen_rpfc, gen_xbw, gen_htfc, gen_htfcit, gen_hhtfc
CFG = DC.Config("C04", D.PREFIX_KINDS, make_cmds, nsets=(12, 30), big=True, extra_eval=extra_eval, components=[gen_rpdac, gen_rpfc, gen_xbw, Slice(gen_htfc, 5, 2, 3), Slice(gen_htfcit, 8, 3, 2), Slice(gen_hhtfc, 8, 2, 3)],
                rule="the eight prefix-capable kinds; patterns: prefixes of members (every length up to 3, sampled beyond), members, "
                     "prefix + one byte, longer than every member, before / after all members, bytes occurring nowhere, and "
                     "boundary-directed prefixes whose match range spans 1, 2 or several buckets or ends exactly on a bucket "
                     "boundary (computed from the bucket size in use); both the ID stream and the string stream are drained. "
                     "Non-trivial = a prefix query; distinct by (kind, params, S, command).")


def check(run, tier, seed, replay):
    run.assumptions = ["HTFC/HHTFC/RPHTFC and XBW: specification theorems + correspondence only; RPFC, RPDAC, FM-index: theorems hold for every object certified by its verified checker (run in the component correspondence)"]
    DC.run(run, CFG, tier, seed, replay)
