"""hashdict component: HASHRPDAC and HASHRPF at dictionary level (HashDictDefs.v).

Two-phase protocol (the model is parametric in the hash values and in the grammar the real compressor chose):
  phase 0 (shape 'collide' only): `hash_np hs` / `hash_hv tsize n cand..` (cmd_hash.inc) to select strings sharing few
           start cells;
  phase 1: `hd_build KIND overhead hex..` builds the real dictionary and dumps tsize, elements, maxlength, terminals,
           maxchar, rules, the bitmap, the stored sequences (+ the offset array for HASHRPF) and the hash values of the
           strings; `hd_hv q..` gives bitwisehash:step_value (the repo's inline functions) of every query;
  phase 2 (the cases returned): `hd_model KIND overhead <strings> <hash values> <dump>` followed by
           `hd_q locate hex h1 h2`, `hd_q extract id`, `hd_q table`.  The implementation rebuilds the dictionary
           (same=), for HASHRPF saves it and loads it with options 1, 2, 3, and answers every query with all objects;
           the extracted model answers from the dump (ok= is the verdict of the verified checker).
evaluate_property recomputes the property from the implementation's output alone.
"""
import os, random, sys
import vlib
from vlib import Case

HERE = os.path.dirname(os.path.abspath(__file__))


def _extra_dir():
    return HERE if os.path.exists(os.path.join(HERE, "cmd_hashdict.inc")) else None


def _driver():
    exe, msg = vlib.build_driver("asan", extra_dir=_extra_dir())
    if not exe:
        raise RuntimeError("driver build failed: " + msg)
    return exe


def hash_size(n, overhead):
    return int(n * (1 + (overhead * 1.0 / 100.0))) & 0xFFFFFFFF


def _kv(line):
    d = {}
    for tok in line.split()[1:]:
        if "=" in tok:
            k, v = tok.split("=", 1)
            d[k] = v
    return d


ALPH_MED = list(range(0x61, 0x6b))
ALPH_WIDE = list(range(2, 255))


def string_set(rnd, n, shape):
    """sets with proper-prefix members and long common prefixes, plus the shapes of gen_hash"""
    S = set()
    if shape == "ladder":          # s, s+a, s+a+b, ...: every member is a proper prefix of the next
        base = rnd.choice([b"a", b"ab", b"http://a", bytes([2]), bytes([254])])
        ext = rnd.choice([b"a", b"ab", b"abc", b"/x", bytes([254, 2])])
        s = base
        while len(S) < n:
            S.add(s)
            s += bytes([ext[len(S) % len(ext)]])
    elif shape == "ladder_sib":    # ladder + one sibling per rung
        s = b"k"
        i = 0
        while len(S) < n:
            S.add(s)
            S.add(s + b"z")
            s += bytes([97 + i % 3])
            i += 1
    elif shape == "url":           # long common prefixes, nested paths
        hosts = [b"http://www.a.org", b"http://www.ab.org", b"http://www.b.org/~user"]
        segs = [b"/x", b"/y", b"/xy", b"/index.html", b"/a/b", b"?q=1"]
        tries = 0
        while len(S) < n and tries < 50 * n + 100:
            tries += 1
            s = rnd.choice(hosts)
            for _ in range(rnd.randint(0, 5)):
                s += rnd.choice(segs)
            S.add(s)
            if rnd.random() < 0.5 and len(s) > 3:
                S.add(s[:rnd.randint(1, len(s))])       # a proper prefix is a member as well
    elif shape == "lcp":           # one long common prefix, short distinct tails
        pre = bytes(rnd.choice(ALPH_MED) for _ in range(rnd.choice([20, 50, 120])))
        tries = 0
        while len(S) < n and tries < 50 * n + 100:
            tries += 1
            S.add(pre + bytes(rnd.choice([0x61, 0x62, 0x63]) for _ in range(rnd.randint(0, 5))))
    elif shape == "runs":
        c = rnd.choice([0x61, 2, 254])
        k = 1
        while len(S) < n:
            S.add(bytes([c]) * k)
            k += 1
    elif shape == "single":
        for b in rnd.sample(ALPH_WIDE, min(n, len(ALPH_WIDE))):
            S.add(bytes([b]))
    elif shape == "seq":
        base = rnd.choice([b"k", b"key_", b"\x02\xfe"])
        i = rnd.randrange(1000)
        while len(S) < n:
            S.add(base + str(i).encode())
            i += 1
    else:
        alph, lo, hi = {"small": ([0x61, 0x62], 1, 10), "med": (ALPH_MED, 1, 6), "wide": (ALPH_WIDE, 1, 12),
                        "long": (ALPH_MED, 20, 40), "collide": (ALPH_MED, 1, 8)}[shape]
        tries = 0
        while len(S) < n and tries < 100 * n + 1000:
            S.add(bytes(rnd.choice(alph) for _ in range(rnd.randint(lo, hi))))
            tries += 1
    L = sorted(S)
    if len(L) > n:
        L = sorted(rnd.sample(L, n))
    return L


def absent_queries(rnd, keys, k):
    """non-members; the second list holds the queries containing the byte max(S)+1, which HASHRPF uses as its
    in-band terminator (directed: s_i + mc + s_j, s + mc, s + mc + mc, mc alone)."""
    S = set(keys)
    mc = max(b for s in keys for b in s) + 1
    out, special = [], []

    def add(q):
        q = bytes(q)
        if q and q not in S and q not in out and q not in special and 0 not in q and 255 not in q:
            if mc in q:
                special.append(q)
            else:
                out.append(q)
    if mc <= 0xfe:
        m = bytes([mc])
        if len(keys) <= 4:
            for a in keys:
                for b in keys:
                    add(a + m + b)
        for _ in range(6):
            add(rnd.choice(keys) + m + rnd.choice(keys))
        for _ in range(2):
            add(rnd.choice(keys) + m + rnd.choice(keys) + m + rnd.choice(keys))
        s = rnd.choice(keys)
        add(s + m)
        add(s + m + m)
        add(m)
        add(m + s)
        add(s[:-1] + m)
    for _ in range(6 * k):
        s = rnd.choice(keys)
        m = rnd.randrange(9)
        if m == 0:
            add(s[:-1])
        elif m == 1:
            add(s[:rnd.randint(1, len(s))])
        elif m == 2:
            add(s + bytes([rnd.choice([2, 0x61, 0xfe, s[-1]])]))
        elif m == 3:
            add(s[:-1] + bytes([max(2, min(254, s[-1] + rnd.choice([-1, 1])))]))
        elif m == 4 and len(s) > 1:
            i = rnd.randrange(len(s))
            add(s[:i] + bytes([rnd.choice(ALPH_MED)]) + s[i + 1:])
        elif m == 5:
            add(s + s)
        elif m == 6:
            add(s + rnd.choice(keys))
        elif m == 7:
            add(bytes(rnd.choice(ALPH_MED) for _ in range(rnd.randint(1, 8))))
        else:
            add(bytes(rnd.choice(ALPH_WIDE) for _ in range(rnd.randint(1, 5))))
        if len(out) >= k:
            break
    return out[:k], special[:24]


def _plan(tier, seed):
    rnd = random.Random(seed * 15485863 + 7)
    ncases = 200 if tier == "quick" else 2000
    sizes = [1, 2, 3, 4, 5, 6, 7, 8, 10, 11, 12, 13, 16, 17, 23, 29, 31, 32, 37, 50, 64, 97, 100, 101, 127, 128, 150, 199, 200]
    shapes = ["small", "med", "wide", "seq", "ladder", "ladder_sib", "url", "lcp", "runs", "long", "collide", "collide", "single"]
    plans = []
    for i in range(ncases):
        kind = "HASHRPF" if i % 2 == 0 else "HASHRPDAC"
        n = rnd.choice(sizes) if rnd.random() < 0.7 else rnd.randint(1, 200)
        overhead = rnd.choice([0, 0, 0, 0, 1, 5, 10, 50, 300])   # 0 and n prime: completely full table
        shape = shapes[i % len(shapes)] if i < 2 * len(shapes) else rnd.choice(shapes)
        if shape in ("ladder", "runs"):
            n = min(n, 60)
        plans.append({"kind": kind, "n": n, "overhead": overhead, "shape": shape, "idx": i})
    return rnd, plans


MAXCHAR_QUERIES = True    # queries containing the byte max(S)+1 (HASHRPF's in-band terminator; NOTES.md finding 1)


def gen(tier, seed):
    exe = _driver()
    rnd, plans = _plan(tier, seed)
    # ---- phase 0: colliding sets
    p0 = []
    for p in plans:
        keys = string_set(rnd, p["n"] if p["shape"] != "collide" else 12 * p["n"] + 20, p["shape"])
        if p["shape"] != "collide":
            p["keys"] = keys
            continue
        p["cand"] = keys
        p["n"] = min(p["n"], len(keys))
        p0.append((p, Case("p0_%d" % p["idx"], ["hash_np %d" % hash_size(p["n"], p["overhead"])])))
    if p0:
        out = vlib.run_cases(exe, [c for _, c in p0], tag="impl-p0a")
        p0b = []
        for p, c in p0:
            ts = int(out[c.name]["lines"][0].split()[-1])
            p0b.append((p, Case("p0b_%d" % p["idx"], ["hash_hv %d n %s" % (ts, " ".join(k.hex() for k in p["cand"]))])))
        out = vlib.run_cases(exe, [c for _, c in p0b], tag="impl-p0b")
        for p, c in p0b:
            hv = [int(x.split(":")[0]) for x in out[c.name]["lines"][0].split(" : ")[1].split()]
            buckets = {}
            for k, h in zip(p["cand"], hv):
                buckets.setdefault(h, []).append(k)
            keys = []
            for b in sorted(buckets.values(), key=lambda b: -len(b)):
                keys += b
                if len(keys) >= p["n"]:
                    break
            p["keys"] = sorted(keys[:p["n"]])
    # ---- phase 1
    p1 = []
    for p in plans:
        keys = p["keys"]
        n = p["n"] = len(keys)
        nq = 14 if tier == "quick" else 24
        p["absent"], p["special"] = absent_queries(rnd, keys, nq)
        if not MAXCHAR_QUERIES:
            p["special"] = []
        p["memberq"] = keys if n <= 40 else sorted(rnd.sample(keys, 40))
        qs = p["memberq"] + p["absent"] + p["special"]
        p1.append((p, Case("p1_%d" % p["idx"], ["hd_build %s %d %s" % (p["kind"], p["overhead"], " ".join(k.hex() for k in keys)),
                                               "hd_hv " + " ".join(q.hex() for q in qs), "hd_q table"])))
    out = vlib.run_cases(exe, [c for _, c in p1], tag="impl-p1", timeout_case=60)
    # ---- phase 1c: queries directed at the stored layout: T[i] + maxchar + T[i+1] for strings adjacent in Tdict*
    # (what the HASHRPF comparison runs into when it is not stopped at the terminator), and T[last] + maxchar
    # (which runs off the end of Cls); their hash values need one more round
    p1c = []
    for p, c in p1:
        o = out[c.name]
        p["directed"], p["directed_hv"] = [], []
        mc = max(b for s in p["keys"] for b in s) + 1
        if not MAXCHAR_QUERIES or mc > 0xfe or o["status"] != "ok" or len(o["lines"]) < 3 or " = strs" not in o["lines"][2]:
            continue
        try:
            T = [bytes.fromhex(t.split("/")[0]) for t in o["lines"][2].split(" = strs", 1)[1].split()]
        except ValueError:
            continue
        if sorted(T) != sorted(p["keys"]):
            continue
        m = bytes([mc])
        idx = list(range(len(T) - 1))
        rnd.shuffle(idx)
        dq = [T[i] + m + T[i + 1] for i in idx[:6]] + [T[-1] + m, T[-1] + m + T[0]]
        if len(T) > 2:
            dq.append(T[0] + m + T[1] + m + T[2])
        seen = set(p["memberq"] + p["absent"] + p["special"])
        p["directed"] = [q for q in dict.fromkeys(dq) if q not in seen and 255 not in q]
        if p["directed"]:
            p1c.append((p, Case("p1c_%d" % p["idx"], [c.cmds[0], "hd_hv " + " ".join(q.hex() for q in p["directed"])])))
    if p1c:
        outc = vlib.run_cases(exe, [c for _, c in p1c], tag="impl-p1c", timeout_case=60)
        for p, c in p1c:
            o = outc[c.name]
            if o["status"] == "ok" and len(o["lines"]) >= 2 and " : " in o["lines"][1]:
                p["directed_hv"] = [tuple(int(x) for x in t.split(":")) for t in o["lines"][1].split(" : ")[1].split(",")]
            else:
                p["directed"] = []
    cases = []
    for p, c in p1:
        o = out[c.name]
        keys, n = p["keys"], p["n"]
        qs = p["memberq"] + p["absent"] + p["special"]
        nq1 = len(qs)
        meta = {"kind": p["kind"], "overhead": p["overhead"], "shape": p["shape"], "keys": [k.hex() for k in keys],
                "memberq": [k.hex() for k in p["memberq"]], "absent": [k.hex() for k in p["absent"]],
                "special": [k.hex() for k in p["special"] + p["directed"]], "phase1_status": o["status"], "phase1_err": o["err"][:4]}
        hexes = ",".join(k.hex() for k in keys)
        if o["status"] == "ok" and len(o["lines"]) >= 2 and o["lines"][0].startswith("hd_build "):
            d = _kv(o["lines"][0])
            meta["tsize"] = int(d["tsize"])
            qh = [tuple(int(x) for x in t.split(":")) for t in o["lines"][1].split(" : ")[1].split(",")] if qs else []
            qs = qs + p["directed"]
            qh = qh + p["directed_hv"]
            first = "hd_model %s %d %s %s %s %s %s %s %s %s %s %s" % (
                p["kind"], p["overhead"], hexes, d["hv"], d["elements"], d["maxlength"], d["terminals"], d["maxchar"],
                d["rules"], d["bits"], d["payload"], d["hash"])
        else:
            qh = [(0, 0)] * len(qs)
            first = "hd_model %s %d %s %s 0 0 1 0 - - - -" % (p["kind"], p["overhead"], hexes, ",".join("0:0" for _ in keys))
        ids = sorted(set([0, 1, 2, n - 1, n, n + 1, 2 ** 32, 2 ** 32 + 1, 2 ** 64 - 1] + [rnd.randint(1, n) for _ in range(min(n, 10))]))
        if n <= 30:
            ids = sorted(set(ids + list(range(1, n + 1))))
        meta["ids"] = [i for i in ids if i >= 0]
        cmds = [first] + ["hd_q locate %s %d %d" % (q.hex(), a, b) for q, (a, b) in zip(qs, qh)] + \
               ["hd_q extract %d" % i for i in meta["ids"]] + ["hd_q table"]
        cases.append(Case("hd%d_%s_%s_n%d_o%d" % (p["idx"], p["kind"], p["shape"], n, p["overhead"]), cmds, meta))
    return cases


def evaluate_property(case, out):
    """C01/C02/C13/C14 for the two kinds on the implementation's output alone: the table is a permutation of S
    (IDs are a bijection onto [1,n]), locate(member) = its position in the table, extract(id) = table[id-1],
    non-members give 0, ids outside [1,n] give NULL, the pattern buffer is intact, all objects (fresh and the three
    load options) agree."""
    m = case.meta
    fails = []
    if m.get("phase1_status") != "ok" or "tsize" not in m:
        return ["dictionary build (phase 1) %s: %s" % (m.get("phase1_status"), " | ".join(m.get("phase1_err", [])))]
    if out["status"] != "ok":
        fails.append("implementation %s on valid input: %s" % (out["status"], " | ".join(out["err"][:3])))
    L = out["lines"]
    if not L or not L[0].startswith("hd_model "):
        return fails + ["no hd_model line"]
    d = _kv(L[0])
    keys = m["keys"]
    n = len(keys)
    if d.get("same") != "1":
        fails.append("second build produced a different dictionary")
    if d.get("n") != str(n):
        fails.append("elements=%s, expected %d" % (d.get("n"), n))
    cmds = case.cmds[1:]
    if len(L) - 1 != len(cmds):
        fails.append("%d answers for %d queries" % (len(L) - 1, len(cmds)))
    ans = {}
    for cmd, line in zip(cmds, L[1:]):
        if " =" not in line:
            fails.append("malformed answer: " + line[:80])
            continue
        a = line.split(" =", 1)[1].strip()
        if a.startswith("DIFFER"):
            fails.append("objects disagree: %s -> %s" % (cmd[:60], a[:120]))
            continue
        ans[cmd] = a
    table = None
    ta = ans.get("hd_q table")
    if ta is not None:
        toks = ta.split()
        if toks[0] != "strs":
            fails.append("extractTable = " + ta[:60])
        else:
            table = []
            for t in toks[1:]:
                parts = t.split("/")
                if len(parts) != 3 or parts[1] != parts[2] or len(bytes.fromhex(parts[0])) != int(parts[1]):
                    fails.append("table entry %s" % t[:40])
                table.append(parts[0])
            if sorted(table) != sorted(keys):
                fails.append("extractTable is not a permutation of the input set (%d entries for %d strings)" % (len(table), n))
                table = None
    for cmd, a in ans.items():
        tk = cmd.split()
        if tk[1] == "locate":
            q = tk[2]
            if "PATTERN-MODIFIED" in a:
                fails.append("locate(%s) modified the caller's pattern" % q)
            first = a.split()[0]
            if not first.isdigit():
                fails.append("locate(%s) = %s" % (q, a))
                continue
            r = int(first)
            if q in keys:
                if not (1 <= r <= n):
                    fails.append("member %s not found: locate = %d" % (q, r))
                elif table is not None and table[r - 1] != q:
                    fails.append("locate(%s) = %d but the string with that ID is %s" % (q, r, table[r - 1]))
            elif r != 0:
                fails.append("false positive: locate(%s) = %d" % (q, r))
        elif tk[1] == "extract":
            i = int(tk[2])
            if 1 <= i <= n:
                if table is not None:
                    s = table[i - 1]
                    want = "%s/%d/%d" % (s, len(s) // 2, len(s) // 2)
                    if a != want:
                        fails.append("extract(%d) = %s, expected %s" % (i, a[:60], want[:60]))
            elif a != "NULL/0":
                fails.append("extract(%d) = %s for an ID outside [1,%d]" % (i, a[:60], n))
    return fails[:10]
