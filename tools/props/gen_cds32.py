"""cds32: the 32-bit word primitives of libcdsBasics.h (bits, bitget/bitset/bitclean, uint_len,
get_field/set_field, get_var_field/set_var_field, popcount) and the raw words of a real DAC_VLS.

Generator: every len 0..32, field counts around word multiples, sequential / random / overwrite /
reverse store sequences into zeroed and into garbage arrays, values 0 / max / alternating / random;
bit operations around word boundaries; DAC shapes of tools/props/gen_dac.py.

evaluate_property: python recomputation (the array as ONE big integer, fields/bits by shifting and
masking that integer; DAC words recomputed from the stored sequences) on the implementation's output.
"""
import os
import random
import sys

_here = os.path.dirname(os.path.abspath(__file__))
for p in ("/verif/tools", "/verif/tools/props", os.path.join(_here, "..", "..", "tools"),
          os.path.join(_here, "..", "..", "tools", "props"), os.path.join(_here, "..")):
    if os.path.isdir(p) and p not in sys.path:
        sys.path.insert(0, p)
import vlib  # noqa: E402
from vlib import Case  # noqa: E402
try:
    from props import gen_dac  # noqa: E402
except ImportError:  # integrated: this file lives in tools/props itself
    import gen_dac  # noqa: E402

M32 = (1 << 32) - 1


def uint_len(e, n):
    return (((e * n + 31) & ((1 << 64) - 1)) // 32) & M32


def val(rnd, ln, kind=None):
    mx = (1 << ln) - 1
    kind = kind or rnd.choice(["zero", "max", "alt5", "alta", "one", "top", "rand", "rand", "rand"])
    v = {"zero": 0, "max": mx, "alt5": 0x55555555, "alta": 0xAAAAAAAA, "one": 1, "top": 1 << max(ln - 1, 0),
         "rand": rnd.getrandbits(32)}[kind]
    return v & mx


def field_case(rnd, name, ln, n, pattern, garbage):
    words = uint_len(ln, n)
    cmds = ["f32_new %d %d" % (ln, n)]
    ops = []  # python replay: ("raw", k, w) | ("set", i, v) | ("get", i) | ("dump",)
    if garbage:
        gk = rnd.choice(["ones", "rand", "alt"])
        for k in range(words):
            w = {"ones": M32, "rand": rnd.getrandbits(32), "alt": 0xA5A5A5A5 if k % 2 else 0x5A5A5A5A}[gk]
            cmds.append("f32_raw %d 0x%x" % (k, w))
            ops.append(("raw", k, w))
        # what the garbage reads as
        for i in range(n):
            cmds.append("f32_get %d" % i)
            ops.append(("get", i))
    nops = min(2 * n + 2, 90)
    order = list(range(n))
    if pattern == "rev":
        order.reverse()
    elif pattern == "rand":
        rnd.shuffle(order)
    vk = rnd.choice([None, None, "max", "zero", "alt5", "alta"])
    for k in range(nops):
        if pattern == "overwrite":
            i = rnd.choice([0, n - 1, n // 2, rnd.randrange(n)])
        elif pattern == "hammer":   # a max then a zero at the same place, neighbours max
            i = order[(k // 2) % n]
        else:
            i = order[k % n]
        v = val(rnd, ln, vk if k < n else None)
        if pattern == "hammer":
            v = val(rnd, ln, "max" if k % 2 == 0 else rnd.choice(["zero", "rand"]))
        cmds.append("f32_set %d 0x%x" % (i, v))
        ops.append(("set", i, v))
        # the frame, observed at once: the field and its neighbours
        for q in (i - 1, i, i + 1):
            if 0 <= q < n:
                cmds.append("f32_get %d" % q)
                ops.append(("get", q))
    for i in range(n):
        cmds.append("f32_get %d" % i)
        ops.append(("get", i))
    cmds.append("f32_dump")
    ops.append(("dump",))
    return Case(name, cmds, {"kind": "field", "len": ln, "n": n, "ops": ops, "pattern": pattern, "garbage": garbage})


def bit_case(rnd, name, nbits):
    words = uint_len(1, nbits)
    cmds = ["f32_new 1 %d" % nbits]
    ops = []
    if rnd.random() < 0.3:
        for k in range(words):
            w = rnd.getrandbits(32)
            cmds.append("f32_raw %d 0x%x" % (k, w))
            ops.append(("raw", k, w))
    cap = 32 * words
    pts = sorted(set([p for p in (0, 1, 30, 31, 32, 33, 62, 63, 64, 65, cap - 1, cap - 2, cap - 32, cap - 33) if 0 <= p < cap]))
    for k in range(min(4 * len(pts) + 20, 150)):
        p = rnd.choice(pts) if rnd.random() < 0.7 else rnd.randrange(cap)
        op = rnd.choice(["bitset", "bitset", "bitclean", "bitget", "bitget"])
        cmds.append("%s %d" % (op, p))
        ops.append((op, p))
        if op != "bitget":
            for q in (p - 1, p, p + 1):
                if 0 <= q < cap:
                    cmds.append("bitget %d" % q)
                    ops.append(("bitget", q))
    for p in range(cap):
        cmds.append("bitget %d" % p)
        ops.append(("bitget", p))
    # the same words read as 1-bit fields and dumped
    cmds.append("f32_dump")
    ops.append(("dump",))
    return Case(name, cmds, {"kind": "bits", "len": 1, "n": nbits, "ops": ops})


def var_case(rnd, name, nbits):
    words = uint_len(1, nbits)
    cap = 32 * words
    cmds = ["f32_new 1 %d" % nbits]
    ops = []
    if rnd.random() < 0.5:
        for k in range(words):
            w = rnd.choice([M32, rnd.getrandbits(32)])
            cmds.append("f32_raw %d 0x%x" % (k, w))
            ops.append(("raw", k, w))
    for k in range(60):
        ln = rnd.choice([0, 1, 2, 7, 8, 15, 16, 17, 24, 30, 31, 32, rnd.randint(1, 32)])
        if ln > cap:
            continue
        if ln == 0:
            ini = rnd.randrange(1, cap)     # ini == fin + 1
            fin = ini - 1
        else:
            starts = [s for s in (0, 31, 32, 33, 32 - ln, 33 - ln, 64 - ln, 65 - ln, cap - ln, rnd.randrange(cap - ln + 1))
                      if 0 <= s <= cap - ln]
            ini = rnd.choice(starts)
            fin = ini + ln - 1
        v = val(rnd, ln) if ln else rnd.getrandbits(32)
        cmds.append("vf_get %d %d" % (ini, fin))
        ops.append(("vget", ini, fin))
        cmds.append("vf_set %d %d 0x%x" % (ini, fin, v))
        ops.append(("vset", ini, fin, v))
        cmds.append("vf_get %d %d" % (ini, fin))
        ops.append(("vget", ini, fin))
        cmds.append("f32_dump")
        ops.append(("dump",))
    return Case(name, cmds, {"kind": "var", "len": 1, "n": nbits, "ops": ops})


def scalar_cases(rnd, tier):
    cases = []
    vals = [0, 1, 2, 3]
    for k in range(1, 33):
        vals += [(1 << k) - 1, (1 << k) & M32, ((1 << k) + 1) & M32]
    vals += [rnd.getrandbits(rnd.randint(1, 32)) for _ in range(100 if tier == "quick" else 3000)]
    for i in range(0, len(vals), 100):
        chunk = vals[i:i + 100]
        cmds = []
        for v in chunk:
            cmds += ["bits32 %d" % v, "popc %d" % v]
        cases.append(Case("sc%d" % i, cmds, {"kind": "scalar"}))
    cmds = []
    for e in range(0, 33):
        for n in [0, 1, 2, 31, 32, 33, 63, 64, 65, 1000, (1 << 27) - 1, 1 << 27, (1 << 27) + 1, rnd.randrange(1 << 20),
                  (1 << 32) - 1, 1 << 32, (1 << 32) + 1, 1 << 37, (1 << 59) - 1, 1 << 59, (1 << 59) + 1, (1 << 64) - 1]:
            cmds.append("uint_len %d %d" % (e, n))
    cases.append(Case("ulen", cmds, {"kind": "scalar"}))
    return cases


def dac_case(c):
    logr, seqs, maxseq = c.meta["logr"], c.meta["seqs"], c.meta["maxseq"]
    flat = gen_dac.flat_of(seqs)
    args = "%d %d %d %s" % (logr, maxseq, len(flat) - 1, " ".join(map(str, flat)))
    n = len(seqs)
    cmds = ["dacw_inclass " + args, "dacw_new " + args, "dacw_words"]
    cmds += ["dacw_access %d" % (i + 1) for i in range(n)]
    cmds += ["dacw_chain %d" % (i + 1) for i in range(n)]
    return Case("w" + c.name, cmds, {"kind": "dacw", "logr": logr, "seqs": seqs, "maxseq": maxseq, "shape": c.meta.get("shape", "")})


def gen(tier, seed):
    rnd = random.Random(seed * 15485863 + 32)
    cases = []
    quick = tier == "quick"
    k = 0
    for ln in range(0, 33):
        base = [1, 2, 3, 4, 5, 31, 32, 33, 63, 64, 65, 96, 97]
        # field counts that make len*n land on / next to a word multiple
        edge = sorted(set(x for m in (1, 2, 3) for x in ((32 * m) // max(ln, 1), (32 * m) // max(ln, 1) + 1, (32 * m + ln - 1) // max(ln, 1)) if x >= 1))
        ns = sorted(set(base + edge))
        pats = ["seq", "rand", "overwrite", "rev", "hammer"]
        if quick:
            picks = [(rnd.choice(edge), rnd.choice(pats), False), (rnd.choice(ns), rnd.choice(pats), False),
                     (rnd.choice(edge + [33, 65]), rnd.choice(pats), True)]
        else:
            picks = [(n, rnd.choice(pats), False) for n in ns] + [(n, rnd.choice(pats), True) for n in ns]
        for n, pat, garb in picks:
            cases.append(field_case(rnd, "f%d" % k, ln, n, pat, garb))
            k += 1
    for i, nb in enumerate([1, 31, 32, 33, 64, 65, 95, 129] if quick else [1, 2, 31, 32, 33, 63, 64, 65, 95, 96, 97, 127, 128, 129, 255, 256, 257] * 3):
        cases.append(bit_case(rnd, "b%d" % i, nb))
    for i, nb in enumerate([32, 33, 64, 65, 97, 128] if quick else [32, 33, 63, 64, 65, 96, 97, 127, 128, 129, 200] * 6):
        cases.append(var_case(rnd, "v%d" % i, nb))
    cases += scalar_cases(rnd, tier)
    for c in gen_dac.gen(tier, seed):
        if c.meta.get("kind") == "dac":
            cases.append(dac_case(c))
    return cases


# ---------------------------------------------------------------------------------------------------
def words_of_big(b, words):
    return [(b >> (32 * k)) & M32 for k in range(words)]


def evaluate_fieldlike(case, impl_out):
    fails = []
    ln, n = case.meta["len"], case.meta["n"]
    words = uint_len(ln, n)
    mask = (1 << ln) - 1
    big = 0
    lines = impl_out["lines"]
    if not lines or lines[0] != "f32_new %d %d words=%d" % (ln, n, words):
        fails.append("f32_new: %s, uint_len(%d,%d) = %d" % (lines[:1], ln, n, words))
        return fails
    li = 1
    for op in case.meta["ops"]:
        if li >= len(lines):
            fails.append("output ends after %d lines" % li)
            break
        l = lines[li]
        li += 1
        if op[0] == "raw":
            big = (big & ~(M32 << (32 * op[1]))) | (op[2] << (32 * op[1]))
        elif op[0] == "set":
            pos = op[1] * ln
            big = (big & ~(mask << pos)) | ((op[2] & mask) << pos)
        elif op[0] == "get":
            exp = (big >> (op[1] * ln)) & mask
            if l != "f32_get %d = %d" % (op[1], exp):
                fails.append("len %d: %s, bits [%d,%d) of the array are %d" % (ln, l, op[1] * ln, op[1] * ln + ln, exp))
        elif op[0] == "bitset":
            big |= 1 << op[1]
        elif op[0] == "bitclean":
            big &= ~(1 << op[1])
        elif op[0] == "bitget":
            exp = (big >> op[1]) & 1
            if l != "bitget %d = %d" % (op[1], exp):
                fails.append("%s, bit is %d" % (l, exp))
        elif op[0] == "vset":
            w = op[2] - op[1] + 1
            m = (1 << w) - 1
            big = (big & ~(m << op[1])) | ((op[3] & m) << op[1])
        elif op[0] == "vget":
            w = op[2] - op[1] + 1
            exp = (big >> op[1]) & ((1 << w) - 1)
            if l != "vf_get %d %d = %d" % (op[1], op[2], exp):
                fails.append("%s, bits [%d,%d] are %d" % (l, op[1], op[2], exp))
        elif op[0] == "dump":
            exp = "f32_dump len=%d n=%d words=%d :%s" % (ln, n, words, "".join(" 0x%x" % w for w in words_of_big(big, words)))
            if l != exp:
                fails.append("words: %s / expected %s" % (l[:200], exp[:200]))
        if len(fails) > 5:
            break
    return fails


def evaluate_scalar(case, impl_out):
    fails = []
    for l in impl_out["lines"]:
        t = l.split()
        if t[0] == "bits32":
            n = int(t[1])
            b = int(t[3])
            if b != n.bit_length() or not (n < (1 << b) and (n == 0 or (1 << (b - 1)) <= n)):
                fails.append("%s, bit length is %d" % (l, n.bit_length()))
        elif t[0] == "popc":
            if int(t[3]) != bin(int(t[1])).count("1"):
                fails.append(l)
        elif t[0] == "uint_len":
            if int(t[4]) != uint_len(int(t[1]), int(t[2])):
                fails.append("%s, expected %d" % (l, uint_len(int(t[1]), int(t[2]))))
    return fails


def evaluate_dacw(case, impl_out):
    fails = []
    seqs, logr, nl = case.meta["seqs"], case.meta["logr"], case.meta["maxseq"]
    lines = impl_out["lines"]
    levels = [[s[j] for s in seqs if len(s) > j] for j in range(nl)]
    cont = [[1 if len(s) > j + 1 else 0 for s in seqs if len(s) > j] for j in range(nl)]
    syms = [x for lv in levels for x in lv]
    bits = [b for j in range(nl - 1) for b in cont[j]] + [1]
    tam = (logr * len(syms)) & M32
    big = 0
    for k, x in enumerate(syms):
        big |= x << (k * logr)
    lw = words_of_big(big, tam // 32 + 1)
    nb = len(bits)
    bbig = 0
    for k, b in enumerate(bits):
        bbig |= b << k
    dw = words_of_big(bbig, nb // 32 + 1)
    got = [l for l in lines if l.startswith("dacw_words ")]
    # the sampling factor of the rank directory is a tuning parameter (DAC_VLS passes 4): take the reported one
    factor = 4
    if got:
        try:
            factor = max(1, int(dict(x.split("=", 1) for x in got[0].split()[1:])["factor"]))
        except (KeyError, ValueError):
            pass
    s = 32 * factor
    rs = [sum(bits[:s * k]) for k in range(nb // s + 1)]
    exp = ("dacw_words tamCode=%d base_bits=%d levels=%s n=%d factor=%d s=%d integers=%d ones=%d data=%s rs=%s"
           % (tam, logr, ",".join("0x%x" % w for w in lw), nb, factor, s, nb // 32 + 1, sum(bits), ",".join("0x%x" % w for w in dw),
              ",".join(map(str, rs))))
    if got != [exp]:
        fails.append("raw words: %s / packed level-wise arrangement gives %s" % ((got[0] if got else "-")[:300], exp[:300]))
    for l in lines:
        t = l.split()
        if t[0] == "dacw_access":
            pos = int(t[1])
            if [int(x) for x in t[5:]] != seqs[pos - 1] or int(t[3]) != len(seqs[pos - 1]):
                fails.append("access(%d): %s, stored %s" % (pos, l[:120], seqs[pos - 1]))
        elif t[0] == "dacw_chain":
            pos = int(t[1])
            if [int(x) for x in t[3:]] != seqs[pos - 1]:
                fails.append("access_next chain(%d): %s, stored %s" % (pos, l[:120], seqs[pos - 1]))
    na = sum(1 for l in lines if l.startswith("dacw_access "))
    if na != len(seqs):
        fails.append("expected %d access lines, saw %d" % (len(seqs), na))
    return fails[:6]


def evaluate_property(case, impl_out):
    if impl_out["status"] != "ok":
        return ["implementation %s on valid input: %s" % (impl_out["status"], " | ".join(impl_out["err"][:3]))]
    kind = case.meta.get("kind")
    if kind in ("field", "bits", "var"):
        return evaluate_fieldlike(case, impl_out)
    if kind == "scalar":
        return evaluate_scalar(case, impl_out)
    if kind == "dacw":
        return evaluate_dacw(case, impl_out)
    return []
