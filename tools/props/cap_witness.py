#!/usr/bin/env python3
"""Real-input witness for the PFC constructor's too-weak capacity check (C07, DESIGN.md §9 #10).

With MEMALLOC = 32768 and bucket size b = 2 the text buffer has 65536 bytes.  The set below is
valid (non-empty NUL-free strings over 'a'..'z', strictly sorted, duplicate free) and drives the
write cursor `bytesStrings` to exactly 65534 = reserved - 2 before the 1-byte internal string "y":

   6541 pairs  ("a"+c5, "a"+c5+"b")   c5 = 5-letter base-26 counter   7 + 3 bytes each -> 65410
     20 pairs  ("w"+l,  "w"+l+"b")    l = 'a'..'t'                   3 + 3 bytes each -> 65530
   "xab"  (header, 4 bytes)                                                            -> 65534
   "y"    (internal, lcp 0): the check 65534 + 2*1 > 65536 is false, no growth; the code writes
          VByte(0) at 65534, 'y' at 65535 and the terminating NUL at index 65536 = one past the end.

This is the same list as [cap_witness_S] of /verif/coq/theories/CapacityDefs.v
([cap_refuted_strings] in CapacityProofs.v evaluates the bookkeeping model on it).

usage:  cap_witness.py            one string per line, hex
        cap_witness.py --control  the same set without the final "y" (no overflow)
        cap_witness.py --case     a driver case (S ... / build d PFC 2) on stdout
"""
import sys


def c5(i):
    ds = []
    for _ in range(5):
        ds.append(i % 26)
        i //= 26
    return bytes(97 + d for d in reversed(ds))


def witness(control=False):
    S = []
    for i in range(6541):
        base = b"a" + c5(i)
        S += [base, base + b"b"]
    for l in range(20):
        base = b"w" + bytes([97 + l])
        S += [base, base + b"b"]
    S.append(b"xab")
    if not control:
        S.append(b"y")
    assert all(S[i] < S[i + 1] for i in range(len(S) - 1))
    return S


def vb_len(c):
    n = 1
    while c > 127:
        c >>= 7
        n += 1
    return n


def lcp(a, b):
    n = 0
    while n < len(a) and n < len(b) and a[n] == b[n]:
        n += 1
    return n


def bookkeeping(S, b=2, memalloc=32768, slack=0):
    """(reserved, max index written) of the first out-of-bounds write, or None; mirrors cap_step."""
    reserved, cursor, prev = memalloc * b, 0, b""
    for i, s in enumerate(S):
        while cursor + ((2 * len(s)) & 0xFFFFFFFF) + slack > reserved:
            reserved *= 2
        if i % b == 0:
            top = cursor + len(s)
        else:
            l = lcp(prev, s)
            top = cursor + vb_len(l) + (len(s) - l)
        if top >= reserved:
            return (i, reserved, cursor, top)
        cursor, prev = top + 1, s
    return None


def main():
    control = "--control" in sys.argv
    S = witness(control)
    if "--case" in sys.argv:
        print("CASE cap_witness%s" % ("_control" if control else ""))
        print("S " + " ".join(s.hex() for s in S))
        print("build d PFC 2")
        print("END")
    elif "--model" in sys.argv:
        print(len(S), bookkeeping(S), bookkeeping(S, slack=6))
    else:
        for s in S:
            print(s.hex())


if __name__ == "__main__":
    main()
