"""C19 — bundled succinct structures agree with their plain definitions."""
from props import compcheck, gen_bits, gen_cds32, gen_rrr
from props.subgen import Sub


def check(run, tier, seed, replay):
    compcheck.run(run, "C19", [gen_bits, Sub(gen_cds32, ["bits"]), gen_rrr], tier, seed, replay, timeout_case=(40 if tier == "quick" else 120),
                  rule="bit vectors of lengths 1, 31..33, 63..65, around multiples of 32*factor, up to ~2000 (10007 thorough): all-zero, all-one, "
                       "single 1 first/last, alternating, long runs, random at densities 1/50/99%; builders RG(factor 1,2,4,20), RRR(16,32), SDArray, "
                       "DArray; every access/rank0/rank1/select0/select1 (all positions for small n, boundaries + random otherwise, select "
                       "arguments 0,1,ones,ones+1), fresh and after save/load (tellg); RG additionally at layout level (Rs, data, ones, image "
                       "bytes) against the concrete model; BitSequenceRRR at layout level too (C, O, C_sampling, O_pos words, image bytes, the universal "
                       "offset table) against the word-exact RRR model for sample rates 1,2,3,5,16,32,33,128 and lengths around multiples of 15, "
                       "15*sample_rate and 32; WaveletTree / WaveletTreeNoptrs sequences built as the FM-index and XBW build them. "
                       "Non-trivial = a build + query command list; distinct by command list.",
                  assumptions=["RRR, SDArray, DArray, WaveletTreeNoptrs: no concrete model (compared with the plain definitions only); "
                               "the Huffman shape of the wavelet tree is validated per instance by the verified separability checker"])
