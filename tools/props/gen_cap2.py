#!/usr/bin/env python3
"""cap2 - directed corpus for the capacity theorems of Capacity2Proofs.v (property C07: "buffer growth keeps pace with the
data for every string-length distribution"), aimed at the boundaries the proofs expose.

  gen(tier, seed) -> list[vlib.Case]        build + save + load + queries; case.meta["exe"] says which driver build runs it:
                                             "small" = -DLIBCSD_VERIF_MEMALLOC=16 (every Reallocate path runs on small inputs),
                                             "default" = MEMALLOC 32768
  evaluate_property(case, impl_out)          fails on any sanitizer report / crash / time-out / wrong answer
  run_all(tier, seed)                        builds both ASan drivers, runs every case, returns (cases, results, failures)

Families (meta["family"]):
  sweep      every n = 1..N of a fixed list of short strings, every kind with a growable buffer, bucket sizes 2/3/8: with the
             16-byte reservation the cursor meets every doubling boundary at some n (HASHHF: compressed total = reserved - 2
             for n = 7, 15, 31, 63, 127 one-character strings - the input of Capacity2Proofs.hh_tail_refuted_strings)
  skew       sets whose longest string W consists of symbols with Hu-Tucker / Huffman code words of 17..18 bits
             (13-step 2^j-weighted ladder alphabet): W takes more than 2 * maxlength bytes.  "skew-first": W is the first string
             (16-byte reservation: the buffer has exactly 2 * maxlength = 512 bytes when W is written - the input of
             ht_old_refuted_strings); "skew-default": 9686..9696 strings before W put the cursor at 64973..65027 of the default
             65536-byte buffer (HTFC: k = 9687..9695 overflowed before commit 2941d43, k = 9686 / 9696 are the controls;
             HHTFC: k = 10026, 10028 overflowed, k = 10027 is the control)
  hashtail   11,500 strings of <= 2 bytes whose compressed total is 32766 = MEMALLOC - 2, hash overheads 62 and 143 (the last
             string in hash order takes 4 bytes: overflowed at StringDictionaryHASHHF.cpp:249 before commit 1969def); thorough:
             every overhead 1..150
  rptext     RPFC / RPHTFC: strings of 600..3000 bytes (far beyond any per-string constant), many doublings of textStrings
  rpdict     RPFC / RPHTFC: reservedInts starts at `elements`: one to three long strings (several doublings before the first
             bucket), uniformly short strings in buckets of 60..400 (almost every string costs maxlength + 2 ints),
             LCPs 127 / 128 / 129 / 255 / 256 (two-byte VBytes, with and without a zero byte; RPFC only)
"""
import hashlib, os, random, re, sys

sys.path.insert(0, "/verif/tools")
import vlib
from vlib import Case
from props import dictcommon as D

FC = ["PFC", "RPFC", "HTFC", "HHTFC", "RPHTFC"]
DT_KINDS = ("HTFC", "HHTFC", "RPHTFC", "HASHHF", "HASHUFFDAC")
# known finding decoding_table_crash (known_findings.json): queries of the Hu-Tucker / Huffman kinds that decode through an
# unpopulated entry of the chunk table; not a capacity matter, reported with the prefix "KNOWN"
DT_SITES = ("DecodingTable::getSubstring", "DecodingTable::processChunk", "VByte::decode", "StatCoder::decodeString",
            "StatCoder::decodeHeader", "decodeHeader", "decodeString")


# --------------------------------------------------------------------------------------------------------------------
# string sets
# --------------------------------------------------------------------------------------------------------------------
def skew_pool(seed, nA, nB, L, m=13, rare_lo=40, rare_n=60, maxfill=30):
    """A: nA strings "\\x02" + filler (sort before W), W: L rare bytes rare_lo.. (cyclic), B: nB filler strings (sort after W);
    filler = 3..maxfill bytes over the ladder alphabet 101..101+m-1 drawn with weights 2^j"""
    rnd = random.Random(seed)
    lad = list(range(101, 101 + m))
    w = [2 ** j for j in range(m)]

    def filler():
        return bytes(rnd.choices(lad, weights=w, k=rnd.randint(3, maxfill)))
    A = set()
    while len(A) < nA:
        A.add(b"\x02" + filler())
    B = set()
    while len(B) < nB:
        B.add(filler())
    W = bytes(rare_lo + (i % rare_n) for i in range(L))
    return sorted(A), W, sorted(B)


_POOL = {}


def pool1():
    if "p" not in _POOL:
        A, W, B = skew_pool(1, 16000, 40000, 255)
        h = hashlib.sha1(b"\0".join(A[:9700] + [W] + B)).hexdigest()
        _POOL["p"] = (A, W, B, h)
    return _POOL["p"]


# sha1 of the sets the replayed witnesses were found with (generator drift check, see self_check)
POOL1_SHA1 = "1a0a2554028db780649f6a2039f65b787122a95f"
HASHTAIL_SHA1 = "73ecc9707a7b6fbdff41627b3121c70e6ac4ee64"


def hashtail_set():
    """11,500 strings of <= 2 bytes: 11021 pairs over the 128 common bytes 100..227, 476 pairs of rare bytes, "d" "e" "f"."""
    rnd = random.Random(1)
    C = list(range(100, 228))
    Rr = [x for x in range(2, 100)] + [x for x in range(228, 250)]
    common = [bytes([a, b]) for a in C for b in C]
    rnd.shuffle(common)
    rare = set()
    for r in Rr:
        for _ in range(4):
            rare.add(bytes([r, rnd.choice(Rr)]))
    ones = [bytes([100 + i]) for i in range(3)]
    return sorted(set(common[:11021]) | rare | set(ones))


SHORT = [bytes([97 + i]) for i in range(26)] + [bytes([65 + i]) for i in range(26)] + [bytes([48 + i]) for i in range(10)] + \
        [bytes([160 + i]) for i in range(80)] + [bytes([2 + i]) for i in range(40)]          # 182 one-byte strings
SHORT2 = [bytes([97 + i, 97 + j]) for i in range(16) for j in range(16)]                      # 256 two-byte strings


# --------------------------------------------------------------------------------------------------------------------
# cases
# --------------------------------------------------------------------------------------------------------------------
def mk_case(name, S, kind, params, exe, family, sample=None, extra=None):
    S = sorted(set(S))
    n = len(S)
    cmds = D.build_cmds(S, kind, params) + ["save d i", "load r i generic 1", "q r numElements"]
    ids = list(range(1, n + 1)) if n <= 40 else sorted(set([1, 2, n - 1, n] + list(sample or [])))
    cmds += ["q r extract %d" % i for i in ids]
    loc = S if n <= 12 else [S[0], S[n // 2], S[-1]] + [S[i - 1] for i in (sample or [])]
    cmds += ["q r locate %s" % D.hx(s) for s in loc]
    if kind not in DT_KINDS:
        cmds.append("locall r")
    cmds += ["free d", "free r"]
    meta = {"kind": kind, "S": S, "params": params, "exe": exe, "family": family}
    meta.update(extra or {})
    return Case("cap2-%s" % name, cmds, meta)


def gen(tier, seed):
    rnd = random.Random(seed)
    thorough = tier == "thorough"
    cases = []
    # ---- sweep (16-byte reservation) -----------------------------------------------------------------------------------
    N1 = 182 if thorough else 66
    step = 1
    for kind in FC + ["HASHHF", "HASHUFFDAC"]:
        for b in (["2", "3", "8"] if kind in FC else ["10", "37"]):
            if not thorough and b in ("3", "37") and kind not in ("HTFC", "HASHHF"):
                continue
            for n in range(1, N1 + 1, step):
                if not thorough and kind in FC and b == "8" and n % 2:
                    continue
                cases.append(mk_case("sweep1-%s-b%s-n%d" % (kind, b, n), SHORT[:n], kind, [b], "small", "sweep"))
    for kind in FC + ["HASHHF", "HASHUFFDAC"]:
        b = "2" if kind in FC else "10"
        for n in ([8, 16, 17, 31, 32, 33, 64, 100, 128, 200, 256] if not thorough else range(2, 257, 3)):
            if kind == "RPHTFC" and n % 2 == 1:
                continue
            cases.append(mk_case("sweep2-%s-b%s-n%d" % (kind, b, n), SHORT2[:n], kind, [b], "small", "sweep"))
    # a few random shuffles of the alphabet so that the compressed sizes (and the boundaries they hit) differ per seed
    for t in range(12 if not thorough else 120):
        kind = rnd.choice(["HTFC", "HHTFC", "HASHHF", "RPFC", "RPHTFC", "HASHUFFDAC"])
        n = rnd.choice([7, 15, 31, 63, 127]) + rnd.choice([-1, 0, 0, 1])
        al = rnd.sample(range(2, 255), n)
        b = rnd.choice(["2", "4"]) if kind in FC else str(rnd.choice([5, 10, 50]))
        if kind == "RPHTFC" and n % int(b) == 1:
            n += 1
            al = rnd.sample(range(2, 255), n)
        cases.append(mk_case("sweepr-%s-%d-%d" % (kind, n, t), [bytes([x]) for x in al], kind, [b], "small", "sweep"))
    # ---- skew ------------------------------------------------------------------------------------------------------------
    A, W, B, _ = pool1()
    wid = lambda S: S.index(W) + 1
    for kind in ["HTFC", "HHTFC"] + (["HASHHF", "HASHUFFDAC", "RPHTFC"] if thorough else ["HASHHF"]):
        S = [W] + B
        p = ["2"] if kind in FC else ["10"]
        cases.append(mk_case("skew-first-%s" % kind, S, kind, p, "small", "skew", sample=[wid(sorted(S))] if kind in FC else None))
    ks = [9686, 9694, 9695, 9696] if not thorough else list(range(9684, 9699))
    for k in ks:
        S = A[:k] + [W] + B
        cases.append(mk_case("skew-default-HTFC-k%d" % k, S, "HTFC", ["2"], "default", "skew", sample=[k + 1], extra={"k": k}))
    # HHTFC has other tables (Hu-Tucker of the headers only, Huffman of the internal strings): k = 10026 and 10028 (W is a header of
    # 537+ bytes) overflowed before commit 2941d43, k = 10027 is the control
    for k in ([10026, 10027, 10028] if not thorough else list(range(10020, 10034))):
        S = A[:k] + [W] + B
        cases.append(mk_case("skew-default-HHTFC-k%d" % k, S, "HHTFC", ["2"], "default", "skew", sample=[k + 1], extra={"k": k}))
    if thorough:
        for k in (9694, 9695):
            cases.append(mk_case("skew-default-HASHHF-k%d" % k, A[:k] + [W] + B, "HASHHF", ["10"], "default", "skew"))
    # ---- hashtail ----------------------------------------------------------------------------------------------------------
    HS = hashtail_set()
    for ov in ([62, 143] if not thorough else range(1, 151)):
        cases.append(mk_case("hashtail-ov%d" % ov, HS, "HASHHF", [str(ov)], "default", "hashtail"))
    for n in (7, 15, 31, 63, 127):
        for ov in (["10"] if not thorough else ["1", "10", "100"]):
            cases.append(mk_case("hashtail-small-n%d-ov%s" % (n, ov), SHORT[:n], "HASHHF", [ov], "small", "hashtail"))
    # ---- rptext ------------------------------------------------------------------------------------------------------------
    for t in range(3 if not thorough else 12):
        L = rnd.choice([600, 1000, 1999, 2600, 3000])
        cnt = rnd.choice([8, 24, 60])
        S = set()
        while len(S) < cnt:
            S.add(bytes(rnd.randrange(2, 255) for _ in range(L - rnd.randint(0, 3))))
        for kind in ("RPFC", "RPHTFC"):
            for exe in ("small", "default"):
                if kind == "RPHTFC" and cnt % 2 == 1:
                    continue
                cases.append(mk_case("rptext-%s-%d-%dx%d-%s" % (kind, t, cnt, L, exe), S, kind, ["2"], exe, "rptext"))
    # ---- rpdict ------------------------------------------------------------------------------------------------------------
    for kind in ("RPFC", "RPHTFC"):
        for n, L in ((1, 5000), (2, 700), (2, 70000), (3, 300), (4, 33)):
            S = [bytes([97 + i]) + b"q" * (L - 1) for i in range(n)]
            for b in ("2", "16"):
                if kind == "RPHTFC" and n % int(b) == 1:
                    continue
                cases.append(mk_case("rpdict-long-%s-n%d-L%d-b%s" % (kind, n, L, b), S, kind, [b], "default", "rpdict"))
        two = [("%02d" % i).encode() for i in range(100)]
        az = [bytes([a, c]) for a in range(97, 123) for c in range(97, 123)]
        three = [("%03d" % i).encode() for i in range(1000)]
        for nm, S, b in (("two", two, "60"), ("az", az, "60"), ("az", az, "100"), ("three", three, "130"), ("three", three, "400"),
                         ("one", SHORT[:120], "119"), ("one", SHORT[:120], "120"), ("one", SHORT[:121], "120")):
            if kind == "RPHTFC" and len(S) % int(b) == 1:
                continue
            cases.append(mk_case("rpdict-short-%s-%s-b%s-n%d" % (kind, nm, b, len(S)), S, kind, [b], "default", "rpdict"))
    for l in (127, 128, 129, 255, 256, 300):
        base = b"k" * l
        S = [b"a", base + b"b", base + b"c", base + b"cd", b"z"]
        for b in ("2", "4", "8"):
            cases.append(mk_case("rpdict-lcp%d-RPFC-b%s" % (l, b), S, "RPFC", [b], "default", "rpdict"))
    return cases


# --------------------------------------------------------------------------------------------------------------------
# the property on the implementation's output
# --------------------------------------------------------------------------------------------------------------------
def _asan(lines):
    out = []
    for e in lines:
        m = re.search(r"SUMMARY: AddressSanitizer: (\S+) (\S+) in ([^(]+)", e)
        if m:
            out.append("%s %s in %s" % (m.group(1), os.path.basename(m.group(2)), m.group(3).strip()))
    return out


def evaluate_property(case, io):
    """-> list of failure strings; entries starting with "KNOWN " are instances of the recorded finding decoding_table_crash"""
    meta = case.meta
    kind, S = meta["kind"], meta["S"]
    n = len(S)
    fails = []
    if io.get("status") != "ok":
        k = len(io.get("lines", []))
        fails.append("implementation %s at command %r: %s" % (io.get("status"), case.cmds[k][:60] if k < len(case.cmds) else "exit", " | ".join(_asan(io.get("err", [])) or io.get("err", [])[-1:])))
    for rep in _asan(io.get("err", [])):
        fails.append("sanitizer report in build/save/load/free: " + rep)
    for k, notes in io.get("notes", {}).items():
        for x in notes:
            cmd = case.cmds[k] if k < len(case.cmds) else ""
            known = kind in DT_KINDS and any(s in x for s in DT_SITES) or \
                (kind in DT_KINDS and x.startswith("crash ") and any(any(s in y for s in DT_SITES) for y in notes))
            fails.append(("KNOWN decoding_table_crash: " if known else "") + "query %r: %s" % (cmd[:60], x))
    lines = io.get("lines", [])
    ordered = kind in D.ORDER_KINDS
    table = {}
    bad_cmds = set(k for k, notes in io.get("notes", {}).items() if any(x.startswith("crash ") for x in notes))
    for k, l in enumerate(lines):
        if k in bad_cmds:
            continue
        if l.startswith("build ") and not l.endswith(" ok"):
            fails.append("build: " + l)
        if l.startswith("load ") and " ok " not in l + " ":
            fails.append("load: " + l)
        if l.startswith("locall "):
            if "n=%d notfound=0 wrongextract=0" % n not in l:
                fails.append("round trip of every string: " + l)
        pq = D.parse_q(l)
        if not pq:
            continue
        _, op, arg, rest = pq
        if op == "numElements" and rest.strip() != str(n):
            fails.append("numElements = %s, expected %d" % (rest, n))
        if op == "extract":
            s = D.parse_one_str(rest)[0]
            i = int(arg)
            table[i] = s
            if ordered and s != S[i - 1]:
                fails.append("extract %d = %r, expected %r" % (i, (s or b"")[:40], S[i - 1][:40]))
            if not ordered and s not in set(S):
                fails.append("extract %d = %r is not a member" % (i, (s or b"")[:40]))
    if not ordered and n <= 40 and len(table) == n and sorted(x for x in table.values() if x is not None) != S:
        fails.append("extract 1..n is not a permutation of the set")
    for k, l in enumerate(lines):
        pq = D.parse_q(l)
        if pq and pq[1] == "locate" and k not in bad_cmds:
            q = bytes.fromhex(pq[2])
            try:
                i = int(pq[3].split()[0])
            except (ValueError, IndexError):
                fails.append("locate %r -> %r" % (q[:20], pq[3]))
                continue
            if ordered:
                if i != S.index(q) + 1:
                    fails.append("locate %r = %d, expected %d" % (q[:20], i, S.index(q) + 1))
            elif not (1 <= i <= n) or (i in table and table[i] != q):
                fails.append("locate %r = %d but extract %d = %r" % (q[:20], i, i, table.get(i)))
    return fails


def self_check():
    """the hard-coded parameters (k = 9686..9696, n = 11021 + 476 + 3) belong to these exact sets"""
    A, W, B, h = pool1()
    HS = hashtail_set()
    hs = hashlib.sha1(b"\0".join(HS)).hexdigest()
    return {"pool1_sha1": h, "hashtail_n": len(HS), "hashtail_sha1": hs, "ok": h == POOL1_SHA1 and hs == HASHTAIL_SHA1 and len(HS) == 11500}


def run_all(tier="quick", seed=1, only=None, verbose=True):
    cases = gen(tier, seed)
    if only:
        cases = [c for c in cases if re.search(only, c.name)]
    exes = {"default": vlib.build_driver("asan")[0], "small": vlib.build_driver("asan", extra_defs=("-DLIBCSD_VERIF_MEMALLOC=16",))[0]}
    res = {}
    for exe in ("small", "default"):
        part = [c for c in cases if c.meta["exe"] == exe]
        if part:
            res.update(vlib.run_cases(exes[exe], part, tag="impl-cap2-" + exe, timeout_case=300))
    failures, known = [], []
    for c in cases:
        for f in evaluate_property(c, res.get(c.name, {"status": "missing", "lines": [], "err": []})):
            (known if f.startswith("KNOWN ") else failures).append((c.name, f))
    if verbose:
        fam = {}
        for c in cases:
            fam[c.meta["family"]] = fam.get(c.meta["family"], 0) + 1
        print("cases", len(cases), fam, "failures", len(failures), "known", len(known))
        for x in failures[:40]:
            print("  FAIL", x[0], x[1][:300])
    return cases, res, failures, known


if __name__ == "__main__":
    tier = sys.argv[1] if len(sys.argv) > 1 else "quick"
    only = sys.argv[2] if len(sys.argv) > 2 else None
    print(self_check())
    _, _, failures, known = run_all(tier, 1, only)
    sys.exit(1 if failures else 0)
