"""C16 — unsupported operations and unknown images fail safe."""
from props import dictcheck as DC, dictcommon as D

KNOWN_TAGS = [11, 114, 12, 124, 125, 211, 214, 221, 222, 223, 3, 4, 5]
KIND_TAG = {"PFC": 211, "RPFC": 214, "HTFC": 221, "HHTFC": 222, "RPHTFC": 223, "RPDAC": 3, "FMINDEX": 4, "XBW": 5,
            "HASHHF": 11, "HASHUFFDAC": 114, "HASHRPF": 12, "HASHRPDAC": 124, "BLOCKS": 125}


def params_fn(rnd, kind, n):
    if kind == "FMINDEX":
        return [str(rnd.choice([0, 1])), str(rnd.choice([4, 16])), "0" if rnd.random() < 0.6 else str(rnd.choice([1, 8]))]
    return D.params_for(rnd, kind, n)


def make_cmds(rnd, kind, S, params, tier):
    cmds, names = DC.std_phase_cmds(S, kind, params, ("reloaded",))
    n = len(S)
    pats = [S[0], S[-1][:1], S[n // 2] + bytes([0x41]), bytes([0xFE])]
    dn = "r"
    hashk = kind in D.HASH_KINDS
    unsup = []
    if hashk:
        unsup = ["locatePrefix", "extractPrefix", "locateSubstr", "extractSubstr"]
    elif kind in D.FC_KINDS or kind == "RPDAC" or (kind == "FMINDEX" and params[2] == "0"):
        unsup = ["locateSubstr", "extractSubstr"]
    ops = []
    for p in pats:
        ops += ["q r %s %s" % (o, D.hx(p)) for o in unsup]
    if hashk:
        ops += ["q r locateRank 1", "q r extractRank 1", "q r locateRank %d" % n, "q r extractRank %d" % (n + 1)]
    if kind == "XBW":
        ops += ["q r extractTable"]
    allids = range(1, n + 1) if (hashk or kind == "XBW") else range(1, min(n, 12) + 1)
    # supported queries, then the operations the kind does NOT provide, then supported queries again
    cmds += ["q r extract %d" % i for i in allids] + ["q r locate %s" % D.hx(S[0])]
    cmds += ops
    cmds += ["q r extract %d" % i for i in list(allids)[:12]] + ["q r locate %s" % D.hx(s) for s in S[:12]]
    # unknown tags through the generic loader; foreign images through every other kind's loader
    tags = [0, 1, 2, 6, 10, 13, 113, 115, 123, 126, 210, 212, 213, 215, 220, 224, 0xFFFFFFFF, 0x7FFFFFFF, 256 + KIND_TAG[kind],
            KIND_TAG[kind] << 8, KIND_TAG[kind] << 24] + [rnd.getrandbits(32) for _ in range(6)]
    for t in tags:
        if t in KNOWN_TAGS:
            continue
        cmds += ["settag i x %d" % t, "load u x generic 1"]
    for other in D.ALL_KINDS:
        if other != kind:
            cmds.append("load f i %s 1" % other)
    return cmds, names, {}


CFG = DC.Config("C16", D.ALL_KINDS, make_cmds, nsets=(6, 18), params_fn=params_fn, serial=True,
                rule="every kind: each operation it does not provide (prefix/substring/rank on hash kinds, substring on front-coding kinds, RPDAC "
                     "and an FM-index built without sampling, table scan on XBW) must return a null iterator / NULL / 0 and every supported query must "
                     "still answer as before; the generic loader on the image with its tag replaced by 20+ unknown 32-bit tags (neighbours of every "
                     "known tag, 0, 2^31-1, 2^32-1, shifted tags, random words) must return NULL; each of the 12 other kinds' loaders on the image "
                     "must return NULL. The set of supported operations per kind is the oracle's table (a stub that starts answering breaks "
                     "the correspondence). Non-trivial = a command; distinct by (kind, params, S, command).")


def check(run, tier, seed, replay):
    run.assumptions = ["tag constants, dispatcher switch and loader guards are re-extracted from the current source on every run; "
                       "C16_unknown_tag covers all 2^32 tags by a membership argument over the generated table"]
    DC.run(run, CFG, tier, seed, replay)
