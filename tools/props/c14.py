"""C14 — queries are pure: no hidden state, caller's pattern left intact."""
from props import dictcheck as DC, dictcommon as D


def params_fn(rnd, kind, n):
    if kind == "BLOCKS":   # several blocks, so that a cached block index can go stale
        return [str(rnd.choice([0, 10])), str(rnd.choice([1, 8, 20, 40])), str(rnd.choice([1, 2]))]
    if kind == "FMINDEX":
        return [str(rnd.choice([0, 1])), str(rnd.choice([4, 16])), str(rnd.choice([1, 2, 8]))]
    return D.params_for(rnd, kind, n)


def make_cmds(rnd, kind, S, params, tier):
    cmds, names = DC.std_phase_cmds(S, kind, params, ("reloaded",))
    n = len(S)
    dn = "r"
    ids = list(range(0, n + 2)) if n <= 20 else sorted(rnd.sample(range(1, n + 1), 20) + [0, n + 1])
    qs = D.gen_queries(rnd, S, limit=12, splice=12)[:30]
    base = ["extract %d" % i for i in ids] + ["locate %s" % D.hx(q) for q in qs]
    iters = []
    permuted = kind in D.HASH_KINDS or kind == "XBW"
    if kind in D.PREFIX_KINDS:
        for p in D.gen_prefixes(rnd, S, 6):
            base += ["locatePrefix %s" % D.hx(p), "extractPrefix %s" % D.hx(p)]
            iters += [("extractPrefix", p)] if permuted else [("locatePrefix", p), ("extractPrefix", p)]
    if kind == "FMINDEX":
        for p in D.gen_substrs(rnd, S, 5):
            base += ["locateSubstr %s" % D.hx(p)]
            iters += [("locateSubstr", p), ("extractSubstr", p)]
    if not permuted:
        iters.append(("extractTable", b""))
    if kind == "XBW":
        iters = []          # XBW streams are not in lexicographic order: covered by the set comparison of the q lines
    if kind in D.HASH_KINDS or kind == "XBW":
        cmds += ["q r extract %d" % i for i in range(1, n + 1)]     # ID -> string table for the permuted kinds
    # 1. every query on the pristine object (each in its own forked copy: the object in the parent is untouched)
    cmds += ["q r %s" % b for b in base]
    # 1b. the caller's buffer holds MORE than the pattern (pattern ++ tail ++ NUL, strLen = |pattern|: the "type-ahead" use):
    #     only the buffer's intactness is observed for these calls
    tails = []
    for q in rnd.sample(qs, min(len(qs), 8)) + D.gen_prefixes(rnd, S, 4):
        if len(q) >= 2:
            k = rnd.randrange(1, len(q))
            tails.append((q[:k], q[k:]))
        tails.append((q, bytes([rnd.choice([0x21, 0x7E, 0xFE])])))
    for pat, tail in tails[:16]:
        ops = ["locate"] + (["locatePrefix", "extractPrefix"] if kind in D.PREFIX_KINDS else []) + \
              (["locateSubstr", "extractSubstr"] if kind == "FMINDEX" and params[2] != "0" else [])
        cmds += ["qt r %s %s %s" % (o, D.hx(pat), D.hx(tail)) for o in ops]
    # 2. a history in ONE process: shuffled, with repeats, failed lookups in between, backwards id walks
    hist = list(base) + rnd.sample(base, min(len(base), 25))
    rnd.shuffle(hist)
    walk = ["extract %d" % i for i in range(n, 0, -1)][:40] + ["extract %d" % i for i in range(1, n + 1)][:40]
    zig = []
    for i in range(1, min(n, 30)):
        zig += ["extract %d" % (i + 1), "extract %d" % i]
    hist = hist[:len(hist) // 2] + walk + zig + hist[len(hist) // 2:]
    k = 0
    for h in hist:
        cmds.append("uq r %s" % h)
        k += 1
        if iters and k % 9 == 0:
            pick = rnd.sample(iters, min(len(iters), 3))
            cmds.append("ilv r " + " ".join("%s %s" % (o, D.hx(p)) for o, p in pick))
    # 3. the same queries again after the history, isolated
    cmds += ["q r %s" % b for b in base]
    return cmds, names, {}


def extra_eval(c, io, mo):
    """direct evaluation: the answer to a query must not depend on the history"""
    fails = []
    first = {}
    for l in io["lines"]:
        pq = D.parse_q(l)
        if not pq:
            continue
        key = (pq[1], pq[2])
        rest = pq[3].replace(" PATTERN-MODIFIED", "")
        if key not in first:
            first[key] = (rest, l)
        elif first[key][0] != rest and rest != "" and first[key][0] != "":
            fails.append(D.Fail(pq[1], "history dependent answer: '%s' first, '%s' later" % (first[key][0][:100], rest[:100]), l,
                                D.classes_for(c.meta, pq[0], pq[1], ""), pq[0]))
    for k, l in enumerate(io["lines"]):
        if l.startswith("qt ") and "PATTERN-MODIFIED" in l:
            t = l.split()
            fails.append(D.Fail(t[2], "caller's buffer (pattern followed by further bytes) modified when the call returned", c.cmds[k], ["pattern_modified"], "r"))
    for k, l in enumerate(io["lines"]):
        if l.startswith("ilv ") and "PATTERN-MODIFIED" in l:
            fails.append(D.Fail("ilv", "caller's pattern buffer modified by an iterator-returning query", c.cmds[k], ["pattern_modified"], "r"))
    return fails


from props import gen_hashdict
CFG = DC.Config("C14", D.ALL_KINDS, make_cmds, components=[gen_hashdict], nsets=(5, 14), big=False, extra_eval=extra_eval, params_fn=params_fn, timeout_case=120,
                rule="all 13 kinds (reloaded object): each query once on the pristine object (own forked copy), then a history of ~150-250 "
                     "calls in ONE process - shuffled with repeats and failed lookups, descending / ascending / zig-zag id walks, groups of "
                     "up to three iterators (prefix, substring, table) open at once and drained round-robin - then every query again; all "
                     "answers must equal the specification and each other; every pattern lives in an exact-size heap buffer that is "
                     "compared before/after the call (incl. its NUL); a second family of calls passes pattern ++ further bytes ++ NUL with strLen = "
                     "|pattern| and observes only that the buffer is intact on return. Non-trivial = a call; distinct by (kind, params, S, command).")


def check(run, tier, seed, replay):
    run.assumptions = ["model queries are functions of (dictionary value, query): history independence of the concrete models is by construction; "
                       "the theorem content is the specification equality of the PFC/RPDAC/FM/hash models, the rest is correspondence (partial)"]
    DC.run(run, CFG, tier, seed, replay)
