"""C03 — order-preserving kinds assign IDs in lexicographic (unsigned byte) order; rank operations."""
from props import dictcheck as DC, dictcommon as D

RANK_KINDS = D.ORDER_KINDS + ["XBW"]


def make_cmds(rnd, kind, S, params, tier):
    cmds, names = DC.std_phase_cmds(S, kind, params, ("reloaded",))
    n = len(S)
    ids = list(range(1, n + 1)) if n <= 40 else sorted(rnd.sample(range(1, n + 1), 40) + [1, n])
    for dn in names:
        if kind != "XBW":
            cmds += ["q %s extract %d" % (dn, i) for i in ids]
            cmds += ["q %s locate %s" % (dn, D.hx(S[i - 1])) for i in ids]
        else:
            cmds += ["q %s extract %d" % (dn, i) for i in range(1, n + 1)]
        cmds += ["q %s locateRank %d" % (dn, i) for i in ids[:20]]
        cmds += ["q %s extractRank %d" % (dn, i) for i in ids[:20]]
        if kind == "PFC":
            cmds += ["mq %s extract %d" % (dn, i) for i in ids]
            cmds += ["mq %s extractRank %d" % (dn, i) for i in ids[:20]]
    return cmds, names, {}


def extra_eval(c, io, mo):
    """direct evaluation: IDs returned by locate are strictly increasing along the sorted members"""
    if c.meta["kind"] == "XBW":
        return []
    last = {}
    fails = []
    for l in io["lines"]:
        pq = D.parse_q(l)
        if pq and pq[1] == "locate" and l.startswith("q "):
            try:
                got = int(pq[3].split()[0])
            except (ValueError, IndexError):
                continue
            prev = last.get(pq[0])
            if prev is not None and got <= prev[0] and bytes.fromhex(pq[2]) > prev[1]:
                fails.append(D.Fail("locate", "IDs not increasing with the strings: %d then %d" % (prev[0], got), l, [], pq[0]))
            last[pq[0]] = (got, bytes.fromhex(pq[2]))
    return fails


from props import gen_rpfc, gen_codes
CFG = DC.Config("C03", RANK_KINDS, make_cmds, components=[gen_rpfc, gen_codes], nsets=(12, 36), big=True, extra_eval=extra_eval,
                rule="front-coding kinds, RPDAC, FMINDEX (+XBW for rank operations): extract(i) must be exactly the i-th smallest "
                     "member, locate increasing with the string, extractRank(k) the k-th smallest and extract(locateRank(k)) equal to it; "
                     "sets as in C01. Non-trivial = a query command; distinct by (kind, params, S, command).")


def check(run, tier, seed, replay):
    run.assumptions = ["HT kinds: the byte-level memcmp-on-encoded-headers lemma is proved (ht_header_memcmp_spec), their decoder is not modelled; FMINDEX: proved over any BWT certified by fm_check"]
    DC.run(run, CFG, tier, seed, replay)
