#!/usr/bin/env python3
"""cap2 - mini translator for the capacity theorems of Capacity2Proofs.v (property C07).

source_checks() reads the CURRENT text of /repo and returns, per site, the normalised expression (white space removed)
that the theorems of /verif/coq/theories/Capacity2Proofs.v speak about:

  growth checks          the expression compared with the reservation in `while ((<expr>) > reserved...) reserved... = Reallocate(..)`
  `required`             the initialiser of `size_t required = ...;` in RPFC / RPHTFC
  initial reservations   `size_t reservedInts = ...;`, `size_t reservedStrings = ...;`
  scratch buffers        `uchar *tmp = new uchar[...]`, `uchar *dec = new uchar[...]`, StatCoder::encodeString's buffer
  copy loops             the rpdict copy loop (1 int per byte, 2 for a terminator) and the three encodeSymbol bodies, as
                         normalised text, so that an edit of what a block WRITES is noticed as well
  sites                  the number of Reallocate call sites per file (a new site must get its own theorem)

EXPECTED holds the expressions the theorems were proved for; compare() lists every difference.  The theorem a site is
tied to is named in THEOREMS.
"""
import os, re, sys

REPO = os.environ.get("VERIF_REPO", "/repo")


def _src(name):
    return open(os.path.join(REPO, name), "rb").read().decode(errors="replace").replace("\r", "")


def _norm(s):
    s = re.sub(r"//[^\n]*", "", s)
    s = re.sub(r"/\*.*?\*/", "", s, flags=re.S)
    return re.sub(r"\s+", "", s)


def _growth(src, reserved):
    """all growth loops on `reserved`: normalised compared expressions, in source order"""
    out = []
    for m in re.finditer(r"while\s*\(\s*\(([^;{}]*?)\)\s*>\s*%s\s*\)\s*%s\s*=\s*Reallocate\(&(\w+),\s*%s\);" % (reserved, reserved, reserved), src):
        out.append(_norm(m.group(1)))
    return out


def _decl(src, pat):
    m = re.search(pat, src, re.S)
    return _norm(m.group(1)) if m else None


def _body(src, header_pat):
    """normalised body of the function whose header matches header_pat (brace matching)"""
    m = re.search(header_pat, src)
    if not m:
        return None
    i = src.index("{", m.end() - 1)
    depth, j = 0, i
    while j < len(src):
        if src[j] == "{":
            depth += 1
        elif src[j] == "}":
            depth -= 1
            if depth == 0:
                break
        j += 1
    return _norm(src[i:j + 1])


def _rpdict_loop(src):
    m = re.search(r"uint zero = pbeg - 1;(.*?)\n\s*ptrpdict\+\+;\s*\n\s*\}", src, re.S)
    return _norm("uint zero = pbeg - 1;" + m.group(1) + "ptrpdict++;}") if m else None


def source_checks():
    out = {}
    for kind in ("RPFC", "RPHTFC"):
        s = _src("StringDictionary%s.cpp" % kind)
        k = kind.lower()
        g = _growth(s, "reservedInts")
        out[k + ".rpdict.check"] = g[0] if len(g) == 1 else g
        out[k + ".rpdict.init"] = _decl(s, r"size_t reservedInts = (.*?);")
        out[k + ".rpdict.loop"] = _rpdict_loop(s)
        g = _growth(s, "reservedStrings")
        out[k + ".text.check"] = g[0] if len(g) == 1 else g
        out[k + ".text.required"] = _decl(s, r"size_t required =(.*?);")
        out[k + ".text.init"] = _decl(s, r"size_t reservedStrings = (.*?);")
        out[k + ".tmp"] = _decl(s, r"uchar \*tmp = new uchar\[(.*?)\];")
        out[k + ".encodeSymbol"] = _body(s, r"uint StringDictionary%s::encodeSymbol\(uint symbol, uchar \*text,\s*uint \*offset\) \{" % kind)
    for kind in ("HTFC", "HHTFC"):
        s = _src("StringDictionary%s.cpp" % kind)
        k = kind.lower()
        g = _growth(s, "reservedStrings")
        out[k + ".text.check"] = g[0] if len(g) == 1 else g
        out[k + ".text.init"] = _decl(s, r"size_t reservedStrings = (.*?);")
        out[k + ".tmp"] = _decl(s, r"uchar \*tmp = new uchar\[(.*?)\];")
    s = _src("StringDictionaryHASHHF.cpp")
    g = _growth(s, "reservedStrings")
    out["hashhf.text.check"] = g[0] if len(g) == 2 else g
    out["hashhf.tail.check"] = g[1] if len(g) == 2 else None
    out["hashhf.text.init"] = _decl(s, r"size_t reservedStrings = (.*?);")
    out["hashhf.tmp"] = _decl(s, r"uchar \*tmp = new uchar\[(.*?)\];")
    m = re.search(r"delete\[\] tmp;(.*?)table = builder->getTable\(\);", s, re.S)
    out["hashhf.tail.writes"] = len(re.findall(r"textStrings\[bytesStrings\] = 0;", m.group(1))) if m else None
    s = _src("StringDictionaryHASHUFFDAC.cpp")
    out["hashuffdac.tmp"] = sorted(set(_norm(x) for x in re.findall(r"uchar \*(?:tmp|dec) = new uchar\[(.*?)\];", s)))
    s = _src("utils/Coder/StatCoder.cpp")
    out["statcoder.encodeSymbol"] = _body(s, r"uint StatCoder::encodeSymbol\(uchar symbol, uchar \*text, uint \*offset\) \{")
    out["statcoder.encodeString.buffer"] = _decl(s, r"uchar \*encoded = new uchar\[(.*?)\];")
    s = _src("utils/Utils.h")
    out["reallocate.uchar"] = _decl(s, r"inline size_t Reallocate\(uchar \*\*array, size_t len\) \{\s*size_t llen = (.*?);")
    out["reallocate.int"] = _decl(s, r"inline size_t Reallocate\(int \*\*array, size_t len\) \{\s*size_t llen = (.*?);")
    sites = {}
    for f in sorted(os.listdir(REPO)):
        if f.endswith(".cpp"):
            n = len(re.findall(r"=\s*Reallocate\(", _src(f)))
            if n:
                sites[f] = n
    out["sites"] = sites
    return out


_ENC = ("{uintprocessed=0;uintbytes=0;while((%(b)s-processed)>=(8-(*offset))){ucharcode=((%(w)s<<(W-%(b)s+processed))>>(W-8+(*offset)));"
        "text[bytes]|=code;processed+=8-(*offset);*offset=0;bytes++;text[bytes]=0;}if(%(b)s>processed){ucharcode=((%(w)s<<(W-%(b)s+processed))>>(W-8+(*offset)));"
        "text[bytes]|=code;*offset+=%(b)s-processed;}returnbytes;}")
_RPLOOP = ("uintzero=pbeg-1;for(;pbeg<pend;pbeg++){intc=(int)(dict->textStrings[pbeg]);if((c!=0)||((c==0)&&(pbeg==zero+1)))rpdict[ptrpdict]=c;"
           "else{zero=pbeg;ends++;rpdict[ptrpdict]=255;ptrpdict++;rpdict[ptrpdict]=0;}ptrpdict++;}")

EXPECTED = {
    # site 1: Capacity2Defs.chk_rp / rp_ints_pos / rp_ctor_in_bounds (R0 = elements)
    "rpfc.rpdict.check": "ptrpdict+(size_t)bucketsize*(maxlength+6)",
    "rphtfc.rpdict.check": "ptrpdict+(size_t)bucketsize*(maxlength+6)",
    "rpfc.rpdict.init": "elements",
    "rphtfc.rpdict.init": "elements",
    "rpfc.rpdict.loop": _RPLOOP,
    "rphtfc.rpdict.loop": _RPLOOP,
    # site 2: Capacity2Defs.chk_rpfc / chk_rphtfc / rt_step
    "rpfc.text.check": "bytesStrings+required",
    "rphtfc.text.check": "bytesStrings+required",
    "rpfc.text.required": "headers[bucket].size()+((beginnings[bucket]-beginnings[bucket-1])*(size_t)bitsrp)/8+2",
    "rphtfc.text.required": "4*(size_t)maxlength+((beginnings[bucket]-beginnings[bucket-1])*(size_t)bitsrp)/8+2",
    "rpfc.text.init": "MEMALLOC*bucketsize",
    "rphtfc.text.init": "MEMALLOC*bucketsize",
    "rpfc.tmp": "4*maxlength",
    "rphtfc.tmp": "4*maxlength",
    "rpfc.encodeSymbol": _ENC % {"b": "bitsrp", "w": "symbol"},
    "rphtfc.encodeSymbol": _ENC % {"b": "bitsrp", "w": "symbol"},
    # site 3: Capacity2Defs.chk_ht / ht_step
    "htfc.text.check": "bytesStrings+4*(size_t)maxlength+6",
    "hhtfc.text.check": "bytesStrings+4*(size_t)maxlength+6",
    "htfc.text.init": "MEMALLOC*bucketsize",
    "hhtfc.text.init": "MEMALLOC*bucketsize",
    "htfc.tmp": "4*maxlength",
    "hhtfc.tmp": "4*maxlength",
    # site 4: Capacity2Defs.chk_hh / hh_run (tail = true)
    "hashhf.text.check": "bytesStrings+4*(size_t)maxlength+2",
    "hashhf.tail.check": "bytesStrings+3",
    "hashhf.tail.writes": 3,
    "hashhf.text.init": "MEMALLOC",
    "hashhf.tmp": "6*maxlength",
    # scratch buffers: tmp4_ok / tmp6_ok / encode_string_ok / hashuffdac_dec_ok
    "hashuffdac.tmp": ["4*maxlength"],
    "statcoder.encodeSymbol": "{uintcodeword=codewords[(int)symbol].codeword;uintbits=codewords[(int)symbol].bits;" + (_ENC % {"b": "bits", "w": "codeword"})[1:],
    "statcoder.encodeString.buffer": "4*strLen",
    # CapacityDefs.cap_grow: the buffer doubles
    "reallocate.uchar": "len*2",
    "reallocate.int": "len*2",
    # every Reallocate call site has a theorem (PFC: CapacityProofs.v, the others: Capacity2Proofs.v)
    "sites": {"StringDictionaryHASHHF.cpp": 2, "StringDictionaryHHTFC.cpp": 1, "StringDictionaryHTFC.cpp": 1, "StringDictionaryPFC.cpp": 1,
              "StringDictionaryRPFC.cpp": 2, "StringDictionaryRPHTFC.cpp": 2},
}

THEOREMS = {
    "rpfc.rpdict.check": "C07_cap2_rpdict_ok", "rphtfc.rpdict.check": "C07_cap2_rpdict_ok",
    "rpfc.text.required": "C07_cap2_rpfc_text_ok", "rphtfc.text.required": "C07_cap2_rphtfc_text_ok",
    "htfc.text.check": "C07_cap2_htfc_ok", "hhtfc.text.check": "C07_cap2_htfc_ok",
    "hashhf.text.check": "C07_cap2_hashhf_ok", "hashhf.tail.check": "C07_cap2_hashhf_ok",
    "rpfc.tmp": "C07_cap2_tmp4_ok", "rphtfc.tmp": "C07_cap2_tmp4_ok", "htfc.tmp": "C07_cap2_tmp4_ok", "hhtfc.tmp": "C07_cap2_tmp4_ok",
    "hashuffdac.tmp": "C07_cap2_tmp4_ok / C07_cap2_hashuffdac_dec_ok", "hashhf.tmp": "C07_cap2_tmp6_ok",
    "statcoder.encodeString.buffer": "C07_cap2_encode_string_ok",
    "statcoder.encodeSymbol": "C07_cap2_encode_symbol", "rpfc.encodeSymbol": "C07_cap2_encode_symbol", "rphtfc.encodeSymbol": "C07_cap2_encode_symbol",
}

# checks that older trees had, with the theorem that refutes them (reported by compare() when the source carries one of them again)
REFUTED = {
    "ptrpdict+(size_t)(bucketsize*maxlength)": "C07_cap2_rpdict_old_refuted",
    "bytesStrings+(bucketsize*1000)": "C07_cap2_rptext_old_refuted",
    "bytesStrings+(2*maxlength)": "C07_cap2_htfc_old_refuted / C07_cap2_hashhf_old_refuted",
    "bytesStrings+4*(size_t)maxlength+2": "HTFC/HHTFC only: needs bits(NUL)+bits(0x80) <= 33 (C07_cap2_htfc_plus2_ok, C07_cap2_htfc_plus2_slack_necessary)",
}


def compare(got=None):
    """-> list of (site, expected, got, note); empty = the theorems speak about the current source"""
    got = source_checks() if got is None else got
    diffs = []
    for k, e in EXPECTED.items():
        g = got.get(k)
        if g != e:
            note = ""
            if isinstance(g, str) and g in REFUTED and not (k.startswith("hashhf") and g == "bytesStrings+4*(size_t)maxlength+2"):
                note = "refuted: " + REFUTED[g]
            if k == "hashhf.tail.check" and g is None:
                note = "refuted: C07_cap2_hashhf_tail_refuted (no growth check before the trailing bytes)"
            diffs.append((k, e, g, note))
    return diffs


if __name__ == "__main__":
    d = compare()
    for k, v in sorted(source_checks().items()):
        if "--all" in sys.argv or "encodeSymbol" not in k and "loop" not in k:
            print("%-32s %s" % (k, v))
    print("differences:", len(d))
    for x in d:
        print("  DIFF %s\n    expected %s\n    got      %s  %s" % x)
    sys.exit(1 if d else 0)
