#!/usr/bin/env python3
"""cap2 - mini translator for the capacity theorems of Capacity2Proofs.v (property C07).

source_checks() reads the CURRENT text of /repo and returns, per site, the normalised expression (white space removed)
that the theorems of /verif/coq/theories/Capacity2Proofs.v speak about:

  growth checks          the expression compared with the reservation in `while ((<expr>) > reserved...) reserved... = Reallocate(..)`
  `required`             the initialiser of `size_t required = ...;` in RPFC / RPHTFC
  initial reservations   `size_t reservedInts = ...;`, `size_t reservedStrings = ...;`
  scratch buffers        `uchar *tmp = new uchar[...]`, `uchar *dec = new uchar[...]`, StatCoder::encodeString's buffer
  copy loops             the rpdict copy loop (1 int per byte, 2 for a terminator) and the three encodeSymbol bodies, as
                         normalised text, so that an edit of what a block WRITES is noticed as well
  sites                  the number of Reallocate call sites per file (a new site must get its own theorem)

EXPECTED holds the expressions the theorems were proved for; compare() lists every difference.  The theorem a site is
tied to is named in THEOREMS.
"""
import os, re, sys

REPO = os.environ.get("VERIF_REPO", "/repo")


def _src(name):
    return open(os.path.join(REPO, name), "rb").read().decode(errors="replace").replace("\r", "")


def _norm(s):
    s = re.sub(r"//[^\n]*", "", s)
    s = re.sub(r"/\*.*?\*/", "", s, flags=re.S)
    return re.sub(r"\s+", "", s)


# ---- canonical form of a size expression: const locals inlined, sums and products flattened and sorted --------------
_TOK = re.compile(r"\s*(\(size_t\)|\(uint\)|\(unsigned long long\)|[A-Za-z_][\w]*(?:(?:->|\.)[A-Za-z_]\w*|\[[^\]]*\]|\(\))*|\d+|[-+*/()])")


def _tokens(e):
    out, i = [], 0
    e = e.strip()
    while i < len(e):
        m = _TOK.match(e, i)
        if not m:
            raise ValueError("cannot tokenise %r at %d" % (e, i))
        out.append(m.group(1))
        i = m.end()
    return out


def _parse(tokens, env):
    """-> canonical tree: ('+', [terms]) / ('*', [factors]) / ('-', a, b) / ('/', a, b) / ('cast', T, x) / atom string"""
    pos = [0]

    def peek():
        return tokens[pos[0]] if pos[0] < len(tokens) else None

    def take():
        pos[0] += 1
        return tokens[pos[0] - 1]

    def atom():
        t = take()
        if t in ("(size_t)", "(uint)", "(unsigned long long)"):
            return ("cast", t, atom())
        if t == "(":
            x = expr()
            if take() != ")":
                raise ValueError("unbalanced")
            return x
        if t in env:
            return env[t]
        if re.match(r"^[A-Za-z_]", t) and "[" in t:
            # canonicalise the index expressions of array accesses too
            return re.sub(r"\[([^\]]*)\]", lambda m: "[" + _show(_canon_expr(m.group(1), env)) + "]", t)
        return t

    def term():
        x = atom()
        while peek() in ("*", "/"):
            op = take()
            y = atom()
            x = _mk("*", [x, y]) if op == "*" else ("/", x, y)
        return x

    def expr():
        x = term()
        while peek() in ("+", "-"):
            op = take()
            y = term()
            x = _mk("+", [x, y]) if op == "+" else ("-", x, y)
        return x
    r = expr()
    if pos[0] != len(tokens):
        raise ValueError("trailing tokens")
    return r


def _mk(op, xs):
    flat = []
    for x in xs:
        if isinstance(x, tuple) and x[0] == op:
            flat += x[1]
        else:
            flat.append(x)
    return (op, sorted(flat, key=_show))


def _show(t):
    if isinstance(t, str):
        return t
    if t[0] in ("+", "*"):
        return "(" + t[0].join(_show(x) for x in t[1]) + ")"
    if t[0] in ("-", "/"):
        return "(" + _show(t[1]) + t[0] + _show(t[2]) + ")"
    return t[1] + _show(t[2])


def _canon_expr(e, env):
    return _parse(_tokens(e), env)


def canon(e, src=None):
    """canonical text of expression e; `const size_t x = ...;` / `size_t x = ...;` locals of src that e mentions are inlined
    (recursively); falls back to the white-space-free text when the expression is outside the little grammar"""
    if e is None or not isinstance(e, str):
        return e
    env = {}
    if src is not None:
        decls = dict((m.group(1), m.group(2)) for m in re.finditer(r"\bconst\s+size_t\s+(\w+)\s*=\s*([^;{}]*?);", src))
        for _ in range(4):
            for k, v in decls.items():
                if k not in env:
                    try:
                        env[k] = _canon_expr(v, env)
                    except ValueError:
                        pass
    try:
        return _show(_canon_expr(e, env))
    except ValueError:
        return _norm(e)


def _helper_growth(src, reserved):
    """growth written through a helper: `reserved = F(&buf, reserved, <needed>);` where F (utils/Utils.h) is the doubling loop"""
    out = []
    try:
        utils = _src("utils/Utils.h")
    except OSError:
        return out
    for m in re.finditer(r"%s\s*=\s*(\w+)\s*\(\s*&(\w+)\s*,\s*%s\s*,\s*([^;]*?)\)\s*;" % (reserved, reserved), src):
        f = m.group(1)
        if f == "Reallocate":
            continue
        hm = re.search(r"inline\s+size_t\s+%s\s*\(\s*T\s*\*\*\s*(\w+)\s*,\s*size_t\s+(\w+)\s*,\s*size_t\s+(\w+)\s*\)\s*\{(.*?)\n\}" % f, utils, re.S)
        if not hm:
            continue
        arr, res, need, body = hm.groups()
        if _norm(body) == "while(%s>%s)%s=Reallocate(%s,%s);return%s;" % (need, res, res, arr, res, res):
            out.append((m.start(), m.group(3)))
    return out


def _growth(src, reserved):
    """all growth loops on `reserved`: normalised compared expressions, in source order"""
    found = []
    for m in re.finditer(r"while\s*\(\s*\(([^;{}]*?)\)\s*>\s*%s\s*\)\s*%s\s*=\s*Reallocate\(&(\w+),\s*%s\);" % (reserved, reserved, reserved), src):
        found.append((m.start(), m.group(1)))
    found += _helper_growth(src, reserved)
    return [canon(e, src) for _, e in sorted(found)]


def _decl_raw(src, pat):
    m = re.search(pat, src, re.S)
    return m.group(1) if m else None


def _decl(src, pat):
    m = re.search(pat, src, re.S)
    return _norm(m.group(1)) if m else None


def _body(src, header_pat):
    """normalised body of the function whose header matches header_pat (brace matching)"""
    m = re.search(header_pat, src)
    if not m:
        return None
    i = src.index("{", m.end() - 1)
    depth, j = 0, i
    while j < len(src):
        if src[j] == "{":
            depth += 1
        elif src[j] == "}":
            depth -= 1
            if depth == 0:
                break
        j += 1
    return _norm(src[i:j + 1])


def _rpdict_loop(src):
    m = re.search(r"uint zero = pbeg - 1;(.*?)\n\s*ptrpdict\+\+;\s*\n\s*\}", src, re.S)
    return _norm("uint zero = pbeg - 1;" + m.group(1) + "ptrpdict++;}") if m else None


def source_checks():
    out = {}
    for kind in ("RPFC", "RPHTFC"):
        s = _src("StringDictionary%s.cpp" % kind)
        k = kind.lower()
        g = _growth(s, "reservedInts")
        out[k + ".rpdict.check"] = g[0] if len(g) == 1 else g
        out[k + ".rpdict.init"] = _decl(s, r"size_t reservedInts = (.*?);")
        out[k + ".rpdict.loop"] = _rpdict_loop(s)
        g = _growth(s, "reservedStrings")
        if kind == "RPHTFC":      # per-bucket check + the check before the two trailing bytes the header decoder reads ahead
            out[k + ".text.check"] = g[0] if len(g) == 2 else g
            out[k + ".tail.check"] = g[1] if len(g) == 2 else None
            m = re.search(r"delete\[\] tmp;(.*?)xblStrings\.push_back\(bytesStrings \+ 1\);", s, re.S)
            out[k + ".tail.writes"] = _norm(re.sub(r"while.*?;", "", m.group(1), flags=re.S)) if m else None
        else:
            out[k + ".text.check"] = g[0] if len(g) == 1 else g
        out[k + ".text.required"] = canon(_decl_raw(s, r"size_t required =(.*?);"), s)
        out[k + ".text.init"] = _decl(s, r"size_t reservedStrings = (.*?);")
        out[k + ".tmp"] = _decl(s, r"uchar \*tmp = new uchar\[(.*?)\];")
        out[k + ".encodeSymbol"] = _body(s, r"uint StringDictionary%s::encodeSymbol\(uint symbol, uchar \*text,\s*uint \*offset\) \{" % kind)
    for kind in ("HTFC", "HHTFC"):
        s = _src("StringDictionary%s.cpp" % kind)
        k = kind.lower()
        g = _growth(s, "reservedStrings")
        out[k + ".text.check"] = g[0] if len(g) == 2 else g
        out[k + ".tail.check"] = g[1] if len(g) == 2 else None       # before the two bytes the header decoder reads ahead
        m = re.search(r"delete\[\] tmp;(.*?)xblStrings\.push_back\(bytesStrings\);", s, re.S)
        out[k + ".tail.writes"] = _norm(re.sub(r"while.*?;", "", re.sub(r"if \(textSubstr.*?;", "", m.group(1), flags=re.S), flags=re.S)) if m else None
        out[k + ".text.init"] = _decl(s, r"size_t reservedStrings = (.*?);")
        out[k + ".tmp"] = _decl(s, r"uchar \*tmp = new uchar\[(.*?)\];")
    s = _src("StringDictionaryHASHHF.cpp")
    g = _growth(s, "reservedStrings")
    out["hashhf.text.check"] = g[0] if len(g) == 2 else g
    out["hashhf.tail.check"] = g[1] if len(g) == 2 else None
    out["hashhf.text.init"] = _decl(s, r"size_t reservedStrings = (.*?);")
    out["hashhf.tmp"] = _decl(s, r"uchar \*tmp = new uchar\[(.*?)\];")
    m = re.search(r"delete\[\] tmp;(.*?)table = builder->getTable\(\);", s, re.S)
    out["hashhf.tail.writes"] = len(re.findall(r"textStrings\[bytesStrings\] = 0;", m.group(1))) if m else None
    s = _src("StringDictionaryHASHUFFDAC.cpp")
    out["hashuffdac.tmp"] = sorted(set(_norm(x) for x in re.findall(r"uchar \*(?:tmp|dec) = new uchar\[(.*?)\];", s)))
    s = _src("utils/Coder/StatCoder.cpp")
    out["statcoder.encodeSymbol"] = _body(s, r"uint StatCoder::encodeSymbol\(uchar symbol, uchar \*text, uint \*offset\) \{")
    out["statcoder.encodeString.buffer"] = _decl(s, r"uchar \*encoded = new uchar\[(.*?)\];")
    s = _src("utils/Utils.h")
    out["reallocate.uchar"] = _decl(s, r"inline size_t Reallocate\(uchar \*\*array, size_t len\) \{\s*size_t llen = (.*?);")
    out["reallocate.int"] = _decl(s, r"inline size_t Reallocate\(int \*\*array, size_t len\) \{\s*size_t llen = (.*?);")
    sites = {}
    for f in sorted(os.listdir(REPO)):
        if f.endswith(".cpp"):
            n = len(re.findall(r"\b(\w+)\s*=\s*\w+\s*\(\s*&\w+\s*,\s*\1\s*[,)]", _src(f)))      # reserved = Reallocate(&a, reserved) / = Helper(&a, reserved, need)
            if n:
                sites[f] = n
    out["sites"] = sites
    return out


_ENC = ("{uintprocessed=0;uintbytes=0;while((%(b)s-processed)>=(8-(*offset))){ucharcode=((%(w)s<<(W-%(b)s+processed))>>(W-8+(*offset)));"
        "text[bytes]|=code;processed+=8-(*offset);*offset=0;bytes++;text[bytes]=0;}if(%(b)s>processed){ucharcode=((%(w)s<<(W-%(b)s+processed))>>(W-8+(*offset)));"
        "text[bytes]|=code;*offset+=%(b)s-processed;}returnbytes;}")
_RPLOOP = ("uintzero=pbeg-1;for(;pbeg<pend;pbeg++){intc=(int)(dict->textStrings[pbeg]);if((c!=0)||((c==0)&&(pbeg==zero+1)))rpdict[ptrpdict]=c;"
           "else{zero=pbeg;ends++;rpdict[ptrpdict]=255;ptrpdict++;rpdict[ptrpdict]=0;}ptrpdict++;}")

EXPECTED = {
    "htfc.tail.check": "(2+bytesStrings)",
    "htfc.tail.writes": "bytesStrings++;textStrings[bytesStrings]=0;textStrings[bytesStrings+1]=0;bytesStrings+=2;",
    "hhtfc.tail.check": "(2+bytesStrings)",
    "hhtfc.tail.writes": "bytesStrings++;textStrings[bytesStrings]=0;textStrings[bytesStrings+1]=0;bytesStrings+=2;",
    # RPHTFC tail: Capacity2Proofs.tail2_ok (two bytes written after `bytesStrings + 2 <= reserved` was established)
    "rphtfc.tail.check": "(2+bytesStrings)",
    "rphtfc.tail.writes": "textStrings[bytesStrings]=0;textStrings[bytesStrings+1]=0;bytesStrings+=2;",
    # site 1: Capacity2Defs.chk_rp / rp_ints_pos / rp_ctor_in_bounds (R0 = elements)
    "rpfc.rpdict.check": "ptrpdict+(size_t)bucketsize*(maxlength+6)",
    "rphtfc.rpdict.check": "ptrpdict+(size_t)bucketsize*(maxlength+6)",
    "rpfc.rpdict.init": "elements",
    "rphtfc.rpdict.init": "elements",
    "rpfc.rpdict.loop": _RPLOOP,
    "rphtfc.rpdict.loop": _RPLOOP,
    # site 2: Capacity2Defs.chk_rpfc / chk_rphtfc / rt_step
    "rpfc.text.check": "bytesStrings+required",
    "rphtfc.text.check": "bytesStrings+required",
    "rpfc.text.required": "headers[bucket].size()+((beginnings[bucket]-beginnings[bucket-1])*(size_t)bitsrp)/8+2",
    "rphtfc.text.required": "4*(size_t)maxlength+((beginnings[bucket]-beginnings[bucket-1])*(size_t)bitsrp)/8+2",
    "rpfc.text.init": "MEMALLOC*bucketsize",
    "rphtfc.text.init": "MEMALLOC*bucketsize",
    "rpfc.tmp": "4*maxlength",
    "rphtfc.tmp": "4*maxlength",
    "rpfc.encodeSymbol": _ENC % {"b": "bitsrp", "w": "symbol"},
    "rphtfc.encodeSymbol": _ENC % {"b": "bitsrp", "w": "symbol"},
    # site 3: Capacity2Defs.chk_ht / ht_step
    "htfc.text.check": "bytesStrings+4*(size_t)maxlength+6",
    "hhtfc.text.check": "bytesStrings+4*(size_t)maxlength+6",
    "htfc.text.init": "MEMALLOC*bucketsize",
    "hhtfc.text.init": "MEMALLOC*bucketsize",
    "htfc.tmp": "4*maxlength",
    "hhtfc.tmp": "4*maxlength",
    # site 4: Capacity2Defs.chk_hh / hh_run (tail = true)
    "hashhf.text.check": "bytesStrings+4*(size_t)maxlength+2",
    "hashhf.tail.check": "bytesStrings+3",
    "hashhf.tail.writes": 3,
    "hashhf.text.init": "MEMALLOC",
    "hashhf.tmp": "6*maxlength",
    # scratch buffers: tmp4_ok / tmp6_ok / encode_string_ok / hashuffdac_dec_ok
    "hashuffdac.tmp": ["4*maxlength"],
    "statcoder.encodeSymbol": "{uintcodeword=codewords[(int)symbol].codeword;uintbits=codewords[(int)symbol].bits;" + (_ENC % {"b": "bits", "w": "codeword"})[1:],
    "statcoder.encodeString.buffer": "4*(size_t)strLen+1",
    # CapacityDefs.cap_grow: the buffer doubles
    "reallocate.uchar": "len*2",
    "reallocate.int": "len*2",
    # every Reallocate call site has a theorem (PFC: CapacityProofs.v, the others: Capacity2Proofs.v)
    "sites": {"StringDictionaryHASHHF.cpp": 2, "StringDictionaryHHTFC.cpp": 2, "StringDictionaryHTFC.cpp": 2, "StringDictionaryPFC.cpp": 1,
              "StringDictionaryRPFC.cpp": 2, "StringDictionaryRPHTFC.cpp": 3},
}

THEOREMS = {
    "rpfc.rpdict.check": "C07_cap2_rpdict_ok", "rphtfc.rpdict.check": "C07_cap2_rpdict_ok",
    "rpfc.text.required": "C07_cap2_rpfc_text_ok", "rphtfc.text.required": "C07_cap2_rphtfc_text_ok",
    "htfc.text.check": "C07_cap2_htfc_ok", "hhtfc.text.check": "C07_cap2_htfc_ok",
    "hashhf.text.check": "C07_cap2_hashhf_ok", "hashhf.tail.check": "C07_cap2_hashhf_ok",
    "rpfc.tmp": "C07_cap2_tmp4_ok", "rphtfc.tmp": "C07_cap2_tmp4_ok", "htfc.tmp": "C07_cap2_tmp4_ok", "hhtfc.tmp": "C07_cap2_tmp4_ok",
    "hashuffdac.tmp": "C07_cap2_tmp4_ok / C07_cap2_hashuffdac_dec_ok", "hashhf.tmp": "C07_cap2_tmp6_ok",
    "statcoder.encodeString.buffer": "C07_cap2_encode_string_plus1_ok",
    "statcoder.encodeSymbol": "C07_cap2_encode_symbol", "rpfc.encodeSymbol": "C07_cap2_encode_symbol", "rphtfc.encodeSymbol": "C07_cap2_encode_symbol",
}

# checks that older trees had, with the theorem that refutes them (reported by compare() when the source carries one of them again)
REFUTED = {
    "ptrpdict+(size_t)(bucketsize*maxlength)": "C07_cap2_rpdict_old_refuted",
    "bytesStrings+(bucketsize*1000)": "C07_cap2_rptext_old_refuted",
    "bytesStrings+(2*maxlength)": "C07_cap2_htfc_old_refuted / C07_cap2_hashhf_old_refuted",
    "bytesStrings+4*(size_t)maxlength+2": "HTFC/HHTFC only: needs bits(NUL)+bits(0x80) <= 33 (C07_cap2_htfc_plus2_ok, C07_cap2_htfc_plus2_slack_necessary)",
}


def compare(got=None):
    """-> list of (site, expected, got, note); empty = the theorems speak about the current source"""
    got = source_checks() if got is None else got
    diffs = []
    for k, e in EXPECTED.items():
        g = got.get(k)
        if k.endswith(".check") or k.endswith(".required"):
            e = canon(e) if isinstance(e, str) else e
            # a `required` local that was inlined into the check: compare the inlined forms
            if k.endswith(".text.check") and isinstance(g, str) and k[:-6] + ".required" in EXPECTED and "required" not in g:
                env_req = EXPECTED[k[:-6] + ".required"]
                e = canon(EXPECTED[k].replace("required", "(" + env_req + ")"))
        if g != e:
            note = ""
            if isinstance(g, str) and g in REFUTED and not (k.startswith("hashhf") and g == "bytesStrings+4*(size_t)maxlength+2"):
                note = "refuted: " + REFUTED[g]
            if k == "hashhf.tail.check" and g is None:
                note = "refuted: C07_cap2_hashhf_tail_refuted (no growth check before the trailing bytes)"
            diffs.append((k, e, g, note))
    return diffs


if __name__ == "__main__":
    d = compare()
    for k, v in sorted(source_checks().items()):
        if "--all" in sys.argv or "encodeSymbol" not in k and "loop" not in k:
            print("%-32s %s" % (k, v))
    print("differences:", len(d))
    for x in d:
        print("  DIFF %s\n    expected %s\n    got      %s  %s" % x)
    sys.exit(1 if d else 0)
