"""hash component: generator + property evaluation for the double-hashing tables.

Two-phase protocol (the Coq model is parametric in the hash values, so the generator must
learn them from the implementation first):

  phase 0 (only for the 'collide' shape): `hash_np hs` gives tsize, `hash_hv tsize mode cand..`
           gives bitwisehash of many candidate keys; keys sharing few start cells are selected.
  phase 1: the implementation is run on  `hash_build overhead key..` (variant rpdac: a real
           StringDictionaryHASHRPDAC) or `hash_model dh 0 hs key:0:0 ..` (variant dh: the real
           Hashdh/HashBdh/HashBBdh classes; the hash values given on the command line are ignored
           by the C++ side) followed by `hash_hvs q..`; its output carries tsize and
           bitwisehash/step_value (the repo's own inline functions) of every key and query.
  phase 2: the case handed to the harness:  `hash_model V overhead hs key:h1:h2 ..`,
           `hash_q q:h1:h2 ..`, `hash_x id ..`, `hash_np hs`.  The C++ side rebuilds the real
           structure and prints h1 h2 cell id per key; the OCaml side runs the extracted model on
           the hash values it was given and prints the same line.
gen() builds/locates the driver itself through vlib.build_driver (cached per process).
"""
import os, random, sys
import vlib
from vlib import Case

W = os.path.dirname(os.path.abspath(__file__))


def _driver():
    exe, msg = vlib.build_driver("asan", extra_dir=W)
    if not exe:
        raise RuntimeError("driver build failed: " + msg)
    return exe


def hash_size(n, overhead):
    # uint hash_size = (uint)(elements * (1 + (overhead * 1.0 / 100.0)));
    return int(n * (1 + (overhead * 1.0 / 100.0))) & 0xFFFFFFFF


def is_prime(r):
    if r < 2:
        return False
    d = 2
    while d * d <= r:
        if r % d == 0:
            return False
        d += 1
    return True


ALPH_SMALL = [0x61, 0x62]
ALPH_MED = list(range(0x61, 0x6b))
ALPH_WIDE = list(range(2, 255))


def rand_key(rnd, alph, lo, hi):
    return bytes(rnd.choice(alph) for _ in range(rnd.randint(lo, hi)))


def key_set(rnd, n, shape):
    S = set()
    if shape == "seq":
        base = rnd.choice([b"k", b"key_", b"\x02\xfe"])
        i = rnd.randrange(1000)
        while len(S) < n:
            S.add(base + str(i).encode())
            i += 1
    elif shape == "ladder":
        s = b""
        c = rnd.choice([0x61, 0x02, 0xfe])
        while len(S) < n:
            s += bytes([c])
            S.add(s)
    elif shape == "single":
        for b in rnd.sample(ALPH_WIDE, min(n, len(ALPH_WIDE))):
            S.add(bytes([b]))
    else:
        alph, lo, hi = {"small": (ALPH_SMALL, 1, 10), "med": (ALPH_MED, 1, 6), "wide": (ALPH_WIDE, 1, 12),
                        "long": (ALPH_MED, 20, 40), "collide": (ALPH_MED, 1, 8)}[shape]
        tries = 0
        while len(S) < n and tries < 100 * n + 1000:
            S.add(rand_key(rnd, alph, lo, hi))
            tries += 1
    L = list(S)
    rnd.shuffle(L)
    return L[:n]


def absent_queries(rnd, keys, k):
    S = set(keys)
    out = []

    def add(q):
        if q and q not in S and q not in out and 0 not in q and 255 not in q:
            out.append(q)
    for _ in range(4 * k):
        s = rnd.choice(keys)
        m = rnd.randrange(6)
        if m == 0:
            add(s[:-1])
        elif m == 1:
            add(s + bytes([rnd.choice([2, 0x61, 0xfe])]))
        elif m == 2:
            add(s[:-1] + bytes([max(2, min(254, s[-1] + rnd.choice([-1, 1])))]))
        elif m == 3 and len(s) > 1:
            i = rnd.randrange(len(s))
            add(s[:i] + bytes([rnd.choice(ALPH_MED)]) + s[i + 1:])
        elif m == 4:
            add(rand_key(rnd, ALPH_MED, 1, 8))
        else:
            add(rand_key(rnd, ALPH_WIDE, 1, 5))
        if len(out) >= k:
            break
    return out


def _plan(tier, seed):
    rnd = random.Random(seed * 104729 + 12)
    plans = []
    ncases = 160 if tier == "quick" else 1600
    sizes = [1, 2, 3, 4, 5, 6, 7, 8, 10, 11, 12, 13, 16, 17, 23, 29, 31, 32, 37, 50, 64, 97, 100, 101, 127, 128, 150, 199, 200]
    for i in range(ncases):
        variant = "dh" if i % 2 == 0 else "rpdac"
        n = rnd.choice(sizes) if rnd.random() < 0.7 else rnd.randint(1, 200)
        # overhead 0: the table is (almost) full; n prime -> completely full
        overhead = rnd.choice([0, 0, 0, 0, 1, 5, 10, 50, 300])
        shape = rnd.choice(["small", "med", "wide", "seq", "ladder", "long", "collide", "collide", "single"])
        if shape == "ladder":
            n = min(n, 60)
        plans.append({"variant": variant, "n": n, "overhead": overhead, "shape": shape, "idx": i})
    return rnd, plans


def gen(tier, seed):
    exe = _driver()
    rnd, plans = _plan(tier, seed)
    # ---- phase 0: candidates for the colliding shape
    p0 = []
    for p in plans:
        keys = key_set(rnd, p["n"] if p["shape"] != "collide" else 12 * p["n"] + 20, p["shape"])
        if p["shape"] != "collide":
            p["keys"] = keys
            p["n"] = len(keys)
            continue
        p["cand"] = keys
        n = min(p["n"], len(keys))
        p["n"] = n
        hs = hash_size(n, p["overhead"])
        mode = "z" if p["variant"] == "dh" else "n"
        # nearest_prime is evaluated by the implementation; hash_hv needs its result, so the
        # candidates are hashed for every plausible table size near hs and the right line is picked
        cmds = ["hash_np %d" % hs]
        p0.append((p, Case("p0_%d" % p["idx"], cmds)))
    if p0:
        out = vlib.run_cases(exe, [c for _, c in p0], tag="impl-p0a")
        p0b = []
        for p, c in p0:
            ts = int(out[c.name]["lines"][0].split()[-1])
            p["ts0"] = ts
            mode = "z" if p["variant"] == "dh" else "n"
            p0b.append((p, Case("p0b_%d" % p["idx"], ["hash_hv %d %s %s" % (ts, mode, " ".join(k.hex() for k in p["cand"]))])))
        out = vlib.run_cases(exe, [c for _, c in p0b], tag="impl-p0b")
        for p, c in p0b:
            hv = [int(x.split(":")[0]) for x in out[c.name]["lines"][0].split(" : ")[1].split()]
            buckets = {}
            for k, h in zip(p["cand"], hv):
                buckets.setdefault(h, []).append(k)
            order = sorted(buckets.values(), key=lambda b: -len(b))
            keys = []
            for b in order:
                keys += b
                if len(keys) >= p["n"]:
                    break
            keys = keys[:p["n"]]
            rnd.shuffle(keys)
            p["keys"] = keys
    # ---- phase 1: learn tsize and the hash values from the implementation
    p1 = []
    for p in plans:
        keys = p["keys"]
        n = len(keys)
        nq = 12 if tier == "quick" else 20
        p["absent"] = absent_queries(rnd, keys, nq)
        p["memberq"] = keys if n <= 40 else rnd.sample(keys, 40)
        p["hs"] = hash_size(n, p["overhead"])
        qs = p["memberq"] + p["absent"]
        if p["variant"] == "rpdac":
            first = "hash_build %d %s" % (p["overhead"], " ".join(k.hex() for k in keys))
        else:
            first = "hash_model dh 0 %d %s" % (p["hs"], " ".join(k.hex() + ":0:0" for k in keys))
        p1.append((p, Case("p1_%d" % p["idx"], [first, "hash_hvs " + " ".join(q.hex() for q in qs)])))
    out = vlib.run_cases(exe, [c for _, c in p1], tag="impl-p1")
    cases = []
    for p, c in p1:
        o = out[c.name]
        if o["status"] != "ok" or len(o["lines"]) < 2:
            # the implementation itself fails on this input: hand the case over with dummy hash
            # values so that the harness sees the failure
            kh = [(0, 0)] * len(p["keys"])
            qh = [(0, 0)] * (len(p["memberq"]) + len(p["absent"]))
            p["tsize"] = None
        else:
            head, body = o["lines"][0].split(" : ") if " : " in o["lines"][0] else (o["lines"][0], "")
            p["tsize"] = int([t for t in head.split() if t.startswith("tsize=")][0][6:])
            kh = [tuple(int(x) for x in t.split(":")[:2]) for t in body.split()]
            qh = [tuple(int(x) for x in t.split(":")) for t in o["lines"][1].split(" : ")[1].split()] \
                if " : " in o["lines"][1] else []
        n = len(p["keys"])
        qs = p["memberq"] + p["absent"]
        ids = sorted(set([0, 1, n, n + 1, 2 ** 32, 2 ** 32 + 1] + [rnd.randint(1, n) for _ in range(min(n, 12))]))
        if n <= 30:
            ids = sorted(set(ids + list(range(1, n + 1))))
        cmds = ["hash_model %s %d %d %s" % (p["variant"], p["overhead"], p["hs"],
                                            " ".join("%s:%d:%d" % (k.hex(), a, b) for k, (a, b) in zip(p["keys"], kh))),
                "hash_q " + " ".join("%s:%d:%d" % (q.hex(), a, b) for q, (a, b) in zip(qs, qh)),
                "hash_x " + " ".join(str(i) for i in ids),
                "hash_np %d" % p["hs"]]
        meta = {"kind": "table", "variant": p["variant"], "overhead": p["overhead"], "hs": p["hs"], "shape": p["shape"],
                "keys": [k.hex() for k in p["keys"]], "memberq": [k.hex() for k in p["memberq"]],
                "absent": [k.hex() for k in p["absent"]], "ids": ids, "tsize": p["tsize"]}
        cases.append(Case("h%d_%s_%s_n%d_o%d" % (p["idx"], p["variant"], p["shape"], n, p["overhead"]), cmds, meta))
    # ---- nearest_prime on its own: small values, squares of primes, neighbours of primes
    vals = list(range(0, 130)) + [p * p for p in (3, 5, 7, 11, 13, 31, 101, 251, 1021)] + \
        [p * q for p, q in ((3, 5), (7, 11), (101, 103), (251, 257), (1019, 1021))] + \
        [2 ** k + d for k in (8, 10, 12, 16, 20, 24) for d in (-1, 0, 1)]
    vals += [rnd.randint(2, 10 ** 6) for _ in range(60 if tier == "quick" else 600)]
    for i in range(0, len(vals), 40):
        chunk = vals[i:i + 40]
        cases.append(Case("np%d" % i, ["hash_np %d" % v for v in chunk], {"kind": "np", "vals": chunk}))
    return cases


def evaluate_property(case, out):
    """The property itself on the implementation's output (independent of the model):
    locate/extract are mutually inverse bijections keys <-> [1,n], ID = rank of the cell, non-members
    give 0, bad IDs give NULL, the table size is >= the requested size and prime (or 1)."""
    m = case.meta
    fails = []
    if out["status"] != "ok":
        return ["implementation %s on valid input: %s" % (out["status"], " | ".join(out["err"][:3]))]
    L = out["lines"]
    if m["kind"] == "np":
        for v, l in zip(m["vals"], L):
            r = int(l.split()[-1])
            if r < v or not (r == 1 or is_prime(r)) or (v >= 2 and not is_prime(r)):
                fails.append("nearest_prime(%d) = %d" % (v, r))
        return fails
    if len(L) < 4:
        return ["missing output lines"]
    head, body = L[0].split(" :", 1)
    tsize = int([t for t in head.split() if t.startswith("tsize=")][0][6:])
    n = len(m["keys"])
    if tsize < m["hs"] or tsize < n or not (tsize == 1 or is_prime(tsize)):
        fails.append("table size %d for requested %d (n=%d)" % (tsize, m["hs"], n))
    recs = [t.split(":") for t in body.split()]
    if len(recs) != n:
        return fails + ["%d key records for %d keys" % (len(recs), n)]
    cells, ids = [], {}
    for k, r in zip(m["keys"], recs):
        h1, h2 = int(r[0]), int(r[1])
        if not (h1 < tsize and (h2 < tsize) and (tsize == 1 or h2 >= 1)):
            fails.append("hash values out of range for %s: %s" % (k, r))
        if r[2] == "-" or not r[3].isdigit():
            fails.append("member %s not found / representations disagree: %s" % (k, r))
            continue
        cells.append(int(r[2]))
        ids[k] = int(r[3])
    if len(set(cells)) != len(cells) or any(c >= tsize for c in cells):
        fails.append("cells not distinct / out of range")
    if sorted(ids.values()) != list(range(1, n + 1)) and len(ids) == n:
        fails.append("IDs are not a bijection onto [1,n]: %s" % sorted(ids.values())[:10])
    srt = sorted(cells)
    for k, r in zip(m["keys"], recs):
        if r[2] != "-" and r[3].isdigit() and int(r[3]) != srt.index(int(r[2])) + 1:
            fails.append("ID of %s is not the rank of its cell" % k)
            break
    # queries
    qres = [t.split(":") for t in L[1].split(" :", 1)[1].split()]
    qs = m["memberq"] + m["absent"]
    for i, (q, r) in enumerate(zip(qs, qres)):
        if not r[2].isdigit():
            fails.append("locate(%s) = %s" % (q, r[2]))
        elif i < len(m["memberq"]):
            if int(r[2]) != ids.get(q):
                fails.append("locate(%s) = %s, expected %s" % (q, r[2], ids.get(q)))
        elif int(r[2]) != 0:
            fails.append("false positive: locate(%s) = %s" % (q, r[2]))
    # extraction
    byid = {v: k for k, v in ids.items()}
    for t in L[2].split(" :", 1)[1].split():
        i, off, s = t.split(":")
        i = int(i)
        if 1 <= i <= n:
            if s != byid.get(i):
                fails.append("extract(%d) = %s, expected %s" % (i, s, byid.get(i)))
        elif s != "NULL":
            fails.append("extract(%d) = %s for an ID outside [1,%d]" % (i, s, n))
    r = int(L[3].split()[-1])
    if r != tsize:
        fails.append("nearest_prime(%d) = %d but the table has %d cells" % (m["hs"], r, tsize))
    return fails
