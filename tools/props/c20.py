"""C20 — Re-Pair compression is lossless and never merges across string terminators."""
from props import compcheck, gen_repair


def check(run, tier, seed, replay):
    compcheck.run(run, "C20", [gen_repair], tier, seed, replay,
                  rule="integer sequences over 0..255 with 0 as terminator: no repeated pair, single string, highly repetitive "
                       "(a^(2^k), abab...), runs of one symbol, many short strings, most frequent pair straddling a terminator, "
                       "alphabets crossing powers of two; each run through the REAL compressor as the dictionary constructors call "
                       "it (rp_build) and through a real StringDictionaryRPDAC (rpd_build); the grammar it produced is checked by the "
                       "extracted verified checker check_grammar and re-derived line by line by the model. Non-trivial = a case that "
                       "ran the compressor; distinct by the command list.",
                  assumptions=["the heap/hash/linked-list machinery of IRePair.cpp is not modelled: losslessness is proved for EVERY legal "
                               "choice of pair and occurrence set, that the C++ makes a legal choice is validated per instance by check_grammar"])
