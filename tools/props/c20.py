"""C20 — Re-Pair compression is lossless and never merges across string terminators."""
from props import compcheck, gen_repair, gen_rpfc


def check(run, tier, seed, replay):
    compcheck.run(run, "C20", [gen_repair, gen_rpfc], tier, seed, replay, timeout_case=300,
                  rule="integer sequences over 0..255 with 0 as terminator: no repeated pair, single string, highly repetitive "
                       "(a^(2^k), abab...), runs of one symbol, many short strings, most frequent pair straddling a terminator, "
                       "alphabets crossing powers of two, a 1.3M-symbol text that keeps > 10^5 pairs alive (pair hash table growth; oracle SKIPs, "
                       "losslessness evaluated directly); each run through the REAL compressor as the dictionary constructors call "
                       "it (rp_build) and through a real StringDictionaryRPDAC (rpd_build); the grammar it produced is checked by the "
                       "extracted verified checker check_grammar and re-derived line by line by the model; plus the RPFC component (real RPFC objects, "
                       "incl. shared prefixes of exactly 127/128/129/255/256/257 bytes whose VByte contains a 0 byte right after a terminator, "
                       "decoded by the bit-exact RPFC model). Non-trivial = a case that "
                       "ran the compressor; distinct by the command list.",
                  assumptions=["the heap/hash/linked-list machinery of IRePair.cpp is not modelled: losslessness is proved for EVERY legal "
                               "choice of pair and occurrence set, that the C++ makes a legal choice is validated per instance by check_grammar"])
