"""C09 — parallel block build is deterministic for any thread count and schedule."""
from props import compcheck, gen_pool
from props.subgen import Sub


def check(run, tier, seed, replay):
    compcheck.run(run, "C09", [Sub(gen_pool, ["partition", "image"])], tier, seed, replay, poolskel=True,
                  rule="(a) cutting loop: string-length vectors around the cut size (cut exactly at / one below / one above a prefix sum, "
                       "cut 0, cut > total) built into a REAL 2-thread block dictionary whose starting_indexes / part sizes / samples "
                       "must equal the model's partition; (b) image bytes of the same input built with 1, 2, 3 and 8 threads must be "
                       "identical and no part may be null. Non-trivial = a build; distinct by (cut, lengths / strings).",
                  assumptions=["purity of StringDictionaryHASHRPDAC's constructor (no shared mutable state) is a hypothesis of "
                               "C09_parbuild_deterministic (Section variable build_block); validated by C11's TSan runs and inventory",
                               "thread interleavings of the real build are sampled (seeded sleeps), those of the slot protocol model are all covered"])
