"""C09 — parallel block build is deterministic for any thread count and schedule."""
import vlib
from props import compcheck, gen_pool
from props.subgen import Sub


def fill_pass(run, tier, seed):
    """the image cases once more with a different heap fill pattern: a byte of the image that is not a function of the input
    (uninitialised memory saved by a block) makes the image depend on which worker's arena built the block"""
    exe, _ = vlib.build_driver("asan")
    if exe is None:
        return
    cases = [c for c in gen_pool.gen(tier, seed) if c.meta.get("kind") == "image"]
    fill = {"ASAN_OPTIONS": vlib.ASAN_ENV["ASAN_OPTIONS"] + ":malloc_fill_byte=90:max_malloc_fill_size=268435456"}
    a = vlib.run_cases(exe, cases, tag="impl-img", timeout_case=120)
    b = vlib.run_cases(exe, cases, tag="impl-img-fill", env=fill, timeout_case=120)
    nd = 0
    for c in cases:
        la, lb = a.get(c.name, {"lines": []})["lines"], b.get(c.name, {"lines": []})["lines"]
        run.count((c.name, "fill"), nontrivial=True)
        if la != lb and not nd:
            nd += 1
            k = next((i for i in range(min(len(la), len(lb))) if la[i] != lb[i]), 0)
            run.violation("block dictionary image depends on the heap fill pattern (uninitialised memory in the image: it differs between "
                          "runs, hence between thread counts): %s vs %s" % ((la[k] if k < len(la) else "-")[-60:], (lb[k] if k < len(lb) else "-")[-60:]),
                          {"kind": "image", "operation": "save", "command": c.cmds[k][:200] if k < len(c.cmds) else "",
                           "detail": "default ASan fill vs malloc_fill_byte=0x5a", "case": {"name": c.name, "cmds": [x[:300] for x in c.cmds]}},
                          found_input=True)
    run.oblige("block images are independent of the heap fill pattern (no uninitialised byte is saved)", nd == 0, "%d cases differ" % nd)


def check(run, tier, seed, replay):
    compcheck.run(run, "C09", [Sub(gen_pool, ["partition", "image"])], tier, seed, replay, poolskel=True,
                  rule="(a) cutting loop: string-length vectors around the cut size (cut exactly at / one below / one above a prefix sum, "
                       "cut 0, cut > total) built into a REAL 2-thread block dictionary whose starting_indexes / part sizes / samples "
                       "must equal the model's partition; (b) image bytes of the same input built with 1, 2, 3 and 8 threads must be "
                       "identical and no part may be null. Non-trivial = a build; distinct by (cut, lengths / strings).",
                  assumptions=["purity of StringDictionaryHASHRPDAC's constructor (no shared mutable state) is a hypothesis of "
                               "C09_parbuild_deterministic (Section variable build_block); validated by C11's TSan runs and inventory",
                               "thread interleavings of the real build are sampled (seeded sleeps), those of the slot protocol model are all covered"])
    if not replay:
        fill_pass(run, tier, seed)
