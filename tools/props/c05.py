"""C05 — substring search is exact: precisely the members that contain the pattern."""
from props import dictcheck as DC, dictcommon as D


def params_fn(rnd, kind, n):
    if kind == "FMINDEX":
        sparse = rnd.choice([0, 0, 1])
        bparam = rnd.choice([2, 4, 20]) if not sparse else rnd.choice([2, 3, 5, 16, 32, 33])
        return [str(sparse), str(bparam), str(rnd.choice([1, 1, 2, 3, 8, 64]))]
    return []


def make_cmds(rnd, kind, S, params, tier):
    cmds, names = DC.std_phase_cmds(S, kind, params, ("fresh", "reloaded") if kind == "FMINDEX" else ("reloaded",))
    if kind == "XBW":
        cmds.insert(1, "qtimeout 2")
    pats = D.gen_substrs(rnd, S, 30 if kind == "FMINDEX" else 3)
    # repeated occurrences inside one member
    for s in rnd.sample(S, min(len(S), 5 if kind == "FMINDEX" else 0)):
        for k in (1, 2):
            for i in range(0, max(1, len(s) - k), max(1, len(s) // 3)):
                pats.append(s[i:i + k])
    seen, pp = set(), []
    if kind == "FMINDEX":
        pats.append(b"")        # every member contains the empty pattern
    for p in pats:
        if p not in seen:
            seen.add(p)
            pp.append(p)
    for dn in names:
        for p in pp:
            cmds += ["q %s locateSubstr %s" % (dn, D.hx(p)), "q %s extractSubstr %s" % (dn, D.hx(p))]
    return cmds, names, {}


def set_filter(kind, shape, S):
    return kind == "FMINDEX" or len(S) <= 9


from props import gen_fm, gen_iters
from props.subgen import Sub
CFG = DC.Config("C05", ["FMINDEX", "XBW"], make_cmds, components=[gen_fm, Sub(gen_iters, ["dup"])], nsets=(40, 120), big=True, params_fn=params_fn, timeout_case=120, set_filter=set_filter,
                rule="FMINDEX x {RG(2,4,20), RRR(2,16,32)} x BWT sampling steps {1,2,3,8,64} (fresh and reloaded) and XBW; patterns: "
                     "substrings at the start, middle and end of members, whole members, single bytes, byte pairs/triples, repeated "
                     "occurrences inside one member, absent patterns, bytes outside the alphabet, concatenation of two members; "
                     "both the ID stream (each ID once) and the string stream are drained. Non-trivial = a substring query; "
                     "distinct by (kind, params, S, command).")

CFG.fm_text_residues = [31, 0, 1, 30, 63 % 32, 15, 31]


def check(run, tier, seed, replay):
    run.assumptions = ["FM-index backward search / LF walk: see Properties files for what is proved about the abstract FM model; "
                       "suffix sorting and BWT construction are validated per instance, not verified", "XBW: specification only (known finding: XBW substring search does not work on the pinned tree)"]
    DC.run(run, CFG, tier, seed, replay)
