"""C06 — persistence round trip: a saved image reloads to an equivalent dictionary; images are self-delimiting."""
from props import dictcheck as DC, dictcommon as D


def make_cmds(rnd, kind, S, params, tier):
    opt = rnd.choice([1, 2, 3]) if kind in D.LOADOPT_KINDS else 1
    cmds = D.build_cmds(S, kind, params)
    names = {}
    if kind not in D.FRESH_BROKEN:
        names["d"] = "fresh"
    cmds += ["save d i", "save d j"]
    cmds.append("load r i %s %d" % ("generic", opt))
    names["r"] = "reloaded"
    cmds.append("load o i %s %d j" % (kind, opt))        # own loader, a second image follows in the same stream
    names["o"] = "own"
    n = len(S)
    ids = list(range(0, n + 2)) if (n <= 30 or kind in D.HASH_KINDS or kind == "XBW") else sorted(rnd.sample(range(1, n + 1), 30) + [0, n + 1])
    qs = D.gen_queries(rnd, S, limit=15, splice=10)[:36]
    pf = D.gen_prefixes(rnd, S, 8) if kind in D.PREFIX_KINDS else []
    sb = D.gen_substrs(rnd, S, 6) if kind == "FMINDEX" and len(params) > 2 and params[2] != "0" else []
    for dn in names:
        cmds += ["q %s numElements" % dn, "q %s maxLength" % dn]
        cmds += ["q %s extract %d" % (dn, i) for i in ids]
        cmds += ["q %s locate %s" % (dn, D.hx(q)) for q in qs]
        for p in pf:
            cmds += ["q %s locatePrefix %s" % (dn, D.hx(p)), "q %s extractPrefix %s" % (dn, D.hx(p))]
        for p in sb:
            cmds += ["q %s locateSubstr %s" % (dn, D.hx(p)), "q %s extractSubstr %s" % (dn, D.hx(p))]
        if kind in D.ORDER_KINDS:
            cmds += ["q %s locateRank %d" % (dn, k) for k in (1, n)] + ["q %s extractRank %d" % (dn, k) for k in (1, n)]
        if kind != "XBW":
            cmds.append("q %s extractTable" % dn)
        if kind == "PFC":
            cmds += ["mq %s extract %d" % (dn, i) for i in ids[:12]] + ["pfc_image %s" % dn, "pfc_dump %s" % dn]
    return cmds, names, {"loadopt": opt}


def extra_eval(c, io, mo):
    """same answer as the original: the reloaded objects must answer every query exactly like the fresh one
    (this is stronger than 'equal up to a bijection' for the hash kinds)"""
    fails = []
    ans = {}
    for l in io["lines"]:
        pq = D.parse_q(l)
        if pq and l.startswith("q "):
            ans.setdefault((pq[1], pq[2]), {})[pq[0]] = pq[3]
    for (op, arg), byd in ans.items():
        if "d" in byd:
            for dn in ("r", "o"):
                if dn in byd and byd[dn] != byd["d"] and byd[dn] != "" and byd["d"] != "":
                    fails.append(D.Fail(op, "reloaded object (%s) answers '%s', the original answered '%s'" % (dn, byd[dn][:120], byd["d"][:120]),
                                        "q %s %s %s" % (dn, op, arg), DC_classes(c, dn), dn))
    return fails


def DC_classes(c, dn):
    return D.classes_for(c.meta, dn, "", "")


CFG = DC.Config("C06", D.ALL_KINDS, make_cmds, nsets=(8, 20), big=True, extra_eval=extra_eval, serial=True,
                rule="all 13 kinds x parameters: the image is loaded through the generic loader and through the kind's own loader with a SECOND "
                     "image appended to the stream (tellg after load must equal the first image's length), random load option 1..3 for "
                     "HASHHF/HASHRPF; numElements, maxLength, every id, members and absent strings, prefix, substring, rank and table scans "
                     "are compared between the original, both reloaded objects and the specification. PFC images are compared byte for byte "
                     "with the model's. Non-trivial = a query or load; distinct by (kind, params, S, command).")

CFG.fm_text_residues = [31, 0, 1, 30, 63 % 32, 15, 31]


def check(run, tier, seed, replay):
    run.assumptions = ["field-by-field mirror of every save/load pair is re-proved against the schema regenerated from the current source "
                       "(tools/translate_schema.py); 'state that exists only after load' is covered by the correspondence runs"]
    DC.run(run, CFG, tier, seed, replay)
