"""HHTFC (C01, C02, C04, C07 for the HHTFC kind): Front-Coding buckets whose HEADERS are Hu-Tucker coded (coderHT / tableHT,
compared encoded with memcmp) and whose INTERNAL strings VByte(lcp) ++ suffix ++ NUL are Huffman coded (coderHU / tableHU),
both decoded through the chunked 16-bit DecodingTable.

Two phases, both through the real code (the pattern of gen_htfc.py):
  phase 1 (inside gen): `hhtfc_build <b> hex1 hex2 ...` builds a real StringDictionaryHHTFC with the real constructor,
      SAVES it, LOADS the image (only a loaded object can answer queries) and dumps every private member of the LOADED
      object (elements, maxlength, maxcomplength, buckets, bucketsize, textStrings, blStrings, and for each of the two coders
      codewords[256] and the DecodingTable: k, stream, the non-zero table entries, the endings bitmap, the decoding subtrees).
  phase 2 (the returned cases): `hhtfc_model <b> <hexes> <19 fields>` followed by `hhtfc_q <op> <arg>` lines.
      The implementation builds + saves + loads again (same= says the dump is reproduced) and answers every query with the
      real loaded object in a forked grandchild (crash / ASan report attributed to that query); the extracted model
      HHTFCDefs.v answers from the dumped object alone.  `ok=` is the verdict of the verified checker hhtfc_check (the
      implementation prints the constant 1): ok=1 objects are CERTIFIED (the theorems of HHTFCProofs.v apply), ok=0 objects
      are the known defects (unpopulated chunk-table entries, in-bucket lcp multiple of 128 ...): there the model still has to
      reproduce the implementation's behaviour (a memory error of the model = a crash of the query).
evaluate_property recomputes every answer in python from the sorted input, independently of the model, for the certified
instances and for the instances outside the known-defect classes.
"""
import os, random, sys
import vlib
from vlib import Case

HERE = os.path.dirname(os.path.abspath(__file__))
for _p in (HERE, os.path.join(os.path.dirname(HERE), "props"), "/verif/tools/props"):
    if _p not in sys.path:
        sys.path.append(_p)
import gen_rpdac

FIELDS = ("elements maxlength maxcomplength buckets bucketsize text bl cw k stream tab endings trees "
          "cwu ku streamu tabu endingsu treesu").split()


def _extra_dir():
    return HERE if os.path.exists(os.path.join(HERE, "cmd_hhtfc.inc")) else None


_kv = gen_rpdac._kv


def _norm(S):
    return sorted(set(bytes(s) for s in S if len(s) > 0 and 0 not in s))


def lcp(a, b):
    k = 0
    while k < len(a) and k < len(b) and a[k] == b[k]:
        k += 1
    return k


def max_inbucket_lcp(S, b):
    m = 0
    for i in range(1, len(S)):
        if i % b != 0:
            m = max(m, lcp(S[i - 1], S[i]))
    return m


def fib_text(k, lo=2):
    """a string whose symbol counts are Fibonacci numbers over k increasing symbols: deep Hu-Tucker codewords"""
    a, b, out = 1, 1, b""
    for i in range(k):
        out += bytes([lo + i]) * a
        a, b = b, a + b
    return out


def extra_sets(tier, rnd):
    """HTFC-specific boundary sets: (name, S, [bucket sizes])"""
    out = []
    big = tier != "quick"

    def add(name, S, bs):
        S = _norm(S)
        if S:
            out.append(("%s_%d" % (name, len(out)), S, bs))

    # n around multiples of the bucket size (n mod b = 1: the last string is a bucket header)
    for b in [2, 3, 4, 8] + ([16] if big else []):
        for n in sorted(set([1, b - 1, b, b + 1, 2 * b - 1, 2 * b, 2 * b + 1, 3 * b, 3 * b + 1])):
            if n >= 1:
                add("nmul", [b"k%03d" % i for i in range(n)], [b])
                add("nmulp", [b"ab" * (i + 1) for i in range(n)], [b])
                add("nmulr", [bytes(rnd.randint(97, 100) for _ in range(rnd.randint(1, 9))) for i in range(n)], [b])
    # single-character strings
    add("chars", [bytes([c]) for c in range(2, 255)], [2, 3, 16, 253, 254])
    add("chars_all", [bytes([c]) for c in range(1, 256)], [2, 7])
    add("chars_few", [bytes([c]) for c in (2, 3, 128, 129, 254)], [2, 3, 5, 6])
    # shared prefixes around 127/128 (one-byte / two-byte VByte; VByte byte 255 = lcp 127); lcp >= 128 is a known defect
    for L in [1, 2, 126, 127, 128, 129, 130, 255, 256, 257, 300] + ([383, 384, 1000] if big else []):
        base = bytes(97 + (i % 3) for i in range(L))
        add("lcp%d" % L, [base + b"x", base + b"y", base + b"yz", base + b"z", b"b", base[:5]], [2, 3, 4, 7])
        add("lcpa%d" % L, [b"a" * L + b"b", b"a" * L + b"c", b"a" * L + b"cd", b"a" * (L - 1)], [2, 4])
    # bytes that collide with the values VByte bytes take (128 + lcp), 255, 1
    add("vbvals", [bytes([128]), bytes([128, 128]), bytes([128, 129]), bytes([129]), bytes([254, 128]), bytes([254]),
                   bytes([2, 128, 254]), bytes([128, 254, 254]), bytes([255]), bytes([255, 255]), bytes([1]), bytes([1, 1, 255])],
        [2, 3, 8])
    # skewed frequencies: one dominant symbol -> short codewords, many symbols per 16-bit chunk
    add("dom", [b"a" * k for k in range(1, 60)], [2, 5, 16, 64])
    add("dom2", [b"a" * k + b"b" for k in range(0, 40)] + [b"a" * k for k in range(1, 40)], [2, 3, 16])
    add("dom3", [b"\x02" * k for k in range(1, 50)] + [b"\xfe" * k for k in range(1, 50)], [2, 4, 9])
    add("dom4", [b"ab" * k for k in range(1, 40)], [2, 3, 8, 16])
    add("dom5", [b"abc" * k + t for k in range(1, 14) for t in (b"", b"a", b"ab")], [2, 4, 16, 100])
    # deep Hu-Tucker codewords (Fibonacci counts): codewords longer than the 16-bit chunk -> decoding subtrees
    for k in ([14, 18] if not big else [12, 16, 18, 19, 20]):
        t = fib_text(k)
        add("fib%d" % k, [t], [2])
        add("fibm%d" % k, [t, t + b"\x02", t[: len(t) // 2], bytes([2 + k - 1]) * 3, bytes([2]), bytes([2, 3]), bytes([3])], [2, 3, 4])
        t2 = fib_text(k, lo=120)
        add("fibh%d" % k, [t2, t2[:100], t2[:101] + b"z", bytes([120]), bytes([120 + k - 1]) * 2], [2, 3])
    # many distinct symbols in one bucket
    add("alph", [bytes(range(2, 2 + k)) for k in range(1, 120, 7)], [2, 4, 32])
    add("alph2", [bytes(range(c, min(255, c + 9))) for c in range(2, 250, 5)], [2, 3, 8])
    return out


def gen_sets(tier, seed):
    rnd = random.Random(seed * 7919 + 13)
    sets = []
    bchoices = [2, 3, 4, 8, 16, "n", "n+1"]
    k = 0
    for name, S in gen_rpdac.string_sets(tier, rnd):
        S = _norm(S)
        if not S:
            continue
        n = len(S)
        nb = 1 if tier == "quick" else 2
        for j in range(nb):
            b = bchoices[(k + 3 * j) % len(bchoices)]
            k += 1
            b = n if b == "n" else (n + 1 if b == "n+1" else b)
            sets.append(("%s_b%d" % (name, b), S, b))
    for name, S, bs in extra_sets(tier, rnd):
        use = bs if tier != "quick" else bs[:2]
        for b in use:
            sets.append(("%s_b%d" % (name, b), S, b))
    # HHTFC-specific: the recorded HTFC witnesses (lcp = 128 with > 2 symbols in the chunk), long runs of one symbol in the
    # INTERNAL strings (Huffman gives it a 1-bit codeword: 15/16 symbols per chunk, info byte 0xFF), headers and internal
    # strings over disjoint alphabets (the two code tables differ as much as possible), and small random dictionaries
    # (the look-ahead of the constructor over the Huffman-coded next string: the rare unregistered header ending chunk)
    for nm, S, bs in [("r128c", [b"a" * 128, b"a" * 129, b"a" * 130], [3, 2]),
                      ("r256c", [b"a" * 256, b"a" * 257, b"a" * 258, b"a" * 259], [4, 2]),
                      ("run1", [b"b"] + [b"b" + b"a" * k for k in (40, 80, 120)], [4, 2]),
                      ("run2", [b"a" * k for k in (1, 30, 60, 90, 120, 125)], [2, 3, 6]),
                      ("run3", [b"c" + b"a" * 100 + bytes([x]) for x in range(98, 110)], [2, 4, 12]),
                      ("disj", [bytes([65 + i]) + bytes(rnd.randint(97, 99) for _ in range(rnd.randint(0, 12))) for i in range(20)] +
                               [bytes([65 + i]) for i in range(20)], [2, 3, 5]),
                      ("azaa", [b"a", b"az", b"azaa"], [2, 3]),
                      # in-bucket lcp = 128 / 256 (VByte 00 81 / 00 82) in so many items that the Huffman code of byte 0 is short:
                      # the chunk starting an item holds > 2 symbols -> the recorded defect (checker rejects); lcp 129 is fine
                      ("t16", [b"a" * 128] + [b"a" * 128 + bytes([c]) for c in range(98, 98 + 16)], [32, 4]),
                      ("m128", [b"a" * 128] + [b"a" * 128 + bytes([c]) for c in range(98, 98 + 40)], [8, 64]),
                      ("m256", [b"a" * 256] + [b"a" * 256 + bytes([c]) for c in range(98, 98 + 40)], [64, 5]),
                      # Huffman codes a = 1 bit, x = 2 bits: tableHU gets an entry "15 symbols in 16 bits" (info byte 0xFF); the real code is
                      # right since e6f3f34, HTFCDefs.ventry still answers None for 0xFF: uncertified, model None (see NOTES.md §2)
                      ("v255", [b"c", b"c" + (b"a" * 14 + b"x") * 300], [2]),
                      ("m129", [b"a" * 129] + [b"a" * 129 + bytes([c]) for c in range(98, 98 + 40)], [64, 8])]:
        S = _norm(S)
        for b in (bs if tier != "quick" else bs[:2]):
            sets.append(("%s_b%d" % (nm, b), S, b))
    for j in range(120 if tier == "quick" else 1000):
        n = rnd.randint(1, 14)
        al = rnd.choice([b"ab", b"abc", b"abcdefgh", bytes(range(1, 256)), b"az", bytes([1, 2, 254, 255])])
        S = _norm([bytes(rnd.choice(al) for _ in range(rnd.randint(1, rnd.choice([3, 6, 12])))) for _ in range(n)])
        if S:
            sets.append(("rnd%d_b%d" % (j, 2 + j % 4), S, 2 + j % 4))
    sets.append(("clamp0", _norm([b"a", b"ab", b"b"]), 0))
    sets.append(("clamp1", _norm([b"a", b"ab", b"b", b"ba"]), 1))
    sets.append(("witness_yf4", _norm([b"y\xf4"]), 2))
    seen, uniq = set(), []
    for t in sets:
        if t[0] not in seen:
            seen.add(t[0])
            uniq.append(t)
    return uniq, rnd


def model_cmd(b, S, d):
    return "hhtfc_model %d %s " % (b, ",".join(x.hex() for x in S)) + " ".join(d[k] for k in FIELDS)


def gen(tier, seed):
    sets, rnd = gen_sets(tier, seed)
    exe, msg = vlib.build_driver("asan", extra_dir=_extra_dir())
    if exe is None:
        raise RuntimeError("driver build failed: " + msg)
    p1 = [Case("p1_" + name, ["hhtfc_build %d " % b + " ".join(x.hex() for x in S)], {}) for name, S, b in sets]
    res = vlib.run_cases(exe, p1, tag="impl-p1")
    cases = []
    for name, S, b in sets:
        o = res.get("p1_" + name, {"lines": [], "status": "missing", "err": []})
        bb = max(2, b)
        meta = {"strings": [x.hex() for x in S], "b": b, "phase1_status": o["status"], "phase1_err": o["err"][:4],
                "max_inbucket_lcp": max_inbucket_lcp(S, bb), "last_is_header": len(S) % bb == 1}
        line = o["lines"][0] if o["lines"] else ""
        if o["status"] == "ok" and line.startswith("hhtfc_build ") and "elements=" in line:
            d = _kv(line)
            meta["phase1"] = {k: (v if len(v) < 120 else v[:120] + "...") for k, v in d.items()}
            cmd = model_cmd(b, S, d)
        else:
            cmd = "hhtfc_model %d %s 0 0 0 0 2 - 0 - 16 - - - - - 16 - - - -" % (b, ",".join(x.hex() for x in S))
        n = len(S)
        total = sum(len(x) for x in S)
        qs = gen_rpdac.queries(S, rnd, (30 if tier == "quick" else 60) if total < 4000 else 8)
        extra_ids = set(i for i in [bb - 1, bb, bb + 1, 2 * bb, 2 * bb + 1, n - (n % bb), n - (n % bb) + 1] if i >= 1)
        if n <= 48:
            extra_ids |= set(range(1, n + 1))
        else:
            extra_ids |= set(rnd.randint(1, n) for _ in range(24))
        have = set(q for q in qs if q[0] == "extract")
        qs += [("extract", str(i)) for i in sorted(extra_ids) if ("extract", str(i)) not in have]
        cases.append(Case(name, [cmd] + [("hhtfc_q %s %s" % q).rstrip() for q in qs], meta))
    return cases


TOLERATED_SITES = ("memcmp", "MemcmpInterceptorCommon", "memcpy")   # known findings ht-locatebucket-memcmp-overread / ht-prefix-memcpy-overread (the answer is still checked)
DT_SITES = ("DecodingTable::getSubstring", "DecodingTable::processChunk", "VByte::decode", "StatCoder::decodeString",
            "decodeHeader", "decodeString")                        # known finding decoding-table-unpopulated (input class decoding_table_crash)


def evaluate_property(case, out, certified=None):
    """The properties themselves (C01-C04 for this kind) on the implementation's output lines.  `certified` (the
    model's ok= verdict) is optional: without it every instance outside the known-defect input classes is judged."""
    fails = []
    m = case.meta
    if m.get("phase1_status") != "ok" or "phase1" not in m:
        return ["dictionary build (phase 1) %s: %s" % (m.get("phase1_status"), " | ".join(m.get("phase1_err", [])))]
    known_class = m.get("max_inbucket_lcp", 0) >= 128      # ht-front-coding-lcp-ge-128
    if out["status"] != "ok":
        fails.append("implementation %s on valid input: %s" % (out["status"], " | ".join(out["err"][:3])))
    S = [bytes.fromhex(h) for h in m["strings"]]
    n = len(S)
    b = max(2, m["b"])
    lines = out["lines"]
    if not lines or not lines[0].startswith("hhtfc_model "):
        return fails + ["no hhtfc_model line"]
    d = _kv(lines[0])
    if d.get("same") != "1":
        fails.append("second build produced a different dictionary")
    if int(d.get("elements", -1)) != n:
        fails.append("elements=%s, expected %d" % (d.get("elements"), n))
    if int(d.get("maxlength", -1)) != max(len(s) for s in S) + 1:
        fails.append("maxlength=%s, expected %d" % (d.get("maxlength"), max(len(s) for s in S) + 1))
    if int(d.get("buckets", -1)) != (n + b - 1) // b:
        fails.append("buckets=%s, expected %d" % (d.get("buckets"), (n + b - 1) // b))
    if int(d.get("bucketsize", -1)) != b:
        fails.append("bucketsize=%s, expected %d" % (d.get("bucketsize"), b))
    cmds = case.cmds[1:]
    if len(lines) - 1 != len(cmds):
        fails.append("%d answers for %d queries" % (len(lines) - 1, len(cmds)))
    notes = out.get("notes", {})
    for k, (cmd, line) in enumerate(zip(cmds, lines[1:])):
        tk = cmd.split()
        op = tk[1]
        arg = tk[2] if len(tk) > 2 else ""
        dt = False
        for nt in notes.get(k + 1, []):
            if any(x in nt for x in DT_SITES) or (nt.startswith("crash") and any(any(x in n2 for x in DT_SITES) for n2 in notes.get(k + 1, []))):
                dt = True              # known finding: the decoder ran into an unpopulated entry / read past textStrings
            elif nt.startswith("crash"):
                if certified is not False and not known_class:
                    fails.append("query crashed: " + nt[:100])
            elif nt.startswith("asan") and not any(x in nt for x in TOLERATED_SITES):
                if certified is not False and not known_class:
                    fails.append("sanitizer report: " + nt[:120])
        if dt and certified:
            fails.append("certified instance hit the decoder defect: " + " | ".join(notes.get(k + 1, []))[:160])
        if certified is False or known_class or dt:
            continue                       # known defect classes: only the model/implementation agreement is checked
        if " = " not in line + " ":
            fails.append("malformed answer: " + line[:80])
            continue
        ans = line.split("=", 1)[1].split()
        pat = b"" if arg in ("-", "") else (bytes.fromhex(arg) if op != "extract" else b"")
        if op == "locate":
            want = S.index(pat) + 1 if pat in S else 0
            if ans != [str(want)]:
                fails.append("locate(%s) = %s, expected %d" % (arg, " ".join(ans), want))
        elif op == "extract":
            i = int(arg)
            want = ["%s/%d/%d" % (S[i - 1].hex(), len(S[i - 1]), len(S[i - 1]))] if 1 <= i <= n else ["NULL/0"]
            if ans != want:
                fails.append("extract(%s) = %s, expected %s" % (arg, " ".join(ans)[:60], want[0][:60]))
        elif op == "locatePrefix":
            if not pat:
                continue  # empty pattern: not covered by the property
            want = ["ids"] + [str(i + 1) for i, s in enumerate(S) if s.startswith(pat)]
            if ans != want:
                fails.append("locatePrefix(%s) = %s, expected %s" % (arg, " ".join(ans)[:60], " ".join(want)[:60]))
        elif op in ("extractPrefix", "extractTable"):
            if op == "extractPrefix" and not pat:
                continue
            sel = [s for s in S if op == "extractTable" or s.startswith(pat)]
            want = ["strs"] + ["%s/%d/%d" % (s.hex(), len(s), len(s)) for s in sel]
            if op == "extractPrefix" and not sel:
                want = ["NULL"]
            if ans != want:
                fails.append("%s(%s) = %s, expected %s" % (op, arg, " ".join(ans)[:80], " ".join(want)[:80]))
    return fails[:10]


# ---- hooks used by compcheck.run_components ---------------------------------------------------------------------------
def _certified(mo):
    return bool(mo.get("lines")) and "ok=1" in mo["lines"][0]


def compare_lines(case, io, mo):
    """model/implementation agreement as wip/htfc/run.py defines it: the checker verdicts (ok=, ok2=, ok3=) exist on the model side
    only; on an UNcertified object a model answer `None` (line ending in " =": the model read outside the text or found an
    unpopulated table entry) has no implementation counterpart to agree with (the real code crashes, reports or answers from
    stale bytes there: recorded findings) - every other line must be equal"""
    import re
    cert = _certified(mo)
    dis = []
    for k, (a, b) in enumerate(zip(io["lines"], mo["lines"])):
        if b.startswith("SKIP"):
            continue
        if k == 0:
            a = re.sub(r" ok[23]?=[01]", "", a)
            b = re.sub(r" ok[23]?=[01]", "", b)
        if b.endswith(" =") and not cert:
            continue
        if a != b:
            dis.append({"cmd": case.cmds[k][:300] if k < len(case.cmds) else "?", "impl": a[:600], "model": b[:600]})
    if len(io["lines"]) != len(mo["lines"]) and io.get("status") == "ok":
        dis.append({"cmd": "(line count)", "impl": str(len(io["lines"])), "model": str(len(mo["lines"]))})
    return dis


def evaluate_property_m(case, io, mo):
    return evaluate_property(case, io, _certified(mo))


def sanitizer_scope(case):
    return False        # sanitizer notes of the isolated queries are judged by evaluate_property (known over-read findings tolerated)
