"""ID iterators (Contiguous / Duplicates / NoContiguous) and block routing of StringDictionaryHASHRPDACBlocks.

gen(tier, seed)              -> cases on which model and implementation must agree line by line
gen_controls(tier, seed)     -> negative controls: inputs OUTSIDE the theorems' hypotheses (no sentinel cell, an id 0
                                before the sentinel); the model answers OOB, the implementation must raise an ASan report
evaluate_property(case, io)  -> the property itself, recomputed in python from the command line and the impl's output
"""
import random
import sys
import os
sys.path.insert(0, os.path.join(os.path.dirname(os.path.abspath(__file__)), "..", "..", "tools"))
from vlib import Case  # noqa: E402

M64 = 1 << 64


def hx(b):
    return b.hex() if b else "-"


def unhx(h):
    return b"" if h == "-" else bytes.fromhex(h)


# ----------------------------------------------------------------------------------------------
# generators
# ----------------------------------------------------------------------------------------------
def gen_strings(rnd, n, shape):
    if shape == "hi":       # bytes on both sides of 0x80: unsigned vs signed char comparison
        alpha = [0x02, 0x41, 0x7f, 0x80, 0x81, 0xfe]
    elif shape == "bin":
        alpha = [0x61, 0x62]
    elif shape == "ladder":
        alpha = [0x61]
    else:
        alpha = [0x61, 0x62, 0x63, 0x7a, 0xe9]
    out = set()
    tries = 0
    while len(out) < n and tries < 50 * n + 100:
        tries += 1
        ln = rnd.choice([1, 1, 2, 3, 4, 6]) if shape != "ladder" else rnd.randint(1, n + 2)
        out.add(bytes(rnd.choice(alpha) for _ in range(ln)))
    return sorted(out)


def queries_for(rnd, S, samples):
    qs = []
    qs += [S[0], S[-1]]
    qs += samples
    qs += rnd.sample(S, min(len(S), 4))
    # below the first / above the last
    first, last = S[0], S[-1]
    if first != b"\x02":
        qs.append(b"\x02")
    if len(first) > 1:
        qs.append(first[:-1])
    qs.append(last + b"\x02")
    qs.append(b"\xfe" * (max(len(s) for s in S) + 1))
    # between: neighbours of samples and members
    for s in rnd.sample(S, min(len(S), 3)) + samples[:3]:
        qs.append(s + b"\x02")
        qs.append(s + b"\xfe")
        if s[-1] > 2:
            qs.append(s[:-1] + bytes([s[-1] - 1]))
        if s[-1] < 254:
            qs.append(s[:-1] + bytes([s[-1] + 1]))
        if len(s) > 1:
            qs.append(s[:-1])
    seen, out = set(), []
    for q in qs:
        if q and q not in seen and 0 not in q:
            seen.add(q)
            out.append(q)
    return out


def py_partition(cut, S):
    blocks, cur, acc = [], [], 0
    for i, s in enumerate(S):
        cur.append(s)
        acc += len(s) + 1
        if i == len(S) - 1 or acc > cut:
            blocks.append(cur)
            cur, acc = [], 0
    return blocks


def gen(tier, seed):
    rnd = random.Random(seed * 104729 + 13)
    big = tier != "quick"
    cases = []

    # ---- Contiguous ------------------------------------------------------------------------
    B = [0, 1, 2, 3, 7, 100, (1 << 31) - 1, 1 << 31, (1 << 32) - 2, (1 << 32) - 1, 1 << 32, (1 << 32) + 1,
         (1 << 63) - 1, 1 << 63, M64 - 3, M64 - 2, M64 - 1]
    pairs = [(0, 0), (0, 1), (0, 5), (0, M64 - 1), (1, 0), (1, 1), (1, 2), (1, 10), (5, 4), (5, 3), (7, 7),
             (1, M64 - 1), (M64 - 1, M64 - 1), (M64 - 2, M64 - 1), (M64 - 1, M64 - 2), (M64 - 1, 0), (M64 - 1, 1),
             ((1 << 32) - 3, (1 << 32) + 3), (1 << 32, 1 << 32), ((1 << 32) + 1, 1 << 32)]
    for l in B:
        for d in (0, 1, 2, 9):
            if l + d < M64:
                pairs.append((l, l + d))
        if l > 0:
            pairs.append((l, l - 1))
    for _ in range(40 if not big else 600):
        l = rnd.choice(B + [rnd.getrandbits(rnd.choice([3, 16, 33, 64]))])
        r = rnd.choice([l, min(M64 - 1, l + rnd.randint(0, 30)), rnd.choice(B), max(0, l - rnd.randint(1, 3))])
        pairs.append((l, r))
    cmds = []
    for (l, r) in pairs:
        n = r - l + 1 if r >= l else 0
        caps = {min(n + 5, 40)}
        if n > 1:
            caps.add(min(n, 40))       # exactly the last element: hasNext must be false afterwards
            caps.add(min(n - 1, 40))   # one short: MORE
        caps.add(0)
        for cap in sorted(caps):
            cmds.append("it_contig %d %d %d" % (l, r, cap))
    for i in range(0, len(cmds), 25):
        cases.append(Case("contig%d" % i, cmds[i:i + 25], {"kind": "contig"}))

    # ---- Duplicates / NoContiguous ------------------------------------------------------------
    lists = [[], [1], [7], [1, 1], [1, 2], [3, 3, 3], [1, 1, 2], [1, 2, 2], [1, 2, 3], [1, 1, 2, 2, 3, 3],
             [5, 5, 5, 5, 9], [2, 9, 9, 9, 9], [1, 2, 3, 4, 5, 6, 7, 8], [4] * 17, [M64 - 1], [M64 - 1, M64 - 1],
             [1, M64 - 1], [(1 << 32) - 1, 1 << 32, 1 << 32], [1, 1, 1, 2, 3, 3, 3]]
    for _ in range(60 if not big else 900):
        k = rnd.choice([1, 2, 3, 5, 8, 13, 30])
        pool = rnd.choice([2, 3, k, 4 * k])
        lists.append(sorted(rnd.randint(1, pool) for _ in range(k)))
    cmds = []
    for ids in lists:
        cmds.append("it_dup %d %s" % (len(ids), " ".join(map(str, ids))))
        # same ids with junk AFTER the sentinel (theorem is stated for any continuation): junk equal to 0 / to the last id
        for junk in ([0, 0], [ids[-1] if ids else 3, 0], [7]):
            arr = ids + [0] + junk
            cmds.append("it_dup_raw %d %d %s" % (len(arr), len(ids), " ".join(map(str, arr))))
    for i in range(0, len(cmds), 30):
        cases.append(Case("dup%d" % i, [c.strip() for c in cmds[i:i + 30]], {"kind": "dup"}))
    cmds = []
    for ids in lists:
        perm = ids[:]
        rnd.shuffle(perm)
        cmds.append(("it_nocontig %d %s" % (len(perm), " ".join(map(str, perm)))).strip())
        if perm:  # scanneable smaller than the array
            k = rnd.randint(0, len(perm))
            cmds.append("it_nocontig_raw %d %d %s" % (len(perm), k, " ".join(map(str, perm))))
    for i in range(0, len(cmds), 30):
        cases.append(Case("nocontig%d" % i, cmds[i:i + 30], {"kind": "nocontig"}))

    # ---- binary_search_before_index probes ----------------------------------------------------
    cmds = []
    for t in range(30 if not big else 300):
        n = rnd.choice([1, 1, 2, 3, 4, 7, 12])
        S = gen_strings(rnd, n, rnd.choice(["hi", "bin", "mix", "ladder"]))
        for q in queries_for(rnd, S, S)[: (12 if not big else 30)]:
            cmds.append("bsbi_samples %s %s" % (hx(q), " ".join(hx(s) for s in S)))
    for i in range(0, len(cmds), 30):
        cases.append(Case("bsbiS%d" % i, cmds[i:i + 30], {"kind": "bsbi_samples"}))
    cmds = []
    for t in range(30 if not big else 300):
        n = rnd.choice([1, 1, 2, 3, 5, 9])
        starts = [0]
        for _ in range(n - 1):
            starts.append(starts[-1] + rnd.choice([1, 1, 2, 5, 1000, 1 << 32]))
        if rnd.random() < 0.15:
            off = rnd.choice([1, 5]); starts = [s + off for s in starts]   # first start not 0 (cannot happen for a built object)
        ts = {0, 1, M64 - 1, M64 - 2, (1 << 32) - 1, 1 << 32, starts[-1], starts[-1] + 1, starts[-1] + 7}
        for s in starts:
            ts.update({s, s + 1, max(0, s - 1)})
        for tv in sorted(ts):
            cmds.append("bsbi_index %d %s" % (tv % M64, " ".join(map(str, starts))))
    for i in range(0, len(cmds), 40):
        cases.append(Case("bsbiI%d" % i, cmds[i:i + 40], {"kind": "bsbi_index"}))

    # ---- real block dictionaries -----------------------------------------------------------------
    nsets = 24 if not big else 120
    for t in range(nsets):
        n = rnd.choice([1, 2, 3, 5, 8, 8, 13, 13, 21] if not big else [1, 2, 3, 5, 8, 13, 13, 21, 21, 40])
        S = gen_strings(rnd, n, rnd.choice(["hi", "bin", "mix", "mix", "ladder"]))
        n = len(S)
        total = sum(len(s) + 1 for s in S)
        cuts = {1, 3, 5, 8, 13, rnd.randint(1, max(1, total)), max(1, total // 4), max(1, total // 2),
                max(1, total - 1), total + 1}
        if t % 5 == 0:
            cuts.update({total, 1 << 20, 2})
        cuts = sorted(cuts)
        ncut = 4 if not big else 6
        cuts = sorted(set(rnd.sample(cuts, min(ncut, len(cuts))) + [1, total + 1]))
        Sx = " ".join(hx(s) for s in S)
        for cut in cuts:
            blocks = py_partition(cut, S)
            samples = [b[0] for b in blocks]
            cmds = []
            for q in queries_for(rnd, S, samples)[: (14 if not big else 24)]:
                cmds.append("blocks_route %d %s %s" % (cut, hx(q), Sx))
            ids = sorted({0, 1, 2, n - 1, n, n + 1, n + 2, (1 << 32) - 1, 1 << 32, (1 << 32) + 1, M64 - 1, M64 - 2} |
                         set(range(1, min(n, 12) + 1)) | {len(b) for b in blocks})
            starts, acc = [], 0
            for b in blocks:
                starts.append(acc)
                acc += len(b)
            ids = sorted(set(ids) | set(starts) | {s + 1 for s in starts} | {M64 - s for s in starts if s > 0})
            for i in ids:
                if 0 <= i < M64:
                    cmds.append("blocks_extract %d %d %s" % (cut, i, Sx))
            cmds.append("blocks_table %d %s" % (cut, Sx))
            cases.append(Case("blocks%d_%d" % (t, cut), cmds, {"kind": "blocks", "n": n, "cut": cut, "nblocks": len(blocks)}))
    return cases


def gen_controls(tier, seed):
    """Inputs outside the hypotheses: the model says OOB, the implementation must produce an ASan report."""
    cs = []
    ctl = ["it_dup_raw 1 1 5",            # no sentinel cell: the first next() reads index k = 1 of a 1-cell array
           "it_dup_raw 3 3 1 2 3",
           "it_dup_raw 2 1 0 0",          # an id 0 followed by the 0 sentinel: the loop runs through the sentinel
           "it_dup_raw 4 3 0 0 0 0",
           "it_nocontig_raw 2 3 4 5",     # scanneable larger than the array
           "blocks_route 5 61"]           # empty input set: no parts, v.size() - 1 wraps, parts[2^64-1]
    for i, c in enumerate(ctl):
        cs.append(Case("ctl%d" % i, [c], {"kind": "control", "expect": "asan"}))
    return cs


# ----------------------------------------------------------------------------------------------
# the property, evaluated on the implementation's output
# ----------------------------------------------------------------------------------------------
def _ids(rest):
    tk = rest.split()
    if not tk or tk[0] != "ids":
        return None, False
    more = tk[-1] == "MORE"
    body = tk[1:-1] if more else tk[1:]
    return [int(x) for x in body], more


def _kv(rest):
    d = {}
    for t in rest.split():
        if "=" in t:
            k, v = t.split("=", 1)
            d[k] = v
    return d


def evaluate_property(case, io):
    bad = []
    lines = io.get("lines", [])
    if case.meta.get("kind") == "control":
        if not any("Sanitizer" in e for e in io.get("err", [])) and io.get("status") == "ok":
            bad.append("control %s: expected an AddressSanitizer report" % case.cmds[0])
        return bad
    if io.get("status") != "ok":
        bad.append("status %s %s" % (io.get("status"), io.get("err", [])[:2]))
    if any("AddressSanitizer" in e or "runtime error" in e for e in io.get("err", [])):
        bad.append("sanitizer report: %s" % io["err"][:2])
    if len(lines) != len(case.cmds):
        bad.append("expected %d result lines, got %d" % (len(case.cmds), len(lines)))
        return bad
    for cmd, line in zip(case.cmds, lines):
        tk = cmd.split()
        c = tk[0]
        if " = " not in line and not line.endswith(" ="):
            bad.append("unparsable: " + line)
            continue
        rest = line.split(" =", 1)[1].strip()
        if c == "it_contig":
            l, r, cap = int(tk[1]), int(tk[2]), int(tk[3])
            n = r - l + 1 if 1 <= l <= r else 0
            want = list(range(l, l + min(n, cap)))
            got, more = _ids(rest)
            if got != want or more != (n > cap):
                bad.append("%s: got %s more=%s, want %s more=%s" % (cmd, got, more, want, n > cap))
        elif c in ("it_dup", "it_dup_raw"):
            if c == "it_dup":
                k = int(tk[1]); ids = [int(x) for x in tk[2:2 + k]]
            else:
                k = int(tk[2]); ids = [int(x) for x in tk[3:3 + k]]
            want = sorted(set(ids))
            got, more = _ids(rest)
            if got != want or more:
                bad.append("%s: got %s more=%s, want each id once ascending %s" % (cmd, got, more, want))
        elif c in ("it_nocontig", "it_nocontig_raw"):
            if c == "it_nocontig":
                k = int(tk[1]); ids = [int(x) for x in tk[2:2 + k]]
            else:
                k = int(tk[2]); ids = [int(x) for x in tk[3:3 + k]]
            got, more = _ids(rest)
            if got != ids or more:
                bad.append("%s: got %s more=%s want %s" % (cmd, got, more, ids))
        elif c == "bsbi_samples":
            q = unhx(tk[1]); v = [unhx(x) for x in tk[2:]]
            le = [i for i, s in enumerate(v) if s <= q]     # python bytes order = unsigned lexicographic, prefix first
            want = le[-1] if le else 0
            if rest.split()[0] != str(want) or "calls=1" not in rest:
                bad.append("%s: got %s want block %d" % (cmd, rest, want))
        elif c == "bsbi_index":
            t = int(tk[1]); v = [int(x) for x in tk[2:]]
            le = [i for i, s in enumerate(v) if s <= t]
            want = le[-1] if le else 0
            e = ((t + 1) % M64 - v[want]) % M64
            d = _kv(rest)
            if rest.split()[0] != str(want) or d.get("calls") != "1" or d.get("eindex") != str(e):
                bad.append("%s: got %s want block %d eindex %d" % (cmd, rest, want, e))
        elif c in ("blocks_route", "blocks_extract", "blocks_table"):
            cut = int(tk[1])
            S = [unhx(x) for x in (tk[2:] if c == "blocks_table" else tk[3:])]
            n = len(S)
            blocks = py_partition(cut, S)
            starts, acc = [], 0
            for b in blocks:
                starts.append(acc); acc += len(b)
            d = _kv(rest)
            if c != "blocks_extract":
                lay = (d.get("qty"), d.get("parts"), d.get("samples"), d.get("starts"))
                wantlay = (str(n), str(len(blocks)), ",".join(hx(b[0]) for b in blocks), ",".join(map(str, starts)))
                if lay != wantlay:
                    bad.append("%s: layout %s want %s" % (cmd[:60], lay, wantlay))
            if c == "blocks_route":
                q = unhx(tk[2])
                if q in S:
                    j = [i for i, b in enumerate(blocks) if q in b][0]
                    if d.get("found") != "1" or d.get("block") != str(j) or d.get("rt") != hx(q):
                        bad.append("%s: member not round-tripped: %s (want block %d)" % (cmd[:60], rest[-60:], j))
                elif d.get("found") != "0":
                    bad.append("%s: non-member located: %s" % (cmd[:60], rest[-60:]))
            elif c == "blocks_extract":
                i = int(tk[2])
                if 1 <= i <= n:
                    j = [x for x in range(len(starts)) if starts[x] < i][-1]
                    if (d.get("blk"), d.get("member"), d.get("relocate"), d.get("nul")) != (str(j), "1", "1", "1"):
                        bad.append("%s: %s want blk=%d member=1 relocate=1 nul=1" % (cmd[:60], rest, j))
                elif not rest.startswith("NULL/0"):
                    bad.append("%s: id out of range must give NULL/0, got %s" % (cmd[:60], rest))
            else:
                strs = rest.split(" strs", 1)[1].split() if " strs" in rest else None
                if strs is None or strs != [hx(s) for s in S] or d.get("eq_extract") != "1":
                    bad.append("%s: table %s eq_extract=%s" % (cmd[:60], strs, d.get("eq_extract")))
        else:
            bad.append("unknown command " + c)
    return bad
