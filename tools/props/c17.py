"""C17 — integer containers and codecs round-trip every value (VByte, LogSequence, DAC)."""
import random
import vlib
from vlib import Case


def vb_py(c):
    out = []
    while c > 127:
        out.append(c & 127)
        c >>= 7
    out.append(c | 0x80)
    return bytes(out)


def gen(tier, seed):
    rnd = random.Random(seed * 7919 + 17)
    cases = []
    # ---- VByte: boundaries of every byte count + random
    vals = [0, 1, 2, 126, 127, 128, 129, 255, 256, 16383, 16384, 16385, (1 << 21) - 1, 1 << 21, (1 << 21) + 1,
            (1 << 28) - 1, 1 << 28, (1 << 28) + 1, (1 << 31) - 1, 1 << 31, (1 << 32) - 2, (1 << 32) - 1]
    nrand = 400 if tier == "quick" else 20000
    for _ in range(nrand):
        k = rnd.choice([7, 8, 14, 15, 21, 22, 28, 29, 32])
        vals.append(rnd.getrandbits(k))
    for i in range(0, len(vals), 50):
        chunk = vals[i:i + 50]
        cmds = []
        for v in chunk:
            cmds += ["vb_enc %d" % v, "vb2_enc %d" % v, "vb_dec %s" % vb_py(v).hex(), "vb2_dec %s" % vb_py(v).hex()]
        cases.append(Case("vb%d" % i, cmds, {"kind": "vbyte", "vals": chunk}))
    # ---- LogSequence
    widths = list(range(1, 65))
    ns = [1, 2, 3, 63, 64, 65, 127, 128, 129] if tier == "quick" else [1, 2, 3, 5, 31, 32, 33, 63, 64, 65, 100, 127, 128, 129, 257]
    ci = 0
    for w in widths:
        for n in (rnd.sample(ns, 3) if tier == "quick" else ns):
            mx = (1 << w) - 1
            ops = []
            nops = min(3 * n, 120)
            pattern = rnd.choice(["seq", "rand", "overwrite"])
            for k in range(nops):
                pos = k % n if pattern == "seq" else rnd.randrange(n)
                v = rnd.choice([0, 1, mx, mx >> 1, (mx // 3), rnd.getrandbits(w)]) & mx
                ops.append((pos, v))
            cmds = ["ls_new %d %d" % (w, n)]
            for pos, v in ops:
                cmds.append("ls_set %d 0x%x" % (pos, v))
            # an out-of-range value and position are rejected (throw) without damage
            if w < 64:
                cmds.append("ls_set 0 0x%x" % (mx + 1))
            cmds += ["ls_get %d" % p for p in range(n)]
            cmds += ["ls_dump", "ls_save", "ls_reload", "ls_dump"]
            cmds += ["ls_get %d" % p for p in range(n)]
            cases.append(Case("ls%d" % ci, cmds, {"kind": "logseq", "w": w, "n": n, "ops": ops}))
            ci += 1
    # vector constructor
    for w in ([1, 7, 13, 31, 32, 33, 40, 63, 64] if tier == "quick" else widths):
        n = rnd.choice([1, 5, 64, 65, 130])
        mx = (1 << w) - 1
        vs = [rnd.choice([0, mx, rnd.getrandbits(w)]) & mx for _ in range(n)]
        cmds = ["ls_vec %d %s" % (w, " ".join("0x%x" % v for v in vs))]
        cmds += ["ls_get %d" % p for p in range(n)] + ["ls_dump", "ls_reload"] + ["ls_get %d" % p for p in range(n)]
        cases.append(Case("lv%d" % w, cmds, {"kind": "logvec", "w": w, "n": n, "vs": vs}))
    return cases


def gen_dac_cases(tier, seed):
    """the original DAC_VLS cases of this module; replayed (with an extended command list) by gen_dac"""
    rnd = random.Random(seed * 7919 + 18)
    cases = []
    # ---- DAC_VLS
    nd = 60 if tier == "quick" else 600
    for k in range(nd):
        logr = rnd.choice([1, 2, 3, 7, 8, 9, 13, 16, 17, 24, 31])
        nseq = rnd.choice([1, 1, 2, 3, 5, 17, 33, 64, 65, 100])
        maxseq = rnd.choice([1, 1, 2, 3, 4, 9])
        shape = rnd.choice(["rand", "allmax", "all1", "lastone", "lastmax"])
        seqs = []
        for i in range(nseq):
            ln = {"rand": rnd.randint(1, maxseq), "allmax": maxseq, "all1": 1,
                  "lastone": 1 if i == nseq - 1 else rnd.randint(1, maxseq),
                  "lastmax": maxseq if i == nseq - 1 else rnd.randint(1, maxseq)}[shape]
            seqs.append([rnd.getrandbits(logr) for _ in range(ln)])
        realmax = max(len(s) for s in seqs)
        flat = []
        for i, s in enumerate(seqs):
            flat += s + [-(i + 1)]
        # l_Length as the dictionaries pass it: everything but the closing separator
        llen = len(flat) - 1
        cmds = ["dac_new %d %d %d %s" % (logr, realmax, llen, " ".join(map(str, flat)))]
        cmds += ["dac_dump"]
        cmds += ["dac_access %d" % (i + 1) for i in range(nseq)]
        cmds += ["dac_chain %d" % (i + 1) for i in range(nseq)]
        cmds += ["dac_reload", "dac_dump"]
        cmds += ["dac_access %d" % (i + 1) for i in range(nseq)]
        cases.append(Case("dac%d" % k, cmds, {"kind": "dac", "logr": logr, "seqs": seqs, "maxseq": realmax, "shape": shape}))
    return cases


def evaluate_property(case, out):
    """The property itself, evaluated on the implementation's output (independent of the model)."""
    lines = out["lines"]
    m = case.meta
    fails = []
    if out["status"] != "ok":
        fails.append("implementation %s on valid input: %s" % (out["status"], " | ".join(out["err"][:3])))
        return fails
    if m["kind"] == "vbyte":
        enc = {}
        for l in lines:
            t = l.split()
            if t[0] in ("vb_enc", "vb2_enc"):
                enc[(t[0][:-4], int(t[1]))] = (t[3], int(t[4]))
            elif t[0] in ("vb_dec", "vb2_dec"):
                # decoded value / consumed bytes must match what was encoded
                h = t[1]
                v, n = int(t[3]), int(t[4])
                exp = [x for x in m["vals"] if vb_py(x).hex() == h]
                if exp and (v != exp[0] or n != len(h) // 2):
                    fails.append("%s(%s) = (%d,%d), expected (%d,%d)" % (t[0], h, v, n, exp[0], len(h) // 2))
        for (fam, v), (h, n) in enc.items():
            if h != vb_py(v).hex() or n != len(h) // 2 or n > 5:
                fails.append("%s_enc(%d) = %s/%d" % (fam, v, h, n))
    elif m["kind"] in ("logseq", "logvec"):
        n = m["n"]
        cur = [0] * n
        if m["kind"] == "logseq":
            for pos, v in m["ops"]:
                cur[pos] = v
        else:
            cur = list(m["vs"])
        gets = [l for l in lines if l.startswith("ls_get ")]
        if len(gets) != 2 * n:
            fails.append("expected %d get lines, saw %d" % (2 * n, len(gets)))
        for idx, l in enumerate(gets):
            t = l.split()
            pos = int(t[1])
            phase = "fresh" if idx < n else "reloaded"
            if t[3] == "throw" or int(t[3], 16) != cur[pos]:
                fails.append("w=%d n=%d %s get(%d) = %s, last stored 0x%x" % (m["w"], n, phase, pos, t[3], cur[pos]))
        for l in lines:
            if l.startswith("ls_reload") and "MODEL" not in l:
                t = dict(x.split("=") for x in l.split()[1:])
                if t["consumed"] != t["of"]:
                    fails.append("loader consumed %s of %s image bytes" % (t["consumed"], t["of"]))
        if m["kind"] == "logseq" and m["w"] < 64:
            if not any(l.endswith("throw") and l.startswith("ls_set") for l in lines):
                fails.append("out-of-range value was not rejected")
    elif m["kind"] == "dac":
        seqs = m["seqs"]
        acc = [l for l in lines if l.startswith("dac_access ")]
        if len(acc) != 2 * len(seqs):
            fails.append("expected %d access lines, saw %d" % (2 * len(seqs), len(acc)))
        for idx, l in enumerate(acc):
            t = l.split()
            pos = int(t[1])
            ln = int(t[3])
            got = [int(x) for x in t[5:]]
            if ln != len(seqs[pos - 1]) or got != seqs[pos - 1]:
                fails.append("%s access(%d) = len %d %s, stored %s" % ("fresh" if idx < len(seqs) else "reloaded", pos, ln, got, seqs[pos - 1]))
        for l in lines:
            if l.startswith("dac_chain "):
                t = l.split()
                pos = int(t[1])
                got = [int(x) for x in t[3:]]
                if got != seqs[pos - 1]:
                    fails.append("access_next chain(%d) = %s, stored %s" % (pos, got, seqs[pos - 1]))
            if l.startswith("dac_new") and "listLength=%d " % len(seqs) not in l + " ":
                fails.append("listLength wrong: %s (stored %d sequences)" % (l, len(seqs)))
            if l.startswith("dac_reload"):
                t = dict(x.split("=") for x in l.split()[1:])
                if t["consumed"] != t["of"]:
                    fails.append("DAC loader consumed %s of %s image bytes" % (t["consumed"], t["of"]))
    return fails


def check(run, tier, seed, replay):
    import sys
    from props import compcheck, gen_dac, gen_cds32
    compcheck.run(run, "C17", [sys.modules[__name__], gen_dac, gen_cds32], tier, seed, replay,
                  rule="VByte: every byte-count boundary + random 32-bit values; LogSequence: every width 1..64 x lengths around word "
                       "multiples x set/overwrite sequences, vector constructor, save/load; DAC_VLS / DAC_BVLS: structured sequence lists "
                       "(all length 1, all maximal, last of length 1 / maximal, nLevels = 1, counts and bitmap lengths around 32/64/128/256, "
                       "logr 1, 31, 32) with the list length the dictionaries pass, level contents / bitmap / index arrays / image bytes "
                       "compared with the model, every case certified by the extracted checker to lie inside the theorems' input class. "
                       "Non-trivial = case executes at least one store+load; distinct by (kind, parameters, operations).",
                  assumptions=["x86-64 shift-count masking where the C++ shifts by the word width (modelled explicitly)",
                               "the DAC model abstracts the 32-bit get_field/set_field packing of the level arrays and the RG rank of the "
                               "continuation bitmap by list functions with the same indices (both are compared at layout level through the dumps; RG rank is C19)"])
