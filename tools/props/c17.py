"""C17 — integer containers and codecs round-trip every value (VByte, LogSequence, DAC)."""
import random
import vlib
from vlib import Case


def vb_py(c):
    out = []
    while c > 127:
        out.append(c & 127)
        c >>= 7
    out.append(c | 0x80)
    return bytes(out)


def gen(tier, seed):
    rnd = random.Random(seed * 7919 + 17)
    cases = []
    # ---- VByte: boundaries of every byte count + random
    vals = [0, 1, 2, 126, 127, 128, 129, 255, 256, 16383, 16384, 16385, (1 << 21) - 1, 1 << 21, (1 << 21) + 1,
            (1 << 28) - 1, 1 << 28, (1 << 28) + 1, (1 << 31) - 1, 1 << 31, (1 << 32) - 2, (1 << 32) - 1]
    nrand = 400 if tier == "quick" else 20000
    for _ in range(nrand):
        k = rnd.choice([7, 8, 14, 15, 21, 22, 28, 29, 32])
        vals.append(rnd.getrandbits(k))
    for i in range(0, len(vals), 50):
        chunk = vals[i:i + 50]
        cmds = []
        for v in chunk:
            cmds += ["vb_enc %d" % v, "vb2_enc %d" % v, "vb_dec %s" % vb_py(v).hex(), "vb2_dec %s" % vb_py(v).hex()]
        cases.append(Case("vb%d" % i, cmds, {"kind": "vbyte", "vals": chunk}))
    # ---- LogSequence
    widths = list(range(1, 65))
    ns = [1, 2, 3, 63, 64, 65, 127, 128, 129] if tier == "quick" else [1, 2, 3, 5, 31, 32, 33, 63, 64, 65, 100, 127, 128, 129, 257]
    ci = 0
    for w in widths:
        for n in (rnd.sample(ns, 3) if tier == "quick" else ns):
            mx = (1 << w) - 1
            ops = []
            nops = min(3 * n, 120)
            pattern = rnd.choice(["seq", "rand", "overwrite"])
            for k in range(nops):
                pos = k % n if pattern == "seq" else rnd.randrange(n)
                v = rnd.choice([0, 1, mx, mx >> 1, (mx // 3), rnd.getrandbits(w)]) & mx
                ops.append((pos, v))
            cmds = ["ls_new %d %d" % (w, n)]
            for pos, v in ops:
                cmds.append("ls_set %d 0x%x" % (pos, v))
            # an out-of-range value and position are rejected (throw) without damage
            if w < 64:
                cmds.append("ls_set 0 0x%x" % (mx + 1))
            cmds += ["ls_get %d" % p for p in range(n)]
            cmds += ["ls_dump", "ls_save", "ls_reload", "ls_dump"]
            cmds += ["ls_get %d" % p for p in range(n)]
            cases.append(Case("ls%d" % ci, cmds, {"kind": "logseq", "w": w, "n": n, "ops": ops}))
            ci += 1
    # vector constructor
    for w in ([1, 7, 13, 31, 32, 33, 40, 63, 64] if tier == "quick" else widths):
        n = rnd.choice([1, 5, 64, 65, 130])
        mx = (1 << w) - 1
        vs = [rnd.choice([0, mx, rnd.getrandbits(w)]) & mx for _ in range(n)]
        cmds = ["ls_vec %d %s" % (w, " ".join("0x%x" % v for v in vs))]
        cmds += ["ls_get %d" % p for p in range(n)] + ["ls_dump", "ls_reload"] + ["ls_get %d" % p for p in range(n)]
        cases.append(Case("lv%d" % w, cmds, {"kind": "logvec", "w": w, "n": n, "vs": vs}))
    # ---- DAC_VLS
    nd = 60 if tier == "quick" else 600
    for k in range(nd):
        logr = rnd.choice([1, 2, 3, 7, 8, 9, 13, 16, 17, 24, 31])
        nseq = rnd.choice([1, 1, 2, 3, 5, 17, 33, 64, 65, 100])
        maxseq = rnd.choice([1, 1, 2, 3, 4, 9])
        shape = rnd.choice(["rand", "allmax", "all1", "lastone", "lastmax"])
        seqs = []
        for i in range(nseq):
            ln = {"rand": rnd.randint(1, maxseq), "allmax": maxseq, "all1": 1,
                  "lastone": 1 if i == nseq - 1 else rnd.randint(1, maxseq),
                  "lastmax": maxseq if i == nseq - 1 else rnd.randint(1, maxseq)}[shape]
            seqs.append([rnd.getrandbits(logr) for _ in range(ln)])
        realmax = max(len(s) for s in seqs)
        flat = []
        for i, s in enumerate(seqs):
            flat += s + [-(i + 1)]
        # l_Length as the dictionaries pass it: everything but the closing separator
        llen = len(flat) - 1
        cmds = ["dac_new %d %d %d %s" % (logr, realmax, llen, " ".join(map(str, flat)))]
        cmds += ["dac_dump"]
        cmds += ["dac_access %d" % (i + 1) for i in range(nseq)]
        cmds += ["dac_chain %d" % (i + 1) for i in range(nseq)]
        cmds += ["dac_reload", "dac_dump"]
        cmds += ["dac_access %d" % (i + 1) for i in range(nseq)]
        cases.append(Case("dac%d" % k, cmds, {"kind": "dac", "logr": logr, "seqs": seqs, "maxseq": realmax, "shape": shape}))
    return cases


def evaluate_property(run, case, out):
    """The property itself, evaluated on the implementation's output (independent of the model)."""
    lines = out["lines"]
    m = case.meta
    fails = []
    if out["status"] != "ok":
        fails.append("implementation %s on valid input: %s" % (out["status"], " | ".join(out["err"][:3])))
        return fails
    if m["kind"] == "vbyte":
        enc = {}
        for l in lines:
            t = l.split()
            if t[0] in ("vb_enc", "vb2_enc"):
                enc[(t[0][:-4], int(t[1]))] = (t[3], int(t[4]))
            elif t[0] in ("vb_dec", "vb2_dec"):
                # decoded value / consumed bytes must match what was encoded
                h = t[1]
                v, n = int(t[3]), int(t[4])
                exp = [x for x in m["vals"] if vb_py(x).hex() == h]
                if exp and (v != exp[0] or n != len(h) // 2):
                    fails.append("%s(%s) = (%d,%d), expected (%d,%d)" % (t[0], h, v, n, exp[0], len(h) // 2))
        for (fam, v), (h, n) in enc.items():
            if h != vb_py(v).hex() or n != len(h) // 2 or n > 5:
                fails.append("%s_enc(%d) = %s/%d" % (fam, v, h, n))
    elif m["kind"] in ("logseq", "logvec"):
        n = m["n"]
        cur = [0] * n
        if m["kind"] == "logseq":
            for pos, v in m["ops"]:
                cur[pos] = v
        else:
            cur = list(m["vs"])
        gets = [l for l in lines if l.startswith("ls_get ")]
        if len(gets) != 2 * n:
            fails.append("expected %d get lines, saw %d" % (2 * n, len(gets)))
        for idx, l in enumerate(gets):
            t = l.split()
            pos = int(t[1])
            phase = "fresh" if idx < n else "reloaded"
            if t[3] == "throw" or int(t[3], 16) != cur[pos]:
                fails.append("w=%d n=%d %s get(%d) = %s, last stored 0x%x" % (m["w"], n, phase, pos, t[3], cur[pos]))
        for l in lines:
            if l.startswith("ls_reload") and "MODEL" not in l:
                t = dict(x.split("=") for x in l.split()[1:])
                if t["consumed"] != t["of"]:
                    fails.append("loader consumed %s of %s image bytes" % (t["consumed"], t["of"]))
        if m["kind"] == "logseq" and m["w"] < 64:
            if not any(l.endswith("throw") and l.startswith("ls_set") for l in lines):
                fails.append("out-of-range value was not rejected")
    elif m["kind"] == "dac":
        seqs = m["seqs"]
        acc = [l for l in lines if l.startswith("dac_access ")]
        if len(acc) != 2 * len(seqs):
            fails.append("expected %d access lines, saw %d" % (2 * len(seqs), len(acc)))
        for idx, l in enumerate(acc):
            t = l.split()
            pos = int(t[1])
            ln = int(t[3])
            got = [int(x) for x in t[5:]]
            if ln != len(seqs[pos - 1]) or got != seqs[pos - 1]:
                fails.append("%s access(%d) = len %d %s, stored %s" % ("fresh" if idx < len(seqs) else "reloaded", pos, ln, got, seqs[pos - 1]))
        for l in lines:
            if l.startswith("dac_chain "):
                t = l.split()
                pos = int(t[1])
                got = [int(x) for x in t[3:]]
                if got != seqs[pos - 1]:
                    fails.append("access_next chain(%d) = %s, stored %s" % (pos, got, seqs[pos - 1]))
            if l.startswith("dac_new") and "listLength=%d " % len(seqs) not in l + " ":
                fails.append("listLength wrong: %s (stored %d sequences)" % (l, len(seqs)))
            if l.startswith("dac_reload"):
                t = dict(x.split("=") for x in l.split()[1:])
                if t["consumed"] != t["of"]:
                    fails.append("DAC loader consumed %s of %s image bytes" % (t["consumed"], t["of"]))
    return fails


def check(run, tier, seed, replay):
    run.rule = ("VByte: every byte-count boundary + random 32-bit values; LogSequence: every width 1..64 x lengths "
                "around word multiples x set/overwrite sequences, vector constructor, save/load; DAC_VLS: structured "
                "sequence lists (all length 1, all maximal, last of length 1 / maximal). Non-trivial = case executes "
                "at least one store+load; distinct = by (kind, parameters, operations).")
    run.assumptions = ["x86-64 shift-count masking where the C++ shifts by the word width (modelled explicitly)",
                       "the DAC model abstracts the 32-bit get_field/set_field packing of the level array and the RG rank (both compared at layout level through dac_dump)"]
    proof_ok, r = vlib.proof_side(run, "C17")
    ok, msg = vlib.build_oracle()
    run.oblige("extracted oracle builds", ok, msg)
    exe, msg = vlib.build_driver("asan")
    run.oblige("implementation + driver build from /repo working tree (ASan, -D%s)" % vlib.GUARD, exe is not None, msg)
    if exe is None or not ok:
        run.violation("build failed", {"kind": "build", "operation": "build", "detail": msg}, found_input=False)
        return
    if replay:
        import json
        rp = json.load(open(replay))
        cases = [Case(rp["case"]["name"], rp["case"]["cmds"], rp["case"]["meta"])]
    else:
        cases = gen(tier, seed)
    impl = vlib.run_cases(exe, cases, tag="impl")
    model = vlib.run_cases(vlib.OCAML + "/oracle", cases, tag="model")
    ndis = 0
    first_dis = None
    kinds = {}
    for c in cases:
        io = impl.get(c.name, {"lines": [], "status": "missing", "err": []})
        mo = model.get(c.name, {"lines": [], "status": "missing", "err": []})
        kinds[c.meta["kind"]] = kinds.get(c.meta["kind"], 0) + 1
        run.count((c.meta["kind"], c.cmds))
        # correspondence (layout + API): every line the model answers must agree
        dis = []
        for k, ml in enumerate(mo["lines"]):
            if ml.startswith("SKIP "):
                continue
            il = io["lines"][k] if k < len(io["lines"]) else "<missing>"
            if il != ml:
                dis.append({"cmd": c.cmds[k] if k < len(c.cmds) else "?", "impl": il, "model": ml})
        fails = evaluate_property(run, c, io)
        if replay:
            print("impl :", io)
            print("model:", mo)
        if fails:
            run.violation(fails[0], {"kind": c.meta["kind"], "operation": "roundtrip", "failures": fails[:10],
                                     "case": {"name": c.name, "cmds": c.cmds, "meta": c.meta},
                                     "impl_status": io["status"], "impl_err": io["err"][:6]},
                          found_input=True, classes=())
        if dis:
            ndis += 1
            if first_dis is None:
                first_dis = (c, dis)
    run.sample({"case": cases[0].name, "cmds": cases[0].cmds[:6]})
    for c in cases:
        if c.meta["kind"] == "logseq" and c.meta["w"] == 37:
            run.sample({"case": c.name, "cmds": c.cmds[:5], "w": 37, "n": c.meta["n"]})
            break
    for c in cases:
        if c.meta["kind"] == "dac":
            run.sample({"case": c.name, "cmd": c.cmds[0][:200], "shape": c.meta["shape"]})
            break
    run.extra["input_distribution"] = kinds
    run.extra["correspondence_disagreements"] = ndis
    run.oblige("correspondence: model and implementation agree on every command of every case", ndis == 0,
               "" if not first_dis else repr(first_dis[1][:3]))
    if not proof_ok:
        run.violation("proof obligation of C17 no longer checks", {"kind": "proof", "operation": "coqc",
                      "detail": run.extra.get("coq_failure", {})}, found_input=False)
    elif ndis and not run.violations:
        c, dis = first_dis
        run.violation("model/implementation correspondence broken (property not seen to fail)",
                      {"kind": c.meta["kind"], "operation": "correspondence", "disagreements": dis[:10],
                       "case": {"name": c.name, "cmds": c.cmds, "meta": c.meta}}, found_input=False)
