"""C11 — the parallel build and the pool are free of data races."""
from props import compcheck, gen_pool
from props.subgen import Sub


def tsan_eval(case, out):
    bad = [e for e in out.get("err", []) if "ThreadSanitizer" in e]
    if out["status"] not in ("ok",) and not bad:
        return ["implementation %s under ThreadSanitizer: %s" % (out["status"], " | ".join(out["err"][:2]))]
    return ["ThreadSanitizer: " + " | ".join(bad[:3])] if bad else []


def check(run, tier, seed, replay):
    compcheck.run(run, "C11", [Sub(gen_pool, ["pool", "poolseq", "image"], extra_eval=tsan_eval, only_extra=True)], tier, seed, replay, poolskel=True,
                  mode="tsan", timeout_case=120,
                  rule="ThreadSanitizer build of /repo's working tree: the real pool (W in {1,2,3,8}, 0..50 tasks, seeded sleeps) and real "
                       "multi-threaded block builds (1,2,3,8 threads, cuts from one string per block to one block); any TSan report or "
                       "abnormal exit is a failing schedule. Non-trivial = a multi-threaded run; distinct by its command list.",
                  assumptions=["lockset discipline is proved for the synchronisation skeleton (C11_pool_lockset, C11_pool_mutual_exclusion, "
                               "C09_parbuild_deterministic: no slot written twice); accesses inside unmodelled library code (Re-Pair coder, "
                               "libcds builders) are TSan-validated on explored schedules only: PARTIAL"])
