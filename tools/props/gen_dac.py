"""DAC_VLS part of C17: boundary-directed generator + the property evaluated on the implementation's output.

Property: the DAC variable-length sequences return for every index exactly the symbol sequence stored,
including sequences of length 1, of the maximum length and the last sequence; this survives save/load.
"""
import os
import random
import sys

sys.path.insert(0, os.path.join(os.path.dirname(os.path.abspath(__file__)), "..", "..", "tools"))
sys.path.insert(0, os.path.join(os.path.dirname(os.path.abspath(__file__)), "..", "..", "tools", "props"))
import vlib  # noqa: E402
from vlib import Case  # noqa: E402
from props import c17  # noqa: E402


def flat_of(seqs):
    flat = []
    for i, s in enumerate(seqs):
        flat += list(s) + [-(i + 1)]
    return flat


def mk_case(name, logr, seqs, maxseq=None, shape=""):
    realmax = max(len(s) for s in seqs)
    if maxseq is None:
        maxseq = realmax
    flat = flat_of(seqs)
    llen = len(flat) - 1  # what RPDAC / HASHRPDAC pass: everything but the closing separator
    n = len(seqs)
    args = "%d %d %d %s" % (logr, maxseq, llen, " ".join(map(str, flat)))
    cmds = ["dac_inclass " + args, "dac_new " + args]
    cmds += ["dac_dump", "dac_save"]
    cmds += ["dac_access %d" % (i + 1) for i in range(n)]
    cmds += ["dac_chain %d" % (i + 1) for i in range(n)]
    cmds += ["dac_reload", "dac_dump", "dac_save"]
    cmds += ["dac_access %d" % (i + 1) for i in range(n)]
    cmds += ["dac_chain %d" % (i + 1) for i in range(n)]
    return Case(name, cmds, {"kind": "dac", "logr": logr, "seqs": [list(s) for s in seqs], "maxseq": maxseq, "shape": shape})


def blayout(seqs, nl):
    levels = [[s[j] for s in seqs if len(s) > j] for j in range(nl)]
    cont = [[1 if len(s) > j + 1 else 0 for s in seqs if len(s) > j] for j in range(nl)]
    lidx = [sum(len(x) for x in levels[:j]) for j in range(nl + 1)]
    ones = [sum(c) for c in cont]
    lv = bytes(x for l in levels for x in l)
    bits = "".join(str(b) for c in cont for b in c)
    return lidx, ones, lv, bits


def mk_bcase(name, seqs, shape=""):
    """DAC_BVLS fed with the arrangement StringDictionaryHASHUFFDAC computes (nLevels = longest sequence)."""
    nl = max(len(s) for s in seqs)
    lidx, ones, lv, bits = blayout(seqs, nl)
    n = len(seqs)
    args = "%d %s %s %s %s" % (nl, ",".join(map(str, lidx)), ",".join(map(str, ones)), lv.hex() or "-", bits)
    cmds = ["bdac_inclass " + args + " " + " ".join(bytes(s).hex() for s in seqs), "bdac_new " + args, "bdac_dump", "bdac_save"]
    cmds += ["bdac_access %d" % (i + 1) for i in range(n)]
    cmds += ["bdac_chain %d" % (i + 1) for i in range(n)]
    cmds += ["bdac_reload", "bdac_dump", "bdac_save"]
    cmds += ["bdac_access %d" % (i + 1) for i in range(n)]
    cmds += ["bdac_chain %d" % (i + 1) for i in range(n)]
    return Case(name, cmds, {"kind": "bdac", "seqs": [list(s) for s in seqs], "maxseq": nl, "shape": shape})


def sym(rnd, logr):
    mx = min((1 << logr) - 1, (1 << 31) - 1)  # the list is an int array
    return rnd.choice([0, 1, mx, mx >> 1, rnd.getrandbits(logr) & mx, rnd.getrandbits(logr) & mx])


def gen(tier, seed):
    rnd = random.Random(seed * 104729 + 71)
    cases = []
    # 1. the generator of props/c17.py (DAC section), re-played with the extended command list
    for c in c17.gen_dac_cases(tier, seed):
        if c.meta.get("kind") == "dac":
            cases.append(mk_case("c17" + c.name, c.meta["logr"], c.meta["seqs"], shape=c.meta["shape"]))
    # 2. fixed boundary cases
    fixed = [
        (2, [[1]]), (2, [[1], [2], [3]]),                # nLevels = 1 (defect 6bccc1f)
        (3, [[5], [5, 5], [3]]),                         # last sequence of length 1 (defect 4305f33)
        (3, [[1, 2, 3], [4], [5, 6], [7, 1, 2]]),
        (1, [[0]]), (1, [[1, 0, 1, 1, 0]]), (32, [[0x7fffffff, 0, 1], [2]]), (31, [[0x7fffffff]]),
        (8, [[0, 0, 0], [0], [0, 0]]),
    ]
    for k, (logr, seqs) in enumerate(fixed):
        cases.append(mk_case("fix%d" % k, logr, seqs, shape="fixed"))
    # 3. bitmap / packed-array word and superblock boundaries: number of level-0 symbols (= sequences) and
    #    bitmap length around multiples of 32 and 128; nLevels - 1 levels are in the bitmap
    sizes = [31, 32, 33, 63, 64, 65, 127, 128, 129] if tier == "quick" else [15, 16, 17, 31, 32, 33, 63, 64, 65, 95, 96, 97, 127, 128, 129, 255, 256, 257, 300]
    k = 0
    for nseq in sizes:
        for shape in ("all1", "all2", "allmax", "half", "lastone", "lastmax", "rand"):
            logr = rnd.choice([1, 2, 5, 8, 11, 16, 21, 27, 31, 32])
            maxl = rnd.choice([1, 2, 3, 4, 7]) if shape not in ("all1", "all2") else (1 if shape == "all1" else 2)
            seqs = []
            for i in range(nseq):
                if shape in ("all1", "all2", "allmax"):
                    ln = maxl
                elif shape == "half":
                    ln = maxl if i % 2 == 0 else 1
                elif shape == "lastone":
                    ln = 1 if i == nseq - 1 else rnd.randint(1, maxl)
                elif shape == "lastmax":
                    ln = maxl if i == nseq - 1 else rnd.randint(1, maxl)
                else:
                    ln = rnd.randint(1, maxl)
                seqs.append([sym(rnd, logr) for _ in range(ln)])
            cases.append(mk_case("b%d" % k, logr, seqs, shape=shape))
            k += 1
    # 4. random shapes; max_seq_length larger than the longest sequence (empty top levels)
    nr = 40 if tier == "quick" else 600
    for k in range(nr):
        logr = rnd.choice([1, 2, 3, 4, 7, 8, 9, 13, 16, 17, 24, 31, 32])
        nseq = rnd.choice([1, 1, 2, 3, 4, 5, 8, 17, 33, 40, 64, 65, 100, 130])
        maxl = rnd.choice([1, 1, 2, 3, 4, 6, 9, 12])
        dist = rnd.choice(["uniform", "short", "long"])
        seqs = []
        for i in range(nseq):
            if dist == "uniform":
                ln = rnd.randint(1, maxl)
            elif dist == "short":
                ln = 1 if rnd.random() < 0.8 else rnd.randint(1, maxl)
            else:
                ln = maxl if rnd.random() < 0.8 else rnd.randint(1, maxl)
            seqs.append([sym(rnd, logr) for _ in range(ln)])
        realmax = max(len(s) for s in seqs)
        extra = rnd.choice([0, 0, 0, 1, 2, 5])
        cases.append(mk_case("r%d" % k, logr, seqs, maxseq=realmax + extra, shape="rand-" + dist + ("+%d" % extra)))
    # 5. DAC_BVLS (byte-oriented sibling, HASHUFFDAC): same shapes
    bfixed = [[[1]], [[1], [2], [3]], [[5], [5, 5], [3]], [[1, 2, 3], [4], [5, 6], [7, 1, 2]], [[0, 0, 0], [0], [0, 0]],
              [[255, 0, 255, 255, 0]]]
    for k, seqs in enumerate(bfixed):
        cases.append(mk_bcase("bfix%d" % k, seqs, shape="fixed"))
    bsizes = [1, 2, 31, 32, 33, 127, 128, 129] if tier == "quick" else [1, 2, 3, 15, 16, 17, 31, 32, 33, 63, 64, 65, 127, 128, 129, 255, 256, 257, 300]
    k = 0
    for nseq in bsizes:
        for shape in ("all1", "allmax", "half", "lastone", "lastmax", "rand"):
            maxl = 1 if shape == "all1" else rnd.choice([1, 2, 3, 4, 7, 12])
            seqs = []
            for i in range(nseq):
                if shape in ("all1", "allmax"):
                    ln = maxl
                elif shape == "half":
                    ln = maxl if i % 2 == 0 else 1
                elif shape == "lastone":
                    ln = 1 if i == nseq - 1 else rnd.randint(1, maxl)
                elif shape == "lastmax":
                    ln = maxl if i == nseq - 1 else rnd.randint(1, maxl)
                else:
                    ln = rnd.randint(1, maxl)
                seqs.append([rnd.choice([0, 1, 255, rnd.getrandbits(8)]) for _ in range(ln)])
            cases.append(mk_bcase("bb%d" % k, seqs, shape=shape))
            k += 1
    return cases


def evaluate_bdac(case, impl_out):
    fails = []
    if impl_out["status"] != "ok":
        return ["implementation %s on valid input: %s" % (impl_out["status"], " | ".join(impl_out["err"][:3]))]
    seqs = case.meta["seqs"]
    lines = impl_out["lines"]
    for kind in ("bdac_access", "bdac_chain"):
        ls = [l for l in lines if l.startswith(kind + " ")]
        if len(ls) != 2 * len(seqs):
            fails.append("expected %d %s lines, saw %d" % (2 * len(seqs), kind, len(ls)))
        for idx, l in enumerate(ls):
            t = l.split()
            pos = int(t[1])
            if kind == "bdac_access":
                ln, got = int(t[3]) if t[3].isdigit() else -1, [int(x) for x in t[5:]]
                if ln != len(seqs[pos - 1]) or got != seqs[pos - 1]:
                    fails.append("%s access(%d) = len %d %s, stored %s" % ("fresh" if idx < len(seqs) else "reloaded", pos, ln, got, seqs[pos - 1]))
            else:
                got = [int(x) for x in t[3:]]
                if got != seqs[pos - 1]:
                    fails.append("access_next chain(%d) = %s, stored %s" % (pos, got, seqs[pos - 1]))
    for l in lines:
        if l.startswith("bdac_reload"):
            t = dict(x.split("=") for x in l.split()[1:])
            if t["consumed"] != t["of"]:
                fails.append("DAC_BVLS loader consumed %s of %s image bytes" % (t["consumed"], t["of"]))
    for kind in ("bdac_dump ", "bdac_save "):
        ls = [l for l in lines if l.startswith(kind)]
        if len(ls) == 2 and ls[0] != ls[1]:
            fails.append("%schanged across save/load" % kind)
    return fails


def evaluate_property(case, impl_out):
    """The DAC part of C17 on the implementation's own output (independent of the model)."""
    if case.meta.get("kind") == "bdac":
        return evaluate_bdac(case, impl_out)
    fails = list(c17.evaluate_property(case, impl_out))
    if impl_out["status"] != "ok":
        return fails
    seqs = case.meta["seqs"]
    chains = [l for l in impl_out["lines"] if l.startswith("dac_chain ")]
    if len(chains) != 2 * len(seqs):
        fails.append("expected %d chain lines, saw %d" % (2 * len(seqs), len(chains)))
    dumps = [l for l in impl_out["lines"] if l.startswith("dac_dump ")]
    if len(dumps) == 2 and dumps[0] != dumps[1]:
        fails.append("state changed across save/load: %s / %s" % (dumps[0][:120], dumps[1][:120]))
    saves = [l for l in impl_out["lines"] if l.startswith("dac_save ")]
    if len(saves) == 2 and saves[0] != saves[1]:
        fails.append("image of the reloaded object differs from the image of the built one")
    # the layout itself (level-wise arrangement), recomputed here from the stored sequences
    nl = case.meta["maxseq"]
    levels = [[s[j] for s in seqs if len(s) > j] for j in range(nl)]
    cont = [[1 if len(s) > j + 1 else 0 for s in seqs if len(s) > j] for j in range(nl)]
    lidx = [sum(len(x) for x in levels[:j]) for j in range(nl + 1)]
    bits = [b for j in range(nl - 1) for b in cont[j]] + [1]
    rl = [sum(bits[:lidx[j]]) for j in range(nl)]
    exp = {"levelsIndex": ",".join(map(str, lidx)), "rankLevels": ",".join(map(str, rl)),
           "syms": ",".join(str(x) for lv in levels for x in lv), "bits": "".join(map(str, bits)),
           "tamCode": str(case.meta["logr"] * lidx[nl]), "base_bits": str(case.meta["logr"])}
    for l in dumps:
        t = dict(x.split("=", 1) for x in l.split()[1:])
        for k, v in exp.items():
            if t.get(k, "") != v:
                fails.append("layout: %s=%s, level-wise arrangement gives %s" % (k, t.get(k, "")[:80], v[:80]))
        if int(t["nLevels"]) != case.meta["maxseq"]:
            fails.append("nLevels=%s, max_seq_length=%d" % (t["nLevels"], case.meta["maxseq"]))
        if int(t["listLength"]) != len(seqs):
            fails.append("listLength=%s, %d sequences stored" % (t["listLength"], len(seqs)))
    return fails
