"""RPFC (C01-C04, C13 for the RPFC kind): front-coding buckets whose internal strings are Re-Pair compressed.

Two phases, both through the real code (the pattern of gen_rpdac.py):
  phase 1 (inside gen): `rpfc_build <b> hex1 hex2 ...` builds a real StringDictionaryRPFC and dumps ALL fields
      (elements, maxlength, buckets, bucketsize, bitsrp, text bytes, blStrings, terminals, maxchar, rules).
  phase 2 (the returned cases): `rpfc_model <b> <hexes> <fields...>` followed by `rpfc_q <op> <arg>` lines.
      The implementation rebuilds the dictionary (same= says the dump is reproduced) and answers with the real
      object; the extracted model RPFCDefs.v answers from the dumped object alone (and cross-checks itself against
      Spec.v: MODEL-MISMATCH).  `ok=` is the verdict of the verified checker rpfc_layout_chk && rpfc_inputb (the
      implementation prints the constant 1).
evaluate_property recomputes every answer in python from the sorted input, independently of the model.
"""
import os, random, sys
import vlib
from vlib import Case

HERE = os.path.dirname(os.path.abspath(__file__))
for _p in (HERE, os.path.join(os.path.dirname(HERE), "props"), "/verif/tools/props"):
    if _p not in sys.path:
        sys.path.append(_p)
import gen_rpdac


def _extra_dir():
    return HERE if os.path.exists(os.path.join(HERE, "cmd_rpfc.inc")) else None


_kv = gen_rpdac._kv


def _norm(S):
    return sorted(set(bytes(s) for s in S if len(s) > 0 and 0 not in s and 255 not in s))


def extra_sets(tier, rnd):
    """RPFC-specific boundary sets: (name, S, [bucket sizes])"""
    out = []
    big = tier != "quick"

    def add(name, S, bs):
        S = _norm(S)
        if S:
            out.append(("%s_%d" % (name, len(out)), S, bs))

    # n around multiples of the bucket size
    for b in [2, 3, 4, 8] + ([16] if big else []):
        for n in sorted(set([1, b - 1, b, b + 1, 2 * b - 1, 2 * b, 2 * b + 1, 3 * b])):
            if n >= 1:
                add("nmul", [b"k%03d" % i for i in range(n)], [b])
                add("nmulp", [b"ab" * (i + 1) for i in range(n)], [b])
    # single-character strings
    add("chars", [bytes([c]) for c in range(2, 255)], [2, 3, 16, 253, 254])
    add("chars_few", [bytes([c]) for c in (2, 3, 128, 129, 254)], [2, 3, 5, 6])
    # long shared prefixes: VByte(lcp) needs two bytes inside the Re-Pair stream; 127 -> VByte byte 255 (= end mark value)
    # (the theorems need string lengths < 2^14; lcp >= 16384 is the known defect, see defect_sets)
    for L in [126, 127, 128, 129, 130, 255, 256, 257, 300, 1000] + ([16255, 16256, 16381] if big else [16381]):
        base = bytes(97 + (i % 3) for i in range(L))
        add("lcp%d" % L, [base + b"x", base + b"y", base + b"yz", base + b"z", b"b", base[:5]], [2, 3, 4, 7])
        add("lcpa%d" % L, [b"a" * L + b"b", b"a" * L + b"c", b"a" * L + b"cd", b"a" * (L - 1)], [2, 4])
    # byte 128/129/254 inside strings (the values VByte bytes take)
    add("vbvals", [bytes([128]), bytes([128, 128]), bytes([128, 129]), bytes([129]), bytes([254, 128]), bytes([254]),
                   bytes([2, 128, 254]), bytes([128, 254, 254])], [2, 3, 8])
    # repetitive text
    add("rep", [b"ab" * k for k in range(1, 40)], [2, 3, 8, 16])
    add("rep2", [b"abc" * k + t for k in range(1, 14) for t in (b"", b"a", b"ab")], [2, 4, 16, 100])
    add("rep3", [b"x" * k for k in range(1, 70)], [2, 5, 16])
    return out


def defect_sets():
    """Inputs OUTSIDE the theorems' hypothesis (a shared prefix >= 2^14 inside a bucket): genuine defects of the
    C++ (NOTES.md section 5).  Not part of gen(); run them with RPFC_DEFECTS=1 or through one.py."""
    out = []
    for L in (16384, 16385, 16511, 16512, 20000, 32768):
        out.append(("defect_lcp%d_b2" % L, _norm([b"a" * L + b"b", b"a" * L + b"c"]), 2))
    return out


def gen(tier, seed):
    rnd = random.Random(seed * 7919 + 11)
    sets = []
    bchoices = [2, 3, 4, 8, 16, "n", "n+1"]
    k = 0
    for name, S in gen_rpdac.string_sets(tier, rnd):
        S = _norm(S)
        if not S:
            continue
        n = len(S)
        nb = 1 if tier == "quick" else 2
        for j in range(nb):
            b = bchoices[(k + 3 * j) % len(bchoices)]
            k += 1
            b = n if b == "n" else (n + 1 if b == "n+1" else b)
            sets.append(("%s_b%d" % (name, b), S, b))
    for name, S, bs in extra_sets(tier, rnd):
        n = len(S)
        use = bs if tier != "quick" else bs[:2]
        for b in use:
            sets.append(("%s_b%d" % (name, b), S, b))
    # a few bucket sizes below the clamp (0, 1 -> 2)
    sets.append(("clamp0", _norm([b"a", b"ab", b"b"]), 0))
    sets.append(("clamp1", _norm([b"a", b"ab", b"b", b"ba"]), 1))
    if os.environ.get("RPFC_DEFECTS") == "1":
        sets += defect_sets()
    seen, uniq = set(), []
    for t in sets:          # (n and n+1 may coincide with a literal bucket size: keep one case per name)
        if t[0] not in seen:
            seen.add(t[0])
            uniq.append(t)
    sets = uniq
    exe, msg = vlib.build_driver("asan", extra_dir=_extra_dir())
    if exe is None:
        raise RuntimeError("driver build failed: " + msg)
    p1 = [Case("p1_" + name, ["rpfc_build %d " % b + " ".join(x.hex() for x in S)], {}) for name, S, b in sets]
    res = vlib.run_cases(exe, p1, tag="impl-p1")
    cases = []
    for name, S, b in sets:
        o = res.get("p1_" + name, {"lines": [], "status": "missing", "err": []})
        meta = {"strings": [x.hex() for x in S], "b": b, "phase1_status": o["status"], "phase1_err": o["err"][:4]}
        line = o["lines"][0] if o["lines"] else ""
        hexes = ",".join(x.hex() for x in S)
        if o["status"] == "ok" and line.startswith("rpfc_build "):
            d = _kv(line)
            meta["phase1"] = {k: (v if len(v) < 200 else v[:200] + "...") for k, v in d.items()}
            cmd = "rpfc_model %d %s %s %s %s %s %s %s %s %s %s %s" % (
                b, hexes, d["elements"], d["maxlength"], d["buckets"], d["bucketsize"], d["bitsrp"], d["text"], d["bl"],
                d["terminals"], d["maxchar"], d["rules_list"])
        else:
            cmd = "rpfc_model %d %s 0 0 0 2 1 - 0 1 255 -" % (b, hexes)
        qs = gen_rpdac.queries(S, rnd, 40 if tier == "quick" else 80)
        # ids at bucket boundaries
        bb = max(2, b)
        extra_ids = sorted(set(i for i in [bb - 1, bb, bb + 1, 2 * bb, 2 * bb + 1, len(S) - (len(S) % bb), len(S) - (len(S) % bb) + 1]
                               if i >= 1))
        qs += [("extract", str(i)) for i in extra_ids]
        cases.append(Case(name, [cmd] + [("rpfc_q %s %s" % q).rstrip() for q in qs], meta))
    return cases


def evaluate_property(case, out):
    """The properties themselves (C01-C04, C13 for this kind) on the implementation's output lines."""
    fails = []
    m = case.meta
    if m.get("phase1_status") != "ok" or "phase1" not in m:
        return ["dictionary build (phase 1) %s: %s" % (m.get("phase1_status"), " | ".join(m.get("phase1_err", [])))]
    if out["status"] != "ok":
        fails.append("implementation %s on valid input: %s" % (out["status"], " | ".join(out["err"][:3])))
    S = [bytes.fromhex(h) for h in m["strings"]]
    n = len(S)
    b = max(2, m["b"])
    lines = out["lines"]
    if not lines or not lines[0].startswith("rpfc_model "):
        return fails + ["no rpfc_model line"]
    d = _kv(lines[0])
    if d.get("same") != "1":
        fails.append("second build produced a different dictionary")
    if int(d.get("elements", -1)) != n:
        fails.append("elements=%s, expected %d" % (d.get("elements"), n))
    if int(d.get("maxlength", -1)) != max(len(s) for s in S) + 1:
        fails.append("maxlength=%s, expected %d" % (d.get("maxlength"), max(len(s) for s in S) + 1))
    if int(d.get("buckets", -1)) != (n + b - 1) // b:
        fails.append("buckets=%s, expected %d" % (d.get("buckets"), (n + b - 1) // b))
    if int(d.get("bucketsize", -1)) != b:
        fails.append("bucketsize=%s, expected %d" % (d.get("bucketsize"), b))
    cmds = case.cmds[1:]
    if len(lines) - 1 != len(cmds):
        fails.append("%d answers for %d queries" % (len(lines) - 1, len(cmds)))
    for cmd, line in zip(cmds, lines[1:]):
        tk = cmd.split()
        op = tk[1]
        arg = tk[2] if len(tk) > 2 else ""
        if " = " not in line + " ":
            fails.append("malformed answer: " + line[:80])
            continue
        ans = line.split("=", 1)[1].split()
        pat = b"" if arg in ("-", "") else (bytes.fromhex(arg) if op != "extract" else b"")
        if op == "locate":
            want = S.index(pat) + 1 if pat in S else 0
            if ans != [str(want)]:
                fails.append("locate(%s) = %s, expected %d" % (arg, " ".join(ans), want))
        elif op == "extract":
            i = int(arg)
            want = ["%s/%d/%d" % (S[i - 1].hex(), len(S[i - 1]), len(S[i - 1]))] if 1 <= i <= n else ["NULL/0"]
            if ans != want:
                fails.append("extract(%s) = %s, expected %s" % (arg, " ".join(ans)[:60], want[0][:60]))
        elif op == "locatePrefix":
            if not pat:
                continue  # empty pattern: not covered by the property
            want = ["ids"] + [str(i + 1) for i, s in enumerate(S) if s.startswith(pat)]
            if ans != want:
                fails.append("locatePrefix(%s) = %s, expected %s" % (arg, " ".join(ans)[:60], " ".join(want)[:60]))
        elif op in ("extractPrefix", "extractTable"):
            if op == "extractPrefix" and not pat:
                continue
            sel = [s for s in S if op == "extractTable" or s.startswith(pat)]
            want = ["strs"] + ["%s/%d/%d" % (s.hex(), len(s), len(s)) for s in sel]
            if op == "extractPrefix" and not sel:
                want = ["NULL"]
            if ans != want:
                fails.append("%s(%s) = %s, expected %s" % (op, arg, " ".join(ans)[:80], " ".join(want)[:80]))
    return fails[:10]
