"""hashhf component: StringDictionaryHASHHF at dictionary level (HashHFDefs.v): Huffman coded strings decoded through the
chunked 16-bit DecodingTable, found through a double-hashing table in the three representations of Hash::load.

Two phases, both through the real code (the pattern of gen_hashdict.py / gen_htfc.py):
  phase 1 (inside gen): `hhf_build <overhead> hex..` builds a real StringDictionaryHASHHF with the real constructor, SAVES it,
      LOADS the image with options 1, 2, 3 and dumps every private member of the object loaded with option 1 (tsize, elements,
      maxlength, maxcomplength, textStrings, codewords[256], the DecodingTable, the bitmap and the offset array of the Hashdh),
      the compacted arrays of the HashBdh / HashBBdh, and bitwisehash:step_value of the ENCODING of every string;
      `hhf_hv q..` gives the same two values for every query; `hhf_q table` the ID order.
  phase 2 (the returned cases): `hhf_model <overhead> <hexes> <hash values> <fields...>` followed by `hhf_q locate hex h1 h2`,
      `hhf_q extract id`, `hhf_q table`.  The implementation builds + saves + loads again (same=) and answers every query
      with the three loaded objects in a forked grandchild (crash / ASan report attributed to that query; DIFFER when the
      three disagree); the extracted model answers from the dump alone, computing the HashBdh / HashBBdh representations
      with its own loader (comp= / offb= are compared with the real arrays).  ok= is the verdict of the verified checker
      hashhf_check (the implementation prints the constant 1).
evaluate_property recomputes the property from the implementation's output alone.
"""
import os, random, sys, re
import vlib
from vlib import Case

HERE = os.path.dirname(os.path.abspath(__file__))
for _p in (HERE, os.path.join(os.path.dirname(HERE), "props"), "/verif/tools/props"):
    if _p not in sys.path:
        sys.path.append(_p)
import gen_hashdict

FIELDS = "elements maxlength maxcomplength text cw k stream tab endings trees bits hash".split()
_kv = gen_hashdict._kv


def _extra_dir():
    return HERE if os.path.exists(os.path.join(HERE, "cmd_hashhf.inc")) else None


def _driver():
    exe, msg = vlib.build_driver("asan", extra_dir=_extra_dir())
    if not exe:
        raise RuntimeError("driver build failed: " + msg)
    return exe


def fib_text(k, lo=2):
    a, b, out = 1, 1, b""
    for i in range(k):
        out += bytes([lo + i]) * a
        a, b = b, a + b
    return out


def special_sets(tier, rnd):
    """HASHHF-specific boundary sets (name, strings)"""
    big = tier != "quick"
    out = []

    def add(name, S):
        S = sorted(set(bytes(s) for s in S if len(s) > 0 and 0 not in s))
        if S:
            out.append((name, S))
    # one dominant symbol: 1-bit / 2-bit codewords, up to 15 symbols per 16-bit chunk (descriptor bytes 0xF?)
    add("dom_a", [b"a" * k for k in range(1, 41)])
    add("dom_a60", [b"a" * k for k in range(1, 61)])
    add("dom_ab", [b"a" * k + b"b" for k in range(0, 30)] + [b"a" * k for k in range(1, 30)])
    add("dom_2fe", [b"\x02" * k for k in range(1, 40)] + [b"\xfe" * k for k in range(1, 40)])
    add("dom_abab", [b"ab" * k for k in range(1, 40)])
    add("dom_long", [b"a" * 300, b"a" * 299 + b"b", b"b"])
    # single characters
    add("chars", [bytes([c]) for c in range(2, 255)])
    add("chars_all", [bytes([c]) for c in range(1, 256)])
    add("chars_few", [bytes([c]) for c in (2, 3, 128, 129, 254)])
    add("one", [b"x"])
    add("one_long", [b"abcdefghij" * 12])
    add("two", [b"a", b"b"])
    # rare symbols: long codewords, encodings longer than the plain strings (maxcomplength > maxlength)
    add("rare", [bytes([97 + (i % 2)]) * (1 + i % 7) + bytes([98 - (i % 2)]) * (i // 7) for i in range(60)] + [bytes(range(200, 215))])
    add("rare2", [b"a" * k for k in range(1, 30)] + [bytes(range(100, 140)), bytes(range(140, 100, -1))])
    add("rare3", [b"ab" * k for k in range(1, 50)] + [bytes([c, c + 1, c + 2]) for c in range(150, 250, 3)])
    # deep Huffman codewords (Fibonacci symbol counts)
    for k in ([10, 14] if not big else [10, 12, 14, 16, 18]):
        t = fib_text(k)
        add("fib%d" % k, [t, t + b"\x02", t[: len(t) // 2], bytes([2 + k - 1]) * 3, bytes([2]), bytes([2, 3]), bytes([3])])
        add("fibs%d" % k, [t[i:i + 9] for i in range(0, len(t), 9)] + [bytes([2 + k - 1]), bytes([2 + k - 2, 2])])
    # many distinct symbols
    add("alph", [bytes(range(2, 2 + k)) for k in range(1, 120, 7)])
    add("alph2", [bytes(range(c, min(255, c + 9))) for c in range(2, 250, 5)])
    # long strings
    add("long", [bytes(97 + (i * j) % 7 for i in range(400 + j)) for j in range(1, 6)])
    if big:
        add("big_med", [bytes(rnd.choice(gen_hashdict.ALPH_MED) for _ in range(rnd.randint(1, 12))) for _ in range(1500)])
        add("big_url", gen_hashdict.string_set(rnd, 600, "url"))
    return out


def _plan(tier, seed):
    rnd = random.Random(seed * 32452843 + 11)
    ncases = 140 if tier == "quick" else 1400
    sizes = [1, 2, 3, 4, 5, 6, 7, 8, 10, 11, 12, 13, 16, 17, 23, 29, 31, 32, 37, 50, 64, 97, 100, 101, 127, 128, 150, 199, 200]
    shapes = ["small", "med", "wide", "seq", "ladder", "ladder_sib", "url", "lcp", "runs", "long", "single"]
    plans = []
    for i in range(ncases):
        n = rnd.choice(sizes) if rnd.random() < 0.7 else rnd.randint(1, 200)
        overhead = rnd.choice([0, 0, 0, 0, 1, 5, 10, 10, 50, 300])   # 0 and n prime: completely full table
        shape = shapes[i % len(shapes)] if i < 2 * len(shapes) else rnd.choice(shapes)
        if shape in ("ladder", "runs"):
            n = min(n, 60)
        keys = gen_hashdict.string_set(rnd, n, shape)
        plans.append({"name": "%s_%d_o%d_%d" % (shape, len(keys), overhead, i), "keys": keys, "overhead": overhead})
    for name, S in special_sets(tier, rnd):
        ovs = [0, 10] if tier == "quick" else [0, 1, 10, 50]
        for ov in ovs:
            plans.append({"name": "%s_o%d" % (name, ov), "keys": S, "overhead": ov})
    return rnd, plans


def absent_queries(rnd, keys, k):
    """non-members near the members: proper prefixes, one-byte extensions, last byte +-1, one inner byte changed, s+s, s+s', random"""
    S = set(keys)
    out = []
    ALPH_MED, ALPH_WIDE = gen_hashdict.ALPH_MED, list(range(1, 256))

    def add(q):
        q = bytes(q)
        if q and q not in S and q not in out and 0 not in q:
            out.append(q)
    for _ in range(8 * k):
        s = rnd.choice(keys)
        m = rnd.randrange(9)
        if m == 0:
            add(s[:-1])
        elif m == 1:
            add(s[:rnd.randint(1, len(s))])
        elif m == 2:
            add(s + bytes([rnd.choice([1, 2, 0x61, 0xfe, 0xff, s[-1]])]))
        elif m == 3:
            add(s[:-1] + bytes([max(1, min(255, s[-1] + rnd.choice([-1, 1])))]))
        elif m == 4 and len(s) > 1:
            i = rnd.randrange(len(s))
            add(s[:i] + bytes([rnd.choice(ALPH_MED)]) + s[i + 1:])
        elif m == 5:
            add(s + s)
        elif m == 6:
            add(s + rnd.choice(keys))
        elif m == 7:
            add(bytes(rnd.choice(ALPH_MED) for _ in range(rnd.randint(1, 8))))
        else:
            add(bytes(rnd.choice(ALPH_WIDE) for _ in range(rnd.randint(1, 5))))
        if len(out) >= k:
            break
    return out[:k]


def queries(rnd, keys, tier):
    nq = 14 if tier == "quick" else 24
    absent, special = absent_queries(rnd, keys, nq), []
    S = set(keys)
    used = set(b for s in keys for b in s)
    unused = [b for b in range(1, 256) if b not in used]
    extra = []
    if unused:                                     # bytes that never occur in S (longest codewords)
        u = bytes([rnd.choice(unused)])
        extra += [u, u * 3, keys[0] + u, u + keys[-1], keys[len(keys) // 2][:1] + u]
    extra += [bytes([255]), bytes([1]), keys[0] * 3, keys[-1] + keys[0], bytes([rnd.randint(1, 255) for _ in range(40)])]
    extra = [q for q in dict.fromkeys(extra) if q not in S and 0 not in q and q]
    members = keys if len(keys) <= 40 else sorted(rnd.sample(keys, 40))
    return members, [q for q in dict.fromkeys(absent + special + extra) if q not in S]


def gen(tier, seed):
    exe = _driver()
    rnd, plans = _plan(tier, seed)
    p1 = []
    for p in plans:
        keys = p["keys"]
        p["memberq"], p["absent"] = queries(rnd, keys, tier)
        qs = p["memberq"] + p["absent"]
        p1.append((p, Case("p1_" + p["name"], ["hhf_build %d %s" % (p["overhead"], " ".join(k.hex() for k in keys)),
                                              "hhf_hv " + " ".join(q.hex() for q in qs), "hhf_q table"])))
    out = vlib.run_cases(exe, [c for _, c in p1], tag="impl-p1", timeout_case=120)
    cases = []
    for p, c in p1:
        keys = p["keys"]
        n = len(keys)
        o = out.get(c.name, {"lines": [], "status": "missing", "err": []})
        meta = {"strings": [k.hex() for k in keys], "overhead": p["overhead"], "phase1_status": o["status"], "phase1_err": o["err"][:4]}
        line = o["lines"][0] if o["lines"] else ""
        hvline = o["lines"][1] if len(o["lines"]) > 1 else ""
        if o["status"] == "ok" and line.startswith("hhf_build ") and "tsize=" in line and hvline.startswith("hhf_hv ") and " : " in hvline:
            d = _kv(line)
            meta["phase1"] = {k: (v if len(v) < 100 else v[:100] + "...") for k, v in d.items()}
            meta["maxbits"] = max(int(x.split("/")[1]) for x in d["cw"].split(","))
            cmd = "hhf_model %d %s %s " % (p["overhead"], ",".join(k.hex() for k in keys), d["hv"]) + " ".join(d[k] for k in FIELDS)
            qhv = hvline.split(" : ")[1].split(",")
        else:
            cmd = "hhf_model %d %s - 0 0 0 - - 16 - - - - - -" % (p["overhead"], ",".join(k.hex() for k in keys))
            qhv = ["0:0"] * (len(p["memberq"]) + len(p["absent"]))
        T = None
        if len(o["lines"]) > 2 and " = strs" in o["lines"][2]:
            try:
                T = [bytes.fromhex(t.split("/")[0]) for t in o["lines"][2].split(" = strs", 1)[1].split()]
            except ValueError:
                T = None
            if T is not None and sorted(T) != sorted(keys):
                T = None
        cmds = [cmd]
        for q, hv in zip(p["memberq"] + p["absent"], qhv):
            h1, h2 = hv.split(":")
            cmds.append("hhf_q locate %s %s %s" % (q.hex(), h1, h2))
        ids = set([0, 1, 2, n - 1, n, n + 1, n + 2, 2 ** 32, 2 ** 32 + 1, 2 ** 64 - 1, rnd.randint(1, n)])
        if n <= 40:
            ids |= set(range(1, n + 1))
        else:
            ids |= set(rnd.randint(1, n) for _ in range(16))
            if T is not None:
                ids |= set(T.index(k) + 1 for k in p["memberq"])
        cmds += ["hhf_q extract %d" % i for i in sorted(i for i in ids if i >= 0)]
        cmds.append("hhf_q table")
        meta["members"] = [k.hex() for k in p["memberq"]]
        meta["table_known"] = T is not None
        cases.append(Case(p["name"], cmds, meta))
    return cases


DT_SITES = ("DecodingTable::getSubstring", "DecodingTable::processChunk", "VByte::decode", "StatCoder::decodeString",
            "StringDictionaryHASHHF::extract", "StringDictionaryHASHHF::extractTable")   # known finding decoding-table-unpopulated (input class decoding_table_crash)


def evaluate_property(case, out, certified=None):
    """C01 / C02 / C07 / C12 for this kind on the implementation's output lines alone.  `certified` (the model's ok= verdict)
    is optional: instances the checker rejected fall into the known input class decoding_table_crash when the decoder
    crashes; without the verdict every instance is judged."""
    fails = []
    m = case.meta
    if m.get("phase1_status") != "ok" or "phase1" not in m:
        return ["dictionary build (phase 1) %s: %s" % (m.get("phase1_status"), " | ".join(m.get("phase1_err", [])))]
    if out["status"] != "ok":
        fails.append("implementation %s on valid input: %s" % (out["status"], " | ".join(out["err"][:3])))
    S = [bytes.fromhex(h) for h in m["strings"]]
    Sset = set(S)
    n = len(S)
    lines = out["lines"]
    if not lines or not lines[0].startswith("hhf_model "):
        return fails + ["no hhf_model line"]
    d = _kv(lines[0])
    if d.get("same") != "1":
        fails.append("second build produced a different dictionary")
    if int(d.get("elements", -1)) != n:
        fails.append("elements=%s, expected %d" % (d.get("elements"), n))
    if int(d.get("maxlength", -1)) != max(len(s) for s in S) + 1:
        fails.append("maxlength=%s, expected %d" % (d.get("maxlength"), max(len(s) for s in S) + 1))
    if int(d.get("tsize", 0)) < n:
        fails.append("tsize=%s < n" % d.get("tsize"))
    cmds = case.cmds[1:]
    if len(lines) - 1 != len(cmds):
        fails.append("%d answers for %d queries" % (len(lines) - 1, len(cmds)))
    notes = out.get("notes", {})
    ext, loc = {}, {}
    for k, (cmd, line) in enumerate(zip(cmds, lines[1:])):
        tk = cmd.split()
        op = tk[1]
        arg = tk[2] if len(tk) > 2 else ""
        dt = False
        for nt in notes.get(k + 1, []):
            if any(x in nt for x in DT_SITES):
                dt = True
            elif nt.startswith("crash"):
                if any(any(x in n2 for x in DT_SITES) for n2 in notes.get(k + 1, [])) or certified is False:
                    dt = True
                else:
                    fails.append("query crashed: " + nt[:100])
            elif nt.startswith("asan"):
                fails.append("sanitizer report: " + nt[:120])
        if dt and certified and op != "table":
            fails.append("certified instance hit the decoder defect: " + " | ".join(notes.get(k + 1, []))[:160])
        # op == "table" and dt: extractTable scans with `remain = maxlength` (extract: maxcomplength + 4): recorded finding
        # (input class decoding_table_crash); certification says nothing about extractTable, the model's hashhf_table
        # reproduces the failure (None) and compare_lines checks that agreement
        if dt or (certified is False and op != "locate"):
            continue                       # known defect class: only the model/implementation agreement is checked
        if " = " not in line + " ":
            fails.append("malformed answer: " + line[:80])
            continue
        ans = line.split("=", 1)[1].strip()
        if "DIFFER" in ans:
            fails.append("the three hash representations disagree: %s -> %s" % (cmd[:60], ans[:120]))
            continue
        if "PATTERN-MODIFIED" in ans:
            fails.append("pattern modified: " + cmd[:60])
        if op == "locate":
            q = bytes.fromhex(arg)
            try:
                idv = int(ans.split()[0])
            except (ValueError, IndexError):
                fails.append("locate(%s) = %s" % (arg, ans[:40]))
                continue
            if q in Sset:
                if not 1 <= idv <= n:
                    fails.append("locate(member %s) = %d outside [1,%d]" % (arg, idv, n))
                if idv in loc.values():
                    fails.append("two members share the ID %d" % idv)
                loc[q] = idv
            elif idv != 0:
                fails.append("locate(non-member %s) = %d" % (arg, idv))
        elif op == "extract":
            i = int(arg)
            if 1 <= i <= n:
                f = ans.split("/")
                if len(f) != 3 or f[0] == "NULL":
                    fails.append("extract(%d) = %s" % (i, ans[:60]))
                    continue
                s = b"" if f[0] == "-" else bytes.fromhex(f[0])
                if s not in Sset:
                    fails.append("extract(%d) = %s is not a member" % (i, f[0][:60]))
                if f[1] != str(len(s)) or f[2] != str(len(s)):
                    fails.append("extract(%d): strLen %s, strlen %s, bytes %d" % (i, f[1], f[2], len(s)))
                if s in ext.values():
                    fails.append("two IDs extract the same string %s" % f[0][:40])
                ext[i] = s
            elif ans != "NULL/0":
                fails.append("extract(%d) = %s, expected NULL/0" % (i, ans[:60]))
        elif op == "table":
            if certified is False:
                continue
            try:
                T = [bytes.fromhex(t.split("/")[0]) for t in ans.split()[1:]] if ans.startswith("strs") else None
            except ValueError:
                T = None
            if T is None or sorted(T) != sorted(S):
                fails.append("extractTable is not a permutation of the strings: " + ans[:100])
            else:
                for i, s in ext.items():
                    if T[i - 1] != s:
                        fails.append("extractTable[%d] differs from extract(%d)" % (i, i))
                        break
    for q, idv in loc.items():            # round trip: extract(locate(s)) = s
        if idv in ext and ext[idv] != q:
            fails.append("extract(locate(%s)) = %s" % (q.hex()[:40], ext[idv].hex()[:40]))
        elif idv not in ext and (n <= 40 or m.get("table_known")) and 1 <= idv <= n and certified is not False:
            fails.append("locate(%s) = %d but that ID was not the one the table announced" % (q.hex()[:40], idv))
    for i, s in ext.items():              # round trip: locate(extract(id)) = id
        if s in loc and loc[s] != i:
            fails.append("locate(extract(%d)) = %d" % (i, loc[s]))
    return fails[:10]


# ---- hooks used by compcheck.run_components ---------------------------------------------------------------------------
def _certified(mo):
    return bool(mo.get("lines")) and "ok=1" in mo["lines"][0]


def compare_lines(case, io, mo):
    """model/implementation agreement: the checker verdict ok= exists on the model side only; on an UNcertified object a
    model answer `None` (line ending in " =": the model read outside an array or found an unpopulated table entry) has no
    implementation counterpart to agree with (the real code crashes, reports or answers from stale bytes there: recorded
    finding decoding_table_crash) - every other line must be equal"""
    cert = _certified(mo)
    dis = []
    for k, (a, b) in enumerate(zip(io["lines"], mo["lines"])):
        if b.startswith("SKIP"):
            continue
        if k == 0:
            a = re.sub(r" ok=[01]", "", a)
            b = re.sub(r" ok=[01]", "", b)
        if b.endswith(" =") and not cert:
            continue
        if a != b:
            dis.append({"cmd": case.cmds[k][:300] if k < len(case.cmds) else "?", "impl": a[:600], "model": b[:600]})
    if len(io["lines"]) != len(mo["lines"]) and io.get("status") == "ok":
        dis.append({"cmd": "(line count)", "impl": str(len(io["lines"])), "model": str(len(mo["lines"]))})
    return dis


def evaluate_property_m(case, io, mo):
    return evaluate_property(case, io, _certified(mo))


def sanitizer_scope(case):
    return False        # sanitizer notes of the isolated queries are judged by evaluate_property
