"""FM-index dictionary (C05 substring search; C01/C03/C04 for the FMINDEX kind).

Protocol (two phases, both through the real code):
  phase 1 (inside gen): `fm_build sparse bparam bwtsampling S...` builds a real StringDictionaryFMINDEX and dumps the
      arrays its queries run on (BWT symbols, occ, alphabet, sampled bitmap, suff_sample, separator bitmap).
  phase 2 (the returned cases): `fm_check <params> <S> <dump>` followed by `fm_q op arg` lines.  The implementation
      rebuilds the dictionary (same= tells whether it reproduced the phase-1 arrays) and answers every query on the
      real object; the oracle runs the verified checker fm_check on the DUMPED arrays (ok=) and answers the queries
      with the extracted algorithm-level model run on the dumped arrays (same BWT, same samples => same answers),
      flagging MODEL-MISMATCH when that differs from the abstract specification on an in-scope query.
evaluate_property recomputes the property itself (substring / prefix membership, rank numbering) in python on the
implementation's lines, independently of the model.
"""
import os, random
import vlib
from vlib import Case

HERE = os.path.dirname(os.path.abspath(__file__))


def _extra_dir():
    return HERE if os.path.exists(os.path.join(HERE, "cmd_fm.inc")) else None


def _kv(line):
    d = {}
    for tok in line.split()[1:]:
        if "=" in tok:
            k, v = tok.split("=", 1)
            d[k] = v
    return d


def hx(b):
    return b.hex() if b else "-"


def string_sets(tier, rnd):
    out = []
    big = tier != "quick"

    def add(name, S):
        S = sorted(set(bytes(s) for s in S if len(s) > 0))
        if S:
            out.append(("%s_%d" % (name, len(out)), S))

    add("single1", [b"a"])
    add("single", [b"abracadabra"])
    add("two", [b"a", b"b"])
    add("aaaa", [b"aaaa"])                                   # aaa occurs twice inside one member
    add("runs", [b"a" * k for k in range(1, 9)])             # ladder: every member is a prefix of the next
    add("runs2", [b"aaaa", b"aaaab", b"baaaa", b"abaaaab", b"aaaaaaaa"])
    add("banana", [b"banana", b"bandana", b"ananas", b"nab", b"an", b"na"])
    add("lohi", [bytes([2]), bytes([2, 2]), bytes([254]), bytes([254, 254]), bytes([2, 254]), bytes([254, 2])])
    add("lohi2", [bytes([2, 3, 2]), bytes([3]), bytes([253, 254]), bytes([254, 253, 254, 253])])
    add("alpha", [bytes([c]) for c in range(97, 123)])
    add("sparse_alpha", [bytes([2, 200]), bytes([100, 2]), bytes([200, 100, 200])])
    add("period", [b"abab", b"ababab", b"bababa", b"ab", b"ba", b"abababab"])
    add("overlap", [b"xabcabcabx", b"abcab", b"cabca", b"bcabc"])
    add("nested", [b"abc", b"xabc", b"abcx", b"xabcx", b"xxabcxx", b"ab", b"bc", b"b"])
    add("samechar", [b"zz", b"zzz", b"z", b"zzzzzzz"])
    add("long", [bytes(rnd.choice(b"ab") for _ in range(70)), bytes(rnd.choice(b"ab") for _ in range(65))])
    for n in ([3, 4, 5, 8, 16, 17] + ([33, 64, 100] if big else [])):
        add("n", [bytes(rnd.choice(b"abc") for _ in range(rnd.randint(1, 6))) for _ in range(n)])
    for i in range(22 if not big else 300):
        sigma = rnd.choice([1, 2, 2, 3, 4, 26])
        n = rnd.choice([1, 2, 3, 5, 8, 13, 20] + ([50, 120] if big else []))
        mx = rnd.choice([1, 2, 4, 9, 20])
        base = rnd.choice([2, 97, 97, 97, 250 - sigma])
        add("rand", [bytes(base + rnd.randrange(sigma) for _ in range(rnd.randint(1, mx))) for _ in range(n)])
    return out


def queries(S, rnd, tier):
    """(op, arg-hex) list, boundary directed."""
    n = len(S)
    used = sorted(set(b for s in S for b in s))
    unused = [b for b in (2, 3, 65, 96, 123, 200, 253, 254, 255) if b not in used]
    above = [b for b in range(max(used) + 1, 256)][:2]
    q = [("numElements", ""), ("maxLength", ""), ("extractTable", "")]
    ids = sorted(set([0, 1, 2, n - 1, n, n + 1, n + 2, (1 << 32) - 1, 1 << 32, (1 << 64) - 1] + [rnd.randint(1, n) for _ in range(4)]))
    for i in ids:
        if i >= 0:
            q.append(("extract", str(i)))
    members = S if len(S) <= 12 else rnd.sample(S, 12)
    pats = set()
    for s in members:
        q.append(("locate", hx(s)))
        pats.add(s)                                                # whole member
        for L in sorted(set([1, 2, 3, len(s) - 1])):
            if 0 < L <= len(s):
                pats.add(s[:L])                                    # at the start
                pats.add(s[len(s) - L:])                           # at the end
                if len(s) > L + 1:
                    st = rnd.randint(1, len(s) - L - 1)
                    pats.add(s[st:st + L])                         # in the middle
        pats.add(s + bytes([used[0]]))                             # one byte too long
        pats.add(bytes([used[-1]]) + s)
        if len(s) > 1:
            t = bytearray(s)
            t[rnd.randrange(len(s))] = rnd.choice(used)
            pats.add(bytes(t))                                     # one inner byte changed
    for b in used[:6]:
        pats.add(bytes([b]))                                       # single bytes
        pats.add(bytes([b, b]))
        pats.add(bytes([b, b, b]))                                 # repeated occurrences (aaa in aaaa)
    for b in unused[:3] + above:
        pats.add(bytes([b]))                                       # bytes outside the alphabet
        pats.add(S[0][:1] + bytes([b]))
        pats.add(bytes([b]) + S[-1][-1:])
    pats.add(S[-1] + S[-1])                                        # longer than every member
    pats = sorted(p for p in pats if p)
    if len(pats) > (40 if tier == "quick" else 80):
        pats = rnd.sample(pats, 40 if tier == "quick" else 80)
    for p in pats:
        q.append(("locate", hx(p)))
        q.append(("locatePrefix", hx(p)))
        q.append(("locateSubstr", hx(p)))
        if rnd.random() < 0.5:
            q.append(("extractSubstr", hx(p)))
        if rnd.random() < 0.3:
            q.append(("extractPrefix", hx(p)))
    return q


def param_vectors(rnd, k):
    allp = [(0, 2), (0, 4), (0, 20), (1, 16), (1, 32)]
    steps = [1, 2, 3, 8, 64]
    out = [(sp, bp, st) for (sp, bp) in allp for st in steps]
    rnd.shuffle(out)
    out = out[:k]
    return out


def gen(tier, seed):
    rnd = random.Random(seed * 15485863 + 5)
    sets = string_sets(tier, rnd)
    exe, msg = vlib.build_driver("asan", extra_dir=_extra_dir())
    if exe is None:
        raise RuntimeError("driver build failed: " + msg)
    plan = []
    for i, (name, S) in enumerate(sets):
        k = 3 if tier == "quick" else 5
        pv = param_vectors(rnd, k)
        if i % 7 == 0:
            pv.append((rnd.choice([0, 1]), rnd.choice([4, 16]), 0))      # no sampling: substring search is refused
        for (sp, bp, st) in pv:
            plan.append(("%s_s%d_b%d_t%d" % (name, sp, bp, st), S, sp, bp, st))
    p1 = [Case("p1_" + nm, ["fm_build %d %d %d %s" % (sp, bp, st, " ".join(hx(s) for s in S))], {}) for nm, S, sp, bp, st in plan]
    res = vlib.run_cases(exe, p1, tag="impl-p1")
    cases = []
    for nm, S, sp, bp, st in plan:
        o = res.get("p1_" + nm, {"lines": [], "status": "missing", "err": []})
        meta = {"strings": [s.hex() for s in S], "sparse": sp, "bparam": bp, "step": st,
                "phase1_status": o["status"], "phase1_err": o["err"][:4]}
        line = next((l for l in o["lines"] if l.startswith("fm_build ")), "")
        sarg = ",".join(hx(s) for s in S)
        if o["status"] == "ok" and line:
            d = _kv(line)
            meta["phase1"] = {k: d[k] for k in ("n", "elements", "maxlength", "step")}
            cmd = "fm_check %d %d %d %s %s %s %s %s %s %s %s %s" % (sp, bp, st, sarg, d["bwt"], d["occ"], d["alpha"], d["sampled"],
                                                                   d["suff"], d["seps"], d["elements"], d["maxlength"])
        else:
            cmd = "fm_check %d %d %d %s - - - - - - 0 0" % (sp, bp, st, sarg)
        qs = queries(S, random.Random(rnd.random()), tier)
        meta["queries"] = qs
        cases.append(Case(nm, [cmd] + ["fm_q %s %s" % (op, a) if a else "fm_q %s" % op for op, a in qs], meta))
    return cases


# ---- the property itself, recomputed in python ----------------------------------------
def _strs(S):
    return "".join(" %s/%d/%d" % (s.hex(), len(s), len(s)) for s in S)


def expected(S, step, op, arg):
    n = len(S)
    p = bytes.fromhex(arg) if arg not in ("", "-") and op not in ("extract",) else b""
    if op == "numElements":
        return " %d" % n
    if op == "maxLength":
        return " %d" % (max(len(s) for s in S) + 1)
    if op == "locate":
        return " %d" % (S.index(p) + 1 if p in S else 0)
    if op == "extract":
        i = int(arg)
        return _strs([S[i - 1]]) if 1 <= i <= n else " NULL/0"
    if op == "extractTable":
        return " strs" + _strs(S)
    if op == "locatePrefix":
        return " ids" + "".join(" %d" % (i + 1) for i, s in enumerate(S) if s.startswith(p))
    if op == "extractPrefix":
        m = [s for s in S if s.startswith(p)]
        return " strs" + _strs(m) if m else " NULL"
    if op == "locateSubstr":
        if step == 0:
            return " NULL"
        return " ids" + "".join(" %d" % (i + 1) for i, s in enumerate(S) if p in s)
    if op == "extractSubstr":
        m = [s for s in S if p in s]
        return " strs" + _strs(m) if (m and step > 0) else " NULL"
    return None


def evaluate_property(case, out):
    m = case.meta
    fails = []
    if m.get("phase1_status") != "ok" or "phase1" not in m:
        return ["construction (phase 1) %s: %s" % (m.get("phase1_status"), " | ".join(m.get("phase1_err", [])))]
    if out["status"] != "ok":
        return ["implementation %s on valid input: %s" % (out["status"], " | ".join(out["err"][:3]))]
    S = [bytes.fromhex(x) for x in m["strings"]]
    lines = out["lines"]
    if not lines or not lines[0].startswith("fm_check "):
        return ["no fm_check line"]
    d = _kv(lines[0])
    if d.get("same") != "1":
        fails.append("construction is not reproducible: the second build produced different arrays")
    qs = m["queries"]
    if len(lines) - 1 != len(qs):
        fails.append("expected %d query lines, got %d" % (len(qs), len(lines) - 1))
    notes = out.get("notes", {})
    for k, ((op, arg), line) in enumerate(zip(qs, lines[1:])):
        if (k + 1) in notes:
            fails.append("%s %s: %s" % (op, arg, "; ".join(notes[k + 1])[:200]))
            continue
        if "=" not in line:
            fails.append("%s %s: malformed line %r" % (op, arg, line[:80]))
            continue
        got = line.split("=", 1)[1]
        want = expected(S, m["step"], op, arg)
        if want is not None and got != want:
            fails.append("%s %s: got%s want%s" % (op, arg, got[:120], want[:120]))
    return fails[:10]
