"""C19 / rrr — BitSequenceRRR answers access / rank1 / rank0 / select1 / select0 exactly as defined on the plain bit vector,
for every bit vector and every sample rate (fresh object and after save/load).

Boundary-directed generator and the property itself (recomputed here from the plain bits, independently of the Coq model).
Commands: see cmd_rrr.inc.  The oracle prints the same lines from the word-exact model RRRDefs.v (dump included)."""
import random
from vlib import Case

SRS = [1, 2, 3, 5, 16, 32, 33, 128]
PATS = ["zero", "one", "uni1", "uni2", "alt", "alt1", "runs", "d01", "d50", "d99", "first1", "last1", "first0", "last0", "blk7"]


def mk_bits(rnd, n, pat):
    if pat == "zero":
        return [0] * n
    if pat == "one":
        return [1] * n
    if pat in ("uni1", "uni2"):
        # uniform 15-bit blocks (all 0 / all 1) mixed with one (uni1) or two (uni2) non-uniform blocks
        nb = (n + 14) // 15
        out = []
        mode = rnd.choice(["z", "o", "mix"])
        for _ in range(nb):
            v = {"z": 0, "o": 1, "mix": rnd.randrange(2)}[mode]
            out += [v] * 15
        for _ in range(1 if pat == "uni1" else 2):
            k = rnd.choice([0, nb - 1, rnd.randrange(nb)])
            c = rnd.choice([1, 2, 7, 8, 13, 14])
            blk = [1] * c + [0] * (15 - c)
            rnd.shuffle(blk)
            out[15 * k:15 * k + 15] = blk
        return out[:n]
    if pat == "alt":
        return [i & 1 for i in range(n)]
    if pat == "alt1":
        return [1 - (i & 1) for i in range(n)]
    if pat == "first1":
        return [1] + [0] * (n - 1)
    if pat == "last1":
        return [0] * (n - 1) + [1]
    if pat == "first0":
        return [0] + [1] * (n - 1)
    if pat == "last0":
        return [1] * (n - 1) + [0]
    if pat == "runs":
        out, b = [], rnd.randrange(2)
        while len(out) < n:
            out += [b] * rnd.choice([1, 2, 7, 14, 15, 16, 29, 30, 31, 45, 100, 257])
            b = 1 - b
        return out[:n]
    if pat == "blk7":
        # every block of class 7 or 8 (13-bit offsets: the widest O fields, many straddle a word)
        out = []
        while len(out) < n:
            c = rnd.choice([7, 8])
            blk = [1] * c + [0] * (15 - c)
            rnd.shuffle(blk)
            out += blk
        return out[:n]
    dens = {"d01": 0.01, "d50": 0.5, "d99": 0.99}[pat]
    return [1 if rnd.random() < dens else 0 for _ in range(n)]


def boundary_lengths(sr, tier):
    base = set()
    for k in (1, 2, 3, 4):
        for d in (-1, 0, 1):
            base.add(15 * k + d)
            base.add(32 * k + d)
            base.add(15 * sr * k + d)
    for d in (-1, 0, 1, 14, 15, 16):
        base.add(15 * sr + d)
        base.add(30 * sr + d)
    base |= {240, 241, 255, 256, 257, 479, 480, 481, 1000}
    if tier != "quick":
        base |= {15 * sr * 5 + 7, 15 * sr * 7, 2047, 2048, 2049, 4095, 4097}
    lim = 4200 if tier == "quick" else 16000
    return sorted(x for x in base if 1 <= x <= lim)


def naive(bits, op, a):
    n = len(bits)
    if op == "access":
        return bits[a] if a < n else None
    if op == "rank1":
        return sum(bits[:a + 1]) if a < n else None
    if op == "rank0":
        return (a + 1 - sum(bits[:a + 1])) if a < n else None
    want = 1 if op == "select1" else 0
    if a == 0:
        return None
    cnt = 0
    for p, b in enumerate(bits):
        if b == want:
            cnt += 1
            if cnt == a:
                return p
    return None


def queries(rnd, bits, sr, full):
    n = len(bits)
    ones = sum(bits)
    zeros = n - ones
    q = []
    if n <= 64 or full:
        pos = list(range(n))
    else:
        ps = {0, n - 1}
        for k in range(0, n // 15 + 2):
            for d in (-1, 0, 1):
                ps.add(15 * k + d)
        for k in range(0, n // (15 * sr) + 2):
            for d in (-1, 0, 1, 14, 15, 29, 30):
                ps.add(15 * sr * k + d)
        for _ in range(30):
            ps.add(rnd.randrange(n))
        pos = sorted(p for p in ps if 0 <= p < n)
        if len(pos) > 160:
            keep = set(rnd.sample(pos, 150)) | {0, n - 1}
            pos = sorted(keep)
    for p in pos:
        for op in ("access", "rank1", "rank0"):
            q.append((op, p))
    # prefix sums for the boundaries of the sampling intervals
    pre = [0]
    for b in bits:
        pre.append(pre[-1] + b)
    for op, total, cnt in (("select1", ones, lambda p: pre[p]), ("select0", zeros, lambda p: p - pre[p])):
        if total == 0:
            continue
        if total <= 64 or full:
            js = list(range(1, total + 1))
        else:
            s = {1, 2, total - 1, total}
            for k in range(0, n // (15 * sr) + 2):
                p = min(n, 15 * sr * k)
                for d in (-1, 0, 1, 2):
                    s.add(cnt(p) + d)
            for k in range(0, n // 15 + 2, max(1, (n // 15) // 12)):
                p = min(n, 15 * k)
                for d in (0, 1):
                    s.add(cnt(p) + d)
            for _ in range(20):
                s.add(rnd.randrange(1, total + 1))
            js = sorted(j for j in s if 1 <= j <= total)
            if len(js) > 120:
                js = sorted(set(rnd.sample(js, 110)) | {1, total})
        for j in js:
            q.append((op, j))
    return q


def xqueries(bits):
    n = len(bits)
    ones = sum(bits)
    return [("select1", 0), ("select1", ones + 1), ("select0", 0), ("select0", n - ones + 1),
            ("rank1", 18446744073709551615), ("rank0", 18446744073709551615)]


def mk_case(rnd, name, sr, bits, pat, full=False, xq=True, table=False):
    s = "".join(map(str, bits)) if bits else "-"
    cmds = ["rrr_build %d %s" % (sr, s), "rrr_dump"]
    qs = queries(rnd, bits, sr, full)
    cmds += ["rrr_q %s %d" % (op, a) for op, a in qs]
    cmds += ["rrr_image", "rrr_reload", "rrr_dump"]
    qs2 = qs if len(qs) <= 80 else rnd.sample(qs, 80)
    cmds += ["rrr_q %s %d" % (op, a) for op, a in qs2]
    if xq:
        cmds += ["rrr_xq %s %d" % (op, a) for op, a in xqueries(bits)]
    return Case(name, cmds, {"bits": bits, "sr": sr, "pat": pat, "n": len(bits)})


def gen(tier, seed):
    rnd = random.Random(seed)
    cases = []
    quick = tier == "quick"
    # the universal table
    cases.append(Case("table", ["rrr_table"], {"kind": "table"}))
    # 1. every length 1..47, all positions / all select arguments
    for n in range(1, 48):
        for rep in range(1 if quick else 6):
            sr = rnd.choice(SRS)
            pat = rnd.choice(PATS)
            cases.append(mk_case(rnd, "len%d_%d_sr%d_%s" % (n, rep, sr, pat), sr, mk_bits(rnd, n, pat), pat, full=True))
    # 2. the inputs of the repaired defect: every block uniform (O_bits_len = 0)
    for n in (1, 14, 15, 16, 30, 31, 45, 150):
        for pat in ("zero", "one"):
            sr = rnd.choice(SRS)
            cases.append(mk_case(rnd, "uniform_%s_%d_sr%d" % (pat, n, sr), sr, mk_bits(rnd, n, pat), pat, full=n <= 64))
    # 3. sample rate x pattern x boundary lengths
    for sr in SRS:
        ls = boundary_lengths(sr, tier)
        for pat in PATS:
            for rep in range(1 if quick else 9):
                n = rnd.choice(ls)
                cases.append(mk_case(rnd, "b_sr%d_%s_%d_n%d" % (sr, pat, rep, n), sr, mk_bits(rnd, n, pat), pat))
    # 4. C_len a multiple of the sample rate / one more / one less (the padding loop of create_sampling)
    for sr in SRS:
        for m in (1, 2, 3):
            for d in (-1, 0, 1):
                nb = sr * m + d
                if nb < 1 or nb * 15 > (4200 if quick else 16000):
                    continue
                if quick and rnd.random() < 0.5:
                    continue
                n = 15 * nb - rnd.choice([0, 0, 1, 7, 14])
                pat = rnd.choice(["d50", "d01", "d99", "uni1", "runs", "last1", "blk7"])
                cases.append(mk_case(rnd, "pad_sr%d_nb%d_n%d_%s" % (sr, nb, n, pat), sr, mk_bits(rnd, n, pat), pat))
    return cases


# ---------------------------------------------------------------------------------------------
# the property, on the implementation's own output
# ---------------------------------------------------------------------------------------------
def fields(words, width, count):
    big = 0
    for k, w in enumerate(words):
        big |= w << (32 * k)
    return [(big >> (width * k)) & ((1 << width) - 1) for k in range(count)] if width else [0] * count


def parse_dump(line):
    d = {}
    for item in line.split()[1:]:
        k, v = item.split("=", 1)
        if k in ("C", "O", "CS", "OP"):
            d[k] = [] if v == "-" else [int(x) for x in v.split(",")]
        else:
            d[k] = int(v)
    return d


def check_dump(bits, sr, line):
    """layout-level facts recomputed from the plain bits: classes, partial sums, field widths"""
    bad = []
    d = parse_dump(line)
    n = len(bits)
    nb = (n + 14) // 15
    cls = [sum(bits[15 * k:15 * k + 15]) for k in range(nb)]
    if d["length"] != n or d["ones"] != sum(bits) or d["C_len"] != nb or d["sample_rate"] != sr or d["C_field_bits"] != 4:
        bad.append("dump header %s" % line[:120])
        return bad
    if fields(d["C"], 4, nb) != cls:
        bad.append("C classes differ from the block popcounts")
    if d["C_sampling_len"] != nb // sr + 2 or d["O_pos_len"] != nb // sr + 1:
        bad.append("sampling lengths")
    if d["C_sampling_field_bits"] != sum(bits).bit_length():
        bad.append("C_sampling_field_bits")
    cs = fields(d["CS"], d["C_sampling_field_bits"], d["C_sampling_len"])
    want = [sum(cls[:min(k * sr, nb)]) for k in range(nb // sr + 2)]
    if cs != want:
        bad.append("C_sampling %s expected %s" % (cs[:8], want[:8]))
    if d["O_len"] < 1 or d["O_len"] != max(1, (d["O_bits_len"] + 31) // 32) or len(d["O"]) != d["O_len"]:
        bad.append("O_len %d for %d bits" % (d["O_len"], d["O_bits_len"]))
    return bad


def evaluate_property(case, out):
    bad = []
    lines = out["lines"]
    if case.meta.get("kind") == "table":
        if not lines or not lines[0].startswith("rrr_table"):
            return ["no table line"]
        t = {}
        for item in lines[0].split()[1:]:
            k, v = item.split("=", 1)
            t[k] = [int(x) for x in v.split(",")]
        import math
        if t["binomial15"] != [math.comb(15, k) for k in range(16)]:
            bad.append("binomial row 15")
        if t["log2binomial15"] != [(math.comb(15, k) - 1).bit_length() for k in range(16)]:
            bad.append("log2binomial row 15")
        oc, sb, ro = t["offset_class"], t["short_bitmaps"], t["rev_offset"]
        for b in range(32768):
            c = bin(b).count("1")
            if not (ro[b] < math.comb(15, c) and sb[oc[c] + ro[b]] == b):
                bad.append("block %d: offset %d" % (b, ro[b]))
                break
        return bad
    bits, sr = case.meta["bits"], case.meta["sr"]
    n, ones = len(bits), sum(bits)
    if len(lines) != len(case.cmds):
        bad.append("line count %d for %d commands" % (len(lines), len(case.cmds)))
    for cmd, line in zip(case.cmds, lines):
        tk = cmd.split()
        if tk[0] == "rrr_build":
            if line != "rrr_build %d n=%d ones=%d" % (sr, n, ones):
                bad.append("build: %s" % line[:100])
        elif tk[0] == "rrr_q":
            exp = naive(bits, tk[1], int(tk[2]))
            if exp is None:
                continue
            if line != "rrr_q %s %s = %d" % (tk[1], tk[2], exp):
                bad.append("%s -> %s, plain definition gives %d" % (cmd, line[:80], exp))
        elif tk[0] == "rrr_reload":
            it = dict(x.split("=") for x in line.split()[1:] if "=" in x)
            if not it or it.get("consumed") != it.get("of") or int(it.get("n", -1)) != n or int(it.get("ones", -1)) != ones:
                bad.append("reload: %s" % line[:100])
        elif tk[0] == "rrr_dump":
            if line.startswith("rrr_dump length="):
                bad += check_dump(bits, sr, line)
            else:
                bad.append("dump: %s" % line[:80])
    return bad
