"""Adapter: restrict a generator module to some case kinds / wrap its property evaluation."""


class Sub:
    def __init__(self, mod, kinds, extra_eval=None, only_extra=False):
        self.mod, self.kinds, self.extra_eval, self.only_extra = mod, set(kinds), extra_eval, only_extra

    def gen(self, tier, seed):
        return [c for c in self.mod.gen(tier, seed) if c.meta.get("kind") in self.kinds]

    def evaluate_property(self, case, out):
        fails = [] if self.only_extra else list(self.mod.evaluate_property(case, out))
        if self.extra_eval:
            fails += self.extra_eval(case, out)
        return fails

    def input_classes(self, case):
        return self.mod.input_classes(case) if hasattr(self.mod, "input_classes") else []

    def sanitizer_scope(self, case):
        return self.mod.sanitizer_scope(case) if hasattr(self.mod, "sanitizer_scope") else True
