"""Adapter: restrict a generator module to some case kinds / wrap its property evaluation."""


class Sub:
    def __init__(self, mod, kinds, extra_eval=None, only_extra=False):
        self.mod, self.kinds, self.extra_eval, self.only_extra = mod, set(kinds), extra_eval, only_extra

    def gen(self, tier, seed):
        return [c for c in self.mod.gen(tier, seed) if c.meta.get("kind") in self.kinds]

    def evaluate_property(self, case, out):
        fails = [] if self.only_extra else list(self.mod.evaluate_property(case, out))
        if self.extra_eval:
            fails += self.extra_eval(case, out)
        return fails

    def input_classes(self, case):
        return self.mod.input_classes(case) if hasattr(self.mod, "input_classes") else []

    def sanitizer_scope(self, case):
        return self.mod.sanitizer_scope(case) if hasattr(self.mod, "sanitizer_scope") else True


class Slice:
    """Adapter: a share of a (heavy) generator's cases - every `step`-th case starting at `offset` in the quick tier, every
    `thorough_step`-th in the thorough tier (the checks that share a generator use different offsets, so that together they run
    all of it); everything else is forwarded."""

    def __init__(self, mod, step, offset, thorough_step=1):
        self.mod, self.step, self.offset, self.thorough_step = mod, step, offset, thorough_step

    def gen(self, tier, seed):
        cs = self.mod.gen(tier, seed)
        step = self.step if tier == "quick" else self.thorough_step
        return cs if step <= 1 else [c for i, c in enumerate(cs) if i % step == self.offset % step]

    def __getattr__(self, name):
        return getattr(self.mod, name)
