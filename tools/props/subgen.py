"""Adapter: restrict a generator module to some case kinds / wrap its property evaluation."""


class Sub:
    def __init__(self, mod, kinds, extra_eval=None, only_extra=False):
        self.mod, self.kinds, self.extra_eval, self.only_extra = mod, set(kinds), extra_eval, only_extra

    def gen(self, tier, seed):
        return [c for c in self.mod.gen(tier, seed) if c.meta.get("kind") in self.kinds]

    def evaluate_property(self, case, out):
        fails = [] if self.only_extra else list(self.mod.evaluate_property(case, out))
        if self.extra_eval:
            fails += self.extra_eval(case, out)
        return fails

    def input_classes(self, case):
        return self.mod.input_classes(case) if hasattr(self.mod, "input_classes") else []

    def sanitizer_scope(self, case):
        return self.mod.sanitizer_scope(case) if hasattr(self.mod, "sanitizer_scope") else True


class Slice:
    """Adapter: a share of a (heavy) generator's cases - every `step`-th case starting at `offset` in the quick tier, all of
    them in the thorough tier; everything else is forwarded."""

    def __init__(self, mod, step, offset):
        self.mod, self.step, self.offset = mod, step, offset

    def gen(self, tier, seed):
        cs = self.mod.gen(tier, seed)
        return cs if tier != "quick" else [c for i, c in enumerate(cs) if i % self.step == self.offset % self.step]

    def __getattr__(self, name):
        return getattr(self.mod, name)
