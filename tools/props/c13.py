"""C13 — table scan and iterators: each member once, in ID order, sound protocol."""
from props import dictcheck as DC, dictcommon as D

TABLE_KINDS = [k for k in D.ALL_KINDS if k != "XBW"]


def make_cmds(rnd, kind, S, params, tier):
    cmds, names = DC.std_phase_cmds(S, kind, params, ("reloaded",))
    n = len(S)
    for dn in names:
        cmds.append("q %s extractTable" % dn)
        ids = list(range(1, n + 1)) if n <= 40 else sorted(rnd.sample(range(1, n + 1), 40))
        if kind in D.HASH_KINDS or kind == "XBW":
            cmds += ["q %s extract %d" % (dn, i) for i in range(1, n + 1)]
        if kind == "PFC":
            cmds.append("mq %s extractTable" % dn)
        if kind in D.PREFIX_KINDS:
            # scans starting at every in-bucket offset: prefixes = members' first bytes and members
            for p in D.gen_prefixes(rnd, S, 14):
                cmds += ["q %s extractPrefix %s" % (dn, D.hx(p)), "q %s locatePrefix %s" % (dn, D.hx(p))]
                if kind == "PFC":
                    cmds += ["mq %s extractPrefix %s" % (dn, D.hx(p))]
        if kind == "FMINDEX" and len(params) > 2 and params[2] != "0":
            for p in D.gen_substrs(rnd, S, 8):
                cmds += ["q %s locateSubstr %s" % (dn, D.hx(p)), "q %s extractSubstr %s" % (dn, D.hx(p))]
    return cmds, names, {}


from props import gen_iters, gen_htfcit
from props.subgen import Sub, Slice
CFG = DC.Config("C13", TABLE_KINDS + ["XBW"], make_cmds, nsets=(10, 30), big=True,
                components=[Sub(gen_iters, ["contig", "dup", "nocontig", "blocks", "control"]), Slice(gen_htfcit, 4, 0, 2)],
                rule="extractTable of the 12 kinds that implement it must yield exactly numElements strings, the k-th being extract(k) "
                     "(= the sorted input for order-preserving kinds); every string iterator (table, prefix, substring) is drained "
                     "with hasNext, each string must be NUL-terminated with reported length = strlen, hasNext must be false after the "
                     "last element (a cap of n+3 reveals a runaway iterator); ID iterators must not repeat an ID; prefix scans start at "
                     "every in-bucket offset. Non-trivial = an iterator drained; distinct by (kind, params, S, command).")


# witness of the recorded finding htfc-iterator-decoder-crash (minimised by the thorough tier): PFC scans the same set correctly
import json as _json, os as _os
try:
    _W = [f for f in _json.load(open(_os.path.join(_os.path.dirname(_os.path.abspath(__file__)), "..", "..", "known_findings.json")))["findings"]
          if f["key"] == "htfc-iterator-decoder-crash"][0]["witness"]["S"]
    CFG.extra_sets = [(("PFC", "HTFC"), "htfc-iterator-witness", sorted(bytes.fromhex(x) for x in _W), ["7"])]
except Exception:
    pass


def check(run, tier, seed, replay):
    DC.run(run, CFG, tier, seed, replay)
