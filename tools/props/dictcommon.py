"""Shared generators / comparators for the dictionary-level properties
(C01-C08, C12-C16).  One PRNG state per run; every case is a (string set,
kind, parameters, phase, operations) tuple that is run through the C++ driver
(implementation) and through the extracted oracle (Spec.v / concrete models)."""
import random, re
from vlib import Case

ORDER_KINDS = ["PFC", "RPFC", "HTFC", "HHTFC", "RPHTFC", "RPDAC", "FMINDEX"]
HASH_KINDS = ["HASHHF", "HASHRPF", "HASHUFFDAC", "HASHRPDAC", "BLOCKS"]
ALL_KINDS = ORDER_KINDS + HASH_KINDS + ["XBW"]
PREFIX_KINDS = ["PFC", "RPFC", "HTFC", "HHTFC", "RPHTFC", "RPDAC", "FMINDEX", "XBW"]
FC_KINDS = ["PFC", "RPFC", "HTFC", "HHTFC", "RPHTFC"]
# kinds whose freshly built object cannot answer queries (state exists only after load): known finding
FRESH_BROKEN = ["HTFC", "HHTFC", "RPHTFC", "HASHHF", "HASHUFFDAC", "XBW"]
LOADOPT_KINDS = ["HASHHF", "HASHRPF"]


def hx(b):
    return b.hex() if b else "-"


# --------------------------------------------------------------------------
# string-set generator G_S
# --------------------------------------------------------------------------
def gen_set(rnd, n, shape, alpha=None, maxlen=12):
    """Returns a sorted duplicate-free list of non-empty byte strings over 0x02..0xFE."""
    if alpha is None:
        alpha = rnd.choice([b"ab", b"abc", b"abcdefgh", bytes(range(0x61, 0x7b)), bytes([2, 3, 0xFE, 0xFD, 0x7F, 0x80, 0x81]),
                            bytes(range(2, 255))])
    S = set()
    tries = 0
    while len(S) < n and tries < n * 50 + 200:
        tries += 1
        if shape == "ladder" and S and rnd.random() < 0.7:
            base = rnd.choice(sorted(S))
            s = base + bytes([rnd.choice(alpha)])
        elif shape == "sharedprefix" and S and rnd.random() < 0.8:
            base = rnd.choice(sorted(S))
            k = rnd.randint(1, len(base))
            s = base[:k] + bytes(rnd.choice(alpha) for _ in range(rnd.randint(0, 3)))
        elif shape == "single":
            s = bytes([rnd.choice(alpha)]) if len(alpha) >= n else bytes(rnd.choice(alpha) for _ in range(rnd.randint(1, 2)))
        elif shape == "repetitive":
            unit = bytes(rnd.choice(alpha) for _ in range(rnd.randint(1, 3)))
            s = unit * rnd.randint(1, 8) + bytes(rnd.choice(alpha) for _ in range(rnd.randint(0, 1)))
        elif shape == "long":
            k = rnd.choice([126, 127, 128, 129, 130, 200])
            base = (b"q" * k)
            s = base[:rnd.choice([k, k - 1, k - 2])] + bytes(rnd.choice(alpha) for _ in range(rnd.randint(0, 3)))
        elif shape == "dominant":
            s = bytes(rnd.choice(alpha) if rnd.random() < 0.08 else alpha[0] for _ in range(rnd.randint(1, maxlen)))
        else:
            s = bytes(rnd.choice(alpha) for _ in range(rnd.randint(1, maxlen)))
        if s:
            S.add(s)
    return sorted(S)


def pad_total(S, residue, mod=32):
    """extend the LAST string (it stays last and distinct) until sum(len+1) = residue (mod `mod`): sizes of the concatenated
    text around word multiples are boundary cases of the FM-index / bitmap constructors"""
    S = list(S)
    tot = sum(len(x) + 1 for x in S)
    k = (residue - tot) % mod
    if k:
        S[-1] = S[-1] + bytes([S[-1][-1]]) * k
    return S


SHAPES = ["random", "ladder", "sharedprefix", "single", "repetitive", "dominant", "long"]


def gen_sets(rnd, count, bsizes=(2, 3, 4, 8), big=False):
    """Boundary-directed sizes: n around multiples of the bucket sizes in use."""
    out = []
    sizes = [1, 2, 3, 4, 5, 7, 8, 9, 12, 15, 16, 17, 24, 31, 32, 33, 40]
    if big:
        sizes += [63, 64, 65, 100, 128, 200]
    for k in range(count):
        n = rnd.choice(sizes)
        shape = SHAPES[k % len(SHAPES)] if k < 3 * len(SHAPES) else rnd.choice(SHAPES)
        if shape == "long":
            n = min(n, 12)
        S = gen_set(rnd, n, shape)
        if S:
            out.append((shape, S))
    return out


# --------------------------------------------------------------------------
# query generator G_Q
# --------------------------------------------------------------------------
def gen_queries(rnd, S, limit=40, splice=40):
    """Members, proper prefixes, one-byte extensions, neighbours, out-of-alphabet."""
    Sset = set(S)
    used = sorted(set(b for s in S for b in s))
    q = []
    mem = list(S) if len(S) <= limit else rnd.sample(S, limit)
    for s in mem:
        q.append(s)
    for s in rnd.sample(S, min(len(S), 10)):
        for k in range(1, len(s)):
            if rnd.random() < 0.5 or len(s) < 5:
                q.append(s[:k])
        q.append(s + bytes([2]))
        q.append(s + bytes([rnd.choice(used)]))
        q.append(s + bytes([0xFE]))
        if s[-1] > 2:
            q.append(s[:-1] + bytes([s[-1] - 1]))
        if s[-1] < 0xFE:
            q.append(s[:-1] + bytes([s[-1] + 1]))
        if len(s) > 1:
            i = rnd.randrange(len(s))
            q.append(s[:i] + bytes([rnd.choice(used)]) + s[i + 1:])
    q.append(bytes([2]))
    q.append(bytes([0xFE]))
    q.append(bytes([0xFE]) * 3)
    q.append(bytes([max(2, S[0][0] - 1)]))
    unused = [b for b in range(2, 255) if b not in used]
    if unused:
        u = rnd.choice(unused)
        q.append(bytes([u]))
        q.append(S[0][:1] + bytes([u]))
        q.append(bytes([unused[0]]))
        q.append(bytes([unused[-1]]))
    # in-band terminator family (HASHRPF stores s1 M s2 M ... with M = largest byte + 1): members glued by M
    mx = max(used) + 1
    if mx <= 0xFE and len(S) >= 2:
        for _ in range(8):
            a, b2 = rnd.choice(S), rnd.choice(S)
            q += [a + bytes([mx]) + b2, a + bytes([mx]), bytes([mx]) + a]
    # proof-directed family (case split of the in-bucket scan, LexLemmas.scan_trick_*): the head of
    # one member spliced with the tail of a LATER nearby member, cut at every position beyond the
    # point where the first member and its successor diverge
    n = len(S)
    for _ in range(splice):
        i = rnd.randrange(n)
        j = min(n - 1, i + rnd.randint(1, 6))
        a, b2 = S[i], S[j]
        if j == i or len(a) < 1:
            continue
        nxt = S[i + 1]
        p = 0
        while p < len(a) and p < len(nxt) and a[p] == nxt[p]:
            p += 1
        lo = min(len(a), p + 1)
        s_ = rnd.randint(lo, len(a)) if lo <= len(a) else len(a)
        if len(b2) > s_:
            q.append(a[:s_] + b2[s_:])
        q.append(a[:s_] + b2[-1:])
    # ... and the exact "stale shared-prefix length" pattern: a later member whose lcp with ITS
    # predecessor equals the cut position
    cand = []
    for j in range(2, n):
        x, y = S[j - 1], S[j]
        s_ = 0
        while s_ < len(x) and s_ < len(y) and x[s_] == y[s_]:
            s_ += 1
        if s_ == 0 or len(y) <= s_:
            continue
        for i in range(max(0, j - 7), j - 1):
            a = S[i]
            if len(a) > s_ and a[:s_] != y[:s_]:
                cand.append(a[:s_] + y[s_:])
    rnd.shuffle(cand)
    q += cand[:splice]
    seen, out = set(), []
    for x in q:
        if x and x not in seen:
            seen.add(x)
            out.append(x)
    return out


def gen_prefixes(rnd, S, limit=30):
    used = sorted(set(b for s in S for b in s))
    p = []
    for s in rnd.sample(S, min(len(S), 12)):
        for k in range(1, len(s) + 1):
            if k <= 3 or rnd.random() < 0.3:
                p.append(s[:k])
        p.append(s + bytes([rnd.choice(used)]))
        p.append(s[:1] + bytes([0xFE]))
    p.append(max(S, key=len) + bytes([used[0]]))
    p.append(bytes([2]))
    p.append(bytes([0xFE]))
    p.append(bytes([max(2, S[0][0] - 1)]))
    p.append(bytes([min(0xFE, S[-1][0] + 1)]))
    unused = [b for b in range(2, 255) if b not in used]
    if unused:
        p.append(bytes([unused[0]]))
        p.append(bytes([unused[-1]]))
        p.append(S[len(S) // 2][:1] + bytes([rnd.choice(unused)]))
    seen, out = set(), []
    for x in p:
        if x and x not in seen:
            seen.add(x)
            out.append(x)
    if len(out) > limit:
        out = out[:limit // 2] + rnd.sample(out[limit // 2:], limit - limit // 2)
    return out


def gen_substrs(rnd, S, limit=25):
    used = sorted(set(b for s in S for b in s))
    p = []
    for s in rnd.sample(S, min(len(S), 10)):
        for _ in range(3):
            i = rnd.randrange(len(s))
            j = rnd.randint(i + 1, len(s))
            p.append(s[i:j])
        p.append(s)
        p.append(s[-1:])
        p.append(s[:1])
    for b in used[:4]:
        p.append(bytes([b]))
        p.append(bytes([b, b]))
        p.append(bytes([b, b, b]))
    unused = [b for b in range(2, 255) if b not in used]
    if unused:
        p.append(bytes([unused[0]]))
        p.append(bytes([unused[-1]]))
        p.append(S[0][:1] + bytes([unused[0]]))
    p.append(S[0] + S[-1])
    seen, out = set(), []
    for x in p:
        if x and x not in seen:
            seen.add(x)
            out.append(x)
    return out[:limit]


# --------------------------------------------------------------------------
# parameters
# --------------------------------------------------------------------------
def params_for(rnd, kind, n):
    if kind in FC_KINDS:
        return [str(rnd.choice([2, 2, 3, 4, 7, 8, 16, max(2, n), n + 1]))]
    if kind in ("HASHHF", "HASHRPF", "HASHUFFDAC", "HASHRPDAC"):
        return [str(rnd.choice([0, 1, 10, 50, 300]))]
    if kind == "BLOCKS":
        return [str(rnd.choice([0, 10, 50])), str(rnd.choice([1, 8, 20, 60, 200, 1 << 20])), str(rnd.choice([1, 2, 3]))]
    if kind == "FMINDEX":
        sparse = rnd.choice([0, 0, 1])
        bparam = rnd.choice([2, 4, 20]) if not sparse else rnd.choice([2, 3, 5, 16, 32, 33])
        return [str(sparse), str(bparam), str(rnd.choice([0, 1, 2, 3, 8, 64]))]
    return []


def build_cmds(S, kind, params, name="d"):
    return ["S " + " ".join(hx(s) for s in S), "build %s %s %s" % (name, kind, " ".join(params))]


# --------------------------------------------------------------------------
# parsing driver output
# --------------------------------------------------------------------------
def parse_q(line):
    """'q d op arg = rest' -> (dict, op, arg, rest) or None"""
    if not (line.startswith("q ") or line.startswith("uq ")):
        return None
    head, _, rest = line.partition(" =")
    t = head.split()
    return t[1], t[2], (t[3] if len(t) > 3 else ""), rest.strip()


def parse_strs(rest):
    """' strs h/l/r h/l/r' -> list of (bytes|None, reported_len, real_len) or None for NULL"""
    t = rest.split()
    if not t or t[0] == "NULL":
        return None
    out = []
    for x in t[1:]:
        if x in ("MORE",):
            out.append(("MORE", 0, 0))
            continue
        p = x.split("/")
        if p[0] == "NULL":
            out.append((None, int(p[1]), 0))
        else:
            out.append((bytes.fromhex(p[0]) if p[0] != "-" else b"", int(p[1]), int(p[2])))
    return out


def parse_ids(rest):
    t = rest.split()
    if not t or t[0] == "NULL":
        return None
    return [x if x == "MORE" else int(x) for x in t[1:] if x != "PATTERN-MODIFIED"]


def parse_one_str(rest):
    p = rest.strip().split("/")
    if len(p) < 2 or (p[0] != "NULL" and len(p) < 3):
        return (None, -1, 0)
    if p[0] == "NULL":
        return (None, int(p[1]), 0)
    return (bytes.fromhex(p[0]) if p[0] != "-" else b"", int(p[1]), int(p[2]))


# --------------------------------------------------------------------------
# the comparator: implementation vs specification (through the oracle's lines)
# --------------------------------------------------------------------------
class Fail:
    def __init__(self, op, detail, cmd="", classes=(), dname=""):
        self.op, self.detail, self.cmd, self.classes, self.dname = op, detail, cmd, tuple(classes), dname

    def __repr__(self):
        return "Fail(%s: %s @ %s %s)" % (self.op, self.detail, self.cmd, list(self.classes))


def classes_for(meta, dname, op, arg):
    """Input-class tags of a concrete failing (case, object, operation)."""
    kind = meta["kind"]
    cl = []
    phase = meta.get("phases", {}).get(dname, "reloaded")
    if phase == "fresh":
        cl.append("fresh_object")
        if kind in FRESH_BROKEN:
            cl.append("fresh_object_of_load_only_kind")
    if arg == "-":
        cl.append("empty_pattern")
    return cl


def evaluate(case, io, mo, S=None, memreports=None):
    """Compare implementation lines with oracle lines; returns list of Fail.
    Order-preserving kinds: exact.  Hash kinds / XBW: up to the bijection the
    implementation itself exhibits through extract (checked to BE a bijection)."""
    meta = case.meta
    kind = meta["kind"]
    S = meta["S"] if S is None else S
    n = len(S)
    fails = []
    il, ml = io["lines"], mo["lines"]
    if io["status"] != "ok":
        k = len(il)
        cmd = case.cmds[k] if k < len(case.cmds) else "(at exit / destructor)"
        t = cmd.split()
        dname = t[1] if len(t) > 1 else ""
        op = t[2] if t and t[0] in ("q", "uq", "mq") and len(t) > 2 else (t[0] if t else "exit")
        sites = []
        for e in io["err"]:
            m = re.search(r"SUMMARY: AddressSanitizer: (\S+) \S+ in ([^(]+)", e)
            if m:
                sites.append("site:%s %s" % (m.group(1), m.group(2).strip().replace(" ", "_")))
        fails.append(Fail(op, "implementation %s: %s" % (io["status"], " | ".join(io["err"][-1:] + io["err"][:2])), cmd,
                          classes_for(meta, dname, op, t[3] if len(t) > 3 else "") + ["crash"] + sites + (["timeout"] if io["status"] == "timeout" else []), dname))
    permuted = kind in HASH_KINDS or kind == "XBW"
    tables = {}  # dict name -> {id: bytes}
    if permuted:
        for l in il:
            pq = parse_q(l)
            if pq and pq[1] == "extract":
                s = parse_one_str(pq[3])
                if s[0] is not None:
                    tables.setdefault(pq[0], {})[int(pq[2])] = s[0]
    Sset = set(S)
    notes = io.get("notes", {})
    crashed_extract = {}  # dict name -> set of ids whose extract did not return
    for k, nk in notes.items():
        for x in nk:
            if x.startswith("crash "):
                t = x.split()
                if t[2] == "extract":
                    crashed_extract.setdefault(t[1], set()).add(t[3])
    for k in range(min(len(il), len(ml))):
        a, b = il[k], ml[k]
        cmd = case.cmds[k] if k < len(case.cmds) else ""
        nk = notes.get(k, [])
        sites = ["site:" + " ".join(x.split()[4:]) for x in nk if x.startswith("asan ")]
        crashed = [x for x in nk if x.startswith("crash ")]
        if sites and memreports is not None:
            t = cmd.split()
            for sx in sites:
                memreports.append({"kind": kind, "dict": t[1] if len(t) > 1 else "", "op": t[2] if len(t) > 2 else "",
                                   "arg": t[3] if len(t) > 3 else "", "site": sx[5:], "cmd": cmd,
                                   "phase": meta.get("phases", {}).get(t[1] if len(t) > 1 else "", "reloaded")})
        if crashed:
            t = cmd.split()
            why = crashed[0].split()[4:]
            fails.append(Fail(t[2] if len(t) > 2 else "?", "query did not return: %s %s" % (" ".join(why), " ".join(sites)), cmd,
                              classes_for(meta, t[1], t[2], t[3] if len(t) > 3 else "") + ["crash"] + sites + (["timeout"] if "timeout" in why else []), t[1]))
            continue
        if b.startswith("SKIP load-ok"):
            if " ok " not in a + " ":
                fails.append(Fail("load", "loader returned NULL for its own kind's image: %s" % a, cmd, [], ""))
            else:
                kv = dict(x.split("=") for x in a.split() if "=" in x)
                if kv.get("consumed") != kv.get("of"):
                    fails.append(Fail("load", "loader consumed %s of %s image bytes" % (kv.get("consumed"), kv.get("of")), cmd, ["tellg"], ""))
            continue
        if b.startswith("SKIP") or b.startswith("MODEL"):
            continue
        if a.startswith("ilv ") and b.startswith("ilv "):
            # a NULL string iterator and an empty one both mean "no string is produced"
            a, b = a.replace("[NULL]", "[strs]"), b.replace("[NULL]", "[strs]")
            if a.replace(" PATTERN-MODIFIED", "") == b:
                continue
        if a == b:
            continue
        # a NULL string iterator and an empty one both mean "no string is produced"
        if b.endswith("= strs") and a.endswith("= NULL") and a[:-4] == b[:-4]:
            continue
        pq, pm = parse_q(a), parse_q(b)
        if "NODICT" in a and pq:
            fails.append(Fail(pq[1], "object '%s' does not exist (its load returned NULL)" % pq[0], cmd, classes_for(meta, pq[0], pq[1], ""), pq[0]))
            continue
        if not pq or not pm:
            fails.append(Fail(cmd.split()[0] if cmd else "?", "impl '%s' vs model '%s'" % (a[:200], b[:200]), cmd))
            continue
        dname, op, arg, rest = pq
        cl = classes_for(meta, dname, op, arg)
        if "PATTERN-MODIFIED" in rest:
            fails.append(Fail(op, "caller's pattern buffer modified", cmd, cl + ["pattern_modified"], dname))
            rest = rest.replace("PATTERN-MODIFIED", "").strip()
            if "q %s %s %s = %s" % (dname, op, arg, rest) == b or (a.replace(" PATTERN-MODIFIED", "") == b):
                continue
        if not permuted:
            fails.append(Fail(op, "impl '%s' vs spec '%s'" % (rest[:300], pm[3][:300]), cmd, cl, dname))
            continue
        tab = tables.get(dname, {})
        exp = pm[3]
        if op == "locate":
            q = bytes.fromhex(arg) if arg != "-" else b""
            if not rest.split() or not rest.split()[0].isdigit():
                fails.append(Fail(op, "locate gave no answer: %r" % rest[:60], cmd, cl, dname))
                continue
            got = int(rest.split()[0])
            if exp.strip() == "0":
                if got != 0:
                    fails.append(Fail(op, "absent string located at id %d" % got, cmd, cl, dname))
            else:
                if str(got) in crashed_extract.get(dname, ()):
                    continue  # the extract of that id crashed: reported there
                if not (1 <= got <= n) or tab.get(got) != q:
                    fails.append(Fail(op, "member %s located at id %d which extracts to %r" % (arg, got, tab.get(got)), cmd, cl, dname))
        elif op == "extract":
            i = int(arg)
            s = parse_one_str(rest)
            if 1 <= i <= n:
                if s[0] is None or s[0] not in Sset or s[1] != len(s[0]) or s[2] != len(s[0]):
                    fails.append(Fail(op, "extract(%d) = %r (reported len %d)" % (i, s[0], s[1]), cmd, cl, dname))
            else:
                if s[0] is not None or s[1] != 0:
                    fails.append(Fail(op, "extract(%d) out of range = %r/%d" % (i, s[0], s[1]), cmd, cl, dname))
        elif op in ("locatePrefix", "locateSubstr"):
            ids = parse_ids(rest)
            eids = parse_ids(exp)
            if ids is None or eids is None:
                if ids != eids:
                    fails.append(Fail(op, "impl %s vs spec %s" % (rest[:100], exp[:100]), cmd, cl, dname))
                continue
            want = sorted(S[e - 1] for e in eids)
            gotl = [tab.get(i) for i in ids if i != "MORE"]
            if "MORE" in ids or None in gotl or sorted(gotl) != want or len(set(ids)) != len(ids):
                fails.append(Fail(op, "ids %s map to %s, expected members %s" % (ids[:20], gotl[:10], want[:10]), cmd, cl, dname))
        elif op in ("extractPrefix", "extractSubstr", "extractTable"):
            ss = parse_strs(rest)
            es = parse_strs(exp)
            if ss is None or es is None:
                if ss != es:
                    fails.append(Fail(op, "impl %s vs spec %s" % (rest[:100], exp[:100]), cmd, cl, dname))
                continue
            bad = [x for x in ss if x[0] in (None, "MORE") or x[1] != len(x[0]) or x[2] != len(x[0])]
            if op == "extractTable":
                want = [tab.get(i + 1) for i in range(n)]
                ok = [x[0] for x in ss] == want
            else:
                ok = sorted(x[0] for x in ss if x[0] not in (None, "MORE")) == sorted(x[0] for x in es)
            if bad or not ok:
                fails.append(Fail(op, "strings %s vs expected %s" % ([x[0] for x in ss][:8], [x[0] for x in es][:8]), cmd, cl, dname))
        elif op in ("locateRank", "extractRank"):
            # XBW answers rank queries by ID (see StringDictionaryXBW): extract(locateRank(k)) must equal extractRank(k)
            # and extractRank(k) must be the k-th smallest member
            if op == "extractRank":
                s = parse_one_str(rest)
                e = parse_one_str(exp)
                if s[0] != e[0]:
                    fails.append(Fail(op, "extractRank(%s) = %r, k-th smallest is %r" % (arg, s[0], e[0]), cmd, cl, dname))
            else:
                if not rest.split() or not rest.split()[0].isdigit():
                    fails.append(Fail(op, "locateRank gave no answer: %r" % rest[:60], cmd, cl, dname))
                    continue
                got = int(rest.split()[0])
                kk = int(arg)
                if 1 <= kk <= n and tab.get(got) != S[kk - 1]:
                    fails.append(Fail(op, "extract(locateRank(%d)=%d) = %r, k-th smallest is %r" % (kk, got, tab.get(got), S[kk - 1]), cmd, cl, dname))
        else:
            fails.append(Fail(op, "impl '%s' vs spec '%s'" % (rest[:200], exp[:200]), cmd, cl, dname))
    # bijection check for permuted kinds
    if permuted and io["status"] == "ok":
        for dname, tab in tables.items():
            vals = [tab.get(i) for i in range(1, n + 1)]
            if all(i in tab for i in range(1, n + 1)):
                if sorted(vals) != sorted(S):
                    fails.append(Fail("extract", "extract is not a bijection [1,n]->S on %s: %s" % (dname, vals[:10]), "",
                                      classes_for(meta, dname, "extract", ""), dname))
    return fails
