"""RPDAC (C01-C04, C13 for the RPDAC kind): binary search over compare-while-expanding.

Two phases, both through the real code:
  phase 1 (inside gen): `rpdac_build hex1 hex2 ...` builds a real StringDictionaryRPDAC and dumps
      elements / maxlength / terminals / the rule list / the per-string symbol sequences of rp->Cdac.
  phase 2 (the returned cases): `rpdac_model <hexes> <elements> <maxlength> <terminals> <rules> <seqs>` followed by
      `rpdac_q <op> <arg>` lines.  The implementation rebuilds the dictionary (same= says the dump is reproduced)
      and answers with the real object; the extracted model RPDACDefs.v answers from the dumped grammar alone
      (and cross-checks itself against Spec.v: MODEL-MISMATCH).  `ok=` is the verdict of the verified checker
      rpdac_checkb (the implementation prints the constant 1).
evaluate_property recomputes every answer in python from the sorted input, independently of the model.
"""
import os, random, sys
import vlib
from vlib import Case

HERE = os.path.dirname(os.path.abspath(__file__))


def _extra_dir():
    return HERE if os.path.exists(os.path.join(HERE, "cmd_rpdac.inc")) else None


def _kv(line):
    d = {}
    for tok in line.split()[1:]:
        if "=" in tok:
            k, v = tok.split("=", 1)
            d[k] = v
    return d


def _hx(b):
    return b.hex() if b else "-"


def string_sets(tier, rnd):
    out = []
    big = tier != "quick"

    def add(name, S):
        S = sorted(set(bytes(s) for s in S if len(s) > 0 and 0 not in s))
        if S:
            out.append(("%s_%d" % (name, len(out)), S))

    # --- tiny / degenerate
    add("single1", [b"a"])
    add("single", [b"abababababababab"])
    add("two", [b"a", b"b"])
    add("all1", [b"a", b"b", b"c"])                       # every string is one symbol (one DAC level)
    add("all1_many", [bytes([c]) for c in range(2, 255, 3)])
    add("last1", [b"ab", b"abab", b"c"])                   # last string compresses to one symbol
    add("first1", [b"a", b"bcbc", b"bcbcbc"])
    add("bytes_lo_hi", [bytes([2]), bytes([2, 2]), bytes([254]), bytes([254, 254]), bytes([2, 254]), bytes([254, 2])])
    add("bytes_1_255", [bytes([1]), bytes([1, 255]), bytes([255]), bytes([255, 255, 1]), bytes([255, 1])])
    # --- ladders of proper prefixes
    for base, ext in [(b"a", b"a"), (b"ab", b"ab"), (b"x", b"abc"), (b"http://a", b"/bc")]:
        for k in ([1, 2, 3, 5, 8, 17] + ([40, 100] if big else [])):
            S, s = [], base
            for i in range(k):
                S.append(s)
                s = s + bytes([ext[i % len(ext)]])
            add("ladder", S)
    # ladder + siblings: s, s+a, s+a+b and s+b
    for k in [3, 6, 12]:
        S, s = [], b"k"
        for i in range(k):
            S.append(s)
            S.append(s + b"z")
            s = s + bytes([97 + i % 3])
        add("ladder_sib", S)
    # --- URL-like chains: a member is a proper prefix of the next one, the continuation starts with a frequent pair
    hosts = [b"http://www.a.org", b"http://www.ab.org", b"http://www.b.org"]
    paths = [b"/x", b"/x/y", b"/x/y/x", b"/x/y/x/y", b"/x/y/x/y/x/y", b"/y", b"/y/x", b"/index.html", b"/x/index.html"]
    add("url", [h + p for h in hosts for p in [b""] + paths])
    add("url2", [b"ab" * k + b"/" for k in range(1, 9)] + [b"ab" * k for k in range(1, 9)])
    add("url3", [b"abc" * k for k in range(1, 12)] + [b"abc" * k + b"ab" for k in range(1, 12)] + [b"abc" * k + b"a" for k in range(0, 12)])
    # --- repetitive text: deep rules
    add("pow", [b"ab" * (2 ** k) for k in range(0, 7 if not big else 9)])
    add("runs", [b"a" * k for k in range(1, 34 if not big else 130)])
    add("runs2", [b"a" * k + b"b" for k in range(0, 20)] + [b"a" * k for k in range(1, 20)])
    a, b = b"a", b"ab"
    fib = []
    for _ in range(10 if not big else 13):
        a, b = b, b + a
        fib.append(b)
    add("fib", fib)
    add("fibx", fib + [f + b"b" for f in fib] + [f[:-1] for f in fib if len(f) > 1])
    add("norepeat", [bytes([i, i + 1]) for i in range(2, 120, 2)])
    add("norepeat1", [bytes(range(2, 60))])
    # terminals + rules around powers of two
    for tmax in [3, 4, 7, 8, 15, 16, 31, 32, 63, 64, 127, 128, 254]:
        base = bytes(range(2, tmax + 1)) if tmax >= 2 else b"\x02"
        add("bits", [base, base + base, base + base[: max(1, len(base) // 2)]])
    # --- random sets, n from 1 to 200
    sizes = [1, 2, 3, 4, 5, 7, 8, 9, 15, 16, 17, 31, 32, 33, 64, 100, 127, 128, 129, 200]
    nr = 70 if not big else 700
    for i in range(nr):
        sigma = rnd.choice([1, 2, 2, 3, 4, 26])
        n = sizes[i % len(sizes)] if i < 2 * len(sizes) else rnd.randint(1, 200)
        maxlen = rnd.choice([1, 2, 3, 5, 8, 12, 30])
        lo = rnd.choice([97, 97, 97, 2, 254 - sigma + 1])
        add("rand", [bytes(rnd.randint(lo, lo + sigma - 1) for _ in range(rnd.randint(1, maxlen))) for _ in range(n)])
    # block-repetitive
    for i in range(20 if not big else 200):
        blocks = [bytes(rnd.randint(97, 99) for _ in range(rnd.randint(1, 5))) for _ in range(rnd.randint(1, 4))]
        n = rnd.choice([2, 5, 20, 60, 150])
        add("blocks", [b"".join(rnd.choice(blocks) for _ in range(rnd.randint(1, 8))) for _ in range(n)])
    return out


def queries(S, rnd, cap):
    """(op, arg-string) list, boundary directed."""
    n = len(S)
    members = set(S)
    used = sorted(set(b for s in S for b in s))
    pats = []

    def addp(p):
        if 0 not in p:
            pats.append(bytes(p))

    pick = S if n <= 12 else [S[0], S[1], S[n // 2], S[-2], S[-1]] + rnd.sample(S, 7)
    for s in pick:
        addp(s)
        for k in range(1, len(s)):
            if len(s) <= 6 or k in (1, len(s) - 1, len(s) // 2):
                addp(s[:k])                               # proper prefixes
        for c in (2, used[0], used[-1], 254, 255, 1):
            addp(s + bytes([c]))                          # one-byte extensions
        addp(s[:-1] + bytes([max(1, s[-1] - 1)]))         # neighbours
        addp(s[:-1] + bytes([min(255, s[-1] + 1)]))
        if len(s) > 2:
            addp(s[:1] + bytes([min(255, s[1] + 1)]) + s[2:])
            addp(s + s)
    addp(bytes([1]))
    addp(bytes([255]))
    addp(bytes([255, 255, 255]))
    addp(bytes([max(1, S[0][0] - 1)]))
    addp(S[-1] + b"\xff")
    addp(bytes([used[0]]))
    addp(bytes([used[-1]]))
    for _ in range(6):
        addp(bytes(rnd.choice(used) for _ in range(rnd.randint(1, 6))))
    seen, qs = set(), []
    for p in pats:
        if p in seen:
            continue
        seen.add(p)
    pl = sorted(seen)
    if len(pl) > cap:
        keep = set(rnd.sample(pl, cap))
        pl = [p for p in pl if p in keep]
    for p in pl:
        qs.append(("locate", p.hex()))
        qs.append(("locatePrefix", p.hex()))
    for p in pl[:: max(1, len(pl) // 12)]:
        qs.append(("extractPrefix", p.hex()))
    ids = sorted(set([0, 1, 2, n - 1, n, n + 1, n + 2, 2 ** 32 - 1, 2 ** 32, 2 ** 32 + 1, 2 ** 64 - 1] +
                     [rnd.randint(1, n) for _ in range(6)]))
    for i in ids:
        if i >= 0:
            qs.append(("extract", str(i)))
    qs.append(("extractTable", ""))
    # the empty pattern (outside the theorems: the code treats it as absent)
    qs.append(("locatePrefix", "-"))
    return qs


def gen(tier, seed):
    rnd = random.Random(seed * 7919 + 4)
    sets = string_sets(tier, rnd)
    exe, msg = vlib.build_driver("asan", extra_dir=_extra_dir())
    if exe is None:
        raise RuntimeError("driver build failed: " + msg)
    p1 = [Case("p1_" + name, ["rpdac_build " + " ".join(x.hex() for x in S)], {}) for name, S in sets]
    res = vlib.run_cases(exe, p1, tag="impl-p1")
    cases = []
    for name, S in sets:
        o = res.get("p1_" + name, {"lines": [], "status": "missing", "err": []})
        meta = {"strings": [x.hex() for x in S], "phase1_status": o["status"], "phase1_err": o["err"][:4]}
        line = o["lines"][0] if o["lines"] else ""
        hexes = ",".join(x.hex() for x in S)
        if o["status"] == "ok" and line.startswith("rpdac_build "):
            d = _kv(line)
            meta["phase1"] = d
            cmd = "rpdac_model %s %s %s %s %s %s" % (hexes, d["elements"], d["maxlength"], d["terminals"], d["rules_list"], d["seqs"])
        else:
            cmd = "rpdac_model %s 0 0 1 - -" % hexes
        qs = queries(S, rnd, 40 if tier == "quick" else 80)
        cases.append(Case(name, [cmd] + [("rpdac_q %s %s" % q).rstrip() for q in qs], meta))
    return cases


def _strs(tokens):
    return tokens


def evaluate_property(case, out):
    """The properties themselves (C01-C04, C13 for this kind) on the implementation's output lines."""
    fails = []
    m = case.meta
    if m.get("phase1_status") != "ok" or "phase1" not in m:
        return ["dictionary build (phase 1) %s: %s" % (m.get("phase1_status"), " | ".join(m.get("phase1_err", [])))]
    if out["status"] != "ok":
        fails.append("implementation %s on valid input: %s" % (out["status"], " | ".join(out["err"][:3])))
    S = [bytes.fromhex(h) for h in m["strings"]]
    n = len(S)
    lines = out["lines"]
    if not lines or not lines[0].startswith("rpdac_model "):
        return fails + ["no rpdac_model line"]
    d = _kv(lines[0])
    if d.get("same") != "1":
        fails.append("second build produced a different dictionary")
    if int(d.get("elements", -1)) != n:
        fails.append("elements=%s, expected %d" % (d.get("elements"), n))
    if int(d.get("maxlength", -1)) != max(len(s) for s in S) + 1:
        fails.append("maxlength=%s, expected %d" % (d.get("maxlength"), max(len(s) for s in S) + 1))
    cmds = case.cmds[1:]
    if len(lines) - 1 != len(cmds):
        fails.append("%d answers for %d queries" % (len(lines) - 1, len(cmds)))
    for cmd, line in zip(cmds, lines[1:]):
        tk = cmd.split()
        op = tk[1]
        arg = tk[2] if len(tk) > 2 else ""
        if " = " not in line + " ":
            fails.append("malformed answer: " + line[:80])
            continue
        ans = line.split("=", 1)[1].split()
        pat = b"" if arg in ("-", "") else (bytes.fromhex(arg) if op != "extract" else b"")
        if op == "locate":
            want = S.index(pat) + 1 if pat in S else 0
            if ans != [str(want)]:
                fails.append("locate(%s) = %s, expected %d" % (arg, " ".join(ans), want))
        elif op == "extract":
            i = int(arg)
            want = ["%s/%d/%d" % (S[i - 1].hex(), len(S[i - 1]), len(S[i - 1]))] if 1 <= i <= n else ["NULL/0"]
            if ans != want:
                fails.append("extract(%s) = %s, expected %s" % (arg, " ".join(ans)[:60], want[0][:60]))
        elif op == "locatePrefix":
            if not pat:
                continue  # empty pattern: not covered by the property
            want = ["ids"] + [str(i + 1) for i, s in enumerate(S) if s.startswith(pat)]
            if ans != want:
                fails.append("locatePrefix(%s) = %s, expected %s" % (arg, " ".join(ans)[:60], " ".join(want)[:60]))
        elif op in ("extractPrefix", "extractTable"):
            if op == "extractPrefix" and not pat:
                continue
            sel = [s for s in S if op == "extractTable" or s.startswith(pat)]
            want = ["strs"] + ["%s/%d/%d" % (s.hex(), len(s), len(s)) for s in sel]
            if ans != want:
                fails.append("%s(%s) = %s, expected %s" % (op, arg, " ".join(ans)[:80], " ".join(want)[:80]))
    return fails[:10]
