"""Generic runner for component-level properties whose tie is a command-by-command
correspondence between the C++ driver and the extracted model (C09-C11, C17-C20 ...).
A generator module supplies gen(tier, seed) -> [Case] and evaluate_property(case, impl_out) -> [str]."""
import json
import vlib
from vlib import Case


def run_components(run, gens, tier, seed, replay, exe, timeout_case=60, label=""):
    """command-by-command correspondence + property evaluation for the given generator modules;
    returns (number of disagreeing cases, first disagreement)"""
    cases = []
    owner = {}
    if replay:
        rp = json.load(open(replay))
        if "case" in rp:
            c = Case(rp["case"]["name"], rp["case"]["cmds"], rp["case"].get("meta", {}))
            cases = [c]
            owner[c.name] = gens[rp.get("gen_index", 0)]
        else:
            print("replay file names no case (obligation-level violation):", rp.get("what"))
    else:
        for gi, g in enumerate(gens):
            for c in g.gen(tier, seed):
                c.name = "g%d-%s" % (gi, c.name)
                owner[c.name] = g
                c.meta["gen_index"] = gi
                cases.append(c)
    impl = vlib.run_cases(exe, cases, tag="impl", timeout_case=timeout_case)
    model = vlib.run_cases(vlib.oracle_exe(), cases, tag="model")
    ndis, first_dis = 0, None
    kinds = {}
    for c in cases:
        io = impl.get(c.name, {"lines": [], "status": "missing", "err": []})
        mo = model.get(c.name, {"lines": [], "status": "missing", "err": []})
        k = str(c.meta.get("kind", c.name.split("-")[1] if "-" in c.name else "case"))
        kinds[k] = kinds.get(k, 0) + 1
        run.count((c.name.split("-", 1)[-1], tuple(c.cmds)))
        dis = []
        if hasattr(owner[c.name], "compare_lines"):
            dis = owner[c.name].compare_lines(c, io, mo)       # the generator's own notion of "model and implementation agree"
        else:
            for i, ml in enumerate(mo["lines"]):
                if ml.startswith("SKIP"):
                    continue
                il = io["lines"][i] if i < len(io["lines"]) else "<missing>"
                if il != ml:
                    dis.append({"cmd": c.cmds[i][:300] if i < len(c.cmds) else "?", "impl": il[:600], "model": ml[:600]})
        try:
            if hasattr(owner[c.name], "evaluate_property_m"):
                fails = owner[c.name].evaluate_property_m(c, io, mo)
            else:
                fails = owner[c.name].evaluate_property(c, io)
        except Exception as ex:
            fails = ["evaluate_property raised %r (implementation output malformed: %s)" % (ex, io["status"])]
        in_scope = getattr(owner[c.name], "sanitizer_scope", lambda case: True)
        if not fails and io.get("status") == "ok" and in_scope(c):
            # a sanitizer report outside the isolated queries (constructors, save, load, in-process calls; the process
            # continues in recover mode) is a misbehaviour of the implementation on a generated, valid input
            reps = [e for e in io.get("err", []) if "ERROR: AddressSanitizer" in e or "WARNING: ThreadSanitizer" in e]
            if reps:
                site = next((e.strip() for e in io["err"] if e.strip().startswith("#0 ") or e.strip().startswith("#1 ")), "")
                fails = ["sanitizer report while running the case (answers were right): %s | %s" % (reps[0][:160], site[:200])]
        if replay:
            for i, cmd in enumerate(c.cmds):
                print("cmd  :", cmd[:300])
                print(" impl :", io["lines"][i][:400] if i < len(io["lines"]) else "<none>")
                print(" model:", mo["lines"][i][:400] if i < len(mo["lines"]) else "<none>")
            print("status:", io["status"], io["err"][:4])
        suppressed = False
        if fails:
            nviol = len(run.violations)
            meta = {k2: v for k2, v in c.meta.items() if isinstance(v, (int, str, list, dict, float, bool))}
            run.violation(str(fails[0])[:400], {"kind": k, "operation": "property", "failures": [str(f)[:400] for f in fails[:10]],
                                                "case": {"name": c.name, "cmds": c.cmds, "meta": meta},
                                                "gen_index": c.meta.get("gen_index", 0),
                                                "impl_status": io["status"], "impl_err": io["err"][:6]},
                          found_input=True,
                          classes=(tuple(owner[c.name].failure_classes(c, io, fails)) if hasattr(owner[c.name], "failure_classes") else
                                   tuple(owner[c.name].input_classes(c)) if hasattr(owner[c.name], "input_classes") else ()))
            suppressed = len(run.violations) == nviol   # matched a known finding: its lines disagree with the model by definition
        if dis and not suppressed:
            ndis += 1
            if first_dis is None:
                first_dis = (c, dis)
    for c in cases[:2] + cases[len(cases) // 2: len(cases) // 2 + 1] + cases[-1:]:
        run.sample({"case": c.name, "cmds": [x[:160] for x in c.cmds[:4]]})
    run.extra.setdefault("component_input_distribution", {}).update(kinds)
    run.extra["component_correspondence_disagreements"] = run.extra.get("component_correspondence_disagreements", 0) + ndis
    run.oblige("correspondence%s: model and implementation agree on every command of every case" % label, ndis == 0,
               "" if not first_dis else repr(first_dis[1][:3]))
    return ndis, first_dis


def big_block_search(run, exe, mode):
    """failing-input search after the statics obligation broke (TSan build): blocks large and varied enough that the Re-Pair
    coder grows its internal tables (> 10^5 pairs alive), built by 3 workers"""
    import random
    rnd = random.Random(1234)
    al = "ABCDEFGHIJKLMNOPQRSTUVWXYZabcdefghijklmnopqrstuvwxyz0123456789+/"
    S = set()
    while len(S) < 72000:
        stem = "".join(rnd.choice(al) for _ in range(32))
        S.add((stem + "a").encode())
        S.add((stem + "b").encode())
    S = sorted(S)
    c = Case("bigblocks-3threads", ["blocks_image 3 600000 " + " ".join(x.hex() for x in S)], {"kind": "image"})
    out = vlib.run_cases(exe, [c], tag="impl-bigblocks", timeout_case=900).get(c.name, {"status": "missing", "lines": [], "err": []})
    run.count((c.name,), nontrivial=True)
    bad = [e for e in out.get("err", []) if "ThreadSanitizer" in e]
    if bad:
        run.violation("ThreadSanitizer on a 3-thread build of 5 blocks of 600 kB: " + " | ".join(bad[:3])[:400],
                      {"kind": "image", "operation": "build", "command": "blocks_image 3 600000 <72000 strings: 36000 random 32-character stems, each with suffixes a and b; "
                       "random.Random(1234)>", "detail": out.get("err", [])[:12], "case": {"name": c.name, "generator": "tools/props/compcheck.py big_block_search()"}},
                      found_input=True)
        return True
    return False


def run(run, pid, gens, tier, seed, replay, rule, mode="asan", timeout_case=60, assumptions=(), poolskel=False):
    run.rule = rule
    run.assumptions = list(assumptions)
    proof_ok, r = vlib.proof_side(run, pid)
    skel_bad = []
    if poolskel:
        sok, skel_bad, skel = vlib.poolskel_side(run, pid)
    statics_bad = []
    if poolskel and pid in ("C09", "C11"):
        stok, statics_bad, _info = vlib.statics_side(run, pid)
    ok, msg = vlib.build_oracle()
    run.oblige("extracted oracle builds", ok, msg)
    exe, msg = vlib.build_driver(mode)
    run.oblige("implementation + driver build from /repo working tree (%s, -D%s)" % (mode, vlib.GUARD), exe is not None, msg)
    if exe is None or not ok:
        run.violation("build failed", {"kind": "build", "operation": "build", "detail": msg}, found_input=False)
        return
    ndis, first_dis = run_components(run, gens, tier, seed, replay, exe, timeout_case)
    if skel_bad and not run.violations:
        run.violation("the synchronisation skeleton of the current source is not the one the LTS models (%s); property not seen to fail on the explored schedules"
                      % ", ".join(skel_bad), {"kind": "skeleton", "operation": "Properties_poolskel", "obligations": skel_bad,
                                              "detail": run.extra.get("poolskel_check", {})}, found_input=False)
    if statics_bad and not run.violations:
        found = big_block_search(run, exe, mode) if mode == "tsan" else False
        if not found:
            inv = run.extra.get("statics_check", {}).get("inventory", [])
            run.violation("a writable static-storage object that was not reviewed exists in the compiled tree (%s): the hypothesis that block "
                          "construction shares no mutable state is no longer shown; property not seen to fail on the explored schedules"
                          % ", ".join(statics_bad), {"kind": "statics", "operation": "Properties_statics", "obligations": statics_bad,
                                                     "inventory": inv, "detail": run.extra.get("statics_check", {}).get("log_tail", "")}, found_input=False)
    if not proof_ok:
        run.violation("proof obligation of %s no longer checks" % pid,
                      {"kind": "proof", "operation": "coqc", "detail": run.extra.get("coq_failure", {})}, found_input=False)
    elif ndis and not run.violations:
        c, dis = first_dis
        meta = {k2: v for k2, v in c.meta.items() if isinstance(v, (int, str, list, dict, float, bool))}
        run.violation("model/implementation correspondence broken (property not seen to fail)",
                      {"kind": str(c.meta.get("kind", "")), "operation": "correspondence", "disagreements": dis[:10],
                       "gen_index": c.meta.get("gen_index", 0),
                       "case": {"name": c.name, "cmds": c.cmds, "meta": meta}}, found_input=False)
