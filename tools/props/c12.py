"""C12 — tuning parameters change space/time only, never answers."""
from props import dictcheck as DC, dictcommon as D

GRID = {
    "FC": [["0"], ["1"], ["2"], ["3"], ["4"], ["7"], ["8"], ["16"], ["1000"]],
    "HASH": [["0"], ["1"], ["10"], ["50"], ["300"]],
    "BLOCKS": [["0", "1", "1"], ["10", "8", "2"], ["50", "20", "3"], ["10", "60", "8"], ["0", "200", "2"], ["10", "1048576", "1"]],
    "FMINDEX": [["0", "2", "0"], ["0", "4", "1"], ["0", "20", "3"], ["1", "2", "2"], ["1", "16", "8"], ["1", "32", "64"], ["0", "4", "64"],
                ["0", "4", "4"], ["1", "16", "5"], ["0", "20", "7"], ["0", "2", "16"],
                ["1", "3", "1"], ["1", "5", "3"], ["1", "33", "2"], ["1", "21", "8"], ["0", "3", "2"], ["0", "1", "1"]],   # odd bitmap samplings
}


def grid_for(kind):
    if kind in D.FC_KINDS:
        return GRID["FC"]
    if kind in ("HASHHF", "HASHRPF", "HASHUFFDAC", "HASHRPDAC"):
        return GRID["HASH"]
    return GRID.get(kind, [[]])


def make_cmds(rnd, kind, S, params, tier):
    g = grid_for(kind)
    vecs = rnd.sample(g, min(len(g), 3)) if len(g) > 1 else g
    if kind in D.FC_KINDS and ["1"] not in vecs and ["0"] not in vecs and rnd.random() < 0.6:
        vecs[0] = rnd.choice([["0"], ["1"]])   # the clamp
    cmds = ["S " + " ".join(D.hx(s) for s in S)]
    names = {}
    n = len(S)
    ids = list(range(0, n + 2)) if (n <= 25 or kind in D.HASH_KINDS) else sorted(rnd.sample(range(1, n + 1), 25) + [0, n + 1])
    qs = D.gen_queries(rnd, S, limit=12, splice=10)[:40]
    pf = D.gen_prefixes(rnd, S, 8) if kind in D.PREFIX_KINDS else []
    sb = D.gen_substrs(rnd, S, 25) if kind == "FMINDEX" else []
    for vi, v in enumerate(vecs):
        dn, img, rn = "d%d" % vi, "i%d" % vi, "r%d" % vi
        opt = rnd.choice([1, 2, 3]) if kind in D.LOADOPT_KINDS else 1
        cmds += ["build %s %s %s" % (dn, kind, " ".join(v)), "save %s %s" % (dn, img),
                 "load %s %s %s %d" % (rn, img, "generic", opt)]
        names[rn] = "reloaded"
        cmds += ["q %s numElements" % rn]
        cmds += ["q %s extract %d" % (rn, i) for i in ids]
        cmds += ["q %s locate %s" % (rn, D.hx(q)) for q in qs]
        for p in pf:
            cmds += ["q %s locatePrefix %s" % (rn, D.hx(p))]
        if kind == "FMINDEX" and v[2] != "0":
            cmds += ["q %s locateSubstr %s" % (rn, D.hx(p)) for p in sb]
        if kind == "PFC":
            cmds += ["mq %s extract %d" % (rn, i) for i in ids[:10]]
    return cmds, names, {"vectors": vecs}


def fix_oracle_params(cases):
    return cases


from props import gen_hash
CFG = DC.Config("C12", [k for k in D.ALL_KINDS if k != "XBW"], make_cmds, nsets=(7, 20), big=True, components=[gen_hash],
                rule="for each kind the same S is built under up to three parameter vectors drawn from the grid (bucket size 0,1 (clamped to 2),"
                     "2,3,4,7,8,16,1000; overhead 0,1,10,50,300; FM bitmap RG/RRR x sampling x BWT step 0..64; blocks overhead x cut "
                     "1..2^20 x threads 1..8; random load option 1..3 for HASHHF/HASHRPF) and every answer (all ids, members, absent queries, "
                     "prefix ranges) is compared with the parameter-free specification, hence pairwise; hash kinds up to the bijection "
                     "their own extract exhibits. Non-trivial = a query; distinct by (kind, vectors, S, command).")

CFG.probe = True   # regenerated obligations on the probe arithmetic widths + large nearly-full tables


def check(run, tier, seed, replay):
    DC.run(run, CFG, tier, seed, replay)
