"""C18 -- prefix-free codes, Hu-Tucker order, decoding inverts encoding (tables, bit packing, recombination)."""
import os
import random
import sys
import vlib
from vlib import Case

HERE = os.path.dirname(os.path.abspath(__file__))


# ------------------------------------------------------------------ frequency vectors
def fib_like(rnd, nlong, base=1):
    """Fibonacci-like weights on nlong symbols (codeword lengths grow linearly), the rest = base."""
    f = [base] * 256
    a, b = 1, 2
    pos = rnd.sample(range(256), nlong)
    for p in pos:
        f[p] = a
        a, b = b, a + b
    return f


def fib_deep(rnd, k, mode, mult):
    f = [1] * 256
    a, b = 1, 2
    pos = list(range(k)) if mode == "prefix" else list(range(255, 255 - k, -1)) if mode == "suffix" else rnd.sample(range(256), k)
    for p in pos:
        f[p] = mult * a
        a, b = b, a + b
    return f


def findings_cases():
    """Frequency vectors on which the pinned builders leave the 32-bit envelope (NOT part of gen: they
    crash / produce 33-bit 'codewords'); see NOTES.md."""
    r = random.Random(0)
    out = []
    f = fib_deep(r, 34, "prefix", 1)      # Hu-Tucker depth 33: encodeNode writes bit (32 - level - 1) < 0
    out.append(Case("finding_ht_depth33", ["ht_codes " + " ".join(map(str, f))], {"freqs": f}))
    f = fib_deep(r, 25, "prefix", 300)    # Huffman depth 33: obtainCodewords reads only stream[0]
    out.append(Case("finding_huff_depth33", ["huff_codes " + " ".join(map(str, f))], {"freqs": f}))
    return out


def freq_vectors(tier, rnd):
    V = []
    V.append(("all_ones", [1] * 256))
    V.append(("uniform1000", [1000] * 256))
    V.append(("geometric", [max(1, int(1000000 * (0.93 ** i))) for i in range(256)]))
    V.append(("geometric_rev", [max(1, int(1000000 * (0.9 ** (255 - i)))) for i in range(256)]))
    dom = [1] * 256
    dom[ord("a")] = 1000000
    V.append(("dominant", dom))
    dom0 = [1] * 256
    dom0[0] = 1000000
    V.append(("dominant_nul", dom0))
    # Fibonacci-like on the first symbols, in symbol order (worst case for an alphabetic code) ...
    f = [1] * 256
    a, b = 1, 2
    for i in range(22):
        f[i] = a
        a, b = b, a + b
    V.append(("fib_prefix22", f))
    f = [1] * 256
    a, b = 1, 2
    for i in range(20):
        f[255 - i] = a
        a, b = b, a + b
    V.append(("fib_suffix20", f))
    V.append(("fib_scattered20", fib_like(rnd, 20)))
    # ... and deep ones: Fibonacci weights all heavier than the 1-weight rest together => Huffman depth k + 8
    for k, mode in ((20, "scatter"), (24, "prefix")) if tier == "quick" else \
            ((18, "prefix"), (20, "scatter"), (22, "suffix"), (23, "scatter"), (24, "prefix"), (24, "suffix"), (24, "scatter")):
        V.append(("fibdeep%d_%s" % (k, mode), fib_deep(rnd, k, mode, 300)))
    # Hu-Tucker depth k - 1 (Fibonacci weights in symbol order); 33 gives the 32-bit maximum
    for k, mode in ((31, "prefix"), (33, "suffix")) if tier == "quick" else \
            ((30, "prefix"), (31, "suffix"), (32, "prefix"), (33, "prefix"), (33, "suffix")):
        V.append(("fibord%d_%s" % (k, mode), fib_deep(rnd, k, mode, 1)))
    # many small EQUAL weights next to each other among frequent symbols: exact weight ties in the Hu-Tucker combination
    # phase (which compatible neighbour wins a tie decides whether the level sequence can be recombined at all)
    for k in range(14 if tier == "quick" else 120):
        f = [rnd.choice([200, 500, 1000, 5000]) for _ in range(256)]
        for _ in range(rnd.choice([1, 2, 4, 8])):
            start = rnd.randrange(0, 250)
            for j in range(start, min(256, start + rnd.choice([3, 6, 9, 14]))):
                f[j] = rnd.choice([1, 1, 2, 2, 3])
        V.append(("ties%d" % k, f))
    for k in range(4 if tier == "quick" else 30):
        V.append(("smallweights%d" % k, [rnd.choice([1, 1, 2, 2, 3, 4]) for _ in range(256)]))
    # counts of a text with zeros replaced by ones as the dictionaries do (freqs[i] = 1; freqs[c]++)
    for k in range(2 if tier == "quick" else 8):
        f = [1] * 256
        alpha = rnd.sample(range(1, 256), rnd.choice([2, 5, 26, 60]))
        n = rnd.choice([50, 1000, 100000])
        w = [rnd.random() ** 3 for _ in alpha]
        tot = sum(w)
        for s, x in zip(alpha, w):
            f[s] += int(n * x / tot)
        f[0] += rnd.randint(1, 200)
        V.append(("text%d" % k, f))
    for k in range(3 if tier == "quick" else 20):
        V.append(("random%d" % k, [rnd.choice([1, 1, 2, 3, 10, 100, 1000, rnd.randint(1, 1 << 20)]) for _ in range(256)]))
    if tier != "quick":
        for n in (24, 26):
            V.append(("fib_scattered%d" % n, fib_like(rnd, n)))
        V.append(("two_level", [1 if i % 2 else 1 << 16 for i in range(256)]))
        V.append(("ramp", [i + 1 for i in range(256)]))
        V.append(("ramp_down", [256 - i for i in range(256)]))
    return V


# ------------------------------------------------------------------ tiny independent reference
def parse_table(line):
    """'xx_codes = c/b c/b ...' -> [(c, b)]"""
    return [tuple(int(x) for x in t.split("/")) for t in line.split("=", 1)[1].split()]


def cw_bits(c, b):
    return "".join("1" if (c >> (b - 1 - i)) & 1 else "0" for i in range(b))


def py_encode(table, syms):
    return "".join(cw_bits(*table[s]) for s in syms)


def py_decode(table, bits, nul):
    """decode until `nul` NUL symbols were produced; None when stuck"""
    inv = {cw_bits(c, b): s for s, (c, b) in enumerate(table)}
    maxb = max(b for _, b in table)
    out, pos = [], 0
    while nul > 0:
        for l in range(1, maxb + 1):
            s = inv.get(bits[pos:pos + l]) if pos + l <= len(bits) else None
            if s is not None:
                break
        else:
            return None, pos
        out.append(s)
        pos += l
        if s == 0:
            nul -= 1
    return out, pos


def bits_of_hex(h):
    return "" if h == "-" else "".join(format(b, "08b") for b in bytes.fromhex(h))


def table_props(table, alphabetic):
    """the property on a table, directly from the definitions"""
    fails = []
    codes = [cw_bits(c, b) for c, b in table]
    for i, (c, b) in enumerate(table):
        if not (1 <= b <= 32) or c >> b:
            fails.append("symbol %d: codeword %d/%d is not a 1..32 bit value" % (i, c, b))
    srt = sorted(range(len(codes)), key=lambda i: codes[i])
    for a, b in zip(srt, srt[1:]):
        if codes[b].startswith(codes[a]):
            fails.append("codeword of symbol %d (%s) is a prefix of that of symbol %d (%s)" % (a, codes[a], b, codes[b]))
            break
    mx = max(b for _, b in table)
    if sum(1 << (mx - b) for _, b in table if b <= mx) != 1 << mx:
        fails.append("Kraft sum is not 1 (code not complete)")
    if alphabetic:
        for i in range(len(codes) - 1):
            if not codes[i] < codes[i + 1]:
                fails.append("codewords of symbols %d and %d are not in symbol order: %s %s" % (i, i + 1, codes[i], codes[i + 1]))
                break
    return fails


# ------------------------------------------------------------------ strings
def gen_strings(rnd, table, count):
    """NUL-terminated strings over the whole alphabet incl. the rarest (longest codewords) symbols"""
    by_len = sorted(range(1, 256), key=lambda s: -table[s][1])
    longest = by_len[:12]
    shortest = by_len[-12:]
    out = []
    for _ in range(count):
        n = rnd.choice([0, 1, 2, 3, 5, 8, 13, 21, 40])
        mode = rnd.choice(["any", "long", "short", "mix"])
        pool = {"any": range(1, 256), "long": longest, "short": shortest, "mix": longest + shortest}[mode]
        s = [rnd.choice(list(pool)) for _ in range(n)]
        out.append(s + [0])
    return out


def hx(syms):
    return bytes(syms).hex() if syms else "-"


def _driver():
    extra = HERE if os.path.exists(os.path.join(HERE, "cmd_codes.inc")) else None
    exe, msg = vlib.build_driver("asan", extra_dir=extra)
    if exe is None:
        raise RuntimeError("driver build failed: " + msg)
    return exe


def gen(tier, seed):
    rnd = random.Random(seed * 104729 + 18)
    V = freq_vectors(tier, rnd)
    # phase 1: ask the implementation for its tables (the model does not predict the builders)
    pre = [Case("pre_%s" % name, ["ht_codes " + " ".join(map(str, f)), "huff_codes " + " ".join(map(str, f)),
                                  "ht_phases " + " ".join(map(str, f))], {}) for name, f in V]
    res = vlib.run_cases(_driver(), pre, tag="impl-pre")
    cases = []
    nstr = 4 if tier == "quick" else 12
    for name, f in V:
        r = res.get("pre_%s" % name, {"lines": [], "status": "missing", "err": []})
        fs = " ".join(map(str, f))
        lines = {l.split(" ")[0]: l for l in r["lines"]}
        meta = {"kind": "codes", "freq": name, "freqs": f, "pre_status": r["status"], "pre_err": r["err"][:4]}
        if r["status"] != "ok" or not all(k in lines for k in ("ht_codes", "huff_codes", "ht_phases")):
            # builders crashed: keep the case so that the failure is reported by evaluate_property
            cases.append(Case("codes_%s" % name, ["ht_codes " + fs, "huff_codes " + fs], dict(meta, broken=True)))
            continue
        levels = lines["ht_phases"].split("=", 1)[1].split()
        for cid in ("ht", "huff"):
            tline = lines[cid + "_codes"]
            table = parse_table(tline)
            head = ["%s_codes %s" % (cid, fs), "codes_check %s %s" % (cid, tline.split("=", 1)[1].strip())]
            usable = all(1 <= b <= 32 for _, b in table)
            m0 = dict(meta, id=cid, strings=[], decodes=[], chunk=[], usable=usable)
            if cid == "ht":
                m = dict(m0, levels=[int(x) for x in levels])
                cases.append(Case("codes_%s_%s_rec" % (cid, name), head + ["ht_phases " + fs, "ht_recombine " + " ".join(levels)], m))
            else:
                cases.append(Case("codes_%s_%s_tab" % (cid, name), head, dict(m0)))
            if not usable:
                continue
            for g in range(nstr):
                cmds = list(head)
                m = dict(m0, strings=[], decodes=[], chunk=[])
                strs = gen_strings(rnd, table, rnd.choice([1, 2, 3, 6]))
                cmds.append("encode %s %s" % (cid, " ".join(hx(s) for s in strs)))
                # expected packed bytes from the python reference, to address later strings by bit offset
                bits = py_encode(table, [x for s in strs for x in s])
                padded = bits + "0" * (-len(bits) % 8)
                packed = "%0*x" % (len(padded) // 4, int(padded, 2)) if padded else "-"
                pos = 0
                dec = []
                for k, s in enumerate(strs):
                    nul = rnd.choice([1, 1, len(strs) - k])
                    cmds.append("decode %s %s %d %d" % (cid, packed, pos, nul))
                    dec.append((pos, nul, [x for t in strs[k:k + nul] for x in t]))
                    pos += len(py_encode(table, s))
                for one in strs[:2]:
                    cmds.append("encode_string %s %s" % (cid, hx(one)))
                    if len(one) > 1:
                        cmds.append("chunk_roundtrip %s %s" % (cid, hx(one)))
                        m["chunk"].append(one)
                m["strings"].append(strs)
                m["decodes"].append(dec)
                cases.append(Case("codes_%s_%s_s%d" % (cid, name, g), cmds, m))
    return cases


def evaluate_property(case, out):
    """C18 itself on the implementation's output lines (independent of the Coq model)."""
    m = case.meta
    fails = []
    if m.get("broken"):
        return ["code builder failed on frequency vector %s: %s %s" % (m["freq"], m["pre_status"], " | ".join(m["pre_err"]))]
    if out["status"] != "ok":
        return ["implementation %s on frequency vector %s: %s" % (out["status"], m["freq"], " | ".join(out["err"][:3]))]
    lines = out["lines"]
    cid = m["id"]
    tl = [l for l in lines if l.startswith(cid + "_codes =")]
    if not tl:
        return ["no table printed for %s" % m["freq"]]
    table = parse_table(tl[0])
    if len(table) != 256:
        fails.append("table has %d entries" % len(table))
    fails += ["%s/%s: %s" % (cid, m["freq"], x) for x in table_props(table, cid == "ht")]
    for l in lines:
        if l.startswith("codes_check") and "MISMATCH" in l:
            fails.append("table changed between two constructions: " + l)
        if l.startswith("ht_recombine") and "MISMATCH" in l:
            fails.append(l)
        if l.startswith("ht_recombine ="):
            t2 = parse_table(l)
            if t2 != table:
                fails.append("replayed phases give another table than the constructor")
            if [b for _, b in t2] != m["levels"]:
                fails.append("codeword lengths differ from the level vector of phase 2")
    if fails or not m["usable"]:
        return fails
    enc = [l for l in lines if l.startswith("encode %s =" % cid)]
    dec = [l for l in lines if l.startswith("decode %s =" % cid)]
    di = 0
    for g, strs in enumerate(m["strings"]):
        if g >= len(enc):
            fails.append("missing encode line %d" % g)
            break
        t = enc[g].split()
        bits = bits_of_hex(t[3])
        flat = [x for s in strs for x in s]
        got, used = py_decode(table, bits, len(strs))
        if got != flat:
            fails.append("decode(encode(%s)) = %s" % (flat, got))
        for (pos, nul, exp) in m["decodes"][g]:
            if di >= len(dec):
                fails.append("missing decode line")
                break
            dt = dec[di].split()
            di += 1
            if dt[3] == "NONE" or list(bytes.fromhex(dt[3] if dt[3] != "-" else "")) != exp:
                fails.append("tree decode from bit %d of %s = %s, expected %s" % (pos, t[3], dt[3], hx(exp)))
    es = [l for l in lines if l.startswith("encode_string %s =" % cid)]
    for g, strs in enumerate(m["strings"]):
        for one, l in zip(strs[:2], es):
            t = l.split()
            bits = bits_of_hex(t[3])
            got, used = py_decode(table, bits, 1)
            if got != one or int(t[4].split("=")[1]) != (len(t[3]) // 2 if t[3] != "-" else 0) or \
                    int(t[5].split("=")[1]) != used % 8 or (used + 7) // 8 != len(bits) // 8:
                fails.append("encodeString(%s) = %s decodes to %s (used %d bits)" % (hx(one), l, got, used))
    cr = [l for l in lines if l.startswith("chunk_roundtrip %s =" % cid)]
    if len(cr) != len(m["chunk"]):
        fails.append("expected %d chunk_roundtrip lines, saw %d" % (len(m["chunk"]), len(cr)))
    for one, l in zip(m["chunk"], cr):
        if l.split()[3] != hx(one):
            fails.append("chunked decoding table: %s decoded to %s" % (hx(one), l.split()[3]))
    return fails
