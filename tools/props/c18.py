"""C18 — codes are prefix-free, Hu-Tucker keeps order, table decoding inverts encoding."""
from props import compcheck, gen_codes


def check(run, tier, seed, replay):
    compcheck.run(run, "C18", [gen_codes], tier, seed, replay,
                  rule="frequency vectors over 256 symbols: all ones, uniform, geometric both ways, one dominant symbol, dominant NUL, "
                       "Fibonacci-like prefixes/suffixes reaching exactly 32-bit codewords, text counts with zeros replaced by ones, random, "
                       "ramps; the REAL HuTucker / Huffman tables are checked by the extracted verified checkers (prefix-free, complete, "
                       "lengths, alphabetic), the REAL recombination phase is compared with the model on the real level vector, the REAL "
                       "StatCoder packing with the model for multi-string streams starting mid-byte, and the REAL chunked decoding table "
                       "round-trips strings incl. codewords longer than 16 bits. Non-trivial = a command on a real table; distinct by command list.",
                  assumptions=["the Hu-Tucker combination / level-assignment phases, createHuff and the decoding-table builder are validated per "
                               "instance by verified checkers, not verified for all inputs", "coverage of the data-dependent chunk table is not modelled "
                               "(known finding: unpopulated entries are consulted by the HT-family dictionaries)"])
