"""C18 — codes are prefix-free, Hu-Tucker keeps order, table decoding inverts encoding."""
from props import compcheck, gen_codes, gen_dtdict


def check(run, tier, seed, replay):
    compcheck.run(run, "C18", [gen_codes, gen_dtdict], tier, seed, replay, timeout_case=300,
                  rule="frequency vectors over 256 symbols: all ones, uniform, geometric both ways, one dominant symbol, dominant NUL, "
                       "Fibonacci-like prefixes/suffixes reaching exactly 32-bit codewords, text counts with zeros replaced by ones, random, "
                       "ramps; the REAL HuTucker / Huffman tables are checked by the extracted verified checkers (prefix-free, complete, "
                       "lengths, alphabetic), the REAL recombination phase is compared with the model on the real level vector, the REAL "
                       "StatCoder packing with the model for multi-string streams starting mid-byte, and the REAL chunked decoding table "
                       "round-trips strings incl. codewords longer than 16 bits; dictionary level: HTFC/HHTFC/HASHHF/HASHUFFDAC over numerals 0..999 and "
                       "0..9999, syllable vocabularies and random skewed dictionaries of 50..600 strings x bucket sizes 2..32, every member "
                       "located and extracted back through the loaded decoding table (bulk command locall). Non-trivial = a command on a real table; distinct by command list.",
                  assumptions=["the Hu-Tucker combination / level-assignment phases, createHuff and the decoding-table builder are validated per "
                               "instance by verified checkers, not verified for all inputs", "coverage of the data-dependent chunk table is not modelled "
                               "(known finding: unpopulated entries are consulted by the HT-family dictionaries)"])
