"""C07 — memory safety on valid input across build, query, save, load and destroy."""
import os, re
import vlib
from vlib import Case
from props import dictcheck as DC, dictcommon as D
from props import cap_witness


def make_cmds(rnd, kind, S, params, tier):
    opt = rnd.choice([1, 2, 3]) if kind in D.LOADOPT_KINDS else 1
    cmds = D.build_cmds(S, kind, params)
    names = {}
    if kind not in D.FRESH_BROKEN:
        names["d"] = "fresh"
    cmds += ["save d i", "load r i generic %d" % opt, "load o i %s %d" % (kind, opt)]
    names["r"] = "reloaded"
    names["o"] = "own"
    n = len(S)
    ids = [0, 1, n, n + 1, (1 << 32) - 1, 1 << 32, (1 << 64) - 1] + list(range(2, n if (kind in D.HASH_KINDS or kind == "XBW") else min(n, 14)))
    qs = D.gen_queries(rnd, S, limit=10, splice=10)[:30]
    pf = D.gen_prefixes(rnd, S, 6) if kind in D.PREFIX_KINDS else []
    sb = D.gen_substrs(rnd, S, 4) if kind == "FMINDEX" and len(params) > 2 and params[2] != "0" else []
    for dn in names:
        cmds += ["q %s extract %d" % (dn, i) for i in ids]
        cmds += ["q %s locate %s" % (dn, D.hx(q)) for q in qs]
        for p in pf:
            cmds += ["q %s locatePrefix %s" % (dn, D.hx(p)), "q %s extractPrefix %s" % (dn, D.hx(p))]
        for p in sb:
            cmds += ["q %s locateSubstr %s" % (dn, D.hx(p)), "q %s extractSubstr %s" % (dn, D.hx(p))]
        if kind != "XBW":
            cmds.append("q %s extractTable" % dn)
        if kind != "XBW":
            cmds += ["q %s locateRank 1" % dn, "q %s extractRank %d" % (dn, n)]
    # a history in one process ending with destruction of every object (double free / use after free show here)
    for dn in names:
        cmds += ["uq %s extract %d" % (dn, i) for i in (1, n)] + ["uq %s locate %s" % (dn, D.hx(S[0]))]
    cmds += ["save r i2"] if not (kind == "XBW") else []
    for dn in list(names):
        cmds.append("free %s" % dn)
    return cmds, names, {"loadopt": opt}


def asan_reports(c, io):
    out = []
    for e in io.get("err", []):
        m = re.search(r"SUMMARY: AddressSanitizer: (\S+) (\S+) in ([^(]+)", e)
        if m:
            out.append((m.group(1), os.path.basename(m.group(2)), m.group(3).strip().replace(" ", "_")))
    return out


def extra_eval(c, io, mo):
    """every sanitizer report is a failure of this property, also when the answers were right"""
    fails = []
    kind = c.meta["kind"]
    for k, notes in io.get("notes", {}).items():
        for x in notes:
            if x.startswith("asan ") and not any(y.startswith("crash ") for y in notes):
                t = x.split()
                cmd = c.cmds[k] if k < len(c.cmds) else ""
                fails.append(D.Fail(t[2], "sanitizer report during a query that returned: " + " ".join(t[4:]), cmd,
                                    ["memory_report", "site:" + " ".join(t[4:])], t[1]))
    if io["status"] == "ok":
        for what, where, fn in asan_reports(c, io):
            # reports outside the isolated queries: constructor, save, load, in-process queries, destructors
            fails.append(D.Fail("build" if "StringDictionary" in fn and "::StringDictionary" in fn else "lifecycle",
                                "AddressSanitizer: %s at %s in %s (process continued in recover mode)" % (what, where, fn), "build/save/load/free",
                                ["memory_report", "site:%s %s" % (what, fn)], "d"))
    return fails


def source_capacity_check():
    """mini translator: the growth check of the PFC constructor in the CURRENT source, normalised"""
    from props import cap2_checks
    cap2_checks.REPO = vlib.REPO
    src = open(os.path.join(vlib.REPO, "StringDictionaryPFC.cpp"), "rb").read().decode(errors="replace").replace("\r", "")
    g = cap2_checks._growth(src, "reservedStrings")      # canonical form (const locals inlined, sums/products sorted, helper form accepted)
    return g[0] if len(g) == 1 else (g or None)


def post(run, cases, impl, model):
    # (1) the capacity theorem C07_pfc_capacity_fixed is about chk_fixed = bytes + 2*len + 6: tie it to the source text
    chk = source_capacity_check()
    from props import cap2_checks as _c2
    ok = chk == _c2.canon("bytesStrings+2*(size_t)lenCurrent+6")
    run.oblige("PFC constructor's growth check in the current source is the one C07_cap_ok_fixed is proved for (bytes + 2*len + 6)",
               ok, "source has: %s" % chk)
    run.extra["pfc_growth_check_in_source"] = chk
    # (2) corpus with the DEFAULT reservation: the capacity witness of C07_cap_refuted_strings (13124 valid strings, b=2: the write
    #     cursor reaches reserved-2 before a one-byte internal string) and its control; a text forcing real reallocations
    exe, msg = vlib.build_driver("asan")
    W = cap_witness.witness()
    big = sorted(set(("k%05d" % i).encode() + b"x" * (i % 7) for i in range(9000)))
    corpus = [("capwitness", W, "PFC", ["2"]), ("capcontrol", W[:-1], "PFC", ["2"]), ("capwitness3", W, "PFC", ["3"]),
              ("big-pfc", big, "PFC", ["2"]), ("big-rpfc", big[:3000], "RPFC", ["2"]), ("big-rpdac", big[:3000], "RPDAC", [])]
    # uniformly short strings in large buckets: almost every internal string costs maxlength+1 or +2 ints of the Re-Pair input
    # buffer (rpdict), whose growth check is per bucket
    two = sorted(("%02d" % i).encode() for i in range(100))
    az = sorted(bytes([a, b2]) for a in range(97, 123) for b2 in range(97, 123))
    three = sorted(("%03d" % i).encode() for i in range(1000))
    import random as _r
    lr = _r.Random(12345)
    long3k = sorted(set(bytes(lr.randrange(2, 255) for _ in range(2600)) for _ in range(24)))
    for kind in ("RPFC", "RPHTFC"):
        corpus += [("short2-b60-" + kind, two, kind, ["60"]), ("shortaz-b60-" + kind, az, kind, ["60"]), ("shortaz-b100-" + kind, az, kind, ["100"]),
                   ("short3-b130-" + kind, three, kind, ["130"]), ("short3-b400-" + kind, three, kind, ["400"])]
    # strings far longer than any fixed per-string budget of the compressed text (every kind with a growable text)
    for kind in D.FC_KINDS + ["HASHHF", "HASHUFFDAC", "HASHRPF"]:
        corpus.append(("long2600-" + kind, long3k, kind, ["2"] if kind in D.FC_KINDS else ["10"]))
    cs = []
    for name, S, kind, params in corpus:
        allids = ["q r extract %d" % i for i in range(1, len(S) + 1)] if kind in D.HASH_KINDS else []   # permuted IDs: complete table
        cmds = D.build_cmds(S, kind, params) + ["save d i", "load r i generic 1", "q r numElements"] + allids + \
            ["q r extract %d" % len(S), "q r locate %s" % D.hx(S[-1]), "q r extract 1", "free d", "free r"]
        cs.append(Case("C07-corpus-" + name, cmds, {"kind": kind, "S": S, "params": params, "shape": "corpus", "phases": {"r": "reloaded"}}))
    out = vlib.run_cases(exe, cs, tag="impl-corpus", timeout_case=240)
    # (3) growth corpus with the SHRUNK reservation: single strings many times longer than the current buffer (several doublings
    #     needed before one append), long headers, many medium strings - for every kind that uses MEMALLOC
    exe_small, _ = vlib.build_driver("asan", extra_defs=CFG.extra_defs)
    gs = []
    shapes = {"onehuge": [b"a", b"b" * 700 + b"x", b"c" * 3], "hugeheader": [b"h" * 500, b"h" * 500 + b"a", b"i"],
              "manymedium": sorted(set((b"m%03d" % i) + b"y" * 45 for i in range(40))),
              "ramp": sorted(set(b"r" * k for k in (1, 2, 5, 17, 40, 90, 200, 420)))}
    for kind in D.FC_KINDS + ["HASHHF", "HASHUFFDAC"]:
        for shape, S in shapes.items():
            for b in ((["2"], ["16"]) if kind in D.FC_KINDS else (["10"],)):
                cmds = D.build_cmds(S, kind, b) + ["save d i", "load r i generic 1", "q r numElements"] + \
                    ["q r extract %d" % i for i in range(1, len(S) + 1)] + ["q r locate %s" % D.hx(S[1]), "free d", "free r"]
                gs.append(Case("C07-growth-%s-%s-%s" % (kind, shape, b[0]), cmds,
                               {"kind": kind, "S": S, "params": b, "shape": "growth-" + shape, "phases": {"r": "reloaded"}}))
    out.update(vlib.run_cases(exe_small, gs, tag="impl-growth", timeout_case=120))
    cs = cs + gs
    mo = vlib.run_cases(vlib.oracle_exe(), cs, tag="model-corpus")
    for c in cs:
        io = out.get(c.name, {"lines": [], "status": "missing", "err": []})
        fails = D.evaluate(c, io, mo.get(c.name, {"lines": [], "status": "missing", "err": []})) + extra_eval(c, io, None)
        run.count((c.name,), nontrivial=True)
        for f in fails:
            cl = DC.derive_classes(c.meta, f.op, f.classes, "reloaded", f.dname)
            run.violation("%s (%s): %s" % (c.name, c.meta["kind"], f.detail[:300]),
                          {"kind": c.meta["kind"], "operation": f.op, "command": f.cmd, "detail": f.detail, "classes": cl,
                           "case": {"name": c.name, "generator": "tools/props/c07.py post(): corpus", "n": len(c.meta["S"]), "params": c.meta["params"]}},
                          found_input=True, classes=cl)
    # (4) every other Reallocate site (RPFC/RPHTFC rpdict and compressed text, HTFC/HHTFC, HASHHF incl. its trailing bytes, the scratch
    #     buffers): the expressions the Capacity2 theorems are proved for vs the CURRENT source text, and the boundary corpus the proofs expose
    from props import cap2_checks, gen_cap2
    cap2_checks.REPO = vlib.REPO
    diffs = cap2_checks.compare()
    run.oblige("growth checks / reservations / write loops of every other Reallocate site in the current source are the ones the "
               "C07_cap2_* theorems are proved for (%d expressions)" % len(cap2_checks.EXPECTED), not diffs,
               "; ".join("%s: source has %s, theorem is about %s %s" % (k, g, e, note) for k, e, g, note in diffs[:6]))
    run.extra["cap2_source_differences"] = [list(map(str, d)) for d in diffs]
    c2cases, c2res, c2fail, c2known = gen_cap2.run_all(run.tier, run.seed, verbose=False)
    byname = {c.name: c for c in c2cases}
    seen_known = False
    for c in c2cases:
        run.count((c.name, tuple(c.cmds[:3])), nontrivial=True)
    for name, f in c2known:
        if not seen_known:
            seen_known = True
            run.violation("%s: %s" % (name, f[:300]), {"kind": byname[name].meta["kind"], "operation": "query", "detail": f},
                          found_input=True, classes=("decoding_table_crash", "crash"))
    for name, f in c2fail[:10]:
        c = byname[name]
        run.violation("%s (%s %s, %d strings, family %s): %s" % (name, c.meta["kind"], c.meta["params"], len(c.meta["S"]), c.meta["family"], f[:300]),
                      {"kind": c.meta["kind"], "operation": "build", "detail": f, "command": c.cmds[1] if len(c.cmds) > 1 else "",
                       "case": {"name": name, "generator": "tools/props/gen_cap2.py gen(%r, %d)" % (run.tier, run.seed), "n": len(c.meta["S"]),
                                "params": c.meta["params"], "family": c.meta["family"], "exe": c.meta["exe"]}}, found_input=True)
    run.extra["cap2_corpus"] = {"cases": len(c2cases), "failures": len(c2fail), "known_decoding_table_reports": len(c2known)}
    if diffs and not run.violations:
        run.violation("a capacity check / reservation / write loop changed: %s no longer speak(s) for the source (property not seen to fail on the corpus)"
                      % ", ".join(sorted(set(cap2_checks.THEOREMS.get(k, k) for k, _, _, _ in diffs))[:6]),
                      {"kind": "capacity", "operation": "capacity-check", "detail": [list(map(str, d)) for d in diffs[:10]]}, found_input=False)
    if not ok and not run.violations:
        run.violation("the PFC constructor's capacity check changed: C07_cap_ok_fixed no longer speaks for the source (property not seen to fail on the corpus)",
                      {"kind": "PFC", "operation": "capacity-check", "detail": "source check: %s" % chk}, found_input=False)


CFG = DC.Config("C07", D.ALL_KINDS, make_cmds, nsets=(7, 18), big=True, extra_eval=extra_eval, post=post, timeout_case=120,
                rule="all 13 kinds built with the MEMALLOC hook shrunk to 16 bytes (every Reallocate path executes on small inputs), then "
                     "queries with well-formed arguments (ids 0, 1, n, n+1, 2^32-1, 2^32, 2^64-1; members, absent strings, prefixes, "
                     "substrings, ranks, table scans), save, load through both loaders, an in-process history and destruction of every "
                     "object, all under AddressSanitizer: any report, fatal signal or time-out is a failing input. Corpus with the default "
                     "reservation: the 13124-string capacity witness derived from the Coq refutation of the old growth check, its controls, "
                     "9000-string sets that force real reallocations, uniformly short strings in buckets of 60..400 (Re-Pair input buffer of "
                     "RPFC/RPHTFC) and 2600-byte random strings (per-bucket budget of the compressed text); the Capacity2 boundary corpus (sweeps n = 1.."
                     "with a 16-byte reservation, skewed alphabets whose rare symbols get > 16-bit codewords, totals landing exactly inside the "
                     "reserved margin). Non-trivial = a command; distinct by (kind, params, S, command).")
CFG.extra_defs = ("-DLIBCSD_VERIF_MEMALLOC=16",)

CFG.fm_text_residues = [31, 0, 1, 30, 63 % 32, 15, 31]


def check(run, tier, seed, replay):
    run.assumptions = ["PARTIAL: proved for the PFC constructor's capacity bookkeeping and for every read of the Tier-A models (PFC, hashing, DAC, RG, "
                       "RPDAC search, FM search, iterators); use-after-free, double free, uninitialised reads and overruns in unmodelled code are "
                       "sanitizer-validated on explored inputs only", "uninitialised-value use is not detected by ASan (no MSan: libstdc++ uninstrumented)"]
    DC.run(run, CFG, tier, seed, replay)
