"""C18 at dictionary level: every member of a Hu-Tucker / Huffman coded dictionary decodes back to itself through the
chunked decoding table (DecodingTableBuilder + DecodingTable as the constructors populate them across MANY buckets).

The code-table component (gen_codes) exercises one table and one string at a time; which 16-bit windows get which kind
of entry (regular / padded end-of-bucket / subtree) depends on the whole dictionary AND on the bucket size, so this
generator sweeps bucket sizes over fixed vocabularies (numerals, syllables) and random skewed dictionaries of a few
hundred strings.  Every member is located and extracted back in-process by the bulk command `locall` (build -> save ->
load first: the table-driven decoder exists only in a loaded object).  Alphabets are kept below ~40 symbols with mild
skew so that no codeword exceeds 16 bits, and shared prefixes stay below 128 bytes (both recorded findings)."""
import random
from vlib import Case
from props import dictcommon as D

FC = ["HTFC", "HHTFC"]
HASHK = ["HASHHF", "HASHUFFDAC"]


def vocabularies(tier, rnd):
    out = []
    out.append(("num1000", sorted(str(i).encode() for i in range(1000))))
    out.append(("num10000", sorted(str(i).encode() for i in range(10000))))
    out.append(("pad4", sorted(("%04d" % i).encode() for i in range(0, 3000, 3))))
    syl = [a + b for a in "bdfgklmnprstvz" for b in "aeiou"]
    out.append(("syll", sorted(set((rnd.choice(syl) + rnd.choice(syl) + rnd.choice(["", rnd.choice(syl)])).encode() for _ in range(600)))))
    out.append(("digits13", sorted(set("".join(rnd.choice("0123456") for _ in range(rnd.randint(3, 19))).encode() for _ in range(13)))))
    # codewords longer than 16 bits (subtree branch of the decoding table): a few hundred kB of skewed text plus bytes that occur
    # once or twice; the strings holding the rare bytes are the ones that decode through a subtree
    for nn in ([20000] if tier == "quick" else [20000, 40000, 80000]):
        r2 = random.Random(nn)
        al = b"abcde"
        w = [16, 8, 4, 2, 1]
        S = set()
        while len(S) < nn:
            S.add(bytes(r2.choices(al, weights=w, k=r2.randint(6, 22))))
        S = sorted(S)
        for j, rare in enumerate((0xE9, 0xF1, 0x7A, 0x21)):
            t = S[(j + 1) * len(S) // 6]
            S.append(t[:len(t) // 2] + bytes([rare]) + t[len(t) // 2:])
        out.append(("skewrare%d" % nn, sorted(set(S))))
    nrand = 6 if tier == "quick" else 40
    for i in range(nrand):
        sigma = rnd.choice([3, 5, 8, 12, 20, 36])
        alpha = bytes(rnd.sample(range(33, 127), sigma))
        w = [2.0 ** (-k * rnd.choice([0.3, 0.6, 1.0])) for k in range(sigma)]       # skewed, but codewords stay short
        n = rnd.choice([50, 120, 300, 600])
        S = set()
        for _ in range(n * 3):
            if len(S) >= n:
                break
            L = rnd.randint(1, rnd.choice([4, 9, 20]))
            S.add(bytes(rnd.choices(alpha, weights=w, k=L)))
        out.append(("skew%d" % i, sorted(S)))
    return out


def gen(tier, seed):
    rnd = random.Random(seed * 7919 + 18)
    cases = []
    for name, S in vocabularies(tier, rnd):
        if len(S) < 2:
            continue
        bs = [2, 3, 4, 5, 6, 7, 8, 13, 16, 32] if (tier != "quick" or name in ("num10000", "num1000")) else rnd.sample([2, 3, 4, 5, 6, 7, 8, 13, 16, 32], 4)
        if name.startswith("skewrare"):
            bs = [8, 64] if tier == "quick" else [2, 8, 64, 256]
        for kind in FC:
            for b in bs:
                cmds = D.build_cmds(S, kind, [str(b)]) + ["save d i", "load r i generic 1", "locall r", "free d", "free r"]
                cases.append(Case("dt-%s-%s-b%d" % (kind, name, b), cmds, {"kind": kind, "name": name, "n": len(S), "b": b}))
        for kind in HASHK:
            for ov in ([10] if tier == "quick" else [0, 10, 60]):
                cmds = D.build_cmds(S, kind, [str(ov)]) + ["save d i", "load r i generic 1", "locall r", "free d", "free r"]
                cases.append(Case("dt-%s-%s-o%d" % (kind, name, ov), cmds, {"kind": kind, "name": name, "n": len(S), "b": ov}))
    return cases


def evaluate_property(case, out):
    m = case.meta
    if out["status"] != "ok":
        k = len(out["lines"])
        return ["%s over %d strings (%s, parameter %s): implementation %s at %r: %s" % (m["kind"], m["n"], m["name"], m["b"], out["status"],
                case.cmds[k][:40] if k < len(case.cmds) else "exit", " | ".join(out["err"][:2])[:300])]
    line = next((l for l in out["lines"] if l.startswith("locall ")), "")
    if "n=%d notfound=0 wrongextract=0" % m["n"] not in line:
        return ["%s over %d strings (%s, parameter %s): not every member decodes back to itself: %s" % (m["kind"], m["n"], m["name"], m["b"], line)]
    return []


def sanitizer_scope(case):
    """C18 speaks about decoding; the over-reads of locateBucket's memcmp on the last header are a recorded finding of C02/C07"""
    return False


def failure_classes(case, out, fails):
    """input-class tags of a concrete failure (known_findings.json predicates): an HHTFC dictionary whose bulk locate dies inside
    memcmp (locateBucket comparing at a garbage offset) is the recorded residue hhtfc-locate-memcmp-segv; everything else is new"""
    if case.meta.get("kind") == "HHTFC" and out.get("status") not in ("ok",) and \
            any("memcmp" in e or "MemcmpInterceptorCommon" in e for e in out.get("err", [])) and \
            len(out.get("lines", [])) >= 3 and not any(l.startswith("locall ") for l in out.get("lines", [])):
        return ["hhtfc_locate_memcmp_segv", "crash"]
    # the rare residues of the decoding-table family recorded for HHTFC / HASHHF (finding decoding-table-unpopulated): death inside the decoder
    if case.meta.get("kind") in ("HHTFC", "HASHHF") and out.get("status") not in ("ok",) and \
            any(any(x in e for x in ("DecodingTable::getSubstring", "DecodingTable::processChunk", "VByte::decode", "StatCoder::decodeString")) for e in out.get("err", [])):
        return ["decoding_table_crash", "crash"]
    return []
