"""C10 — worker pool: every queued task runs exactly once; shutdown always completes."""
from props import compcheck, gen_pool
from props.subgen import Sub


def check(run, tier, seed, replay):
    variant = gen_pool.pool_variant()
    run.extra["source_variant"] = variant
    compcheck.run(run, "C10", [Sub(gen_pool, ["pool", "poolseq"])], tier, seed, replay, poolskel=True,
                  rule="the REAL WorkerPool with W in {1,2,3,8} workers and 0..50 tasks, seed-derived sleeps in the producer and inside "
                       "tasks, several pools one after the other in one process; per-task execution counters must all be 1 and "
                       "stop_all_workers(); wait_workers() must return (watchdog turns a hang into an observation). The model side runs "
                       "the extracted LTS of the variant the current Worker.hpp implements under a seed-derived schedule. "
                       "Non-trivial = a pool run; distinct by (W, tasks, seed).",
                  assumptions=["OS scheduler fairness (every runnable thread eventually runs)", "tasks do not throw",
                               "the LTS is tied to Worker.hpp by the regenerated synchronisation skeleton (tools/translate_pool.py) "
                               "and by these runs; thread interleavings of the real code are sampled, those of the model are all covered by the theorems"])
    if variant != "fixed" and not replay:
        run.oblige("Worker.hpp implements the variant for which pool_deadlock_free_fixed is proved", False,
                   "add_task / stop_all_workers do not publish their change under shared_mutex")
        run.violation("the current Worker.hpp is the skeleton for which C10_pool_lost_wakeup_reachable is proved: with 1 worker and no task, "
                      "stop_all_workers() can fall between the worker's predicate test and its block; wait_workers() never returns",
                      {"kind": "pool", "operation": "schedule",
                       "history": "W=1, script [StopAll; WaitWorkers], schedule: worker x4 (outer test, lock, predicate false), producer x7 "
                                  "(stop flag, notify_all), worker x1 (block): nothing enabled, not final (theorem C10_pool_lost_wakeup_reachable, vm_compute witness)"},
                      found_input=True)
