"""Shared machinery of the libCSD verification checks (see DESIGN.md §2, §3).

Pipeline of one check run:
  1. proof side   : (re)build the Coq development, re-run coqc on Properties_<id>.v
                    capturing `Print Assumptions`, scan for forbidden vernacular
  2. tie          : build /repo's working tree (hooks on, ASan) + driver, build the
                    extracted oracle, run both on generated cases, diff
  3. property     : evaluate the property itself on the implementation's outputs
  4. verdict      : violation protocol (VIOLATION / KNOWN-FINDING / exit 0) + evidence
"""
import atexit, hashlib, json, os, random, re, shutil, subprocess, sys, tempfile, time

VERIF = os.path.dirname(os.path.dirname(os.path.abspath(__file__)))
REPO = os.environ.get("VERIF_REPO", "/repo")
COQ = os.path.join(VERIF, "coq")
OCAML = os.path.join(VERIF, "ocaml")
CXX = os.path.join(VERIF, "cxx")
GUARD = "LIBCSD_VERIF"
OUT = os.environ.get("VERIF_OUT", VERIF)   # where evidence/ and replay/ are written (seed tests redirect it)

sys.path.insert(0, os.path.join(VERIF, "tools"))
import buildlib  # noqa: E402

_scratch = None


def scratch():
    global _scratch
    if _scratch is None:
        base = "/var/tmp"
        _scratch = tempfile.mkdtemp(prefix="libcsd-verif.", dir=base)
        atexit.register(lambda: shutil.rmtree(_scratch, ignore_errors=True))
    return _scratch


def sh(cmd, timeout=600, cwd=None, env=None, inp=None):
    e = dict(os.environ)
    if env:
        e.update(env)
    try:
        r = subprocess.run(cmd, shell=isinstance(cmd, str), cwd=cwd, env=e, input=inp,
                           capture_output=True, text=True, timeout=timeout, errors="replace")
        return r.returncode, r.stdout, r.stderr
    except subprocess.TimeoutExpired as ex:
        return 124, (ex.stdout or b"").decode(errors="replace") if isinstance(ex.stdout, bytes) else (ex.stdout or ""), "TIMEOUT"


# --------------------------------------------------------------------------
# proof side
# --------------------------------------------------------------------------
FORBIDDEN = re.compile(r"\b(Admitted|admit|Axiom|Axioms|Parameter|Parameters|Conjecture|Conjectures|Abort All|"
                       r"Unset Guard Checking|Unset Positivity Checking|Unset Universe Checking|bypass_check|"
                       r"Admit Obligations|type-in-type|impredicative-set)\b")


def strip_coq_comments(src):
    out, depth, i = [], 0, 0
    while i < len(src):
        if src.startswith("(*", i):
            depth += 1
            i += 2
        elif src.startswith("*)", i) and depth > 0:
            depth -= 1
            i += 2
        else:
            if depth == 0:
                out.append(src[i])
            i += 1
    return "".join(out)


def scan_forbidden():
    """Returns a list of 'file:line: token' for forbidden vernacular outside comments."""
    hits = []
    for root, _, files in os.walk(os.path.join(COQ)):
        for f in files:
            if not f.endswith(".v"):
                continue
            p = os.path.join(root, f)
            src = strip_coq_comments(open(p).read())
            for ln, line in enumerate(src.split("\n"), 1):
                m = FORBIDDEN.search(line)
                if m:
                    # "Variable/Hypothesis" are only used inside Sections (checked by coqc: they
                    # would be reported by Print Assumptions otherwise)
                    hits.append("%s:%d: %s" % (os.path.relpath(p, VERIF), ln, m.group(0)))
    for opt in ("-type-in-type", "-impredicative-set", "-vos", "-vok"):
        if opt in open(os.path.join(COQ, "_CoqProject")).read():
            hits.append("_CoqProject: %s" % opt)
    return hits


def coq_make(targets=None, timeout=1500):
    """Full .vo build (incremental) of the hand-written development."""
    if not os.path.exists(os.path.join(COQ, "Makefile")) or \
            os.path.getmtime(os.path.join(COQ, "Makefile")) < os.path.getmtime(os.path.join(COQ, "_CoqProject")):
        rc, o, e = sh("coq_makefile -f _CoqProject -o Makefile", cwd=COQ)
        if rc != 0:
            return False, o + e
    tg = " ".join(targets) if targets else ""
    rc, o, e = sh("timeout %d make -j16 %s" % (timeout, tg), cwd=COQ, timeout=timeout + 30)
    return rc == 0, (o + e)[-6000:]


REGENERATED = ("Properties_serial.v", "Properties_poolskel.v", "Properties_probe.v", "Properties_statics.v")   # depend on gen/*.v regenerated from /repo on every run: handled by serial_side


def serial_side(run, pid):
    """Regenerate gen/Schema_gen.v from /repo's current source (tools/translate_schema.py, clang AST),
    re-check Properties_serial.v against it and record the obligations of this property.
    Returns (ok, failed_names)."""
    import check_schema
    r = check_schema.run(repo=REPO)
    src = strip_coq_comments(open(os.path.join(COQ, "theories", "Properties_serial.v")).read())
    names = [n for n in re.findall(r"\b(?:Theorem|Lemma|Corollary|Example)\s+([A-Za-z0-9_']+)", src) if n.startswith(pid + "_")]
    failed = set(r.get("failed_obligation_names", []))
    structural = [f for f in failed if not re.match(r"C\d\d_", f)]
    mine = [n for n in names if n in failed]
    for n in names:
        run.oblige("regenerated obligation %s (Schema_gen.v from current source)" % n, n not in failed and not structural,
                   "" if n not in failed else "no longer checks against the regenerated schema")
    if structural:
        run.oblige("schema translator + Schema_gen.v compile", False, "; ".join(structural) + "\n" + r.get("log", "")[-1500:])
    run.extra["schema_check"] = {"ok": r.get("ok"), "failed": sorted(failed), "primary": r.get("primary_failures"),
                                 "timing": r.get("timing"), "obligations_of_this_property": len(names)}
    run.trusted = list(run.trusted) + ["tools/translate_schema.py (clang 14 -ast-dump=json walker) and the assumption that saveValue<T>/loadValue<T> "
                                       "write/read exactly sizeof(T)(*count) bytes"]
    ok = not mine and not structural
    return ok, (mine + structural), r.get("log", "")


def poolskel_side(run, pid):
    """Regenerate gen/Pool_gen.v (synchronisation skeleton of Worker.hpp and the block constructor, tools/translate_pool.py)
    from /repo's current source and re-check Properties_poolskel.v against it.  Returns (ok, failed_names, generated_skeleton)."""
    import fcntl, translate_pool
    translate_pool.REPO = REPO
    lockf = open("/var/tmp/verif_poolskel.lock", "w")
    fcntl.flock(lockf, fcntl.LOCK_EX)
    work = tempfile.mkdtemp(prefix="poolskel.", dir="/var/tmp")
    failed, log = [], ""
    try:
        res, problems = translate_pool.translate()
        gen = os.path.join(COQ, "theories", "gen", "Pool_gen.v")
        os.makedirs(os.path.dirname(gen), exist_ok=True)
        translate_pool.emit(res, gen)
        coq_make(["theories/PoolSkeleton.vo"])
        rc, o, e = sh("timeout 200 coqc -Q theories LibCSD theories/gen/Pool_gen.v", cwd=COQ, timeout=230)
        if rc != 0 or problems:
            failed.append("Pool_gen(translator)")
            log = (o + e)[-1500:] + " problems=%s" % problems
        src = open(os.path.join(COQ, "theories", "Properties_poolskel.v")).read().split("\n")
        names = re.findall(r"(?m)^Theorem\s+(\w+)", "\n".join(src))
        for _ in range(12):
            if failed and failed[0].startswith("Pool_gen"):
                break
            wf = os.path.join(work, "Properties_poolskel.v")
            open(wf, "w").write("\n".join(src))
            rc, o, e = sh("timeout 200 coqc -Q %s LibCSD %s" % (os.path.join(COQ, "theories"), wf), cwd=work, timeout=230)
            if rc == 0:
                break
            m = re.search(r"line (\d+), characters", o + e)
            if not m:
                failed.append("Properties_poolskel(unlocated)")
                log += (o + e)[-1000:]
                break
            line = int(m.group(1)) - 1
            starts = [i for i, l in enumerate(src) if l.startswith("Theorem ")]
            st = max(i for i in starts if i <= line)
            nm = re.match(r"Theorem\s+(\w+)", src[st]).group(1)
            en = min([i for i in starts if i > st] + [len(src)])
            failed.append(nm)
            log += "FAILED %s: %s\n" % (nm, " ".join((o + e).split())[-300:])
            src[st:en] = ["(* removed %s *)" % nm]
        mine = [n for n in names if n.startswith(pid + "_")]
        for n in mine:
            run.oblige("regenerated obligation %s (synchronisation skeleton of the current source = modelled skeleton)" % n,
                       n not in failed and not any(f.startswith("Pool_gen") or f.startswith("Properties_poolskel(") for f in failed),
                       "" if n not in failed else "skeleton extracted from the current source differs from the reference the LTS models")
        run.extra["poolskel_check"] = {"failed": failed, "log_tail": log[-1200:]}
        run.trusted = list(run.trusted) + ["tools/translate_pool.py (token-level extraction of lock/wait/notify/shared-access events from Worker.hpp and the block constructor)"]
        bad = [n for n in mine if n in failed] + [f for f in failed if not re.match(r"C\d\d_", f)]
        return (not bad), bad, dict(res)
    finally:
        shutil.rmtree(work, ignore_errors=True)
        fcntl.flock(lockf, fcntl.LOCK_UN)
        lockf.close()


def probe_side(run, pid):
    """Regenerate gen/Probe_gen.v (integer widths of the double-hashing probe arithmetic, tools/translate_probe.py, clang typed AST)
    from /repo's current source and re-check Properties_probe.v against it.  Returns (ok, failed_names, sites)."""
    import fcntl, translate_probe
    translate_probe.REPO = REPO
    lockf = open("/var/tmp/verif_probe.lock", "w")
    fcntl.flock(lockf, fcntl.LOCK_EX)
    work = tempfile.mkdtemp(prefix="probe.", dir="/var/tmp")
    failed, log = [], ""
    try:
        sites, problems = translate_probe.translate()
        os.makedirs(os.path.join(work, "gen"), exist_ok=True)
        translate_probe.emit(sites, os.path.join(work, "gen", "Probe_gen.v"))
        coq_make(["theories/ProbeWidths.vo"])
        shutil.copy(os.path.join(COQ, "theories", "ProbeWidths.vo"), work)
        rc, o, e = sh("timeout 200 coqc -Q . LibCSD gen/Probe_gen.v", cwd=work, timeout=230)
        if rc != 0 or problems:
            failed.append("Probe_gen(translator)")
            log = (o + e)[-1500:] + " problems=%s" % problems
        src = open(os.path.join(COQ, "theories", "Properties_probe.v")).read().split("\n")
        names = re.findall(r"(?m)^Theorem\s+(\w+)", "\n".join(src))
        for _ in range(8):
            if failed and failed[0].startswith("Probe_gen"):
                break
            open(os.path.join(work, "Properties_probe.v"), "w").write("\n".join(src))
            rc, o, e = sh("timeout 200 coqc -Q . LibCSD Properties_probe.v", cwd=work, timeout=230)
            if rc == 0:
                break
            m = re.search(r"line (\d+), characters", o + e)
            if not m:
                failed.append("Properties_probe(unlocated)")
                log += (o + e)[-1000:]
                break
            line = int(m.group(1)) - 1
            starts = [i for i, l in enumerate(src) if l.startswith("Theorem ")]
            st = max([i for i in starts if i <= line] or [0])
            nm = re.match(r"Theorem\s+(\w+)", src[st]).group(1) if src[st].startswith("Theorem") else "Properties_probe(header)"
            failed.append(nm)
            log += "FAILED %s: %s\n" % (nm, " ".join((o + e).split())[-300:])
            if nm.endswith("(header)"):
                break
            # an obligation that fails is admitted by removal so that the later ones are still checked; theorems that USE it fail too
            en = min([i for i in starts if i > st] + [len(src)])
            src[st:en] = ["(* removed %s *)" % nm]
        mine = [n for n in names if n.startswith(pid + "_")]
        structural = [f for f in failed if not re.match(r"C\d\d_", f)]
        for n in mine:
            run.oblige("regenerated obligation %s (probe arithmetic widths of the current source)" % n, n not in failed and not structural,
                       "" if n not in failed else "no longer checks against the widths read from the current source")
        run.extra["probe_check"] = {"failed": failed, "sites": [[nm, [list(x) for x in acc]] for nm, acc in sites], "log_tail": log[-1200:]}
        run.trusted = list(run.trusted) + ["tools/translate_probe.py (clang 14 typed AST: result types of the arithmetic nodes left of `% tsize`); "
                                           "hypothesis tsize < 2^32 of probe_exact (tables of fewer than 2^32 cells)"]
        bad = [n for n in failed if re.match(r"C\d\d_", n)] + structural    # any failing width obligation concerns every hashing property
        return (not bad), bad, sites
    finally:
        shutil.rmtree(work, ignore_errors=True)
        fcntl.flock(lockf, fcntl.LOCK_UN)
        lockf.close()


def regenerated_side(run, pid, tag, genfile, propfile, dep_vo, produce, what, trusted):
    """generic: regenerate gen/<genfile> with produce(path) -> (info, problems), compile it and <propfile> in a scratch directory
    (under a lock), attribute failures to theorem names.  Returns (ok, failed_names, info)."""
    import fcntl
    lockf = open("/var/tmp/verif_%s.lock" % tag, "w")
    fcntl.flock(lockf, fcntl.LOCK_EX)
    work = tempfile.mkdtemp(prefix=tag + ".", dir="/var/tmp")
    failed, log, info = [], "", None
    try:
        os.makedirs(os.path.join(work, "gen"), exist_ok=True)
        info, problems = produce(os.path.join(work, "gen", genfile))
        coq_make(["theories/%s" % dep_vo])
        shutil.copy(os.path.join(COQ, "theories", dep_vo), work)
        rc, o, e = sh("timeout 200 coqc -Q . LibCSD gen/%s" % genfile, cwd=work, timeout=230)
        if rc != 0 or problems:
            failed.append("%s(translator)" % genfile)
            log = (o + e)[-1500:] + " problems=%s" % problems
        src = open(os.path.join(COQ, "theories", propfile)).read().split("\n")
        names = re.findall(r"(?m)^Theorem\s+(\w+)", "\n".join(src))
        for _ in range(8):
            if failed and failed[0].endswith("(translator)"):
                break
            open(os.path.join(work, propfile), "w").write("\n".join(src))
            rc, o, e = sh("timeout 200 coqc -Q . LibCSD %s" % propfile, cwd=work, timeout=230)
            if rc == 0:
                break
            m = re.search(r"line (\d+), characters", o + e)
            if not m:
                failed.append("%s(unlocated)" % propfile)
                log += (o + e)[-1000:]
                break
            line = int(m.group(1)) - 1
            starts = [i for i, l in enumerate(src) if l.startswith("Theorem ")]
            st = max([i for i in starts if i <= line] or [0])
            if not src[st].startswith("Theorem"):
                failed.append("%s(header)" % propfile)
                log += (o + e)[-600:]
                break
            nm = re.match(r"Theorem\s+(\w+)", src[st]).group(1)
            failed.append(nm)
            log += "FAILED %s: %s\n" % (nm, " ".join((o + e).split())[-300:])
            en = min([i for i in starts if i > st] + [len(src)])
            src[st:en] = ["(* removed %s *)" % nm]
        mine = [n for n in names if n.startswith(pid + "_")]
        structural = [f for f in failed if not re.match(r"C\d\d_", f)]
        for n in mine:
            run.oblige("regenerated obligation %s (%s)" % (n, what), n not in failed and not structural,
                       "" if n not in failed else "no longer checks against what was read from the current tree")
        run.extra[tag + "_check"] = {"failed": failed, "log_tail": log[-1200:]}
        run.trusted = list(run.trusted) + [trusted]
        bad = [n for n in failed if re.match(r"C\d\d_", n)] + structural
        return (not bad), bad, info
    finally:
        shutil.rmtree(work, ignore_errors=True)
        fcntl.flock(lockf, fcntl.LOCK_UN)
        lockf.close()


def statics_side(run, pid):
    """inventory of writable static-storage objects of the compiled working tree vs the reviewed list (StaticsRef.v)"""
    import translate_statics

    def produce(path):
        d = tempfile.mkdtemp(prefix="staticslib.", dir="/var/tmp")
        try:
            try:
                lib, key, hit = buildlib.build(d, "plain")
            except SystemExit:
                return None, ["library build failed"]
            items, tls = translate_statics.inventory(lib)
            translate_statics.emit(items, tls, path)
            return {"statics": items, "tls": tls}, ([] if items else ["empty inventory"])
        finally:
            shutil.rmtree(d, ignore_errors=True)
    ok, bad, info = regenerated_side(run, pid, "statics", "Statics_gen.v", "Properties_statics.v", "StaticsRef.vo", produce,
                                     "writable static-storage objects of the compiled tree = the reviewed inventory",
                                     "tools/translate_statics.py (nm -C --defined-only / readelf on the plain build: symbols of types B b D d) and the "
                                     "review recorded in StaticsRef.v (which statics are reachable from the block builder and why they are not written)")
    if info:
        run.extra["statics_check"]["inventory"] = ["%s:%s" % x for x in info["statics"]]
        run.extra["statics_check"]["thread_local"] = info["tls"]
    return ok, bad, info


def property_files(pid):
    """Every Properties_*.v that exports a theorem named <pid>_... (the property's own file and
    the per-component files)."""
    d = os.path.join(COQ, "theories")
    out = []
    for f in sorted(os.listdir(d)):
        if f.startswith("Properties_") and f.endswith(".v") and f not in REGENERATED:
            src = strip_coq_comments(open(os.path.join(d, f)).read())
            if re.search(r"\b(?:Theorem|Lemma|Corollary|Example)\s+%s_" % pid, src):
                out.append(f)
    return out


def _coqc_property_file(args):
    f, pid = args
    cmd = "coqc -Q theories LibCSD theories/%s" % f
    rc, o, e = sh("timeout 900 " + cmd, cwd=COQ, timeout=930)
    res = {"file": f, "ok": rc == 0, "log": (o + e)[-6000:], "theorems": [], "assumptions": {}, "cmd": cmd}
    if rc != 0:
        m = re.findall(r'File "\./theories/([A-Za-z0-9_]+\.v)", line (\d+)', o + e)
        res["failed_at"] = ["%s:%s" % x for x in m][:3]
        return res
    src = strip_coq_comments(open(os.path.join(COQ, "theories", f)).read())
    thms = re.findall(r"\b(?:Theorem|Lemma|Corollary|Example)\s+([A-Za-z0-9_']+)", src)
    own = f == "Properties_%s.v" % pid
    res["theorems"] = [t for t in thms if t.startswith(pid + "_") or own]
    pa = re.findall(r"Print Assumptions\s+([A-Za-z0-9_'.]+)\s*\.", src)
    blocks = re.split(r"(?m)^(?=Closed under the global context|Axioms:)", o)
    blocks = [b for b in blocks if b.startswith("Closed under") or b.startswith("Axioms:")]
    res["pa_count"], res["pa_blocks"] = len(pa), len(blocks)
    for name, b in zip(pa, blocks):
        if name.startswith(pid + "_") or own:
            res["assumptions"][name] = "Closed under the global context" if b.startswith("Closed under") \
                else " ".join(b.split())[:600]
    return res


def coq_property(pid, extra_files=()):
    """Re-run coqc on every Properties file of the property (always, so that Print Assumptions
    output is captured from *this* run).  Returns dict(ok, theorems, assumptions, log, cmd)."""
    files = property_files(pid)
    res = {"ok": False, "theorems": [], "assumptions": {}, "log": "", "cmd": "", "files": files}
    if not files:
        res["log"] = "no Properties file exports a theorem of %s" % pid
        return res
    deps_ok, log = coq_make(["theories/%s" % f.replace(".v", ".vo") for f in files])
    if not deps_ok:
        res["log"] = "make failed:\n" + log
        m = re.findall(r'File "\./theories/([A-Za-z0-9_]+\.v)", line (\d+)', log)
        res["failed_at"] = ["%s:%s" % x for x in m][:3]
        return res
    from concurrent.futures import ThreadPoolExecutor
    with ThreadPoolExecutor(max_workers=8) as ex:
        parts = list(ex.map(_coqc_property_file, [(f, pid) for f in files]))
    res["cmd"] = "cd /verif/coq && make -j16 && " + " && ".join(p["cmd"] for p in parts)
    res["ok"] = all(p["ok"] for p in parts)
    res["pa_count"] = sum(p.get("pa_count", 0) for p in parts)
    res["pa_blocks"] = sum(p.get("pa_blocks", 0) for p in parts)
    for p in parts:
        res["theorems"] += p["theorems"]
        res["assumptions"].update(p["assumptions"])
        if not p["ok"]:
            res["log"] += p["log"]
            res.setdefault("failed_at", []).extend(p.get("failed_at", []))
    return res


# --------------------------------------------------------------------------
# extraction + oracle
# --------------------------------------------------------------------------
def _names_files(extra_dir=None):
    d = os.path.join(COQ, "extract")
    fs = sorted(os.path.join(d, f) for f in os.listdir(d) if f.endswith(".names"))
    if extra_dir and os.path.isdir(extra_dir):
        fs += sorted(os.path.join(extra_dir, f) for f in os.listdir(extra_dir) if f.endswith(".names"))
    return fs


def gen_extract_v(path, extra_dir=None):
    """Extract.v is generated from coq/extract/*.names: lines '!A B' name modules to
    Require, every other line is a qualified constant to extract."""
    mods, names = [], []
    for f in _names_files(extra_dir):
        for line in open(f):
            line = line.strip()
            if not line or line.startswith("#"):
                continue
            if line.startswith("!"):
                for m in line[1:].split():
                    if m not in mods:
                        mods.append(m)
            elif line not in names:
                names.append(line)
    with open(path, "w") as fh:
        fh.write("(* GENERATED by tools/vlib.py from coq/extract/*.names. Extraction uses ExtrOcamlBasic only. *)\n")
        fh.write("Require Extraction.\nRequire Import ExtrOcamlBasic.\n")
        fh.write("From LibCSD Require Import %s.\n" % " ".join(mods))
        fh.write("Extraction Language OCaml.\nSet Extraction Optimize.\n")
        fh.write('Extraction "model.ml"\n  %s.\n' % "\n  ".join(names))


def _ocaml_cmds(extra_dir=None):
    cm = [os.path.join(OCAML, l.strip() + ".ml") for l in open(os.path.join(OCAML, "cmds.list")) if l.strip()]
    if extra_dir and os.path.isdir(extra_dir):
        cm += sorted(os.path.join(extra_dir, f) for f in os.listdir(extra_dir) if f.startswith("cmd_") and f.endswith(".ml"))
    return cm


def build_oracle(force=False, extra_dir=None):
    """Extract the executable models and build the oracle.  With extra_dir (a work-in-progress
    component: *.names, cmd_*.ml) everything is built in a private scratch directory."""
    outdir = OCAML if not extra_dir else os.path.join(scratch(), "oracle-" + hashlib.sha1(extra_dir.encode()).hexdigest()[:6])
    os.makedirs(outdir, exist_ok=True)
    exe = os.path.join(outdir, "oracle")
    cmds = _ocaml_cmds(extra_dir)
    srcs = _names_files(extra_dir) + cmds + [os.path.join(OCAML, "obase.ml"), os.path.join(OCAML, "omain.ml"),
                                              os.path.join(OCAML, "cmds.list")]
    for root, _, files in os.walk(os.path.join(COQ, "theories")):
        for f in files:
            if f.endswith(".v") and not f.endswith("Proofs.v") and not f.startswith("Properties_"):
                srcs.append(os.path.join(root, f))
    if not force and os.path.exists(exe) and all(os.path.getmtime(exe) >= os.path.getmtime(s) for s in srcs):
        return True, "cached"
    ok, log = coq_make()
    if not ok:
        # the models (Defs) may still build even if a proof file is broken
        ok2, log2 = coq_make(["-k"])
    gen_extract_v(os.path.join(outdir, "Extract.v"), extra_dir)
    rc, o, e = sh("timeout 600 coqc -Q %s LibCSD Extract.v" % os.path.join(COQ, "theories"), cwd=outdir, timeout=630)
    if rc != 0:
        return False, "extraction failed: " + (o + e)[-3000:]
    if outdir != OCAML:
        for f in ("obase.ml", "omain.ml"):
            shutil.copy(os.path.join(OCAML, f), outdir)
    local = []
    for c in cmds:
        if os.path.dirname(c) != outdir:
            shutil.copy(c, outdir)
        local.append(os.path.basename(c))
    rc, o, e = sh("ocamlfind ocamlopt -O3 -w -a model.mli model.ml obase.ml %s omain.ml -o oracle 2>&1 || "
                  "ocamlfind ocamlopt -w -a model.mli model.ml obase.ml %s omain.ml -o oracle" % (" ".join(local), " ".join(local)),
                  cwd=outdir, timeout=600)
    if rc != 0:
        return False, "ocaml build failed: " + (o + e)[-3000:]
    return True, "built " + exe


def oracle_exe(extra_dir=None):
    if not extra_dir:
        return os.path.join(OCAML, "oracle")
    return os.path.join(scratch(), "oracle-" + hashlib.sha1(extra_dir.encode()).hexdigest()[:6], "oracle")


# --------------------------------------------------------------------------
# implementation build
# --------------------------------------------------------------------------
def gen_cmds_header(path, extra_dir=None):
    """cmds_gen.h: #include of every command table (cxx/cmds.list + work-in-progress extras)
    and the dispatch chain; a command table file cmd_x.inc defines `static bool cmd_x(State&, tokens)`."""
    items = [(l.strip(), os.path.join(CXX, l.strip() + ".inc")) for l in open(os.path.join(CXX, "cmds.list")) if l.strip()]
    if extra_dir and os.path.isdir(extra_dir):
        for f in sorted(os.listdir(extra_dir)):
            if f.startswith("cmd_") and f.endswith(".inc"):
                items.append((f[:-4], os.path.join(extra_dir, f)))
    with open(path, "w") as fh:
        for n, p in items:
            fh.write('#include "%s"\n' % p)
        fh.write("static bool run_command_gen(State &st, const std::vector<std::string> &tk) {\n")
        for n, p in items:
            fh.write("  if (%s(st, tk)) return true;\n" % n)
        fh.write("  return false;\n}\n")


def build_driver(mode="asan", extra_defs=(), extra_dir=None):
    d = scratch()
    out = os.path.join(d, mode + "-" + hashlib.sha1((" ".join(extra_defs) + str(extra_dir)).encode()).hexdigest()[:6])
    exe = os.path.join(out, "driver")
    if os.path.exists(exe):
        return exe, ""
    os.makedirs(out, exist_ok=True)
    t = time.time()
    if extra_defs:
        os.environ["VERIF_NO_CACHE"] = "1"
        buildlib.COMMON[:] = [x for x in buildlib.COMMON if not x.startswith("-DLIBCSD_VERIF_")] + list(extra_defs)
    try:
        lib, key, hit = buildlib.build(out, mode)
    except SystemExit:
        return None, "library build failed (see stderr)"
    finally:
        if extra_defs:
            os.environ.pop("VERIF_NO_CACHE", None)
            buildlib.COMMON[:] = [x for x in buildlib.COMMON if not x.startswith("-DLIBCSD_VERIF_")]
    gen_cmds_header(os.path.join(out, "cmds_gen.h"), extra_dir)
    flags = buildlib.COMMON + list(extra_defs) + buildlib.FLAGS[mode]
    cmd = ["g++"] + flags + ["-I", REPO, "-I", os.path.join(REPO, "libcds/includes"), "-I", CXX, "-I", out,
                             os.path.join(CXX, "driver.cpp"), lib, "-lpthread", "-o", exe]
    r = subprocess.run(cmd, capture_output=True, text=True)
    if r.returncode != 0:
        return None, "driver build failed:\n" + r.stderr[-4000:]
    return exe, "lib key=%s cache_hit=%s %.1fs" % (key, hit, time.time() - t)


# --------------------------------------------------------------------------
# running cases
# --------------------------------------------------------------------------
class Case:
    def __init__(self, name, cmds, meta=None):
        self.name = name
        self.cmds = cmds
        self.meta = meta or {}

    def text(self):
        return "CASE %s\n%s\nEND\n" % (self.name, "\n".join(self.cmds))


def parse_output(txt):
    """-> {case: {'lines': [...], 'status': str, 'err': [...]}}"""
    res, cur = {}, None
    for line in txt.split("\n"):
        if line.startswith("CASE "):
            cur = {"lines": [], "status": "missing", "err": []}
            res[line[5:]] = cur
        elif cur is None:
            continue
        elif line == "END":
            cur = None
        elif line.startswith("STATUS "):
            cur["status"] = line[7:]
        elif line.startswith("ERR "):
            cur["err"].append(line[4:])
        elif line.startswith("!"):
            # annotation of the preceding result line (per-query crash / sanitizer report)
            cur.setdefault("notes", {}).setdefault(len(cur["lines"]) - 1, []).append(line[1:])
        elif line:
            cur["lines"].append(line)
    return res


ASAN_ENV = {"ASAN_OPTIONS": "detect_leaks=0:halt_on_error=0:abort_on_error=0:exitcode=1:allocator_may_return_null=1:detect_stack_use_after_return=0",
            "UBSAN_OPTIONS": "print_stacktrace=0"}


def run_cases(exe, cases, timeout_case=20, shards=16, env=None, tag="impl"):
    """Run cases through a driver/oracle binary, sharded over processes."""
    d = scratch()
    shards = max(1, min(shards, len(cases)))
    procs = []
    for s in range(shards):
        part = cases[s::shards]
        if not part:
            continue
        path = os.path.join(d, "%s-%d-%d.cases" % (tag, os.getpid(), s))
        with open(path, "w") as f:
            for c in part:
                f.write(c.text())
        e = dict(os.environ)
        e.update(ASAN_ENV)
        if env:
            e.update(env)
        cmd = [exe, path] + ([str(timeout_case)] if tag.startswith("impl") else [])
        # stdout goes to a file: with a pipe, every shard but the one being read blocks as soon as its 64 kB buffer is full
        # and the shards run one after the other
        of = open(path + ".out", "wb")
        procs.append((path, of, subprocess.Popen(cmd, stdout=of, stderr=subprocess.DEVNULL, env=e)))
    out = {}
    deadline = time.time() + timeout_case * 200 + 600
    for path, of, p in procs:
        try:
            p.wait(timeout=max(1, deadline - time.time()))
        except subprocess.TimeoutExpired:
            p.kill()
            p.wait()
        of.close()
        with open(path + ".out", "rb") as fh:
            o = fh.read()
        out.update(parse_output(o.decode(errors="replace")))
        os.unlink(path)
        os.unlink(path + ".out")
    return out


# --------------------------------------------------------------------------
# known findings / verdict / evidence
# --------------------------------------------------------------------------
def load_known():
    p = os.path.join(VERIF, "known_findings.json")
    if not os.path.exists(p):
        return []
    return json.load(open(p)).get("findings", [])


class Run:
    """Accumulates what one check run did and turns it into evidence + exit code."""

    def __init__(self, pid, tier, seed):
        self.pid, self.tier, self.seed = pid, tier, seed
        self.t0 = time.time()
        self.obligations = []      # (name, ok, detail)
        self.violations = []       # dict(kind, case, detail, replay)
        self.known_hits = []       # (key, what)
        self.samples = []
        self.evaluations = 0
        self.distinct = set()
        self.trusted = []
        self.assumptions = []
        self.extra = {}
        self.checker_cmd = ""
        self.level = "proof"
        self.rule = ""
        self.known = [k for k in load_known() if (k.get("property") == pid or pid in k.get("properties", []))]

    def oblige(self, name, ok, detail=""):
        self.obligations.append((name, bool(ok), detail))

    def sample(self, s):
        if len(self.samples) < 8:
            self.samples.append(s)

    def count(self, key, nontrivial=True):
        self.evaluations += 1
        if nontrivial:
            self.distinct.add(hashlib.sha1(repr(key).encode()).hexdigest())

    def write_replay(self, name, payload):
        d = os.path.join(OUT, "replay")
        os.makedirs(d, exist_ok=True)
        h = hashlib.sha1(json.dumps(payload, sort_keys=True, default=str).encode()).hexdigest()[:10]
        p = os.path.join(d, "%s-%s-%s.json" % (self.pid, name, h))
        with open(p, "w") as f:
            json.dump(payload, f, indent=1, default=str)
        return p

    def violation(self, what, payload, found_input=True, classes=()):
        """Report a property failure.  `classes` = input-class tags computed by the
        checker on the concrete failing input; a known finding suppresses the report only
        if its (kind, operation, input_class) all match."""
        for k in self.known:
            kinds = k.get("kinds") or ([k["kind"]] if k.get("kind") else [])
            ops = k.get("operations") or ([k["operation"]] if k.get("operation") else [])
            if k.get("input_class") in classes and \
                    (not kinds or payload.get("kind") in kinds) and \
                    (not ops or payload.get("operation") in ops):
                self.known_hits.append((k["key"], k.get("description", what)))
                return
        payload = dict(payload)
        payload["property"] = self.pid
        payload["what"] = what
        payload["seed"] = self.seed
        payload["failing_input_found"] = found_input
        p = self.write_replay("viol", payload)
        self.violations.append({"what": what, "replay": p, "found": found_input})

    def finish(self):
        wall = time.time() - self.t0
        nob = len(self.obligations)
        ndis = sum(1 for _, ok, _ in self.obligations if ok)
        seen = set()
        for key, what in self.known_hits:
            if key in seen:
                continue
            seen.add(key)
            print("KNOWN-FINDING: property=%s %s" % (self.pid, what))
        for v in self.violations[:20]:
            tail = "" if v["found"] else " no-failing-input-found"
            print("VIOLATION property=%s replay=%s%s" % (self.pid, v["replay"], tail))
        cov = {
            "obligations": nob, "discharged": ndis,
            "checker_cmd": self.checker_cmd or "coqc (see obligations_detail)",
            "trusted_base": self.trusted,
            "evaluations": self.evaluations,
            "distinct_nontrivial": len(self.distinct),
            "rule": self.rule,
            "samples": self.samples or ["(none)"],
            "obligations_detail": [{"name": n, "ok": ok, "detail": d[:400]} for n, ok, d in self.obligations],
            "known_findings_hit": sorted(seen),
        }
        cov.update(self.extra)
        ev = {"property_id": self.pid, "tier": self.tier, "seed": self.seed, "level": self.level,
              "coverage": cov, "assumptions": self.assumptions, "wall_s": round(wall, 2),
              "violations": len(self.violations)}
        os.makedirs(os.path.join(OUT, "evidence"), exist_ok=True)
        with open(os.path.join(OUT, "evidence", "%s.json" % self.pid), "w") as f:
            json.dump(ev, f, indent=1, default=str)
        print("%s %s: obligations %d/%d, cases %d (%d distinct non-trivial), violations %d, known %d, %.1fs" %
              (self.pid, self.tier, ndis, nob, self.evaluations, len(self.distinct), len(self.violations), len(seen), wall))
        return 1 if self.violations else 0


COMMON_TRUST = [
    "Coq 8.16.1 kernel (coqc); vm_compute used, native_compute not used",
    "extraction: ExtrOcamlBasic only (Extract Inductive bool/option/unit/list/prod/sumbool/sumor, Extract Inlined Constant andb/orb/negb/fst/snd as shipped); N/Z/positive/nat extracted as datatypes; OCaml 4.13.1",
    "ocaml/oracle.ml parsing/printing glue; tools/*.py harness and generators; cxx/driver.cpp (unverified)",
    "g++ 12 / AddressSanitizer as supporting tools for the correspondence runs",
]


def proof_side(run, pid):
    """Common proof-side obligations. Returns True if everything checked."""
    hits = scan_forbidden()
    run.oblige("no Admitted/admit/Axiom/Parameter/disabled checks in coq/", not hits, "; ".join(hits[:5]))
    r = coq_property(pid)
    run.checker_cmd = r.get("cmd", "")
    ok = r["ok"]
    if not ok:
        run.oblige("coqc %s" % " ".join(r.get("files", [])), False, "failed at %s\n%s" % (r.get("failed_at"), r["log"][-1500:]))
        run.extra["coq_failure"] = {"failed_at": r.get("failed_at"), "log_tail": r["log"][-3000:]}
        return False, r
    for t in r["theorems"]:
        a = r["assumptions"].get(t)
        run.oblige("theorem %s" % t, True, a or "checked by coqc")
    run.extra["print_assumptions"] = r["assumptions"]
    axioms = sorted(set(a for a in r["assumptions"].values() if not a.startswith("Closed")))
    run.trusted = list(COMMON_TRUST) + (["axioms reported by Print Assumptions: " + "; ".join(axioms)] if axioms else
                                        ["Print Assumptions: every exported theorem is closed under the global context (no axioms)"])
    if r.get("pa_count") != r.get("pa_blocks"):
        run.oblige("Print Assumptions output parsed", False, "%s vs %s" % (r.get("pa_count"), r.get("pa_blocks")))
        return False, r
    return not hits, r


def tier_seed(argv):
    tier = os.environ.get("VERIF_TIER", "quick")
    replay = None
    for i, a in enumerate(argv):
        if a == "--tier" and i + 1 < len(argv):
            tier = argv[i + 1]
        if a == "--replay" and i + 1 < len(argv):
            replay = argv[i + 1]
    seed = int(os.environ.get("VERIF_SEED", "1"))
    return tier, seed, replay
