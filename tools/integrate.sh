#!/bin/sh
# integrate.sh <wip-name> : move a finished component from wip/<name> into place
set -e
cd "$(dirname "$0")/.."
n=$1
for f in wip/$n/*.names; do [ -e "$f" ] && mv "$f" coq/extract/; done
for f in wip/$n/cmd_*.ml; do [ -e "$f" ] && { b=$(basename $f .ml); mv "$f" ocaml/; grep -qx "$b" ocaml/cmds.list || echo "$b" >> ocaml/cmds.list; }; done
for f in wip/$n/cmd_*.inc; do [ -e "$f" ] && { b=$(basename $f .inc); mv "$f" cxx/; grep -qx "$b" cxx/cmds.list || echo "$b" >> cxx/cmds.list; }; done
for f in wip/$n/gen_*.py; do [ -e "$f" ] && mv "$f" tools/props/; done
[ -e wip/$n/Properties_snippet.v ] && mv wip/$n/Properties_snippet.v coq/theories/Properties_$n.v
mkdir -p notes; [ -e wip/$n/NOTES.md ] && mv wip/$n/NOTES.md notes/$n.md
echo integrated $n
