#!/usr/bin/env python3
"""check_schema.py -- C06/C08/C16 schema obligations, re-proved against the CURRENT source on every run.

run() -> dict:
  1. runs translate_schema.py on the current working tree of the library (env VERIF_REPO, default /repo) into
     /verif/coq/theories/gen/Schema_gen.v (git-ignored, never committed),
  2. compiles it and theories/Properties_serial.v with coqc (always under `timeout`),
  3. returns {ok, failed_obligation_names, log, ...}.

When Properties_serial.v does not compile, the failing obligation is located from coqc's error position, removed from a
scratch copy and the compilation is repeated, so that ALL failing obligations are named (an obligation that only fails
because it uses a removed one is reported too, marked "(dependent)" in the log).
"""
import fcntl, os, re, shutil, subprocess, sys, tempfile, time

HERE = os.path.dirname(os.path.abspath(__file__))
VERIF = os.environ.get("VERIF_ROOT", "/verif")
COQ = os.path.join(VERIF, "coq")
GEN = os.path.join(COQ, "theories", "gen", "Schema_gen.v")
PROPS = os.path.join(COQ, "theories", "Properties_serial.v")
TRANSLATOR = os.path.join(HERE, "translate_schema.py")
if not os.path.exists(TRANSLATOR):
    TRANSLATOR = os.path.join(VERIF, "tools", "translate_schema.py")

STARTERS = re.compile(r"^(Theorem|Lemma|Example|Corollary|Definition|Fixpoint|Print Assumptions)\s+(\w+)")

def sh(cmd, cwd=None, timeout=300, env=None):
    t0 = time.time()
    try:
        p = subprocess.run(["timeout", str(timeout)] + cmd, cwd=cwd, stdout=subprocess.PIPE, stderr=subprocess.STDOUT,
                           env=env, timeout=timeout + 30)
        return p.returncode, p.stdout.decode("utf-8", "replace"), time.time() - t0
    except subprocess.TimeoutExpired:
        return 124, "timeout", time.time() - t0

def needs_build(v):
    vo = v[:-2] + ".vo"
    return (not os.path.exists(vo)) or os.path.getmtime(vo) < os.path.getmtime(v)

def blocks_of(lines):
    """[(start_line_index, name)] of top-level commands"""
    res = []
    for i, l in enumerate(lines):
        m = STARTERS.match(l)
        if m: res.append((i, m.group(2), m.group(1)))
    return res

def run(repo=None, timeout=300, keep_gen=True, max_rounds=80):
    log = []
    t_start = time.time()
    res = dict(ok=False, failed_obligation_names=[], log="", timing={})
    env = dict(os.environ)
    if repo: env["VERIF_REPO"] = repo
    os.makedirs(os.path.dirname(GEN), exist_ok=True)
    lockf = open("/var/tmp/verif_serial_check.lock", "w")
    fcntl.flock(lockf, fcntl.LOCK_EX)
    scratch = tempfile.mkdtemp(prefix="serial_check_", dir="/var/tmp")
    try:
        # 1. translator
        for attempt in (1, 2):      # one retry: a clang time-out on an overloaded machine is not a finding
            rc, out, dt = sh([sys.executable, TRANSLATOR, "-o", GEN, "--json", os.path.join(scratch, "summary.json")],
                             timeout=150, env=env)
            if rc == 0: break
        res["timing"]["translate"] = round(dt, 1)
        log.append("[translate rc=%d %.1fs] %s" % (rc, dt, out.strip()))
        if rc != 0:
            res["failed_obligation_names"] = ["translate_schema"]
            return res
        # 2. prerequisites (normally built by the harness' make; built here only when stale / missing)
        for v in ("SerialDefs.v", "SerialProofs.v"):
            path = os.path.join(COQ, "theories", v)
            if needs_build(path) or (v == "SerialProofs.v" and os.path.getmtime(path[:-2] + ".vo") <
                                     os.path.getmtime(os.path.join(COQ, "theories", "SerialDefs.vo"))):
                rc, out, dt = sh(["coqc", "-Q", "theories", "LibCSD", "theories/" + v], cwd=COQ, timeout=timeout)
                log.append("[coqc %s rc=%d %.1fs] %s" % (v, rc, dt, out.strip()[-2000:]))
                if rc != 0:
                    res["failed_obligation_names"] = [v]
                    return res
        rc, out, dt = sh(["coqc", "-Q", "theories", "LibCSD", "theories/gen/Schema_gen.v"], cwd=COQ, timeout=timeout)
        res["timing"]["coqc_gen"] = round(dt, 1)
        log.append("[coqc Schema_gen.v rc=%d %.1fs] %s" % (rc, dt, out.strip()[-2000:]))
        if rc != 0:
            res["failed_obligation_names"] = ["Schema_gen"]
            return res
        # 3. the obligations
        src = open(PROPS).read().split("\n")
        work = os.path.join(scratch, "Properties_serial.v")
        failed = []
        primary = []
        removed = set()
        t0 = time.time()
        for rnd in range(max_rounds):
            with open(work, "w") as f: f.write("\n".join(src))
            rc, out, dt = sh(["coqc", "-Q", os.path.join(COQ, "theories"), "LibCSD", work], cwd=scratch, timeout=timeout)
            if rc == 0:
                log.append("[coqc Properties_serial.v round %d rc=0 %.1fs] %s" % (rnd, dt, out.strip()[-600:]))
                break
            m = re.search(r'line (\d+), characters', out)
            if rc == 124 or not m:
                log.append("[coqc Properties_serial.v round %d rc=%d] %s" % (rnd, rc, out.strip()[-2000:]))
                failed.append("Properties_serial(timeout)" if rc == 124 else "Properties_serial(unlocated error)")
                break
            line = int(m.group(1)) - 1
            bl = blocks_of(src)
            idx = max([i for i, b in enumerate(bl) if b[0] <= line], default=None)
            if idx is None:
                failed.append("Properties_serial(header)")
                log.append(out.strip()[-2000:]); break
            start, name, kind = bl[idx]
            end = bl[idx + 1][0] if idx + 1 < len(bl) else len(src)
            err = out.strip().split("\n")
            msg = " ".join(x.strip() for x in err[-6:])[:600]
            dependent = any(re.search(r"\b%s\b" % re.escape(r), "\n".join(src[start:end])) for r in removed)
            if kind != "Print Assumptions":
                failed.append(name)
                if not dependent: primary.append(name)
                log.append("FAILED %s%s: %s" % (name, " (dependent)" if dependent else "", msg))
            removed.add(name)
            src[start:end] = ["(* removed: %s *)" % name] + [""] * (end - start - 1)
        else:
            failed.append("Properties_serial(too many failures)")
        res["timing"]["coqc_props"] = round(time.time() - t0, 1)
        res["failed_obligation_names"] = failed
        res["primary_failures"] = primary      # failures that are not a mere consequence of an earlier one
        res["ok"] = not failed
        return res
    finally:
        res["timing"]["total"] = round(time.time() - t_start, 1)
        res["log"] = "\n".join(log)
        shutil.rmtree(scratch, ignore_errors=True)
        fcntl.flock(lockf, fcntl.LOCK_UN); lockf.close()

if __name__ == "__main__":
    repo = sys.argv[1] if len(sys.argv) > 1 else None
    r = run(repo)
    print(r["log"])
    print("ok =", r["ok"], " failed =", r["failed_obligation_names"], " primary =", r.get("primary_failures"), " timing =", r["timing"])
    sys.exit(0 if r["ok"] else 1)
