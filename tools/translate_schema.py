#!/usr/bin/env python3
"""translate_schema.py -- regenerate coq/theories/gen/Schema_gen.v from the CURRENT source of the
library (env VERIF_REPO, default /repo).

For every class with a save/load pair the ordered list of serialisation items of `save` and of `load`
is extracted from clang's JSON AST (clang++ -fsyntax-only -Xclang -ast-dump=json -Xclang
-ast-dump-filter=<Class::method>), one clang process per method, run in parallel.

Robustness rule: every statement of a body that mentions the stream parameter must be understood;
otherwise an `Opaque "<text>"` item is emitted in its place (never silently skipped).  Statements that
do not mention the stream are only used for (a) resolving local variables that feed count expressions,
(b) load-side recomputed members ("derived" members), (c) the type-tag guard and the `type` assignment.

Behaviour-preserving refactorings must not change the generated schema (notes/serial2.md):
  * a call of a helper of the SAME class (this->/implicit this, the object under construction, static, `Class::`-qualified
    with the own class) or of a free function defined in the same file (or its header) that receives the stream is INLINED:
    its body is walked by the same walker with the parameters bound to the arguments (`save(out)` called from
    `save(out, encoding)`, `RePair *dict = loadNoSeq(in)`, `writeHeader(out, …)`, `n = readCount(in)`);
  * stream-free helpers used in count expressions are evaluated symbolically (several statements, conditional updates,
    early returns, nested helpers) and the count TEXT is the expanded expression, so introducing / removing / renaming a
    helper such as numPaddedBytesFor() changes neither text nor meaning;
  * a load-side local that only carries a value from the stream into one member (`n = loadValue…; dict->m = n;`) is
    rendered as that member; the local that receives the type tag of a tagged class is always rendered `type`;
  * `std::istream &in2 = in;` is another name of the stream; `for (i = 0; i != n; ++i)` is a counted loop;
    `if (!(tag == K)) return nullptr;` is a guard.
Whatever touches the stream and is not understood -- also inside an inlined helper -- is still emitted as Opaque.

Usage:  translate_schema.py [-o OUT.v] [--json OUT.json] [-v]
"""
import json, os, re, subprocess, sys, time, tempfile, shutil
from concurrent.futures import ThreadPoolExecutor

REPO = os.environ.get("VERIF_REPO", "/repo").rstrip("/")
OUT_DEFAULT = "/verif/coq/theories/gen/Schema_gen.v"
CLANG = ["clang++", "-std=c++17", "-fsyntax-only", "-I" + REPO, "-I" + REPO + "/libcds/includes", "-w"]

# ---------------------------------------------------------------------------------------------------
# Targets.  (schema class name, source file, own C++ class, save method candidates, load candidates, kind)
# A method candidate is (filter, method name, number of parameters).  The first candidate that has a
# definition in its file wins (so that a class that starts overriding an inherited `save` is picked up).
# kind: 'dict' (tagged dictionary kind), 'plain', 'tagged' (libcds class with header word + guard).
# ---------------------------------------------------------------------------------------------------
def M(cls, meth, npar, file=None):
    return dict(cls=cls, meth=meth, npar=npar, file=file)

DICT_KINDS = ["PFC", "RPFC", "HTFC", "HHTFC", "RPHTFC", "RPDAC", "HASHHF", "HASHUFFDAC", "HASHRPF",
              "HASHRPDAC", "HASHRPDACBlocks", "FMINDEX", "XBW"]

def targets():
    T = []
    for k in DICT_KINDS:
        c = "StringDictionary" + k
        T.append(dict(name=c, file=c + ".cpp", cls=c, kind="dict",
                      save=[M(c, "save", 1)], load=[M(c, "load", 1), M(c, "load", 2)]))
    def plain(name, file, cls, save, load, kind="plain"):
        T.append(dict(name=name, file=file, cls=cls, kind=kind, save=save, load=load))
    plain("LogSequence", "utils/LogSequence.cpp", "LogSequence", [M("LogSequence", "save", 1)], [M("LogSequence", "LogSequence", 1)])
    plain("DAC_VLS", "utils/DAC_VLS.cpp", "DAC_VLS", [M("DAC_VLS", "save", 1)], [M("DAC_VLS", "load", 1)])
    plain("DAC_BVLS", "utils/DAC_BVLS.cpp", "DAC_BVLS", [M("DAC_BVLS", "save", 1)], [M("DAC_BVLS", "load", 1)])
    plain("RePair", "RePair/RePair.cpp", "RePair", [M("RePair", "save", 2)], [M("RePair", "load", 1)])
    plain("RePairNoSeq", "RePair/RePair.cpp", "RePair", [M("RePair", "save", 1)], [M("RePair", "loadNoSeq", 1)])
    plain("Hash", "Hash/Hash.cpp", "Hash", [M("Hash", "save", 1)], [M("Hash", "load", 2)], kind="poly")
    for h in ("Hashdh", "HashBdh", "HashBBdh"):
        plain(h, "Hash/%s.cpp" % h, h, [M(h, "save", 1), M("Hash", "save", 1, "Hash/Hash.cpp")], [M(h, "load", 1)])
    plain("HashDAC", "Hash/HashDAC.cpp", "HashDAC", [M("HashDAC", "save", 1)], [M("HashDAC", "load", 1)])
    plain("DecodingTable", "utils/Coder/DecodingTable.cpp", "DecodingTable", [M("DecodingTable", "save", 1)], [M("DecodingTable", "load", 1)])
    plain("DecodingTree", "utils/Coder/DecodingTree.cpp", "DecodingTree", [M("DecodingTree", "save", 1)], [M("DecodingTree", "load", 1)])
    plain("SSA", "FMIndex/SSA.cpp", "SSA", [M("SSA", "save", 1)], [M("SSA", "load", 1)])
    plain("XBW", "XBW/XBW.cpp", "XBW", [], [M("XBW", "XBW", 1)])
    plain("BitSequenceRG", "libcds/src/bitsequence/BitSequenceRG.cpp", "BitSequenceRG", [M("BitSequenceRG", "save", 1)], [M("BitSequenceRG", "load", 1)], kind="tagged")
    plain("BitString", "libcds/src/utils/BitString.cpp", "BitString", [M("BitString", "save", 1)], [M("BitString", "BitString", 1)])
    plain("THuffx", "Huffman/huff.cpp", "THuffx", [M(None, "saveHuff", 2)], [M(None, "loadHuff", 1)])
    return T

# dispatchers: (name, file, class, method, npar)
DISPATCHERS = [
    ("StringDictionary", "StringDictionary.cpp", "StringDictionary", "load", 2),
    ("BitSequence", "libcds/src/bitsequence/BitSequence.cpp", "BitSequence", "load", 1),
    ("Sequence", "libcds/src/sequence/Sequence.cpp", "Sequence", "load", 1),
]

# nested-call variants: (C++ class, method, number of call arguments incl. stream) -> schema class
VARIANTS = {
    ("RePair", "save", 2): "RePair", ("RePair", "load", 1): "RePair",
    ("RePair", "save", 1): "RePairNoSeq", ("RePair", "loadNoSeq", 1): "RePairNoSeq",
}

SIZES = {"bool": 1, "char": 1, "unsigned char": 1, "signed char": 1, "uchar": 1, "short": 2, "unsigned short": 2,
         "ushort": 2, "int": 4, "unsigned int": 4, "uint": 4, "uint32_t": 4, "int32_t": 4, "long": 8, "unsigned long": 8,
         "size_t": 8, "uint64_t": 8, "int64_t": 8, "long long": 8, "unsigned long long": 8, "float": 4, "double": 8,
         "ulong": 8, "unsigned": 4}

VERBOSE = False

# ---------------------------------------------------------------------------------------------------
# clang plumbing
# ---------------------------------------------------------------------------------------------------
CLANG_TIMEOUTS = []
def run_clang(file, filt):
    cmd = CLANG + ["-Xclang", "-ast-dump=json", "-Xclang", "-ast-dump-filter=" + filt, os.path.join(REPO, file)]
    for attempt in (1, 2):
        try:
            p = subprocess.run(cmd, stdout=subprocess.PIPE, stderr=subprocess.PIPE, timeout=45)
            return p.stdout.decode("utf-8", "replace"), p.stderr.decode("utf-8", "replace"), p.returncode
        except subprocess.TimeoutExpired:
            continue
    CLANG_TIMEOUTS.append("%s:%s" % (file, filt))
    return "", "timeout", 124

def parse_multi(s):
    dec = json.JSONDecoder(); i = 0; objs = []
    n = len(s)
    while i < n:
        while i < n and s[i].isspace(): i += 1
        if i >= n: break
        try:
            o, j = dec.raw_decode(s, i)
        except ValueError:
            break
        objs.append(o); i = j
    return objs

def annotate_files(objs):
    """clang's JSON prints "file" only when it changes; replay that to give every location its file."""
    cur = [None]
    def walk(n):
        if isinstance(n, dict):
            if "offset" in n or "line" in n or "file" in n:
                if "file" in n: cur[0] = n["file"]
                n["_file"] = cur[0]
            for k, v in n.items():
                if k in ("includedFrom",): continue
                walk(v)
        elif isinstance(n, list):
            for x in n: walk(x)
    for o in objs: walk(o)

_src_cache = {}
def source(path):
    if path not in _src_cache:
        try: _src_cache[path] = open(path, "rb").read()
        except OSError: _src_cache[path] = b""
    return _src_cache[path]

def loc_of(l):
    if l is None: return None
    if "expansionLoc" in l: l = l["expansionLoc"]
    return l

def text_of(node):
    r = node.get("range") or {}
    b, e = loc_of(r.get("begin")), loc_of(r.get("end"))
    if not b or not e or "offset" not in b or "offset" not in e or b.get("_file") != e.get("_file") or not b.get("_file"):
        return None
    src = source(b["_file"])
    t = src[b["offset"]: e["offset"] + e.get("tokLen", 1)].decode("utf-8", "replace")
    return t

def squash(t):
    return re.sub(r"\s+", " ", t.replace("\r", "")).strip()

def find_def(objs, file, cls, meth, npar):
    full = os.path.join(REPO, file)
    for o in objs:
        if o.get("kind") not in ("CXXMethodDecl", "CXXConstructorDecl", "FunctionDecl"): continue
        if o.get("name") != meth: continue
        inner = o.get("inner", [])
        if not any(c.get("kind") == "CompoundStmt" for c in inner): continue
        params = [c for c in inner if c.get("kind") == "ParmVarDecl"]
        if len(params) != npar: continue
        l = loc_of(o.get("loc"))
        if not l or os.path.realpath(l.get("_file") or "") != os.path.realpath(full): continue
        if cls is not None:
            src = source(full)
            pre = src[max(0, l["offset"] - 200): l["offset"]].decode("utf-8", "replace")
            if not re.search(r"(^|[^\w])" + re.escape(cls) + r"\s*::\s*$", pre): continue
        # must have a stream parameter
        if not any(re.search(r"stream", (p.get("type") or {}).get("qualType", "")) for p in params): continue
        return o
    return None

# ---------------------------------------------------------------------------------------------------
# sizes
# ---------------------------------------------------------------------------------------------------
_size_cache = {}
def strip_type(t):
    t = re.sub(r"\bconst\b|\bvolatile\b|\bstruct\b|\bclass\b", "", t).strip()
    t = re.sub(r"^(cds_utils|cds_static|std)::", "", t)
    return re.sub(r"\s+", " ", t).strip()

def probe_sizeof(tname, file):
    key = (tname, file)
    if key in _size_cache: return _size_cache[key]
    d = tempfile.mkdtemp(prefix="serial_sz_", dir="/var/tmp")
    try:
        src = os.path.join(d, "p.cpp")
        with open(src, "w") as f:
            f.write('#include "%s"\nunsigned long verif_probe_sz = sizeof(%s);\n' % (os.path.join(REPO, file), tname))
        p = subprocess.run(["clang++", "-std=c++17", "-I" + REPO, "-I" + REPO + "/libcds/includes", "-w", "-S", "-emit-llvm", "-o", "-", src],
                           stdout=subprocess.PIPE, stderr=subprocess.PIPE, timeout=50)
        m = re.search(r"@verif_probe_sz\s*=.*?global i64 (\d+)", p.stdout.decode("utf-8", "replace"))
        v = int(m.group(1)) if m else None
    finally:
        shutil.rmtree(d, ignore_errors=True)
    _size_cache[key] = v
    return v

def size_of_type(ty, file):
    """ty: clang type dict or string"""
    cands = []
    if isinstance(ty, dict):
        for k in ("desugaredQualType", "qualType"):
            if k in ty: cands.append(ty[k])
    else:
        cands.append(ty)
    for c in cands:
        c = strip_type(c)
        if c in SIZES: return SIZES[c]
        if c.endswith("*"): return 8
    for c in cands:
        v = probe_sizeof(strip_type(c), file)
        if v: return v
    return None

# ---------------------------------------------------------------------------------------------------
# expression rendering:  node -> (text, cexp | None)
# cexp (python): ("lit", n) | ("var", name) | ("bin", op, a, b) | ("pow2", a) | ("ite", c, a, b)
# ---------------------------------------------------------------------------------------------------
TRANSPARENT = {"ImplicitCastExpr", "ParenExpr", "ExprWithCleanups", "MaterializeTemporaryExpr", "CXXBindTemporaryExpr",
               "CStyleCastExpr", "CXXStaticCastExpr", "CXXFunctionalCastExpr", "ConstantExpr", "CXXReinterpretCastExpr",
               "CXXConstCastExpr", "SubstNonTypeTemplateParmExpr"}

def unwrap(n):
    while n is not None and n.get("kind") in TRANSPARENT and n.get("inner"):
        n = n["inner"][-1]
    return n

class Fn:
    def __init__(self, tgt, decl, file, role, consts, inliner):
        self.tgt = tgt; self.file = file; self.role = role; self.consts = consts; self.inliner = inliner
        self.cls = tgt["cls"]
        self.params = [c for c in decl.get("inner", []) if c.get("kind") == "ParmVarDecl"]
        self.stream_id = None
        self.stream_ids = set()  # the stream parameter, the stream parameters of inlined helpers, reference aliases
        for p in self.params:
            if re.search(r"stream", (p.get("type") or {}).get("qualType", "")):
                self.stream_id = p["id"]; self.stream_ids.add(p["id"]); break
        self.decl_ids = {decl.get("id"), decl.get("previousDecl")} - {None}
        self.alias = {}         # load side: id of a local that is only a temporary name of a member -> member name
        self.extra_effects = [] # side effects found in the bodies of inlined helpers (save role)
        self.inlined = []       # names of the helpers inlined into this body (for the log)
        self.locals = {}        # id -> (text, cexp)   pure local definitions
        self.own = set()        # ids of locals that hold the object under construction
        self.loopvars = set()
        self.derived = {}       # member -> (text, cexp)    (load side, assignments that do not touch the stream)
        self.stream_locals = {} # id -> name     (locals initialised from the stream)
        self.guard = None       # (const text, value|None, action)
        self.tag_assign = None  # ("const", name) | ("loaded",) | ("other", text)
        self.tag_local_id = None
        self.macro_consts = {}
        for p in self.params:   # free functions taking the object as a parameter (saveHuff)
            if p["id"] != self.stream_id and self.is_own_type((p.get("type") or {})):
                self.own.add(p["id"])

    def is_own_type(self, ty):
        for k in ("qualType", "desugaredQualType"):
            t = ty.get(k)
            if t:
                t = strip_type(t).replace("*", "").replace("&", "").strip()
                t = re.sub(r"^\w+::", "", t)
                if t == self.cls: return True
        return False

def touches(n, fn):
    if not isinstance(n, dict): return False
    if n.get("kind") == "DeclRefExpr" and (n.get("referencedDecl") or {}).get("id") in fn.stream_ids:
        return True
    return any(touches(c, fn) for c in n.get("inner", []))

def only_good(n, fn):
    """every use of the stream inside n is `stream.good()` (assert(f.good()) after macro expansion)"""
    ok = [True]
    def w(x, parent_is_good):
        if not isinstance(x, dict): return
        if x.get("kind") == "DeclRefExpr" and (x.get("referencedDecl") or {}).get("id") in fn.stream_ids:
            if not parent_is_good: ok[0] = False
            return
        pg = False
        if x.get("kind") == "MemberExpr" and x.get("name") == "good": pg = True
        for c in x.get("inner", []): w(c, pg or (parent_is_good and x.get("kind") in TRANSPARENT))
    w(n, False)
    return ok[0]

def is_own_base(b, fn):
    b = unwrap(b)
    if b is None: return False
    if b.get("kind") == "CXXThisExpr": return True
    if b.get("kind") == "DeclRefExpr" and (b.get("referencedDecl") or {}).get("id") in fn.own: return True
    return False

def macro_name(n):
    """If an IntegerLiteral comes from a macro expansion, the macro's name (token at the expansion location)."""
    b = (n.get("range") or {}).get("begin") or {}
    if "expansionLoc" in b:
        l = b["expansionLoc"]
        if l.get("_file") and "offset" in l:
            t = source(l["_file"])[l["offset"]: l["offset"] + l.get("tokLen", 0)].decode("utf-8", "replace")
            if re.fullmatch(r"[A-Za-z_]\w*", t): return t
    return None

def rx(n, fn):
    n = unwrap(n)
    if n is None or not n.get("kind"):
        return ("<null>", None)
    k = n["kind"]
    if k == "IntegerLiteral":
        v = int(n["value"])
        mn = macro_name(n)
        if mn:
            fn.macro_consts[mn] = v
            return (mn, ("lit", v))
        return (str(v), ("lit", v))
    if k == "CXXBoolLiteralExpr":
        v = 1 if n.get("value") else 0
        return (str(v), ("lit", v))
    if k == "CharacterLiteral":
        return (str(n.get("value")), ("lit", int(n.get("value", 0))))
    if k == "DeclRefExpr":
        ref = n.get("referencedDecl") or {}
        rid = ref.get("id"); name = ref.get("name", "?")
        if rid in fn.locals: return fn.locals[rid]
        if rid in fn.loopvars: return ("", None)
        if rid in fn.own: return ("this", None)
        if name in fn.consts and ref.get("kind") == "VarDecl":
            return (name, ("lit", fn.consts[name]))
        return (name, ("var", name))
    if k == "CXXThisExpr":
        return ("this", None)
    if k == "MemberExpr":
        base = n["inner"][0] if n.get("inner") else None
        name = n.get("name", "?")
        if base is None or is_own_base(base, fn):
            return (name, ("var", name))
        bt, _ = rx(base, fn)
        t = bt + ("->" if n.get("isArrow") else ".") + name
        return (t, ("var", t))
    if k in ("BinaryOperator", "CompoundAssignOperator"):
        op = n.get("opcode", "?")
        (a, ca), (b, cb) = rx(n["inner"][0], fn), rx(n["inner"][1], fn)
        c = ("bin", op, ca, cb) if (ca is not None and cb is not None and op in BINOPS) else None
        return ("(%s%s%s)" % (a, op, b), c)
    if k == "UnaryOperator":
        op = n.get("opcode", "?")
        a, ca = rx(n["inner"][0], fn)
        if op == "!" and ca is not None:
            return ("(!%s)" % a, ("bin", "==", ca, ("lit", 0)))
        if n.get("isPostfix"): return ("(%s%s)" % (a, op), None)
        return ("(%s%s)" % (op, a), None)
    if k == "ConditionalOperator":
        (c, cc), (a, ca), (b, cb) = [rx(x, fn) for x in n["inner"][:3]]
        ce = ("ite", cc, ca, cb) if None not in (cc, ca, cb) else None
        return ("(%s?%s:%s)" % (c, a, b), ce)
    if k == "UnaryExprOrTypeTraitExpr":
        if n.get("name") == "sizeof":
            ty = n.get("argType") or ((unwrap(n["inner"][0]) or {}).get("type") if n.get("inner") else None)
            s = size_of_type(ty, fn.file) if ty else None
            if s is not None: return (str(s), ("lit", s))
        return ("sizeof(?)", None)
    if k == "ArraySubscriptExpr":
        (a, _), (i, _) = rx(n["inner"][0], fn), rx(n["inner"][1], fn)
        t = "%s[%s]" % (a, i)
        return (t, ("var", t))
    if k == "CXXOperatorCallExpr":
        callee = unwrap(n["inner"][0])
        opn = ((callee or {}).get("referencedDecl") or {}).get("name", "")
        if opn == "operator[]" and len(n["inner"]) == 3:
            (a, _), (i, _) = rx(n["inner"][1], fn), rx(n["inner"][2], fn)
            t = "%s[%s]" % (a, i)
            return (t, ("var", t))
        if opn == "operator*" and len(n["inner"]) == 2:
            a, _ = rx(n["inner"][1], fn)
            return ("(*%s)" % a, None)
        args = ",".join(rx(x, fn)[0] for x in n["inner"][1:])
        return ("%s(%s)" % (opn, args), None)
    if k == "CallExpr":
        callee = unwrap(n["inner"][0])
        cname = ((callee or {}).get("referencedDecl") or {}).get("name") or (callee or {}).get("name", "?")
        args = [rx(x, fn) for x in n["inner"][1:]]
        if cname == "pow" and len(args) == 2 and args[0][1] == ("lit", 2):
            return ("pow2(%s)" % args[1][0], ("pow2", args[1][1]) if args[1][1] is not None else None)
        if fn.inliner:
            ref = (callee or {}).get("referencedDecl") or {}
            r = fn.inliner.pure_call(ref.get("id"), cname, ref.get("kind"), args, fn)
            if r is not None: return r
        return ("%s(%s)" % (cname, ",".join(a[0] for a in args)), None)
    if k == "CXXMemberCallExpr":
        callee = unwrap(n["inner"][0])
        if callee and callee.get("kind") == "MemberExpr":
            obj = callee["inner"][0] if callee.get("inner") else None
            meth = callee.get("name", "?")
            args = [rx(x, fn) for x in n["inner"][1:]]
            if obj is not None and not is_own_base(obj, fn):
                ot, _ = rx(obj, fn)
                pre = ot + ("->" if callee.get("isArrow") else ".")
            else:
                pre = ""
            t = "%s%s(%s)" % (pre, meth, ",".join(a[0] for a in args))
            if pre == "" and fn.inliner:
                r = fn.inliner.pure_call(callee.get("referencedMemberDecl"), meth, "CXXMethodDecl", args, fn)
                if r is not None: return r
            return (t, ("var", t) if not args else None)
        return ("<membercall>", None)
    if k == "CXXNewExpr":
        ty = strip_type((n.get("type") or {}).get("qualType", "?"))
        return ("new " + ty, None)
    if k in ("GNUNullExpr", "CXXNullPtrLiteralExpr"):
        return ("NULL", ("lit", 0))
    if k == "CXXConstructExpr" and len(n.get("inner", [])) == 1:
        return rx(n["inner"][0], fn)
    t = text_of(n)
    return (squash(t) if t else "<%s>" % k, None)

BINOPS = {"+", "-", "*", "/", "%", "==", "!=", "<", "<=", ">", ">=", "&&", "||"}

def subst_cexp(c, env):
    if c is None: return None
    if c[0] == "lit": return c
    if c[0] == "var": return env.get(c[1], c)
    if c[0] == "bin": return ("bin", c[1], subst_cexp(c[2], env), subst_cexp(c[3], env))
    if c[0] == "pow2": return ("pow2", subst_cexp(c[1], env))
    if c[0] == "ite": return ("ite", subst_cexp(c[1], env), subst_cexp(c[2], env), subst_cexp(c[3], env))
    return c

def is_null_expr(n):
    n = unwrap(n)
    if n is None: return False
    if n.get("kind") in ("GNUNullExpr", "CXXNullPtrLiteralExpr"): return True
    if n.get("kind") == "IntegerLiteral" and n.get("value") == "0": return True
    return False

# ---------------------------------------------------------------------------------------------------
# statement walker: produces items
# item (python): ("Scalar", bytes, name) ("Array", elem, cnt) ("Nested", cls) ("Loop", cnt, [items])
#                ("Cond", c, [a], [b]) ("Opaque", text)
# ---------------------------------------------------------------------------------------------------
class Walker:
    def __init__(self, fn):
        self.fn = fn
        self.cnt = {}      # count/cond text -> cexp|None
        self.first_expr = None   # AST node of the first saved scalar's expression (tag source)
        self.nested_args = []    # (nested class, extra argument text, is_constant)
        self.inline_stack = []   # ids of the helper definitions being inlined (recursion guard)
        self.ret_targets = []    # name that receives the value returned by the helper being inlined

    # ---- helpers
    def note_cnt(self, text, ce):
        if text not in self.cnt or self.cnt[text] is None:
            self.cnt[text] = ce

    def opaque(self, n, out):
        t = text_of(n)
        out.append(("Opaque", squash(t) if t else "<%s>" % n.get("kind")))

    def callee_qual(self, callee):
        """(Class, method) from the source text of a qualified static call `Class::method`"""
        t = text_of(callee)
        if t:
            m = re.search(r"(\w+)\s*::\s*(\w+)\s*$", squash(t))
            if m: return m.group(1), m.group(2)
        return None, None

    def nested_name(self, cls, meth, nargs):
        cls = re.sub(r"^(cds_static|cds_utils)::", "", cls)
        return VARIANTS.get((cls, meth, nargs), cls)

    # ---- statements
    def stmts(self, n, out):
        fn = self.fn
        if n is None or not n.get("kind"): return
        k = n["kind"]
        if k == "CompoundStmt":
            for c in n.get("inner", []): self.stmts(c, out)
            return
        if k == "NullStmt": return
        if not touches(n, fn):
            self.pure(n, out); return
        if only_good(n, fn) and k not in ("CompoundStmt", "ForStmt", "IfStmt", "SwitchStmt", "CXXForRangeStmt", "WhileStmt", "DoStmt"):
            return
        if k == "DeclStmt":
            for d in n.get("inner", []):
                if d.get("kind") != "VarDecl": continue
                init = d["inner"][-1] if d.get("inner") else None
                if init is not None and self.is_stream(init) and \
                        re.search(r"stream\s*&$", strip_type((d.get("type") or {}).get("qualType", ""))):
                    fn.stream_ids.add(d["id"]); continue        # std::istream &in = fp;  -- another name of the stream
                if init is not None and touches(init, fn):
                    before = len(out); ninl = len(fn.inlined)
                    self.io_expr(init, fn.alias.get(d["id"], d.get("name")), out, decl=d)
                    if d["id"] in fn.alias:
                        fn.locals[d["id"]] = (fn.alias[d["id"]], ("var", fn.alias[d["id"]]))
                    if len(fn.inlined) > ninl and fn.is_own_type(d.get("type") or {}):
                        fn.own.add(d["id"]); continue           # C *dict = helper(in);  -- the object under construction
                    if len(out) == before + 1 and out[-1][0] in ("Scalar", "Array"):
                        fn.stream_locals[d["id"]] = d.get("name")
                        if fn.tag_local_id is None and before == 0 and out[-1][0] == "Scalar":
                            fn.tag_local_id = d["id"]
                            if fn.role == "load" and fn.tgt.get("kind") in ("dict", "tagged") and not self.inline_stack:
                                # the local that receives the type tag is a bound name: always rendered as `type`
                                # (the member it stands for), whatever the source calls it (type, _type, tag, kind …)
                                out[-1] = ("Scalar", out[-1][1], "type")
                                fn.locals[d["id"]] = ("type", ("var", "type"))
                else:
                    self.pure_decl(d)
            return
        if k == "ForStmt":
            self.for_stmt(n, out); return
        if k == "CXXForRangeStmt":
            self.range_for(n, out); return
        if k == "IfStmt":
            inner = n.get("inner", [])
            cond = inner[0]
            if touches(cond, fn):
                self.opaque(n, out); return
            ct, cc = rx(cond, fn)
            a = []; b = []
            self.stmts(inner[1], a)
            if len(inner) > 2: self.stmts(inner[2], b)
            self.note_cnt(ct, cc)
            out.append(("Cond", ct, a, b)); return
        if k == "SwitchStmt":
            self.switch_stmt(n, out); return
        if k == "ReturnStmt":
            if n.get("inner"): self.io_expr(n["inner"][0], self.ret_targets[-1] if self.ret_targets else None, out)
            return
        self.io_expr(n, None, out)

    def for_stmt(self, n, out):
        fn = self.fn
        inner = n.get("inner", [])
        if len(inner) != 5:
            self.opaque(n, out); return
        init, _, cond, inc, body = inner
        if touches(init, fn) or touches(cond, fn) or touches(inc, fn):
            self.opaque(n, out); return
        var = None; lo = None
        if init.get("kind") == "DeclStmt" and len(init.get("inner", [])) == 1 and init["inner"][0].get("kind") == "VarDecl":
            d = init["inner"][0]; var = d["id"]
            lo = rx(d["inner"][-1], fn) if d.get("inner") else None
        else:
            i0 = unwrap(init)
            if i0 and i0.get("kind") == "BinaryOperator" and i0.get("opcode") == "=":
                l = unwrap(i0["inner"][0])
                if l.get("kind") == "DeclRefExpr":
                    var = l["referencedDecl"]["id"]; lo = rx(i0["inner"][1], fn)
        c0 = unwrap(cond)
        cnt = None
        if var and lo and c0 and c0.get("kind") == "BinaryOperator" and \
                (c0.get("opcode") in ("<", "<=") or (c0.get("opcode") == "!=" and lo[1] == ("lit", 0))):
            l = unwrap(c0["inner"][0])
            inc0 = unwrap(inc)
            inc_ok = inc0 and inc0.get("kind") == "UnaryOperator" and inc0.get("opcode") == "++" and \
                ((unwrap(inc0["inner"][0]) or {}).get("referencedDecl") or {}).get("id") == var
            if l.get("kind") == "DeclRefExpr" and l["referencedDecl"]["id"] == var and inc_ok:
                hi = rx(c0["inner"][1], fn)
                op = c0["opcode"]
                if lo[1] == ("lit", 0) and op in ("<", "!="): cnt = hi
                elif lo[1] == ("lit", 1) and op == "<=": cnt = hi
                elif op == "<":
                    cnt = ("(%s-%s)" % (hi[0], lo[0]), ("bin", "-", hi[1], lo[1]) if hi[1] and lo[1] else None)
                else:
                    cnt = ("((%s-%s)+1)" % (hi[0], lo[0]), ("bin", "+", ("bin", "-", hi[1], lo[1]), ("lit", 1)) if hi[1] and lo[1] else None)
        if cnt is None:
            self.opaque(n, out); return
        fn.loopvars.add(var)
        b = []
        self.stmts(body, b)
        self.note_cnt(cnt[0], cnt[1])
        out.append(("Loop", cnt[0], b))

    def range_for(self, n, out):
        fn = self.fn
        inner = n.get("inner", [])
        rng = None; loopvar = None
        for c in inner:
            if c.get("kind") == "DeclStmt":
                for d in c.get("inner", []):
                    if d.get("kind") == "VarDecl" and d.get("name", "").startswith("__range"): rng = d
                    elif d.get("kind") == "VarDecl" and not d.get("name", "").startswith("__"): loopvar = d
        body = inner[-1]
        if rng is None or not rng.get("inner"):
            self.opaque(n, out); return
        rt, _ = rx(rng["inner"][-1], fn)
        t = rt + ".size()"
        if loopvar is not None:
            fn.locals[loopvar["id"]] = (rt + "[]", ("var", rt + "[]"))
        b = []
        self.stmts(body, b)
        self.note_cnt(t, ("var", t))
        out.append(("Loop", t, b))

    def switch_stmt(self, n, out):
        fn = self.fn
        inner = n.get("inner", [])
        cond = inner[0] if inner else None
        body = inner[-1] if inner else None
        if cond is None or body is None or body.get("kind") != "CompoundStmt" or touches(cond, fn):
            self.opaque(n, out); return
        st, sc = rx(cond, fn)
        groups = []  # (label texts/cexps or None for default, [stmts])
        cur = None
        def add_case(c):
            nonlocal cur
            kk = c.get("kind")
            if kk == "CaseStmt":
                lab = rx(c["inner"][0], fn)
                sub = c["inner"][-1]
                cur = ([lab], [])
                groups.append(cur)
                if sub.get("kind") in ("CaseStmt", "DefaultStmt"):
                    # fallthrough labels: merge
                    add_case(sub)
                    merged = groups.pop()
                    cur = (groups[-1][0] + (merged[0] or []), merged[1]) if merged[0] is not None else (None, merged[1])
                    groups[-1] = cur
                else:
                    cur[1].append(sub)
            elif kk == "DefaultStmt":
                cur = (None, [c["inner"][-1]])
                groups.append(cur)
            else:
                if cur is None:
                    groups.append(([], [c])); cur = groups[-1]
                else:
                    cur[1].append(c)
        for c in body.get("inner", []): add_case(c)
        # build chain of Cond
        def build(i):
            if i >= len(groups): return []
            labs, sts = groups[i]
            items = []
            for s in sts:
                if s.get("kind") == "BreakStmt": continue
                self.stmts(s, items)
            if labs is None:
                return items
            ct = "||".join("(%s==%s)" % (st, l[0]) for l in labs) if len(labs) > 1 else "(%s==%s)" % (st, labs[0][0])
            cc = None
            if sc is not None and all(l[1] is not None for l in labs):
                for l in labs:
                    e = ("bin", "==", sc, l[1])
                    cc = e if cc is None else ("bin", "||", cc, e)
            self.note_cnt(ct, cc)
            return [("Cond", ct, items, build(i + 1))]
        out.extend(build(0))

    # ---- expressions that touch the stream
    def io_expr(self, e, target, out, decl=None):
        fn = self.fn
        e = unwrap(e)
        if e is None: return
        k = e.get("kind")
        if k == "BinaryOperator" and e.get("opcode") == "=":
            lhs, rhs = e["inner"]
            if touches(lhs, fn):
                self.opaque(e, out); return
            lt, _ = rx(lhs, fn)
            ninl = len(fn.inlined)
            self.io_expr(rhs, lt, out)
            l0 = unwrap(lhs)
            if len(fn.inlined) > ninl and l0 and l0.get("kind") == "DeclRefExpr" and fn.is_own_type(l0.get("type") or {}):
                rid = (l0.get("referencedDecl") or {}).get("id")
                fn.own.add(rid); fn.locals.pop(rid, None)
            return
        if k == "CallExpr":
            callee = unwrap(e["inner"][0])
            ref = (callee or {}).get("referencedDecl") or {}
            cname = ref.get("name")
            args = e["inner"][1:]
            if cname == "saveValue" and len(args) in (2, 3) and self.is_stream(args[0]):
                fty = (ref.get("type") or {}).get("qualType", "")
                m = re.match(r"void \((.*)\)$", fty)
                ptys = split_params(m.group(1)) if m else []
                if len(args) == 2 and len(ptys) == 2 and not touches(args[1], fn):
                    sz = size_of_type(ptys[1], fn.file)
                    t, _ = rx(args[1], fn)
                    if sz is not None:
                        if self.first_expr is None and not out: self.first_expr = args[1]
                        out.append(("Scalar", sz, t)); return
                if len(args) == 3 and len(ptys) == 3 and not touches(args[1], fn) and not touches(args[2], fn):
                    pt = strip_type(ptys[1])
                    if pt.endswith("*"):
                        sz = size_of_type(pt[:-1].strip(), fn.file)
                        ct, cc = rx(args[2], fn)
                        if sz is not None:
                            self.note_cnt(ct, cc)
                            out.append(("Array", sz, ct)); return
                self.opaque(e, out); return
            if cname == "loadValue" and len(args) in (1, 2) and self.is_stream(args[0]):
                rty = e.get("type") or {}
                if len(args) == 1:
                    sz = size_of_type(rty, fn.file)
                    if sz is not None:
                        out.append(("Scalar", sz, target if target is not None else "?")); return
                else:
                    if not touches(args[1], fn):
                        q = strip_type(rty.get("desugaredQualType") or rty.get("qualType") or "")
                        q2 = strip_type(rty.get("qualType") or "")
                        sz = None
                        for qq in (q, q2):
                            if qq.endswith("*"):
                                sz = size_of_type(qq[:-1].strip(), fn.file)
                                if sz is not None: break
                        ct, cc = rx(args[1], fn)
                        if sz is not None:
                            self.note_cnt(ct, cc)
                            out.append(("Array", sz, ct)); return
                self.opaque(e, out); return
            # helper of the same class (static, unqualified or qualified with the own class) or free function of the
            # same file that receives the stream: its body is inlined
            if ref.get("kind") in ("CXXMethodDecl", "FunctionDecl") and any(self.is_stream(a) for a in args):
                qc, _ = self.callee_qual(callee)
                if (ref.get("kind") == "FunctionDecl" or qc is None or qc == fn.cls) and \
                        self.inline_call(ref.get("id"), cname, ref.get("kind"), args, target, out):
                    return
            # static Class::load(in, ...)
            if ref.get("kind") == "CXXMethodDecl" and args and self.is_stream(args[0]) and not any(touches(a, fn) for a in args[1:]):
                c, m = self.callee_qual(callee)
                if c and m and (m.startswith("load")):
                    out.append(("Nested", self.nested_name(c, m, len(args))))
                    for a in args[1:]:
                        tx, ce = rx(a, fn)
                        self.nested_args.append((self.nested_name(c, m, len(args)), tx, ce is not None and ce[0] == "lit"))
                    return
            self.opaque(e, out); return
        if k == "CXXMemberCallExpr":
            callee = unwrap(e["inner"][0])
            args = e["inner"][1:]
            if callee and callee.get("kind") == "MemberExpr":
                meth = callee.get("name")
                obj = callee["inner"][0] if callee.get("inner") else None
                if obj is not None and self.is_stream(obj):
                    if meth == "good" and not args: return
                    if meth in ("write", "read") and len(args) == 2 and not touches(args[0], fn) and not touches(args[1], fn):
                        if self.raw_rw(args[0], args[1], out): return
                    self.opaque(e, out); return
                # method of the same class called on this / the object under construction with the stream: inlined
                if (obj is None or is_own_base(obj, fn)) and any(self.is_stream(a) for a in args) and \
                        self.inline_call(callee.get("referencedMemberDecl"), meth, "CXXMethodDecl", args, target, out):
                    return
                if meth == "save" and args and self.is_stream(args[0]) and obj is not None and not touches(obj, fn) \
                        and not any(touches(a, fn) for a in args[1:]):
                    oty = (unwrap(obj) or {}).get("type") or {}
                    q = strip_type(oty.get("qualType", "")).rstrip("*&").strip()
                    if not re.fullmatch(r"[\w:]+", q):
                        q = strip_type(oty.get("desugaredQualType", "")).rstrip("*&").strip()
                    if re.fullmatch(r"[\w:]+", q):
                        out.append(("Nested", self.nested_name(q, "save", len(args))))
                        for a in args[1:]:
                            tx, ce = rx(a, fn)
                            self.nested_args.append((self.nested_name(q, "save", len(args)), tx, ce is not None and ce[0] == "lit"))
                        return
                    self.opaque(e, out); return
                if meth in ("push_back", "emplace_back") and len(args) == 1 and obj is not None and not touches(obj, fn):
                    ot, _ = rx(obj, fn)
                    self.io_expr(args[0], ot + "[]", out); return
            self.opaque(e, out); return
        if k == "CXXNewExpr":
            ce = None
            for c in e.get("inner", []):
                c = unwrap(c)
                if c and c.get("kind") == "CXXConstructExpr": ce = c
            if ce is not None:
                self.io_expr(ce, target, out); return
            self.opaque(e, out); return
        if k == "CXXConstructExpr":
            args = e.get("inner", [])
            cls = strip_type((e.get("type") or {}).get("qualType", ""))
            if args and self.is_stream(args[0]) and not any(touches(a, fn) for a in args[1:]) and re.fullmatch(r"[\w:]+", cls):
                out.append(("Nested", self.nested_name(cls, cls, len(args)))); return
            if len(args) == 1:      # copy/move construction wrapping the real expression
                self.io_expr(args[0], target, out); return
            self.opaque(e, out); return
        if k == "ConditionalOperator" or k == "BinaryConditionalOperator":
            t = text_of(e) or ""
            if re.match(r"\s*assert\s*\(", t) and re.search(r"\.\s*good\s*\(\s*\)", t):
                return          # assert(f.good())
            self.opaque(e, out); return
        self.opaque(e, out)

    def inline_call(self, rid, name, kind, args, target, out):
        """Inline the body of a same-class / same-file helper that receives the stream: its statements go through the
        same walker (so whatever is not understood in it still becomes Opaque).  Parameters are bound to the symbolic
        values of the arguments, a parameter bound to `this` / the object under construction becomes another name of
        it, `return <io expression>` gives its item the caller's target name.  False = not inlined (nothing changed)."""
        fn = self.fn
        inl = fn.inliner
        if inl is None or rid is None or rid in fn.decl_ids: return False
        d = inl.find_decl(fn, rid, name, len(args), kind)
        if d is None: return False
        did = d.get("id")
        if did in fn.decl_ids or did in self.inline_stack or len(self.inline_stack) >= 4: return False
        params = [c for c in d.get("inner", []) if c.get("kind") == "ParmVarDecl"]
        binds = []; nstream = 0
        for p_, a in zip(params, args):
            if self.is_stream(a):
                if not re.search(r"stream\s*&$", strip_type((p_.get("type") or {}).get("qualType", ""))): return False
                binds.append((p_, None)); nstream += 1
            elif touches(a, fn): return False
            else: binds.append((p_, a))
        if nstream != 1: return False
        for p_, a in binds:
            if a is None: fn.stream_ids.add(p_["id"])
            elif unwrap(a) is not None and unwrap(a).get("kind") == "CXXDefaultArgExpr": pass
            elif is_own_base(a, fn) or self.is_deref_own(a): fn.own.add(p_["id"])    # helper(in, this) / helper(in, *dict)
            else: fn.locals[p_["id"]] = rx(a, fn)
        body = [c for c in d.get("inner", []) if c.get("kind") == "CompoundStmt"][0]
        if fn.role == "load": fn.alias.update(local_member_aliases(body, fn))
        self.inline_stack.append(did); self.ret_targets.append(target)
        fn.inlined.append(name)
        try:
            self.stmts(body, out)
        finally:
            self.inline_stack.pop(); self.ret_targets.pop()
        if fn.role == "save":
            for e in side_effects(body, fn):
                if e not in fn.extra_effects: fn.extra_effects.append(e)
        return True

    def is_deref_own(self, a):
        a = unwrap(a)
        return bool(a) and a.get("kind") == "UnaryOperator" and a.get("opcode") == "*" and a.get("inner") and \
            is_own_base(a["inner"][0], self.fn)

    def is_stream(self, n):
        n = unwrap(n)
        return bool(n) and n.get("kind") == "DeclRefExpr" and (n.get("referencedDecl") or {}).get("id") in self.fn.stream_ids

    def raw_rw(self, buf, length, out):
        """stream.write((char*)&x, sizeof(T)) -> Scalar;  stream.write((char*)p, n*sizeof(T)) -> Array sizeof(T) n"""
        fn = self.fn
        b = unwrap(buf); l = unwrap(length)
        # length: sizeof(T)  |  E * sizeof(T)  |  sizeof(T) * E  | E
        def as_sizeof(x):
            x = unwrap(x)
            if x and x.get("kind") == "UnaryExprOrTypeTraitExpr" and x.get("name") == "sizeof":
                t, c = rx(x, fn)
                if c: return c[1]
            return None
        if b and b.get("kind") == "UnaryOperator" and b.get("opcode") == "&":
            sz = as_sizeof(l)
            if sz is None and l.get("kind") == "IntegerLiteral": sz = int(l["value"])
            if sz is None: return False
            t, _ = rx(b["inner"][0], fn)
            if self.first_expr is None and not out: self.first_expr = b["inner"][0]
            out.append(("Scalar", sz, t)); return True
        sz = as_sizeof(l)
        if sz is not None:
            # pointer to one element
            return False
        if l and l.get("kind") == "BinaryOperator" and l.get("opcode") == "*":
            s1, s0 = as_sizeof(l["inner"][1]), as_sizeof(l["inner"][0])
            if s1 is not None:
                ct, cc = rx(l["inner"][0], fn); sz = s1
            elif s0 is not None:
                ct, cc = rx(l["inner"][1], fn); sz = s0
            else:
                ct, cc = rx(l, fn); sz = 1
        else:
            ct, cc = rx(l, fn); sz = 1
        self.note_cnt(ct, cc)
        out.append(("Array", sz, ct)); return True

    # ---- statements that do not touch the stream
    def pure_decl(self, d):
        fn = self.fn
        ty = d.get("type") or {}
        init = d["inner"][-1] if d.get("inner") else None
        if fn.is_own_type(ty):
            i0 = unwrap(init) if init else None
            if i0 is None or i0.get("kind") in ("CXXNewExpr", "CXXConstructExpr"):
                fn.own.add(d["id"]); return
        if init is not None and init.get("kind"):
            fn.locals[d["id"]] = rx(init, fn)

    def pure(self, n, out):
        fn = self.fn
        k = n.get("kind")
        if k == "DeclStmt":
            for d in n.get("inner", []):
                if d.get("kind") == "VarDecl": self.pure_decl(d)
            return
        e = unwrap(n)
        k = e.get("kind") if e else None
        if k in ("BinaryOperator", "CompoundAssignOperator") and (e.get("opcode") == "=" or k == "CompoundAssignOperator"):
            lhs = unwrap(e["inner"][0]); rhs = e["inner"][1]
            if k == "CompoundAssignOperator":
                op = e.get("opcode", "?=")[:-1]
                (a, ca), (b, cb) = rx(lhs, fn), rx(rhs, fn)
                val = ("(%s%s%s)" % (a, op, b), ("bin", op, ca, cb) if ca and cb and op in BINOPS else None)
            else:
                val = rx(rhs, fn)
            if lhs.get("kind") == "DeclRefExpr":
                rid = lhs["referencedDecl"]["id"]
                fn.locals[rid] = val       # (for a local that was read from the stream: its value from here on)
                return
            if lhs.get("kind") == "MemberExpr" and lhs.get("inner") and is_own_base(lhs["inner"][0], fn):
                name = lhs.get("name")
                if name == "type" and fn.role == "load":
                    r = unwrap(rhs)
                    rref = (r or {}).get("referencedDecl") or {}
                    if r.get("kind") == "DeclRefExpr" and rref.get("id") == fn.tag_local_id:
                        fn.tag_assign = ("loaded",)
                    elif r.get("kind") == "DeclRefExpr" and rref.get("kind") == "VarDecl" and rref.get("name") in fn.consts:
                        fn.tag_assign = ("const", rref.get("name"))
                    else:
                        fn.tag_assign = ("other", val[0])
                if fn.role == "load":
                    fn.derived[name] = val
            return
        if k == "IfStmt":
            inner = e.get("inner", [])
            cond = unwrap(inner[0]); then = inner[1]; els = inner[2] if len(inner) > 2 else None
            # guard:  if (T != K) return NULL;   (T = local holding the first scalar read)
            gcond = cond
            if cond.get("kind") == "UnaryOperator" and cond.get("opcode") == "!" and cond.get("inner"):
                c1 = unwrap(cond["inner"][0])       # if (!(T == K)) return NULL;
                if c1 and c1.get("kind") == "BinaryOperator" and c1.get("opcode") == "==":
                    gcond = dict(c1); gcond["opcode"] = "!="
            if fn.role == "load" and gcond.get("kind") == "BinaryOperator" and gcond.get("opcode") == "!=":
                l, r = unwrap(gcond["inner"][0]), unwrap(gcond["inner"][1])
                def is_tag(x): return x.get("kind") == "DeclRefExpr" and x["referencedDecl"]["id"] == fn.tag_local_id
                other = r if is_tag(l) else (l if is_tag(r) else None)
                if other is not None and fn.tag_local_id is not None and fn.guard is None and len(out) == 1:
                    act = self.guard_action(then)
                    if act:
                        t, c = rx(other, fn)
                        fn.guard = (t, c[1] if c and c[0] == "lit" else None, act)
                        return
            # conditional update of locals:  if (c) x += e;
            ct, cc = rx(cond, fn)
            snap = dict(fn.locals)
            tmp = []
            self.stmts(then, tmp)
            after_then = dict(fn.locals)
            fn.locals = dict(snap)
            if els is not None:
                self.stmts(els, tmp)
            after_else = dict(fn.locals)
            merged = dict(snap)
            for rid in set(after_then) | set(after_else):
                a = after_then.get(rid, snap.get(rid)); b = after_else.get(rid, snap.get(rid))
                if a == b:
                    if a is not None: merged[rid] = a
                    continue
                if a is None or b is None:
                    merged.pop(rid, None); continue
                ce = ("ite", cc, a[1], b[1]) if None not in (cc, a[1], b[1]) else None
                merged[rid] = ("(%s?%s:%s)" % (ct, a[0], b[0]), ce)
            fn.locals = merged
            return
        if k in ("ForStmt", "WhileStmt", "DoStmt", "CXXForRangeStmt"):
            # locals assigned in a stream-free loop become unknown
            for rid in assigned_locals(e):
                fn.locals[rid] = ("<loop:%s>" % fn.locals.get(rid, ("?",))[0], None)
            return
        if k == "CompoundStmt":
            for c in e.get("inner", []): self.stmts(c, out)
            return
        if k == "UnaryOperator" and e.get("opcode") in ("++", "--") and e.get("inner"):
            l = unwrap(e["inner"][0])
            if l is not None and l.get("kind") == "DeclRefExpr":    # n++;  on a local that may feed a count
                a, ca = rx(l, fn)
                op = "+" if e["opcode"] == "++" else "-"
                fn.locals[l["referencedDecl"]["id"]] = ("(%s%s1)" % (a, op), ("bin", op, ca, ("lit", 1)) if ca is not None else None)
                return
        # anything else: no item of the image; locals it modifies in a way that is not understood become unknown
        for rid in assigned_locals(e):
            fn.locals[rid] = ("<modified:%s>" % fn.locals.get(rid, ("?",))[0], None)
        return

    def guard_action(self, then):
        t = then
        if t.get("kind") == "CompoundStmt" and len(t.get("inner", [])) >= 1:
            t = t["inner"][0]
        if t.get("kind") == "ReturnStmt" and t.get("inner") and is_null_expr(t["inner"][0]):
            return "return_null"
        u = unwrap(t)
        if u and u.get("kind") == "CallExpr":
            c = unwrap(u["inner"][0])
            if ((c or {}).get("referencedDecl") or {}).get("name") in ("abort", "exit"):
                return "abort"
        return None

def local_member_aliases(body, fn):
    """load side:  `T n = loadValue<T>(in); … obj->m = n;`  -- a local that receives a value read from the stream and is
    copied unchanged into exactly one member of the object under construction (which is assigned nowhere else) is just
    another name of that member: {VarDecl id: member name}.  (Reading into a local first must give the same schema as
    reading into the member directly.)"""
    cand = {}; writes = {}; member_assigns = {}
    def own_base(b):
        b = unwrap(b)
        if b is None: return False
        if b.get("kind") == "CXXThisExpr": return True
        return b.get("kind") == "DeclRefExpr" and fn.is_own_type((b.get("referencedDecl") or {}).get("type") or {})
    def w(x):
        if not isinstance(x, dict): return
        k = x.get("kind")
        if k == "VarDecl" and x.get("inner"):
            i0 = unwrap(x["inner"][-1])
            if i0 is not None and i0.get("kind") == "CallExpr" and touches(i0, fn):
                c = unwrap(i0["inner"][0])
                if ((c or {}).get("referencedDecl") or {}).get("name") == "loadValue": cand[x["id"]] = x.get("name")
        if k == "BinaryOperator" and x.get("opcode") == "=" and len(x.get("inner", [])) == 2:
            l = unwrap(x["inner"][0]); r = unwrap(x["inner"][1])
            if l is not None and l.get("kind") == "MemberExpr" and l.get("inner") and own_base(l["inner"][0]):
                member_assigns[l.get("name")] = member_assigns.get(l.get("name"), 0) + 1
                if r is not None and r.get("kind") == "DeclRefExpr":
                    writes.setdefault((r.get("referencedDecl") or {}).get("id"), set()).add(l.get("name"))
        elif k in ("CompoundAssignOperator", "UnaryOperator") and x.get("inner"):
            l = unwrap(x["inner"][0])
            if l is not None and l.get("kind") == "MemberExpr" and (k == "CompoundAssignOperator" or x.get("opcode") in ("++", "--")):
                member_assigns[l.get("name")] = member_assigns.get(l.get("name"), 0) + 2
        for c in x.get("inner", []): w(c)
    w(body)
    reassigned = assigned_locals(body)
    res = {}
    for vid, ms in writes.items():
        if vid in cand and vid not in reassigned and len(ms) == 1:
            m = next(iter(ms))
            if member_assigns.get(m) == 1: res[vid] = m
    return res

def side_effects(n, fn):
    """state changes inside a `save` body: delete-expressions and writes to members of the object (C08: save is pure)"""
    res = []
    def member_target(x):
        x = unwrap(x)
        while x is not None and x.get("kind") in ("ArraySubscriptExpr",) and x.get("inner"):
            x = unwrap(x["inner"][0])
        return x is not None and x.get("kind") == "MemberExpr" and x.get("inner") and is_own_base(x["inner"][0], fn)
    def w(x):
        if not isinstance(x, dict): return
        k = x.get("kind")
        if k == "CXXDeleteExpr":
            res.append(squash(text_of(x) or "delete ?"))
        elif k in ("BinaryOperator", "CompoundAssignOperator") and x.get("opcode", "").endswith("=") \
                and x.get("opcode") not in ("==", "!=", "<=", ">=") and x.get("inner") and member_target(x["inner"][0]):
            res.append(squash(text_of(x) or "member assignment"))
        elif k == "UnaryOperator" and x.get("opcode") in ("++", "--") and x.get("inner") and member_target(x["inner"][0]):
            res.append(squash(text_of(x) or "member increment"))
        for c in x.get("inner", []): w(c)
    w(n)
    return res

def assigned_locals(n):
    res = set()
    def w(x):
        if not isinstance(x, dict): return
        if x.get("kind") in ("BinaryOperator", "CompoundAssignOperator") and (x.get("opcode", "").endswith("=") and x.get("opcode") not in ("==", "!=", "<=", ">=")):
            l = unwrap(x["inner"][0])
            if l and l.get("kind") == "DeclRefExpr": res.add(l["referencedDecl"]["id"])
        if x.get("kind") == "UnaryOperator" and x.get("opcode") in ("++", "--"):
            l = unwrap(x["inner"][0])
            if l and l.get("kind") == "DeclRefExpr": res.add(l["referencedDecl"]["id"])
        for c in x.get("inner", []): w(c)
    w(n)
    return res

def split_params(s):
    out = []; depth = 0; cur = ""
    for ch in s:
        if ch in "<(": depth += 1
        if ch in ">)": depth -= 1
        if ch == "," and depth == 0:
            out.append(cur.strip()); cur = ""
        else:
            cur += ch
    if cur.strip(): out.append(cur.strip())
    return out

# ---------------------------------------------------------------------------------------------------
# constants of utils/Utils.h, libcdsBasics.h
# ---------------------------------------------------------------------------------------------------
def read_consts():
    tag = []
    txt = source(os.path.join(REPO, "utils/Utils.h")).decode("utf-8", "replace").replace("\r", "")
    txt_nc = re.sub(r"//[^\n]*", "", txt)
    for m in re.finditer(r"static\s+const\s+uint32_t\s+(\w+)\s*=\s*(\d+)\s*;", txt_nc):
        tag.append((m.group(1), int(m.group(2))))
    other = {}
    for f in ("libcds/includes/libcdsBasics.h",):
        t = re.sub(r"//[^\n]*", "", source(os.path.join(REPO, f)).decode("utf-8", "replace").replace("\r", ""))
        for m in re.finditer(r"const\s+(?:uint|unsigned int|size_t)\s+(\w+)\s*=\s*(\d+)\s*;", t):
            other[m.group(1)] = int(m.group(2))
    return tag, other

# ---------------------------------------------------------------------------------------------------
# inlining of one-line helper functions used in count expressions (numBytesFor …)
# ---------------------------------------------------------------------------------------------------
class Unsupported(Exception):
    pass

NORET = ("<no return>", None)

def contains_return(n):
    if not isinstance(n, dict): return False
    if n.get("kind") == "ReturnStmt": return True
    if n.get("kind") == "LambdaExpr": return False
    return any(contains_return(c) for c in n.get("inner", []))

class Inliner:
    """Finds the definition of a helper called from a save/load body (same clang process: matched by declaration id;
    free functions of the same file that the `Class::` filter did not dump: one extra clang run by name) and
    evaluates stream-free helpers symbolically:  pure_call -> (text, cexp).  The text is the EXPANDED expression
    (arguments substituted for the parameters), so that introducing, removing or renaming a helper does not change
    the count texts of the schema."""
    NEVER = ("saveValue", "loadValue", "pow", "max", "min")
    def __init__(self, consts, asts):
        self.consts = consts
        self.asts = asts
        self.active = []        # ids of the helper bodies being evaluated (recursion guard)
        self.decl_cache = {}
        self.lazy = {}

    def objs_of(self, fn):
        objs = getattr(fn, "objs", None)
        if objs is not None: return objs
        return [o for (f, _), os_ in self.asts.items() if f == fn.file for o in os_]

    def find_decl(self, fn, rid, name, nargs, kind):
        """the definition (declaration WITH body) of the function a call refers to, or None"""
        if name in self.NEVER or not name: return None
        key = (id(self.objs_of(fn)) if getattr(fn, "objs", None) is not None else fn.file, rid, name, nargs)
        if key in self.decl_cache: return self.decl_cache[key]
        def ok(o):
            if o.get("name") != name or o.get("kind") not in ("FunctionDecl", "CXXMethodDecl"): return False
            inner = o.get("inner", [])
            if not any(c.get("kind") == "CompoundStmt" for c in inner): return False
            return len([c for c in inner if c.get("kind") == "ParmVarDecl"]) == nargs
        res = None
        for o in self.objs_of(fn):
            if ok(o) and rid is not None and (o.get("id") == rid or o.get("previousDecl") == rid):
                res = o; break
        if res is None and kind == "FunctionDecl":
            # a free (static) function of the same file: not dumped by the `Class::` filter -> one clang run by name;
            # declaration ids are not comparable between clang processes, so it is matched by name and arity
            lk = (fn.file, name)
            if lk not in self.lazy and not self.defined_nearby(fn.file, name):
                self.lazy[lk] = []
            if lk not in self.lazy:
                so, se, rc = run_clang(fn.file, name)
                objs = parse_multi(so)
                annotate_files(objs)
                self.lazy[lk] = objs
            cands = [o for o in self.lazy[lk] if ok(o) and o.get("kind") == "FunctionDecl"
                     and (loc_of(o.get("loc")) or {}).get("_file", "").startswith(REPO + "/")]
            if len(cands) == 1: res = cands[0]
        self.decl_cache[key] = res
        return res

    def defined_nearby(self, file, name):
        """cheap textual test (before paying for a clang run): does the file or its header contain a definition
        `<type> name(...) {` ?"""
        pat = re.compile(r"(?m)^[ \t]*(?:(?:static|inline|constexpr|const)\s+)*[A-Za-z_][\w:<>]*[\w:<>\*&\s]*?\b" + re.escape(name) +
                         r"\s*\([^;{}]*\)\s*(?:noexcept\s*)?\{")
        stem = re.sub(r"\.(cpp|cc|cxx)$", "", file)
        for f in (file, stem + ".h", stem + ".hpp"):
            t = source(os.path.join(REPO, f)).decode("utf-8", "replace")
            if t and pat.search(t): return True
        return False

    def pure_call(self, rid, name, kind, args, fn):
        """symbolic value (text, cexp) of a call of a stream-free helper with the argument values `args`
        (list of (text, cexp)); None when the helper is not found or not understood"""
        if name in self.NEVER or any(a[1] is None for a in args): return None
        d = self.find_decl(fn, rid, name, len(args), kind)
        if d is None or d.get("virtual") or d.get("pure"): return None
        if d.get("id") in self.active or len(self.active) >= 6: return None
        f2 = Fn(dict(cls=fn.cls), d, fn.file, "inline", self.consts, self)
        if f2.stream_ids: return None
        f2.objs = getattr(fn, "objs", None)
        f2.macro_consts = fn.macro_consts
        for p, a in zip(f2.params, args): f2.locals[p["id"]] = a
        body = [c for c in d.get("inner", []) if c.get("kind") == "CompoundStmt"][0]
        self.active.append(d.get("id"))
        try:
            r = self.eval_block(list(body.get("inner", [])), f2, Walker(f2))
        except Unsupported:
            r = None
        finally:
            self.active.pop()
        if r is None or r is NORET or r[1] is None: return None
        for e in side_effects(body, f2) + f2.extra_effects:
            if e not in fn.extra_effects: fn.extra_effects.append(e)
        return r

    def eval_block(self, sts, f2, w):
        """value returned by the statement list (continuation style, so that early returns are understood)"""
        for i, s in enumerate(sts):
            k = s.get("kind")
            if k == "ReturnStmt":
                if not s.get("inner"): raise Unsupported()
                return rx(s["inner"][0], f2)
            if not contains_return(s):
                tmp = []
                w.stmts(s, tmp)
                if tmp: raise Unsupported()
                continue
            rest = sts[i + 1:]
            if k == "CompoundStmt":
                return self.eval_block(list(s.get("inner", [])) + rest, f2, w)
            if k == "IfStmt":
                inner = s.get("inner", [])
                if len(inner) < 2 or inner[0].get("kind") in ("DeclStmt",): raise Unsupported()
                ct, cc = rx(inner[0], f2)
                snap = dict(f2.locals)
                a = self.eval_block([inner[1]] + rest, f2, w)
                f2.locals = dict(snap)
                b = self.eval_block(([inner[2]] if len(inner) > 2 else []) + rest, f2, w)
                if a is NORET or b is NORET: raise Unsupported()
                ce = ("ite", cc, a[1], b[1]) if None not in (cc, a[1], b[1]) else None
                return ("(%s?%s:%s)" % (ct, a[0], b[0]), ce)
            raise Unsupported()     # a return inside a loop / switch / try
        return NORET

# ---------------------------------------------------------------------------------------------------
# per-target extraction
# ---------------------------------------------------------------------------------------------------
def job_filter(cls, meth):
    """one clang run per (file, class): the filter `Class::` dumps every member function of the class (including the
    inline helpers of the header, which the inliner needs); free functions are dumped by name stem."""
    if cls: return cls + "::"
    return re.sub(r"^(save|load)", "", meth) or meth

def extract_method(tgt, cands, role, consts, inliner, asts):
    for cand in cands:
        file = cand["file"] or tgt["file"]
        filt = job_filter(cand["cls"], cand["meth"])
        objs = asts.get((file, filt))
        if objs is None: continue
        d = find_def(objs, file, cand["cls"], cand["meth"], cand["npar"])
        if d is None: continue
        t2 = dict(tgt)
        if cand["cls"] and cand["cls"] != tgt["cls"]: t2["cls"] = cand["cls"]
        fn = Fn(t2, d, file, role, consts, inliner)
        if fn.stream_id is None: continue
        fn.objs = objs          # helper definitions are looked up among the declarations of the same clang process
        w = Walker(fn)
        items = []
        body = [c for c in d.get("inner", []) if c.get("kind") == "CompoundStmt"][0]
        if role == "load": fn.alias = local_member_aliases(body, fn)
        w.stmts(body, items)
        w.effects = (side_effects(body, fn) + [e for e in fn.extra_effects]) if role == "save" else []
        return dict(items=items, fn=fn, walker=w, method=(cand["cls"] + "::" if cand["cls"] else "") + cand["meth"], file=file, inherited=(cand["cls"] != tgt["cls"] and cand["cls"] is not None))
    return None

def extract_dispatch(name, file, cls, meth, npar, consts, asts):
    objs = asts.get((file, job_filter(cls, meth)))
    if not objs: return None
    d = find_def(objs, file, cls, meth, npar)
    if d is None: return None
    fn = Fn(dict(cls=cls), d, file, "dispatch", consts, None)
    w = Walker(fn)
    body = [c for c in d.get("inner", []) if c.get("kind") == "CompoundStmt"][0]
    res = dict(cases=[], default=None, tagbytes=None, ok=False, notes=[])
    sts = body.get("inner", [])
    sw_index = None
    for i, s in enumerate(sts):
        if s.get("kind") == "SwitchStmt": sw_index = i; break
    if sw_index is None: return res
    # the tag read
    for s in sts[:sw_index]:
        if s.get("kind") == "DeclStmt" and touches(s, fn):
            tmp = []
            w.stmts(s, tmp)
            if len(tmp) == 1 and tmp[0][0] == "Scalar": res["tagbytes"] = tmp[0][1]
    sw = sts[sw_index]
    sbody = sw["inner"][-1]
    def loader_of(stmt):
        """`return Class::load(fp…)` -> Class ; `return NULL` -> None ; else '?'"""
        if stmt.get("kind") == "ReturnStmt" and stmt.get("inner"):
            e = unwrap(stmt["inner"][0])
            if is_null_expr(e): return None
            if e.get("kind") == "CallExpr":
                c, m = w.callee_qual(unwrap(e["inner"][0]))
                if c and m and m.startswith("load"): return c
        return "?" + squash(text_of(stmt) or stmt.get("kind", ""))
    pending = []
    def handle(c):
        kk = c.get("kind")
        if kk == "CaseStmt":
            lab = rx(c["inner"][0], fn)
            pending.append(lab)
            handle(c["inner"][-1])
        elif kk == "DefaultStmt":
            pending.append(None)
            handle(c["inner"][-1])
        elif kk == "ReturnStmt":
            ld = loader_of(c)
            for lab in pending:
                if lab is None: res["default"] = ld
                else:
                    v = lab[1][1] if lab[1] and lab[1][0] == "lit" else None
                    res["cases"].append((lab[0], v, ld))
            pending.clear()
        elif kk in ("BreakStmt", "NullStmt"):
            pending.clear()
        else:
            res["notes"].append("unhandled statement in switch: " + squash(text_of(c) or kk))
    for c in sbody.get("inner", []): handle(c)
    # after the switch
    has_default_in_switch = any(True for c in sbody.get("inner", []) if c.get("kind") == "DefaultStmt")
    if not has_default_in_switch:
        rest = [s for s in sts[sw_index + 1:] if s.get("kind") != "NullStmt"]
        if rest and rest[0].get("kind") == "ReturnStmt":
            res["default"] = loader_of(rest[0])
        else:
            res["default"] = "?fallthrough"
    res["ok"] = True
    res["macros"] = dict(fn.macro_consts)
    return res

# ---------------------------------------------------------------------------------------------------
# Coq emission
# ---------------------------------------------------------------------------------------------------
def cq(s):
    return '"' + s.replace('"', '""') + '"'

def coq_item(it, ind):
    k = it[0]
    if k == "Scalar": return "Scalar %d %s" % (it[1], cq(it[2]))
    if k == "Array": return "Array %d %s" % (it[1], cq(it[2]))
    if k == "Nested": return "Nested %s" % cq(it[1])
    if k == "Opaque": return "Opaque %s" % cq(it[1])
    if k == "Loop": return "Loop %s %s" % (cq(it[1]), coq_items(it[2], ind + 2))
    if k == "Cond": return "Cond %s %s %s" % (cq(it[1]), coq_items(it[2], ind + 2), coq_items(it[3], ind + 2))
    raise ValueError(k)

def coq_items(items, ind=2):
    if not items: return "[]"
    pad = " " * ind
    return "[\n" + ";\n".join(pad + coq_item(i, ind) for i in items) + "]"

def coq_cexp(c):
    if c[0] == "lit": return "(CLit %d)" % c[1]
    if c[0] == "var": return "(CVar %s)" % cq(c[1])
    if c[0] == "bin": return "(CBin %s %s %s)" % (cq(c[1]), coq_cexp(c[2]), coq_cexp(c[3]))
    if c[0] == "pow2": return "(CPow2 %s)" % coq_cexp(c[1])
    if c[0] == "ite": return "(CIte %s %s %s)" % (coq_cexp(c[1]), coq_cexp(c[2]), coq_cexp(c[3]))
    raise ValueError(c)

def resolve_derived(c, derived, depth=0):
    """substitute load-side recomputed members (ret->s = ret->b * ret->factor) into a count expression"""
    if c is None or depth > 8: return c
    env = {m: v[1] for m, v in derived.items() if v[1] is not None}
    def go(c, d):
        if c[0] == "var" and c[1] in env and d < 8:
            return go(env[c[1]], d + 1)
        if c[0] == "bin": return ("bin", c[1], go(c[2], d), go(c[3], d))
        if c[0] == "pow2": return ("pow2", go(c[1], d))
        if c[0] == "ite": return ("ite", go(c[1], d), go(c[2], d), go(c[3], d))
        return c
    return go(c, 0)

def scalar_names(items):
    s = set()
    for it in items:
        if it[0] == "Scalar": s.add(it[2])
        elif it[0] == "Loop": s |= scalar_names(it[2])
        elif it[0] == "Cond": s |= scalar_names(it[2]) | scalar_names(it[3])
    return s

def main(argv):
    global VERBOSE
    out_path = OUT_DEFAULT; json_path = None
    i = 0
    while i < len(argv):
        if argv[i] == "-o": out_path = argv[i + 1]; i += 2
        elif argv[i] == "--json": json_path = argv[i + 1]; i += 2
        elif argv[i] == "-v": VERBOSE = True; i += 1
        else: i += 1
    t0 = time.time()
    tag_consts, other_consts = read_consts()
    consts = dict(other_consts); consts.update(dict(tag_consts))
    T = targets()
    jobs = set()
    for t in T:
        for cand in t["save"] + t["load"]:
            file = cand["file"] or t["file"]
            if os.path.exists(os.path.join(REPO, file)): jobs.add((file, job_filter(cand["cls"], cand["meth"])))
    for (n, f, c, m, k) in DISPATCHERS:
        if os.path.exists(os.path.join(REPO, f)): jobs.add((f, job_filter(c, m)))
    asts = {}; errs = {}
    def work(job):
        so, se, rc = run_clang(*job)
        objs = parse_multi(so)
        return job, objs, se, rc
    with ThreadPoolExecutor(max_workers=min(16, (os.cpu_count() or 4))) as ex:
        for job, objs, se, rc in ex.map(work, sorted(jobs)):
            annotate_files(objs)
            asts[job] = objs
            if rc != 0: errs[job] = se[-2000:]
    t1 = time.time()
    inliner = Inliner(consts, asts)
    res = {}
    problems = []
    macro_consts = {}
    for t in T:
        sv = extract_method(t, t["save"], "save", consts, inliner, asts) if t["save"] else None
        ld = extract_method(t, t["load"], "load", consts, inliner, asts) if t["load"] else None
        if t["save"] and sv is None: problems.append("no definition found for save of " + t["name"])
        if t["load"] and ld is None: problems.append("no definition found for load of " + t["name"])
        res[t["name"]] = (t, sv, ld)
        for x in (sv, ld):
            if x: macro_consts.update(x["fn"].macro_consts)
    disp = {}
    for (n, f, c, m, k) in DISPATCHERS:
        d = extract_dispatch(n, f, c, m, k, consts, asts)
        if d is None:
            problems.append("dispatcher %s::%s not found" % (c, m))
            d = dict(cases=[], default="?missing", tagbytes=None, ok=False, notes=["missing"], macros={})
        disp[n] = d
        macro_consts.update(d.get("macros", {}))

    # ---------------- emit
    L = []
    A = L.append
    A("(* GENERATED by wip/serial/translate_schema.py from %s -- do not edit, do not commit. *)" % REPO)
    A("From Coq Require Import List NArith String.")
    A("From LibCSD Require Import SerialDefs.")
    A("Import ListNotations.")
    A("Local Open Scope string_scope.")
    A("Local Open Scope N_scope.")
    A("")
    names = []
    info = {}
    for name, (t, sv, ld) in res.items():
        names.append(name)
        derived = dict(ld["fn"].derived) if ld else {}
        if ld:
            for nm in scalar_names(ld["items"]): derived.pop(nm, None)
        for role, x in (("save", sv), ("load", ld)):
            if x is None:
                A("Definition %s_schema_%s : schema := [Opaque %s]." % (role, name, cq("no %s method found" % role)) if
                  (t[role]) else "Definition %s_schema_%s : schema := []." % (role, name))
                continue
            A("(* %s  %s%s *)" % (x["file"], x["method"], "  (inherited)" if x["inherited"] else ""))
            A("Definition %s_schema_%s : schema := %s." % (role, name, coq_items(x["items"])))
        # count tables
        for role, x in (("save", sv), ("load", ld)):
            ents = []
            if x:
                for text, ce in x["walker"].cnt.items():
                    ce2 = resolve_derived(ce, derived) if ce is not None else None
                    if ce2 is not None:
                        ents.append("(%s, %s)" % (cq(text), coq_cexp(ce2)))
            A("Definition %s_cnt_%s : list (string * cexp) := [%s]." % (role, name, ";\n  ".join(ents)))
        dl = []
        for m, v in derived.items():
            if v[1] is not None: dl.append("(%s, %s)" % (cq(m), coq_cexp(v[1])))
        A("Definition derived_%s : list (string * cexp) := [%s]." % (name, "; ".join(dl)))
        A("")
    A("Definition all_classes : list string := [%s]." % "; ".join(cq(n) for n in names))
    A("Definition dict_classes : list string := [%s]." % "; ".join(cq(n) for n in names if res[n][0]["kind"] == "dict"))
    A("Definition save_table : list (string * (schema * list (string * cexp))) := [\n  %s]." %
      ";\n  ".join("(%s, (save_schema_%s, save_cnt_%s))" % (cq(n), n, n) for n in names))
    A("Definition load_table : list (string * (schema * list (string * cexp))) := [\n  %s]." %
      ";\n  ".join("(%s, (load_schema_%s, load_cnt_%s))" % (cq(n), n, n) for n in names))
    A("Definition inherited_save : list (string * string) := [%s]." %
      "; ".join("(%s, %s)" % (cq(n), cq(res[n][1]["method"])) for n in names if res[n][1] and res[n][1]["inherited"]))
    A("")
    # tag constants
    A("Definition tag_consts : list (string * N) := [%s]." % "; ".join("(%s, %d)" % (cq(a), b) for a, b in tag_consts))
    A("Definition macro_consts : list (string * N) := [%s]." % "; ".join("(%s, %d)" % (cq(a), b) for a, b in sorted(macro_consts.items())))
    # guards / tag sources
    guards = []; guard_names = []; tsrc = []; tasg = []; gact = []
    for name, (t, sv, ld) in res.items():
        if ld and ld["fn"].guard:
            g = ld["fn"].guard
            if g[1] is not None:
                guards.append("(%s, %d)" % (cq(name), g[1]))
                guard_names.append("(%s, %s)" % (cq(name), cq(g[0])))
                gact.append("(%s, %s)" % (cq(name), cq(g[2])))
        if sv and sv["items"] and sv["items"][0][0] == "Scalar" and (t["kind"] in ("dict", "tagged")):
            fe = unwrap(sv["walker"].first_expr) if sv["walker"].first_expr else None
            src = None
            if fe is not None:
                if fe.get("kind") == "MemberExpr" and fe.get("name") == "type" and is_own_base(fe["inner"][0], sv["fn"]):
                    src = "TagMember"
                else:
                    tx, ce = rx(fe, sv["fn"])
                    if ce == ("var", "type"):       # a local copy of the member (const uint32_t t = type; saveValue(out, t);)
                        src = "TagMember"
                    elif ce is not None and ce[0] == "lit":
                        src = "TagConst %s" % cq(tx)
                    else:
                        src = "TagOther %s" % cq(tx)
            if src: tsrc.append("(%s, %s)" % (cq(name), src))
        if ld and t["kind"] in ("dict", "tagged"):
            ta = ld["fn"].tag_assign
            if ta is None: s = "AssignNone"
            elif ta[0] == "const": s = "AssignConst %s" % cq(ta[1])
            elif ta[0] == "loaded": s = "AssignLoaded"
            else: s = "AssignOther %s" % cq(ta[1])
            tasg.append("(%s, %s)" % (cq(name), s))
    for role, idx in (("save", 1), ("load", 2)):
        ents = []
        for name in names:
            x = res[name][idx]
            if x:
                for (nc, tx, isc) in x["walker"].nested_args:
                    ents.append("(%s, (%s, %s, %s))" % (cq(name), cq(nc), cq(tx), "true" if isc else "false"))
        A("Definition %s_nested_args : list (string * (string * string * bool)) := [%s]." % (role, "; ".join(ents)))
    A("Definition save_side_effects : list (string * string) := [%s]." % "; ".join(
        "(%s, %s)" % (cq(n), cq(e)) for n in names if res[n][1] and not res[n][1]["inherited"] for e in res[n][1]["walker"].effects))
    A("Definition loader_guard : list (string * N) := [%s]." % "; ".join(guards))
    A("Definition loader_guard_name : list (string * string) := [%s]." % "; ".join(guard_names))
    A("Definition loader_guard_action : list (string * string) := [%s]." % "; ".join(gact))
    A("Definition tag_source : list (string * tagsrc) := [%s]." % "; ".join(tsrc))
    A("Definition tag_assign : list (string * tagassign) := [%s]." % "; ".join(tasg))
    A("")
    for dn, d in disp.items():
        suffix = "gen" if dn == "StringDictionary" else dn
        cases = []
        bad = []
        for (lab, v, ld) in d["cases"]:
            if v is None or ld is None or str(ld).startswith("?"):
                bad.append("%s -> %s" % (lab, ld))
            else:
                cases.append("(%d, %s)" % (v, cq(ld)))
        A("Definition dispatch_%s : list (N * string) := [%s]." % (suffix, "; ".join(cases)))
        A("Definition dispatch_%s_names : list (string * string) := [%s]." % (suffix, "; ".join(
            "(%s, %s)" % (cq(lab), cq(str(ld))) for (lab, v, ld) in d["cases"])))
        dflt = d["default"]
        A("Definition dispatch_%s_default : option string := %s." % (suffix, "None" if dflt is None else "Some %s" % cq(dflt)))
        A("Definition dispatch_%s_irregular : list string := [%s]." % (suffix, "; ".join(cq(b) for b in bad + d["notes"])))
        A("Definition dispatch_%s_tagbytes : option N := %s." % (suffix, "None" if d["tagbytes"] is None else "Some %d" % d["tagbytes"]))
    A("")
    A("Definition translator_problems : list string := [%s]." % "; ".join(cq(p) for p in problems))
    text = "\n".join(L) + "\n"
    os.makedirs(os.path.dirname(out_path), exist_ok=True)
    tmp = out_path + ".tmp%d" % os.getpid()
    with open(tmp, "w") as f: f.write(text)
    os.replace(tmp, out_path)
    t2 = time.time()
    summary = dict(repo=REPO, out=out_path, classes=names, problems=problems,
                   clang_errors={"%s:%s" % k: v for k, v in errs.items()},
                   time_clang=round(t1 - t0, 2), time_total=round(t2 - t0, 2),
                   inlined={n: sorted(set(h for role in (1, 2) if res[n][role] for h in res[n][role]["fn"].inlined)) for n in names
                            if any(res[n][role] and res[n][role]["fn"].inlined for role in (1, 2))},
                   opaque={n: [it for role in (1, 2) if res[n][role] for it in flat_opaque(res[n][role]["items"])] for n in names})
    summary["opaque"] = {k: v for k, v in summary["opaque"].items() if v}
    if json_path:
        with open(json_path, "w") as f: json.dump(summary, f, indent=1)
    if VERBOSE:
        print(json.dumps(summary, indent=1))
    return summary

def flat_opaque(items):
    r = []
    for it in items:
        if it[0] == "Opaque": r.append(it[1])
        elif it[0] == "Loop": r += flat_opaque(it[2])
        elif it[0] == "Cond": r += flat_opaque(it[2]) + flat_opaque(it[3])
    return r

if __name__ == "__main__":
    s = main(sys.argv[1:])
    print("translate_schema: %d classes, %d problems, clang %.1fs, total %.1fs -> %s" %
          (len(s["classes"]), len(s["problems"]), s["time_clang"], s["time_total"], s["out"]))
    for n, hs in sorted(s.get("inlined", {}).items()): print("  helpers inlined into %s: %s" % (n, ", ".join(hs)))
    for p in s["problems"]: print("  PROBLEM:", p)
    if CLANG_TIMEOUTS:
        print("  clang timed out on:", CLANG_TIMEOUTS)
        sys.exit(3)
