#!/usr/bin/env python3
"""Entry point: check.py <Cxx> [--tier quick|thorough] [--replay file]"""
import importlib, os, sys
sys.path.insert(0, os.path.dirname(os.path.abspath(__file__)))
import vlib


def main():
    if len(sys.argv) < 2:
        print("usage: check.py <property id> [--tier quick|thorough] [--replay file]")
        return 2
    pid = sys.argv[1].upper()
    tier, seed, replay = vlib.tier_seed(sys.argv[2:])
    mod = importlib.import_module("props.%s" % pid.lower())
    run = vlib.Run(pid, tier, seed)
    try:
        mod.check(run, tier, seed, replay)
    except Exception as ex:  # harness failure: never pretend the property was checked
        import traceback
        traceback.print_exc()
        run.oblige("harness completed", False, repr(ex))
        run.violation("harness error: %r" % (ex,), {"kind": "harness", "operation": "run", "traceback": traceback.format_exc()[-3000:]}, found_input=False)
    return run.finish()


if __name__ == "__main__":
    sys.exit(main())
