"""CRLF-aware exact substitution in /repo files (many sources have CRLF endings)."""
import sys
def sub(path, old, new, count=1):
    s = open(path, 'rb').read()
    crlf = b"\r\n" in s
    o, n = old.encode(), new.encode()
    if crlf:
        o = o.replace(b"\r\n", b"\n").replace(b"\n", b"\r\n")
        n = n.replace(b"\r\n", b"\n").replace(b"\n", b"\r\n")
    assert s.count(o) == count, (path, old[:60], s.count(o))
    s = s.replace(o, n)
    open(path, 'wb').write(s)
