#!/bin/sh
# usage: coqdbg.sh File.v LINE  -- replaces line LINE by "Show. admit." style probe and prints goals
f=$1; n=$2
sed "${n}s/.*/  Show. Abort./" "$f" > /tmp/Dbg.v
cd /verif/coq && timeout 120 coqc -Q theories LibCSD /tmp/Dbg.v 2>&1 | head -${3:-60}
