#!/usr/bin/env python3
"""Translator: synchronisation skeleton of parallel/Worker.hpp and of the parallel block
constructor (StringDictionaryHASHRPDACBlocks.cpp) -> coq/theories/gen/Pool_gen.v.

For every method the ORDERED list of synchronisation-relevant events is extracted from the
CURRENT source text (comments stripped): scope braces, lock acquisitions (which mutex, scoped or
explicit), unlocks, condition waits with their normalised predicate, notifies, accesses to the
shared containers / flags, control flow that decides which of those happen (while / if conditions,
break, continue), task execution, joins.  Anything else is ignored, so renaming a local or
reformatting keeps the skeleton, while moving an access out of a critical section, dropping a
notify, changing a wait predicate or a loop condition changes it.

The generated list is compared in Coq (Properties_poolskel.v, by reflexivity) with the
hand-written reference skeleton the LTS of PoolDefs.v models (PoolSkeleton.v)."""
import os, re, sys

REPO = os.environ.get("VERIF_REPO", "/repo")


def strip_comments(src):
    src = re.sub(r"/\*.*?\*/", " ", src, flags=re.S)
    src = re.sub(r"//[^\n]*", " ", src)
    return src


def norm(e):
    return re.sub(r"\s+", "", e)


def match_paren(s, i):
    """s[i] == '(' -> index of the matching ')'"""
    depth = 0
    for j in range(i, len(s)):
        if s[j] == "(":
            depth += 1
        elif s[j] == ")":
            depth -= 1
            if depth == 0:
                return j
    return len(s) - 1


def match_brace(s, i):
    depth = 0
    for j in range(i, len(s)):
        if s[j] == "{":
            depth += 1
        elif s[j] == "}":
            depth -= 1
            if depth == 0:
                return j
    return len(s) - 1


TOKENS = [
    ("lockscope", re.compile(r"std::lock_guard(?:<[^>]*>)?\s+\w+\s*\(\s*([\w.>-]+)\s*\)")),
    ("lock", re.compile(r"std::unique_lock(?:<[^>]*>)?\s+\w+\s*\(\s*([\w.>-]+)\s*\)")),
    ("unlock", re.compile(r"\b\w+\.unlock\s*\(\s*\)")),
    ("wait", re.compile(r"\b([\w.>-]+)\.wait\s*\(")),
    ("notify", re.compile(r"\b([\w.>-]+)\.notify_(all|one)\s*\(\s*\)")),
    ("while", re.compile(r"\bwhile\s*\(")),
    ("if", re.compile(r"\bif\s*\(")),
    ("else", re.compile(r"\belse\b")),
    ("for", re.compile(r"\bfor\s*\(")),
    ("break", re.compile(r"\bbreak\s*;")),
    ("continue", re.compile(r"\bcontinue\s*;")),
    ("return", re.compile(r"\breturn\b([^;]*);")),
    ("open", re.compile(r"\{")),
    ("close", re.compile(r"\}")),
    # shared state of the pool
    ("push", re.compile(r"\bq\.push_back\s*\(")),
    ("front", re.compile(r"\bq\.front\s*\(\s*\)")),
    ("popfront", re.compile(r"\bq\.pop_front\s*\(\s*\)")),
    ("writestop", re.compile(r"\b_stopped\s*=(?!=)")),
    ("call", re.compile(r"\b(queue\.add_task|queue\.pop|queue\.empty|stopped|set_stopped|w->stop|w->join|th->join|task|"
                        r"wpool\.add_task|wpool\.stop_all_workers|wpool\.wait_workers)\s*\(")),
    # shared state of the block constructor
    ("parts_push", re.compile(r"\bparts\.push_back\s*\(")),
    ("parts_store", re.compile(r"\bparts\s*\[\s*(\w+)\s*\]\s*=(?!=)")),
    ("parts_size", re.compile(r"\bparts\.size\s*\(\s*\)")),
    ("inc", re.compile(r"\b(\w+)\s*\+\+(?!\+)|\+\+\s*(\w+)")),
    ("new_part", re.compile(r"\bnew\s+StringDictionaryHASHRPDAC\s*\(|\bprocess_iterator_work\s*\(")),
]


def events(body):
    out = []
    i = 0
    n = len(body)
    while i < n:
        best = None
        for name, rx in TOKENS:
            m = rx.search(body, i)
            if m and (best is None or m.start() < best[1].start()):
                best = (name, m)
        if best is None:
            break
        name, m = best
        i = m.end()
        if name == "lockscope":
            out.append("LockScope " + norm(m.group(1)))
        elif name == "lock":
            out.append("Lock " + norm(m.group(1)))
        elif name == "unlock":
            out.append("Unlock")
        elif name == "notify":
            out.append("Notify%s %s" % (m.group(2).capitalize(), norm(m.group(1))))
        elif name in ("while", "if", "for"):
            j = match_paren(body, m.end() - 1)
            out.append("%s(%s)" % (name.capitalize(), norm(body[m.end():j])))
            i = j + 1
        elif name == "wait":
            j = match_paren(body, m.end() - 1)
            args = body[m.end():j]
            pred = re.search(r"return\s+(.*?);", args, re.S)
            out.append("Wait %s pred(%s)" % (norm(m.group(1)), norm(pred.group(1)) if pred else "none"))
            i = j + 1
        elif name == "return":
            e = norm(m.group(1))
            out.append("Return(%s)" % e if e else "Return")
        elif name == "call":
            out.append("Call " + norm(m.group(1)))
        elif name == "parts_store":
            out.append("PartsStore")
        elif name == "inc":
            out.append("Inc " + (m.group(1) or m.group(2)))
        else:
            out.append({"else": "Else", "break": "Break", "continue": "Continue", "open": "Open", "close": "Close",
                        "push": "QPush", "front": "QFront", "popfront": "QPopFront", "writestop": "WriteStopped",
                        "parts_push": "PartsPush", "parts_size": "PartsSize",
                        "new_part": "BuildBlock"}[name])
    return out


def collapse(ev):
    """drop empty scopes (an if-body without any event), so adding/removing braces is not a skeleton change"""
    changed = True
    while changed:
        changed = False
        out = []
        i = 0
        while i < len(ev):
            if i + 1 < len(ev) and ev[i] == "Open" and ev[i + 1] == "Close":
                i += 2
                changed = True
            else:
                out.append(ev[i])
                i += 1
        ev = out
    return ev


def normalise_ctor(ev):
    """The block constructor: conditions of its if/while statements concern the consumption of the input, not the
    synchronisation, and local names are free: keep only the shape.  An increment inside the task lambda (the region opened
    after `Call wpool.add_task`) is the completion counter; increments elsewhere are input bookkeeping (dropped).  The wait
    predicate is normalised to DONE==parts.size()."""
    out = []
    depth = 0
    task_depth = None
    pending_task = False
    for e in ev:
        if e == "Open":
            depth += 1
            if pending_task:
                task_depth = depth
                pending_task = False
        if e.startswith("If("):
            out.append("If")
        elif e.startswith("While("):
            out.append("While")
        elif e.startswith("For("):
            out.append("For")
        elif e.startswith("Inc "):
            if task_depth is not None:
                out.append("PartsDoneInc")
        elif e.startswith("Wait "):
            out.append(re.sub(r"pred\((\w+)==parts\.size\(\)\)", "pred(DONE==parts.size())", e))
        elif e == "Call wpool.add_task":
            out.append(e)
            pending_task = True
        else:
            out.append(e)
        if e == "Close":
            if task_depth is not None and depth == task_depth:
                task_depth = None
            depth -= 1
    # drop control-flow markers that guard nothing (their bodies were empty after filtering)
    res = []
    for i, e in enumerate(out):
        if e in ("If", "While", "For") and (i + 1 >= len(out) or out[i + 1] != "Open"):
            continue
        res.append(e)
    return res


def method_body(src, signature_rx):
    m = re.search(signature_rx, src)
    if not m:
        return None
    i = src.index("{", m.end() - 1) if src[m.end() - 1] != "{" else m.end() - 1
    j = match_brace(src, i)
    return src[i:j + 1]


WORKER_METHODS = [
    # (name in the skeleton, class, method name, disambiguating parameter text or None)
    ("WorkerQueue::add_task", "WorkerQueue", "add_task", None),
    ("WorkerQueue::empty", "WorkerQueue", "empty", None),
    ("WorkerQueue::pop", "WorkerQueue", "pop", None),
    ("Worker::stopped", "Worker", "stopped", None),
    ("Worker::set_stopped", "Worker", "set_stopped", None),
    ("Worker::stop", "Worker", "stop", None),
    ("Worker::join", "Worker", "join", None),
    ("Worker::run", "Worker", "run", None),
    ("WorkerPool::add_task", "WorkerPool", "add_task", None),
    ("WorkerPool::wait_workers", "WorkerPool", "wait_workers", None),
    ("WorkerPool::stop_all_workers", "WorkerPool", "stop_all_workers", None),
]


def class_body(src, cls):
    m = re.search(r"\bclass\s+%s\b[^;{]*\{" % cls, src)
    if not m:
        return None
    i = m.end() - 1
    return src[i:match_brace(src, i) + 1]


def method_in_class(src, cls, name):
    """body of method `name` of class `cls`, whatever its parameter list / return type / qualifiers look like"""
    body = class_body(src, cls)
    if body is None:
        return None
    for m in re.finditer(r"\b%s\s*\(" % re.escape(name), body):
        # a definition: the parameter list is followed (after optional qualifiers) by '{'; a call is followed by ';' or an operator
        j = match_paren(body, m.end() - 1)
        k = j + 1
        mm = re.match(r"\s*(const|noexcept|override|final|\s)*\{", body[k:])
        # must not be preceded by '.', '->' (a call on an object) or 'return'
        before = body[max(0, m.start() - 12):m.start()]
        if mm and not re.search(r"(\.|->|return\s)$", before.rstrip() + (" " if before.endswith(" ") else "")):
            i = k + mm.end() - 1
            return body[i:match_brace(body, i) + 1]
    return None


def translate():
    res = []
    problems = []
    w = strip_comments(open(os.path.join(REPO, "parallel", "Worker.hpp"), "rb").read().decode(errors="replace").replace("\r", ""))
    for name, cls, meth, _ in WORKER_METHODS:
        b = method_in_class(w, cls, meth)
        if b is None:
            problems.append(name)
            res.append((name, ["MISSING"]))
        else:
            res.append((name, collapse([e for e in events(b) if not e.startswith("Inc ")])))
    # mutexes / condition variables declared in Worker.hpp (a new one would be a new synchronisation object)
    decl = sorted(set(re.findall(r"std::(?:mutex|condition_variable)\s*&?\s*(\w+)\s*;", w)))
    res.append(("Worker.hpp::sync_objects", decl))
    b = strip_comments(open(os.path.join(REPO, "StringDictionaryHASHRPDACBlocks.cpp"), "rb").read().decode(errors="replace").replace("\r", ""))
    m = re.search(r"StringDictionaryHASHRPDACBlocks::StringDictionaryHASHRPDACBlocks\s*\(\s*IteratorDictStringPlain\s*\*\s*it\s*,\s*unsigned long\s*,\s*int\s+overhead\s*,"
                  r"\s*unsigned long\s+cut_size\s*,\s*int\s+thread_count\s*\)", b)
    if not m:
        problems.append("Blocks::ctor")
        res.append(("Blocks::constructor", ["MISSING"]))
    else:
        i = b.index("{", m.end())
        body = b[i:match_brace(b, i) + 1]
        ev = normalise_ctor(events(body))
        while True:
            ev2 = collapse(ev)
            ev2 = [e for i, e in enumerate(ev2) if not (e in ("If", "While", "For") and (i + 1 >= len(ev2) or ev2[i + 1] != "Open"))]
            if ev2 == ev:
                break
            ev = ev2
        res.append(("Blocks::constructor", ev))
    return res, problems


def coq_string(s):
    return '"' + s.replace('"', "'") + '"'


def emit(res, path):
    with open(path, "w") as f:
        f.write("(* GENERATED by tools/translate_pool.py from the current parallel/Worker.hpp and\n"
                "   StringDictionaryHASHRPDACBlocks.cpp - do not edit, not committed. *)\n")
        f.write("From Coq Require Import List String.\nImport ListNotations.\nLocal Open Scope string_scope.\n\n")
        def dump(name, items):
            f.write("Definition %s : list (string * list string) :=\n  [" % name)
            f.write(";\n   ".join("(%s,\n      [%s])" % (coq_string(n), "; ".join(coq_string(e) for e in ev)) for n, ev in items))
            f.write("].\n\n")
        dump("worker_skeleton_gen", [x for x in res if not x[0].startswith("Blocks::") and not x[0].endswith("sync_objects")])
        dump("blocks_skeleton_gen", [x for x in res if x[0].startswith("Blocks::")])
        dump("sync_objects_gen", [x for x in res if x[0].endswith("sync_objects")])


if __name__ == "__main__":
    out = sys.argv[1] if len(sys.argv) > 1 else "/verif/coq/theories/gen/Pool_gen.v"
    res, problems = translate()
    os.makedirs(os.path.dirname(out), exist_ok=True)
    emit(res, out)
    if "--print" in sys.argv:
        for n, ev in res:
            print(n)
            for e in ev:
                print("    ", e)
    print("translate_pool: %d methods, problems: %s -> %s" % (len(res), problems, out))
    sys.exit(1 if problems else 0)
