#!/usr/bin/env python3
"""Translator: synchronisation skeleton of parallel/Worker.hpp and of the parallel block
constructor (StringDictionaryHASHRPDACBlocks.cpp) -> coq/theories/gen/Pool_gen.v.

For every method the ORDERED list of synchronisation-relevant events is extracted from the
CURRENT source text (comments stripped): scope braces, lock acquisitions (which mutex, scoped or
explicit), unlocks, condition waits with their normalised predicate, notifies, accesses to the
shared containers / flags, control flow that decides which of those happen (while / if conditions,
break, continue), task execution, joins.  Anything else is ignored, so renaming a local or
reformatting keeps the skeleton, while moving an access out of a critical section, dropping a
notify, changing a wait predicate or a loop condition changes it.

The generated list is compared in Coq (Properties_poolskel.v, by reflexivity) with the
hand-written reference skeleton the LTS of PoolDefs.v models (PoolSkeleton.v)."""
import os, re, sys

REPO = os.environ.get("VERIF_REPO", "/repo")


def strip_comments(src):
    src = re.sub(r"/\*.*?\*/", " ", src, flags=re.S)
    src = re.sub(r"//[^\n]*", " ", src)
    return src


def norm(e):
    return re.sub(r"\s+", "", e)


def match_paren(s, i):
    """s[i] == '(' -> index of the matching ')'"""
    depth = 0
    for j in range(i, len(s)):
        if s[j] == "(":
            depth += 1
        elif s[j] == ")":
            depth -= 1
            if depth == 0:
                return j
    return len(s) - 1


def match_brace(s, i):
    depth = 0
    for j in range(i, len(s)):
        if s[j] == "{":
            depth += 1
        elif s[j] == "}":
            depth -= 1
            if depth == 0:
                return j
    return len(s) - 1


TOKENS = [
    ("lockscope", re.compile(r"std::lock_guard(?:<[^>]*>)?\s+\w+\s*\(\s*([\w.>-]+)\s*\)")),
    ("lock", re.compile(r"std::unique_lock(?:<[^>]*>)?\s+\w+\s*\(\s*([\w.>-]+)\s*\)")),
    ("unlock", re.compile(r"\b\w+\.unlock\s*\(\s*\)")),
    ("wait", re.compile(r"\b([\w.>-]+)\.wait\s*\(")),
    ("notify", re.compile(r"\b([\w.>-]+)\.notify_(all|one)\s*\(\s*\)")),
    ("while", re.compile(r"\bwhile\s*\(")),
    ("if", re.compile(r"\bif\s*\(")),
    ("else", re.compile(r"\belse\b")),
    ("for", re.compile(r"\bfor\s*\(")),
    ("break", re.compile(r"\bbreak\s*;")),
    ("continue", re.compile(r"\bcontinue\s*;")),
    ("return", re.compile(r"\breturn\b([^;]*);")),
    ("open", re.compile(r"\{")),
    ("close", re.compile(r"\}")),
    # shared state of the pool
    ("push", re.compile(r"\bq\.push_back\s*\(")),
    ("front", re.compile(r"\bq\.front\s*\(\s*\)")),
    ("popfront", re.compile(r"\bq\.pop_front\s*\(\s*\)")),
    ("writestop", re.compile(r"\b_stopped\s*=(?!=)")),
    ("call", re.compile(r"\b(queue\.add_task|queue\.pop|queue\.empty|stopped|set_stopped|w->stop|w->join|th->join|task|"
                        r"wpool\.add_task|wpool\.stop_all_workers|wpool\.wait_workers)\s*\(")),
    # shared state of the block constructor
    ("parts_push", re.compile(r"\bparts\.push_back\s*\(")),
    ("parts_store", re.compile(r"\bparts\s*\[\s*(\w+)\s*\]\s*=(?!=)")),
    ("parts_size", re.compile(r"\bparts\.size\s*\(\s*\)")),
    ("done_inc", re.compile(r"\bparts_done\s*\+\+|\+\+\s*parts_done")),
    ("new_part", re.compile(r"\bnew\s+StringDictionaryHASHRPDAC\s*\(")),
]


def events(body):
    out = []
    i = 0
    n = len(body)
    while i < n:
        best = None
        for name, rx in TOKENS:
            m = rx.search(body, i)
            if m and (best is None or m.start() < best[1].start()):
                best = (name, m)
        if best is None:
            break
        name, m = best
        i = m.end()
        if name == "lockscope":
            out.append("LockScope " + norm(m.group(1)))
        elif name == "lock":
            out.append("Lock " + norm(m.group(1)))
        elif name == "unlock":
            out.append("Unlock")
        elif name == "notify":
            out.append("Notify%s %s" % (m.group(2).capitalize(), norm(m.group(1))))
        elif name in ("while", "if", "for"):
            j = match_paren(body, m.end() - 1)
            out.append("%s(%s)" % (name.capitalize(), norm(body[m.end():j])))
            i = j + 1
        elif name == "wait":
            j = match_paren(body, m.end() - 1)
            args = body[m.end():j]
            pred = re.search(r"return\s+(.*?);", args, re.S)
            out.append("Wait %s pred(%s)" % (norm(m.group(1)), norm(pred.group(1)) if pred else "none"))
            i = j + 1
        elif name == "return":
            e = norm(m.group(1))
            out.append("Return(%s)" % e if e else "Return")
        elif name == "call":
            out.append("Call " + norm(m.group(1)))
        elif name == "parts_store":
            out.append("PartsStore[%s]" % m.group(1))
        else:
            out.append({"else": "Else", "break": "Break", "continue": "Continue", "open": "Open", "close": "Close",
                        "push": "QPush", "front": "QFront", "popfront": "QPopFront", "writestop": "WriteStopped",
                        "parts_push": "PartsPush", "parts_size": "PartsSize", "done_inc": "PartsDoneInc",
                        "new_part": "BuildBlock"}[name])
    return out


def collapse(ev):
    """drop empty scopes (an if-body without any event), so adding/removing braces is not a skeleton change"""
    changed = True
    while changed:
        changed = False
        out = []
        i = 0
        while i < len(ev):
            if i + 1 < len(ev) and ev[i] == "Open" and ev[i + 1] == "Close":
                i += 2
                changed = True
            else:
                out.append(ev[i])
                i += 1
        ev = out
    return ev


def method_body(src, signature_rx):
    m = re.search(signature_rx, src)
    if not m:
        return None
    i = src.index("{", m.end() - 1) if src[m.end() - 1] != "{" else m.end() - 1
    j = match_brace(src, i)
    return src[i:j + 1]


WORKER_METHODS = [
    ("WorkerQueue::add_task", r"void\s+add_task\s*\(\s*std::function<void\(\)>\s*&\s*fun\s*\)\s*\{"),
    ("WorkerQueue::empty", r"bool\s+empty\s*\(\s*\)\s*\{"),
    ("WorkerQueue::pop", r"std::function<void\(\)>\s+pop\s*\(\s*\)\s*\{"),
    ("Worker::stopped", r"bool\s+stopped\s*\(\s*\)\s*\{"),
    ("Worker::set_stopped", r"void\s+set_stopped\s*\(\s*bool\s+\w+\s*\)\s*\{"),
    ("Worker::stop", r"void\s+stop\s*\(\s*\)\s*\{"),
    ("Worker::join", r"void\s+join\s*\(\s*\)\s*\{"),
    ("Worker::run", r"void\s+run\s*\(\s*\)\s*\{"),
    ("WorkerPool::add_task", r"void\s+add_task\s*\(\s*std::function<void\(\)>\s*&&\s*task\s*\)\s*\{"),
    ("WorkerPool::wait_workers", r"void\s+wait_workers\s*\(\s*\)\s*\{"),
    ("WorkerPool::stop_all_workers", r"void\s+stop_all_workers\s*\(\s*\)\s*\{"),
]


def translate():
    res = []
    problems = []
    w = strip_comments(open(os.path.join(REPO, "parallel", "Worker.hpp"), "rb").read().decode(errors="replace").replace("\r", ""))
    for name, rx in WORKER_METHODS:
        b = method_body(w, rx)
        if b is None:
            problems.append(name)
            res.append((name, ["MISSING"]))
        else:
            res.append((name, collapse(events(b))))
    # mutexes / condition variables declared in Worker.hpp (a new one would be a new synchronisation object)
    decl = sorted(set(re.findall(r"std::(?:mutex|condition_variable)\s*&?\s*(\w+)\s*;", w)))
    res.append(("Worker.hpp::sync_objects", decl))
    b = strip_comments(open(os.path.join(REPO, "StringDictionaryHASHRPDACBlocks.cpp"), "rb").read().decode(errors="replace").replace("\r", ""))
    m = re.search(r"StringDictionaryHASHRPDACBlocks::StringDictionaryHASHRPDACBlocks\s*\(\s*IteratorDictStringPlain\s*\*\s*it\s*,\s*unsigned long\s*,\s*int\s+overhead\s*,"
                  r"\s*unsigned long\s+cut_size\s*,\s*int\s+thread_count\s*\)", b)
    if not m:
        problems.append("Blocks::ctor")
        res.append(("Blocks::constructor", ["MISSING"]))
    else:
        i = b.index("{", m.end())
        body = b[i:match_brace(b, i) + 1]
        ev = [e for e in events(body) if not e.startswith("If(next_string_length") and not e.startswith("If(sample_next")]
        res.append(("Blocks::constructor", collapse(ev)))
    return res, problems


def coq_string(s):
    return '"' + s.replace('"', "'") + '"'


def emit(res, path):
    with open(path, "w") as f:
        f.write("(* GENERATED by tools/translate_pool.py from the current parallel/Worker.hpp and\n"
                "   StringDictionaryHASHRPDACBlocks.cpp - do not edit, not committed. *)\n")
        f.write("From Coq Require Import List String.\nImport ListNotations.\nLocal Open Scope string_scope.\n\n")
        def dump(name, items):
            f.write("Definition %s : list (string * list string) :=\n  [" % name)
            f.write(";\n   ".join("(%s,\n      [%s])" % (coq_string(n), "; ".join(coq_string(e) for e in ev)) for n, ev in items))
            f.write("].\n\n")
        dump("worker_skeleton_gen", [x for x in res if not x[0].startswith("Blocks::") and not x[0].endswith("sync_objects")])
        dump("blocks_skeleton_gen", [x for x in res if x[0].startswith("Blocks::")])
        dump("sync_objects_gen", [x for x in res if x[0].endswith("sync_objects")])


if __name__ == "__main__":
    out = sys.argv[1] if len(sys.argv) > 1 else "/verif/coq/theories/gen/Pool_gen.v"
    res, problems = translate()
    os.makedirs(os.path.dirname(out), exist_ok=True)
    emit(res, out)
    if "--print" in sys.argv:
        for n, ev in res:
            print(n)
            for e in ev:
                print("    ", e)
    print("translate_pool: %d methods, problems: %s -> %s" % (len(res), problems, out))
    sys.exit(1 if problems else 0)
